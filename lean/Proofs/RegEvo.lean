import Model.RegEvo
import Proofs.Membership

/-! # Lemmas about `Model/RegEvo.lean` (used by `C02_regevo_member`) -/

namespace DH.RegEvo

open DH.Mem

theorem dimsAll_set : ∀ {hps : List Hp} {x : List Val} {i : Nat} {h : Hp} {v : Val},
    dimsAll hps x = true → hps[i]? = some h → memDim h.dim v = true → dimsAll hps (x.set i v) = true
  | [], _, _, _, _, _, hi, _ => by simp at hi
  | _ :: _, [], _, _, _, hd, _, _ => by simp [dimsAll] at hd
  | h0 :: hs, v0 :: vs, 0, h, v, hd, hi, hv => by
    simp only [List.getElem?_cons_zero, Option.some.injEq] at hi
    subst hi
    simp only [dimsAll, Bool.and_eq_true] at hd
    simp [dimsAll, hv, hd.2]
  | h0 :: hs, v0 :: vs, i + 1, h, v, hd, hi, hv => by
    simp only [List.getElem?_cons_succ] at hi
    simp only [dimsAll, Bool.and_eq_true] at hd
    simp [dimsAll, hd.1, dimsAll_set hd.2 hi hv]

theorem samplesOf_mem {pop : List (Config × Rat)} : ∀ {idxs : List Nat} {s : List (Config × Rat)},
    samplesOf pop idxs = some s → ∀ p ∈ s, p ∈ pop
  | [], s, h => by simp [samplesOf] at h; subst h; simp
  | i :: is, s, h => by
    simp only [samplesOf] at h
    split at h
    · rename_i a r ha hr
      cases h
      intro p hp
      rcases List.mem_cons.1 hp with rfl | hp
      · exact List.mem_of_getElem? ha
      · exact samplesOf_mem hr p hp
    · cases h

theorem best_mem : ∀ {l : List (Config × Rat)} {b : Config × Rat}, best l = some b → b ∈ l
  | [], _, h => by simp [best] at h
  | a :: rest, b, h => by
    simp only [best] at h
    split at h
    · cases h; exact List.mem_cons_self
    · rename_i c hc
      split at h
      · cases h; exact List.mem_cons_of_mem _ (best_mem hc)
      · cases h; exact List.mem_cons_self

/-- contract of one mutation attempt: `hp.rvs()` draws a member of the hyperparameter's dimension -/
def AttemptOK (d : Decl) (a : Attempt) : Prop :=
  ∀ i h, hpIndex d a.name = some i → d.hps[i]? = some h → memDim h.dim a.value = true

theorem mutate_mem {ne : NumEnv} {d : Decl} {parent : Config} {active : List Bool} (hw : d.wf = true)
    (hp : dimsAll d.hps parent = true) : ∀ (k : Nat) {atts : List Attempt} {y : Config},
    (∀ a ∈ atts, AttemptOK d a) → mutate ne d parent active k atts = .ok (some y) →
    memSpace d y = true
  | 0, _, _, _, h => by simp [mutate] at h
  | k + 1, [], _, _, h => by simp [mutate] at h
  | k + 1, a :: rest, y, ha, h => by
    simp only [mutate] at h
    split at h
    · cases h
    · rename_i i hi
      split at h
      · cases h
      · split at h
        · rename_i z hz
          cases h
          have hlt : i < d.hps.length := by
            have := List.findIdx?_eq_some_iff_findIdx_eq.1 hi
            exact this.1
          have hget : d.hps[i]? = some d.hps[i] := List.getElem?_eq_getElem hlt
          exact deactivateCS_mem hw
            (dimsAll_set hp hget (ha a List.mem_cons_self i _ hi hget)) hz
        · exact mutate_mem hw hp k (fun a' h' => ha a' (List.mem_cons_of_mem _ h')) h
        · cases h

/-- contract of a raw ConfigSpace sample (`C02_fill_inactive`'s): w.r.t. its completion `x`, a
value is present exactly for the hyperparameters active in `x`, present values are members of their
dimensions, and no forbidden clause holds -/
def SampleOK (d : Decl) (s : Sample) : Prop :=
  ∀ x, fillInactive d.hps s = some x →
    sampleOK d.hps s (activeList d x) = true ∧ d.forbs.any (forbHolds d.hps x (activeList d x)) = false

/-- the completion of a ConfigSpace sample is a member: a value for every hyperparameter, the
canonical one for the inactive hyperparameters -/
theorem complete_mem {d : Decl} {s : Sample} {y : Config} (hs : SampleOK d s)
    (h : complete d s = .ok y) : fillInactive d.hps s = some y ∧ memSpace d y = true := by
  unfold complete at h
  split at h
  · rename_i x hx
    cases h
    refine ⟨hx, ?_⟩
    obtain ⟨h1, h2⟩ := hs _ hx
    unfold memSpace
    simp only [Bool.and_eq_true, Bool.not_eq_true']
    exact ⟨fillInactive_memAll hx h1, h2⟩
  · cases h

theorem fillInactive_length : ∀ {hps : List Hp} {s : List (Option Val)} {x : Config},
    fillInactive hps s = some x → x.length = hps.length ∧ s.length = hps.length
  | [], [], x, h => by simp [fillInactive] at h; subst h; simp
  | h :: hs, v :: vs, x, hx => by
    simp only [fillInactive] at hx
    split at hx
    · rename_i w ws _ hws
      cases hx
      have := fillInactive_length hws
      simp [this.1, this.2]
    · cases hx
  | [], _ :: _, _, h => by simp [fillInactive] at h
  | _ :: _, [], _, h => by simp [fillInactive] at h

/-- on a well-formed declaration (every dimension has a canonical value) a sample with one entry
per hyperparameter can always be completed -/
theorem fillInactive_total : ∀ {hps : List Hp} {s : List (Option Val)},
    (∀ h ∈ hps, h.wf = true) → s.length = hps.length → ∃ x, fillInactive hps s = some x
  | [], [], _, _ => ⟨[], rfl⟩
  | h :: hs, v :: vs, hw, hl => by
    have hl' : vs.length = hs.length := by simpa using hl
    obtain ⟨xs, hxs⟩ := fillInactive_total (fun h' hh => hw h' (List.mem_cons_of_mem _ hh)) hl'
    have hwf := hw h List.mem_cons_self
    cases v with
    | some w => exact ⟨w :: xs, by simp only [fillInactive, hxs]⟩
    | none =>
      have hc : ∃ w, canon h.dim = some w := by
        simp only [Hp.wf, Bool.and_eq_true] at hwf
        cases hd : h.dim with
        | int lo hi p => exact ⟨_, rfl⟩
        | real lo hi p => exact ⟨_, rfl⟩
        | cat cs =>
          have h1 := hwf.1
          rw [hd] at h1
          cases cs with
          | nil => simp [Dim.wf] at h1
          | cons c cs => exact ⟨c, rfl⟩
      obtain ⟨w, hw'⟩ := hc
      exact ⟨w :: xs, by simp only [fillInactive, hw', hxs]⟩
  | [], _ :: _, _, hl => by simp at hl
  | _ :: _, [], _, hl => by simp at hl

theorem completeAll_mem {d : Decl} : ∀ {ss : List Sample} {X : List Config},
    (∀ s ∈ ss, SampleOK d s) → completeAll d ss = .ok X → ∀ x ∈ X, memSpace d x = true
  | [], X, _, h => by simp [completeAll] at h; subst h; simp
  | s :: ss, X, hs, h => by
    simp only [completeAll] at h
    split at h
    · rename_i x xs hx hxs
      cases h
      intro y hy
      rcases List.mem_cons.1 hy with rfl | hy
      · exact (complete_mem (hs s List.mem_cons_self) hx).2
      · exact completeAll_mem (fun s' h' => hs s' (List.mem_cons_of_mem _ h')) hxs y hy
    · cases h
    · cases h

theorem parentOf_mem {st : St} {idxs : List Nat} {parent : Config}
    (h : parentOf st idxs = some parent) : ∃ y, (parent, y) ∈ st.pop := by
  unfold parentOf at h
  split at h
  · cases h
  · rename_i samples hs
    cases hb : best samples with
    | none => rw [hb] at h; cases h
    | some b =>
      rw [hb] at h
      simp only [Option.map_some, Option.some.injEq] at h
      subst h
      exact ⟨b.2, samplesOf_mem hs _ (best_mem hb)⟩

/-- contract of one child's environment: the fallback sample honours ConfigSpace's contract,
`hp.rvs()` draws members -/
def ChildOK (d : Decl) (e : ChildEnv) : Prop :=
  SampleOK d e.fresh ∧ ∀ a ∈ e.attempts, AttemptOK d a

theorem child_mem {ne : NumEnv} {d : Decl} {st : St} {e : ChildEnv} {y : Config} (hw : d.wf = true)
    (hpop : ∀ p ∈ st.pop, dimsAll d.hps p.1 = true) (he : ChildOK d e)
    (h : child ne d st e = .ok y) : memSpace d y = true := by
  unfold child at h
  split at h
  · cases h
  · rename_i parent hb
    obtain ⟨score, hmem⟩ := parentOf_mem hb
    have hp : dimsAll d.hps parent = true := hpop _ hmem
    split at h
    · cases h
    · rename_i p0 hp0
      split at h
      · cases h
      · rename_i z hz
        cases h
        exact mutate_mem hw hp 100 he.2 hz
      · exact (complete_mem he.1 h).2

/-- **the fallback branch.**  When none of the 100 mutation trials of a child yields an allowed
configuration, the child is the *completion* of the fresh ConfigSpace sample — the call succeeds,
the child has a value for every hyperparameter and is a member of the declared space -/
theorem child_fallback {ne : NumEnv} {d : Decl} {st : St} {e : ChildEnv} {parent p0 : Config}
    (hw : d.wf = true) (hpar : parentOf st e.idxs = some parent)
    (hp0 : deactivateCS ne d parent = .ok p0)
    (hexh : mutate ne d parent (activeList d p0) 100 e.attempts = .ok none)
    (hlen : e.fresh.length = d.hps.length) (hs : SampleOK d e.fresh) :
    ∃ y, child ne d st e = .ok y ∧ fillInactive d.hps e.fresh = some y ∧
      y.length = d.hps.length ∧ memSpace d y = true := by
  have hw' : ∀ h ∈ d.hps, h.wf = true := by
    simpa [Decl.wf, List.all_eq_true] using hw
  obtain ⟨y, hy⟩ := fillInactive_total hw' hlen
  have hc : complete d e.fresh = .ok y := by simp [complete, hy]
  refine ⟨y, ?_, hy, (fillInactive_length hy).1, (complete_mem hs hc).2⟩
  simp only [child, hpar, hp0, hexh, hc]

theorem children_mem {ne : NumEnv} {d : Decl} {st : St} (hw : d.wf = true)
    (hpop : ∀ p ∈ st.pop, dimsAll d.hps p.1 = true) : ∀ {envs : List ChildEnv} {X : List Config},
    (∀ e ∈ envs, ChildOK d e) → children ne d st envs = .ok X → ∀ x ∈ X, memSpace d x = true
  | [], X, _, h => by simp [children] at h; subst h; simp
  | e :: es, X, he, h => by
    simp only [children] at h
    split at h
    · rename_i x xs hx hxs
      cases h
      intro y hy
      rcases List.mem_cons.1 hy with rfl | hy
      · exact child_mem hw hpop (he e List.mem_cons_self) hx
      · exact children_mem hw hpop (fun e' h' => he e' (List.mem_cons_of_mem _ h')) hxs y hy
    · cases h
    · cases h

theorem ask_mem {ne : NumEnv} {d : Decl} {st : St} {n : Nat} {fresh : List Sample}
    {envs : List ChildEnv} {X : List Config} (hw : d.wf = true)
    (hpop : ∀ p ∈ st.pop, dimsAll d.hps p.1 = true)
    (hf : ∀ s ∈ fresh, SampleOK d s) (he : ∀ e ∈ envs, ChildOK d e)
    (h : ask ne d st n fresh envs = .ok X) : ∀ x ∈ X, memSpace d x = true := by
  unfold ask at h
  split at h
  · split at h
    · exact completeAll_mem hf h
    · cases h
  · split at h
    · exact children_mem hw hpop he h
    · cases h

theorem push_mem {k : Nat} {pop : List (Config × Rat)} {e p : Config × Rat}
    (h : p ∈ push k pop e) : p ∈ pop ∨ p = e := by
  unfold push at h
  have := List.mem_of_mem_drop h
  rcases List.mem_append.1 this with h1 | h1
  · exact Or.inl h1
  · simp at h1; exact Or.inr h1

theorem tell_pop {d : Decl} {st : St} (hpop : ∀ p ∈ st.pop, dimsAll d.hps p.1 = true) :
    ∀ (results : List (Config × Option Rat)), (∀ r ∈ results, dimsAll d.hps r.1 = true) →
    ∀ p ∈ (tell st results).pop, dimsAll d.hps p.1 = true := by
  intro results hr
  unfold tell
  simp only
  suffices H : ∀ (rs : List (Config × Option Rat)) (pop : List (Config × Rat)),
      (∀ p ∈ pop, dimsAll d.hps p.1 = true) → (∀ r ∈ rs, dimsAll d.hps r.1 = true) →
      ∀ p ∈ rs.foldl (fun pop r => match r.2 with
          | some y => push st.popSize pop (r.1, y)
          | none => pop) pop, dimsAll d.hps p.1 = true from H results st.pop hpop hr
  intro rs
  induction rs with
  | nil => intro pop hp _; simpa using hp
  | cons r rs ih =>
    intro pop hp hrs
    simp only [List.foldl_cons]
    apply ih
    · intro p hpm
      cases hr2 : r.2 with
      | none => simp only [hr2] at hpm; exact hp p hpm
      | some y =>
        simp only [hr2] at hpm
        rcases push_mem hpm with h1 | h1
        · exact hp p h1
        · subst h1; exact hrs r List.mem_cons_self
    · exact fun r' h' => hrs r' (List.mem_cons_of_mem _ h')

/-- environment contract of one call -/
def OpOK (d : Decl) : Op → Prop
  | .ask _ fresh envs => (∀ s ∈ fresh, SampleOK d s) ∧ ∀ e ∈ envs, ChildOK d e
  | .tell results => ∀ r ∈ results, dimsAll d.hps r.1 = true

theorem run_mem {ne : NumEnv} {d : Decl} (hw : d.wf = true) : ∀ {ops : List Op} {st st' : St}
    {Z : List Config}, (∀ p ∈ st.pop, dimsAll d.hps p.1 = true) → (∀ o ∈ ops, OpOK d o) →
    run ne d st ops = .ok (st', Z) → ∀ x ∈ Z, memSpace d x = true
  | [], st, st', Z, _, _, h => by simp [run] at h; rw [h.2]; simp
  | .ask n fresh envs :: rest, st, st', Z, hpop, ho, h => by
    simp only [run] at h
    split at h
    · cases h
    · rename_i X hX
      split at h
      · cases h
      · rename_i st2 Y hY
        cases h
        have h0 := ho _ List.mem_cons_self
        intro x hx
        rcases List.mem_append.1 hx with h1 | h1
        · exact ask_mem hw hpop h0.1 h0.2 hX x h1
        · exact run_mem hw hpop (fun o h' => ho o (List.mem_cons_of_mem _ h')) hY x h1
  | .tell results :: rest, st, st', Z, hpop, ho, h => by
    simp only [run] at h
    exact run_mem hw (tell_pop hpop results (ho _ List.mem_cons_self))
      (fun o h' => ho o (List.mem_cons_of_mem _ h')) h

end DH.RegEvo
