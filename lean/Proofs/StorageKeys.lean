import Proofs.Storage

/-! Helper lemmas for C13: the rendering of typed keys (`Key.render`) is injective. -/

namespace DH.Storage

theorem repr_digit (n : Nat) : ∀ c ∈ (Nat.repr n).toList, c.isDigit = true := by
  intro c h
  rw [Nat.toList_repr] at h
  exact Nat.isDigit_of_mem_toDigits (by decide) (by decide) h

/-- the text before the first separator determines the split -/
theorem first_sep_inj {α : Type} {a : α} : ∀ (p1 p2 q1 q2 : List α), a ∉ p1 → a ∉ p2 →
    p1 ++ a :: q1 = p2 ++ a :: q2 → p1 = p2 ∧ q1 = q2 := by
  intro p1
  induction p1 with
  | nil =>
    intro p2 q1 q2 _ hp2 e
    cases p2 with
    | nil => simp at e; exact ⟨rfl, e⟩
    | cons x xs =>
      simp at e
      exact absurd (e.1 ▸ List.mem_cons_self) hp2
  | cons y ys ih =>
    intro p2 q1 q2 hp1 hp2 e
    cases p2 with
    | nil =>
      simp at e
      exact absurd (e.1 ▸ List.mem_cons_self) hp1
    | cons x xs =>
      simp only [List.cons_append, List.cons.injEq] at e
      obtain ⟨e1, e2⟩ := e
      have := ih xs q1 q2 (fun m => hp1 (List.mem_cons_of_mem _ m)) (fun m => hp2 (List.mem_cons_of_mem _ m)) e2
      exact ⟨by rw [e1, this.1], this.2⟩

theorem repr_no (c : Char) (hc : c.isDigit = false) (n : Nat) : c ∉ (Nat.repr n).toList := by
  intro h
  have := repr_digit n c h
  rw [hc] at this
  exact absurd this (by decide)

theorem repr_toList_inj {a b : Nat} (h : (Nat.repr a).toList = (Nat.repr b).toList) : a = b :=
  repr_inj (String.toList_inj.1 h)

theorem intChars_inj {a b : Int} (h : intChars a = intChars b) : a = b := by
  unfold intChars at h
  by_cases ha : a < 0 <;> by_cases hb : b < 0
  · simp only [ha, hb, if_true, List.cons.injEq, true_and] at h
    have := repr_toList_inj h
    omega
  · simp only [ha, hb, if_true, if_false] at h
    exact absurd (h ▸ List.mem_cons_self) (repr_no '-' (by decide) _)
  · simp only [ha, hb, if_true, if_false] at h
    exact absurd (h ▸ List.mem_cons_self) (repr_no '-' (by decide) _)
  · simp only [ha, hb, if_false] at h
    have := repr_toList_inj h
    omega

theorem intChars_no_slash (i : Int) : '/' ∉ intChars i := by
  unfold intChars
  split
  · intro h
    rcases List.mem_cons.1 h with h | h
    · exact absurd h (by decide)
    · exact repr_no '/' (by decide) _ h
  · exact repr_no '/' (by decide) _

/-- the text of a str key: either it does not start with '#', or it starts with "#s#" -/
theorem strChars_cases (s : String) :
    (KAtom.str s).chars = s.toList ∧ (∀ r, s.toList ≠ '#' :: r) ∨
    ∃ r, s.toList = '#' :: r ∧ (KAtom.str s).chars = '#' :: 's' :: '#' :: r := by
  simp only [KAtom.chars]
  rcases s.toList with _ | ⟨c, r⟩
  · left; simp [strChars]
  · by_cases hc : c = '#'
    · subst hc
      right; exact ⟨r, rfl, rfl⟩
    · left
      refine ⟨?_, fun r' h => hc (by injection h)⟩
      unfold strChars
      split
      · rename_i r' heq
        injection heq with h1 _
        exact absurd h1 hc
      · rfl

theorem KAtom.chars_inj {a b : KAtom} (h : a.chars = b.chars) : a = b := by
  cases a with
  | str s =>
    cases b with
    | str t =>
      rcases strChars_cases s with ⟨e1, n1⟩ | ⟨r1, s1, e1⟩ <;> rcases strChars_cases t with ⟨e2, n2⟩ | ⟨r2, s2, e2⟩
      · rw [e1, e2] at h
        exact congrArg KAtom.str (String.toList_inj.1 h)
      · rw [e1, e2] at h
        exact absurd h (n1 _)
      · rw [e1, e2] at h
        exact absurd h.symm (n2 _)
      · rw [e1, e2] at h
        injection h with _ h
        injection h with _ h
        injection h with _ h
        subst h
        exact congrArg KAtom.str (String.toList_inj.1 (s1.trans s2.symm))
    | none =>
      rcases strChars_cases s with ⟨e1, n1⟩ | ⟨r1, s1, e1⟩
      · rw [e1] at h
        exact absurd h (n1 _)
      · rw [e1] at h
        simp [KAtom.chars] at h
    | num q =>
      rcases strChars_cases s with ⟨e1, n1⟩ | ⟨r1, s1, e1⟩
      · rw [e1] at h
        exact absurd h (n1 _)
      · rw [e1] at h
        simp [KAtom.chars] at h
  | none =>
    cases b with
    | str t =>
      rcases strChars_cases t with ⟨e2, n2⟩ | ⟨r2, s2, e2⟩
      · rw [e2] at h
        exact absurd h.symm (n2 _)
      · rw [e2] at h
        simp [KAtom.chars] at h
    | none => rfl
    | num q => simp [KAtom.chars] at h
  | num p =>
    cases b with
    | str t =>
      rcases strChars_cases t with ⟨e2, n2⟩ | ⟨r2, s2, e2⟩
      · rw [e2] at h
        exact absurd h.symm (n2 _)
      · rw [e2] at h
        simp [KAtom.chars] at h
    | none => simp [KAtom.chars] at h
    | num q =>
      simp only [KAtom.chars, List.cons.injEq, true_and] at h
      obtain ⟨h1, h2⟩ := append_sep_inj (repr_no '/' (by decide) _) (repr_no '/' (by decide) _) h
      have hn := intChars_inj h1
      have hd := repr_toList_inj h2
      exact congrArg KAtom.num (Rat.ext hn hd)

theorem chunks_inj : ∀ {l m : List KAtom}, chunks l = chunks m → l = m
  | [], [], _ => rfl
  | [], b :: m, h => by
    simp only [chunks, chunk, List.append_assoc] at h
    have : (':' : Char) ∈ ([] : List Char) := by
      rw [h]; simp
    simp at this
  | a :: l, [], h => by
    simp only [chunks, chunk, List.append_assoc] at h
    have : (':' : Char) ∈ ([] : List Char) := by
      rw [← h]; simp
    simp at this
  | a :: l, b :: m, h => by
    simp only [chunks, chunk, List.append_assoc, List.cons_append] at h
    obtain ⟨h1, h2⟩ := first_sep_inj _ _ _ _ (repr_no ':' (by decide) _) (repr_no ':' (by decide) _) h
    have hlen := repr_toList_inj h1
    obtain ⟨h3, h4⟩ := List.append_inj h2 hlen
    rw [KAtom.chars_inj h3, chunks_inj h4]

theorem Key.chars_inj {k k' : Key} (h : k.chars = k'.chars) : k = k' := by
  cases k with
  | atom a =>
    cases k' with
    | atom b => exact congrArg Key.atom (KAtom.chars_inj h)
    | tuple m =>
      simp only [Key.chars] at h
      cases a with
      | str s =>
        rcases strChars_cases s with ⟨e1, n1⟩ | ⟨r1, s1, e1⟩
        · rw [e1] at h
          exact absurd h (n1 _)
        · rw [e1] at h
          simp at h
      | none => simp [KAtom.chars] at h
      | num q => simp [KAtom.chars] at h
  | tuple l =>
    cases k' with
    | atom b =>
      simp only [Key.chars] at h
      cases b with
      | str s =>
        rcases strChars_cases s with ⟨e1, n1⟩ | ⟨r1, s1, e1⟩
        · rw [e1] at h
          exact absurd h.symm (n1 _)
        · rw [e1] at h
          simp at h
      | none => simp [KAtom.chars] at h
      | num q => simp [KAtom.chars] at h
    | tuple m =>
      simp only [Key.chars, List.cons.injEq, true_and] at h
      exact congrArg Key.tuple (chunks_inj h)

theorem Key.render_inj {k k' : Key} (h : k.render = k'.render) : k = k' := by
  unfold Key.render at h
  have := congrArg String.toList h
  simp only [String.toList_ofList] at this
  exact Key.chars_inj this

/-- a str key that does not start with '#' is its own text (every key the library uses) -/
theorem Key.render_plain (s : String) (h : ∀ r, s.toList ≠ '#' :: r) : (Key.atom (.str s)).render = s := by
  simp only [Key.render, Key.chars]
  rcases strChars_cases s with ⟨e1, _⟩ | ⟨r1, s1, _⟩
  · rw [e1]; exact String.ofList_toList
  · exact absurd s1 (h _)

end DH.Storage
