import Proofs.SelectGreedy

/-!
C20: the greedy loop does not care about the SIGN (or the origin) of the losses.

* `greedyLoop_shift` / `greedy_shift`: adding one constant `c` (of either sign) to every aggregated loss
  — the loss of the starting ensemble and the loss of every multiset of members — changes nothing in
  what `select` does: the break test `loss_min_ >= loss_min - eps_tol` is a comparison of a DIFFERENCE
  of two losses with the tolerance.  So a loss function that takes negative values (a negated score, a
  negative log-likelihood of confident members), the value zero, or values of both signs is handled
  exactly like the non-negative one obtained by shifting it.
* `greedyLoop_gain`: with early stopping every member the loop appends lowers the aggregated loss by
  more than `eps_tol` — for every rational loss and every `eps_tol`; no hypothesis on signs.
-/

namespace DH.Select

/-- a candidate loss (or NaN) moved by `c` -/
def shiftOpt (c : Rat) (x : Option Rat) : Option Rat := x.map (· + c)

/-- the running best of `nanargmin` moved by `c` -/
def shiftBest (c : Rat) (b : Option (Nat × Rat)) : Option (Nat × Rat) := b.map (fun p => (p.1, p.2 + c))

theorem candLosses_shift (o : Opts) (n : Nat) (L : List (Nat × Nat) → Rat) (sel bag : List Nat) (c : Rat) :
    candLosses o n (fun uc => L uc + c) sel bag = (candLosses o n L sel bag).map (shiftOpt c) := by
  simp only [candLosses, List.map_map]
  apply List.map_congr_left
  intro i _
  by_cases he : eligible o sel bag i = true <;> simp [he, shiftOpt]

theorem nanargminFrom_shift (c : Rat) (xs : List (Option Rat)) : ∀ (i : Nat) (best : Option (Nat × Rat)),
    nanargminFrom i (shiftBest c best) (xs.map (shiftOpt c)) = shiftBest c (nanargminFrom i best xs) := by
  induction xs with
  | nil => intro i best; simp [nanargminFrom]
  | cons x xs ih =>
    intro i best
    cases x with
    | none =>
      simp only [List.map_cons, shiftOpt, Option.map_none, nanargminFrom]
      exact ih (i + 1) best
    | some y =>
      cases best with
      | none =>
        simp only [List.map_cons, shiftOpt, Option.map_some, shiftBest, Option.map_none, nanargminFrom]
        exact ih (i + 1) (some (i, y))
      | some b =>
        obtain ⟨b, bv⟩ := b
        have hlt : (y + c < bv + c) ↔ y < bv := by
          constructor <;> intro h <;> linarith
        simp only [List.map_cons, shiftOpt, Option.map_some, shiftBest, nanargminFrom, hlt]
        split
        · exact ih (i + 1) (some (i, y))
        · exact ih (i + 1) (some (b, bv))

theorem nanargmin_shift (c : Rat) (xs : List (Option Rat)) :
    nanargmin (xs.map (shiftOpt c)) = shiftBest c (nanargmin xs) :=
  nanargminFrom_shift c xs 0 none

theorem stops_shift (o : Opts) (n : Nat) (sel : List Nat) (lossMin : Rat) (iMin : Nat) (lMin c : Rat) :
    stops o n sel (lossMin + c) iMin (lMin + c) = stops o n sel lossMin iMin lMin := by
  have h : (lossMin + c - o.epsTol ≤ lMin + c) ↔ (lossMin - o.epsTol ≤ lMin) := by
    constructor <;> intro h <;> linarith
  unfold stops
  rw [decide_eq_decide.2 h]

/-- the loop on losses all moved by `c` is the loop on the original losses -/
theorem greedyLoop_shift (o : Opts) (n : Nat) (L : List (Nat × Nat) → Rat) (bags : Nat → List Nat) (c : Rat) :
    ∀ (fuel it : Nat) (sel : List Nat) (lossMin : Rat),
      greedyLoop o n (fun uc => L uc + c) bags fuel it sel (lossMin + c) = greedyLoop o n L bags fuel it sel lossMin := by
  intro fuel
  induction fuel with
  | zero =>
    intro it sel lossMin
    rw [greedyLoop_unfold, greedyLoop_unfold]
  | succ fuel ih =>
    intro it sel lossMin
    rw [greedyLoop_unfold, greedyLoop_unfold o n L]
    by_cases hc : continues o n it sel = true
    · simp only [hc, if_true]
      rw [candLosses_shift, nanargmin_shift]
      cases hn : nanargmin (candLosses o n L sel (bags it)) with
      | none => simp [shiftBest]
      | some p =>
        obtain ⟨iMin, lMin⟩ := p
        simp only [shiftBest, Option.map_some, stops_shift]
        split
        · rfl
        · exact ih _ _ _
    · simp [hc]

theorem greedy_shift (o : Opts) (n : Nat) (order : List Nat) (L0 : List Nat → Rat) (L : List (Nat × Nat) → Rat)
    (bags : Nat → List Nat) (fuel : Nat) (c : Rat) :
    greedy o n order (fun s => L0 s + c) (fun uc => L uc + c) bags fuel = greedy o n order L0 L bags fuel := by
  unfold greedy
  simp only
  split
  · rfl
  · exact greedyLoop_shift o n L bags c fuel 0 _ _

/-- with early stopping, each appended member lowers the loss by more than `eps_tol`: after `added`
more members the loss is below `start - |added| * eps_tol` (any rational losses, any `eps_tol`) -/
theorem greedyLoop_gain (o : Opts) (n : Nat) (L : List (Nat × Nat) → Rat) (bags : Nat → List Nat)
    (hes : o.earlyStopping = true) (start : Rat) (init : List Nat)
    (fuel it : Nat) (sel : List Nat) (lossMin : Rat) (sel' : List Nat)
    (h0 : ∃ added, sel = init ++ added ∧ L (uniqueCounts n sel) ≤ lossMin ∧
      lossMin + (added.length : Rat) * o.epsTol ≤ start)
    (h : greedyLoop o n L bags fuel it sel lossMin = .ok sel') :
    ∃ added, sel' = init ++ added ∧ L (uniqueCounts n sel') + (added.length : Rat) * o.epsTol ≤ start := by
  obtain ⟨lm, added, h1, h2, h3⟩ := greedyLoop_inv o n L bags
    (fun s lm => ∃ added, s = init ++ added ∧ L (uniqueCounts n s) ≤ lm ∧ lm + (added.length : Rat) * o.epsTol ≤ start)
    (fun it sel lossMin iMin lMin hP _ hn hs => by
      obtain ⟨added, e1, _, e3⟩ := hP
      obtain ⟨_, _, hl⟩ := step_spec hn
      have hlt := stops_false_es hes hs
      refine ⟨added ++ [iMin], by rw [e1, List.append_assoc], le_of_eq hl.symm, ?_⟩
      have e : (((added ++ [iMin]).length : Nat) : Rat) = (added.length : Rat) + 1 := by simp
      rw [e]
      have : ((added.length : Rat) + 1) * o.epsTol = (added.length : Rat) * o.epsTol + o.epsTol := by ring
      rw [this]
      linarith) fuel it sel lossMin sel' h0 h
  exact ⟨added, h1, by linarith⟩

end DH.Select
