import Proofs.Hypervolume3d

/-! Any number of objectives: the nested dimension sweep (`levelN` calling itself) for point sets
strictly inside the reference box. -/

namespace DH.Hypervolume
open DH.Pareto (Vec wdVec)

/-! ### strict monotonicity: a point that no point dominates adds volume -/

/-- strictly below in every coordinate (same length) -/
def ltVec : Vec → Vec → Bool
  | [], [] => true
  | a :: as, b :: bs => decide (a < b) && ltVec as bs
  | _, _ => false

theorem slabs_lt {A B : Rat → Rat} {r : Rat} : ∀ {l : List Rat}, Sorted l → (∀ c ∈ l, c ≤ r) →
    (∀ c ∈ l, A c ≤ B c) → (∃ c ∈ l, c < r ∧ A c < B c) → slabs A r l < slabs B r l
  | [], _, _, _, h => by obtain ⟨c, hc, _⟩ := h; simp at hc
  | [c], _, _, _, h => by
    obtain ⟨c', hc', hlt, hAB⟩ := h
    simp only [List.mem_singleton] at hc'; subst hc'
    simp only [slabs]
    exact mul_lt_mul_of_pos_left hAB (sub_pos.mpr hlt)
  | c :: c' :: rest, hs, hr, hle, h => by
    simp only [slabs]
    have hc := List.pairwise_cons.mp hs
    have hw : 0 < c' - c := sub_pos.mpr (hc.1 c' (by simp))
    have h1 : (c' - c) * A c ≤ (c' - c) * B c := mul_le_mul_of_nonneg_left (hle c (by simp)) (le_of_lt hw)
    have h2 := slabs_mono (A := A) (B := B) (r := r) (l := c' :: rest) hc.2
      (fun x hx => hr x (by simp [hx])) (fun x hx => hle x (by simp [hx]))
    obtain ⟨x, hx, hxr, hAB⟩ := h
    rcases List.mem_cons.mp hx with rfl | hx
    · have : (c' - x) * A x < (c' - x) * B x := mul_lt_mul_of_pos_left hAB hw
      linarith
    · have := slabs_lt (A := A) (B := B) (r := r) (l := c' :: rest) hc.2
        (fun y hy => hr y (by simp [hy])) (fun y hy => hle y (by simp [hy])) ⟨x, hx, hxr, hAB⟩
      linarith

theorem ltVec_hd_tail : ∀ {q ref : Vec}, ltVec q ref = true → q ≠ [] →
    hd q < hd ref ∧ ltVec q.tail ref.tail = true
  | [], _, _, h => absurd rfl h
  | _ :: _, [], h, _ => by simp [ltVec] at h
  | a :: as, b :: bs, h, _ => by
    simp only [ltVec, Bool.and_eq_true, decide_eq_true_eq] at h
    simpa [hd] using h

/-- **a point strictly inside the reference box that no point of `P` weakly dominates adds
volume** -/
theorem hv_lt_cons : ∀ (ref : List Rat) (q : Vec) (P : List Vec), Rect ref.length P → ltVec q ref = true →
    (∀ p ∈ P, wdVec p q = false) → hv ref P < hv ref (q :: P)
  | [], [], P, hP, _, h => by
    cases P with
    | nil => simp [hv]
    | cons p P =>
      have hp0 : p = [] := List.length_eq_zero_iff.mp (hP p (by simp))
      have := h p (by simp)
      rw [hp0] at this
      simp [wdVec] at this
  | [], _ :: _, _, _, h, _ => by simp [ltVec] at h
  | _ :: _, [], _, _, h, _ => by simp [ltVec] at h
  | r :: rs, b :: bs, P, hP, hlt, hnd => by
    have hP' : Rect (rs.length + 1) P := by simpa using hP
    simp only [ltVec, Bool.and_eq_true, decide_eq_true_eq] at hlt
    rw [hv_on_cons_grid r rs (b :: bs) P]
    simp only [hv]
    have hbr : b ≤ r := le_of_lt hlt.1
    apply slabs_lt (sorted_cuts _ _) (fun c hc => le_of_mem_cuts hc)
    · intro c _
      show hv rs (proj c P) ≤ hv rs (proj c ((b :: bs) :: P))
      rw [proj_cons]
      split
      · exact hv_le_cons rs _ _
      · exact le_refl _
    · refine ⟨b, mem_cuts.mpr ⟨⟨b :: bs, by simp, rfl⟩, hbr⟩, hlt.1, ?_⟩
      show hv rs (proj b P) < hv rs (proj b ((b :: bs) :: P))
      rw [proj_cons, if_pos (by simp [hd])]
      apply hv_lt_cons rs bs _ (rect_proj hP' b) hlt.2
      intro v hv'
      obtain ⟨p, hp, hpb, rfl⟩ := mem_proj.mp hv'
      have := hnd p hp
      obtain ⟨a, as, rfl⟩ := ne_nil_of_rect hP' hp
      simp only [hd, List.headD_cons] at hpb
      simp only [wdVec, Bool.and_eq_false_iff, decide_eq_false_iff_not] at this
      rcases this with h1 | h1
      · exact absurd hpb h1
      · simpa using h1

/-- **soundness of the `ignore` test**: if adding a point strictly inside the reference box does
not change the hypervolume, some point of the set weakly dominates it -/
theorem hv_eq_imp_dominated (ref : List Rat) (q : Vec) (P : List Vec) (hP : Rect ref.length P)
    (hq : ltVec q ref = true) (h : hv ref (q :: P) ≤ hv ref P) : ∃ p ∈ P, wdVec p q = true := by
  by_contra hcon
  have : ∀ p ∈ P, wdVec p q = false := by
    intro p hp
    by_contra hne
    exact hcon ⟨p, hp, by simpa using hne⟩
  exact absurd (hv_lt_cons ref q P hP hq this) (not_lt.mpr h)

/-! ### order of nodes in the sweep lists -/

/-- `a` occurs before (an occurrence of) `b` -/
def Before (l : List Nat) (a b : Nat) : Prop := ∃ l1 l2, l = l1 ++ b :: l2 ∧ a ∈ l1

theorem Before.cons {l : List Nat} {a b : Nat} (y : Nat) (h : Before l a b) : Before (y :: l) a b := by
  obtain ⟨l1, l2, rfl, ha⟩ := h
  exact ⟨y :: l1, l2, rfl, by simp [ha]⟩

theorem before_cons_self {l : List Nat} {a b : Nat} (hb : b ∈ l) : Before (a :: l) a b := by
  obtain ⟨l1, l2, rfl⟩ := List.append_of_mem hb
  exact ⟨a :: l1, l2, rfl, by simp⟩

theorem before_cons_iff {l : List Nat} {y a b : Nat} :
    Before (y :: l) a b ↔ (a = y ∧ b ∈ l) ∨ Before l a b ∨ False := by
  constructor
  · rintro ⟨l1, l2, h, ha⟩
    cases l1 with
    | nil => simp at ha
    | cons x l1 =>
      simp only [List.cons_append, List.cons.injEq] at h
      obtain ⟨rfl, rfl⟩ := h
      rcases List.mem_cons.mp ha with rfl | ha
      · exact Or.inl ⟨rfl, by simp⟩
      · exact Or.inr (Or.inl ⟨l1, l2, rfl, ha⟩)
  · rintro (⟨rfl, hb⟩ | h | h)
    · exact before_cons_self hb
    · exact h.cons y
    · exact absurd h id

theorem Before.mem_right {l : List Nat} {a b : Nat} (h : Before l a b) : b ∈ l := by
  obtain ⟨l1, l2, rfl, _⟩ := h; simp

theorem Before.mem_left {l : List Nat} {a b : Nat} (h : Before l a b) : a ∈ l := by
  obtain ⟨l1, l2, rfl, ha⟩ := h; simp [ha]

/-- inserting an element preserves the relative order of the others -/
theorem before_insertByKey (key : Nat → Rat) (h : Nat) : ∀ {l : List Nat} {a b : Nat},
    Before l a b → Before (insertByKey key h l) a b
  | [], _, _, hb => by obtain ⟨l1, l2, he, _⟩ := hb; cases l1 <;> simp at he
  | y :: l, a, b, hb => by
    unfold insertByKey
    split
    · exact hb.cons h
    · rcases before_cons_iff.mp hb with ⟨rfl, hbl⟩ | hb' | hf
      · exact before_cons_self ((List.Perm.mem_iff (insertByKey_perm key h l)).mpr (by simp [hbl]))
      · exact (before_insertByKey key h hb').cons y
      · exact absurd hf id

/-- the inserted element lands before every element whose key is not smaller -/
theorem before_insertByKey_self (key : Nat → Rat) (a : Nat) : ∀ {l : List Nat} {b : Nat},
    b ∈ l → key a ≤ key b → Before (insertByKey key a l) a b
  | [], _, hb, _ => by simp at hb
  | y :: l, b, hb, hk => by
    unfold insertByKey
    split
    · exact before_cons_self hb
    · rename_i hay
      rcases List.mem_cons.mp hb with rfl | hb
      · exact absurd hk hay
      · exact (before_insertByKey_self key a hb hk).cons y

/-- **stability**: a stable sort keeps `a` before `b` when `key a ≤ key b` -/
theorem before_sortByKey (key : Nat → Rat) : ∀ {l : List Nat} {a b : Nat},
    Before l a b → key a ≤ key b → Before (sortByKey key l) a b
  | [], _, _, hb, _ => by obtain ⟨l1, l2, he, _⟩ := hb; cases l1 <;> simp at he
  | y :: l, a, b, hb, hk => by
    show Before (insertByKey key y (sortByKey key l)) a b
    rcases before_cons_iff.mp hb with ⟨rfl, hbl⟩ | hb' | hf
    · exact before_insertByKey_self key a ((List.Perm.mem_iff (sortByKey_perm key l)).mpr hbl) hk
    · exact before_insertByKey key y (before_sortByKey key hb' hk)
    · exact absurd hf id

/-- in a duplicate-free list the position of an element is unique -/
theorem nodup_split_unique {l : List Nat} (hnd : l.Nodup) {A B C D : List Nat} {x : Nat}
    (h1 : l = A ++ x :: B) (h2 : l = C ++ x :: D) : A = C ∧ B = D := by
  subst h1
  induction A generalizing C with
  | nil =>
    cases C with
    | nil => simpa using h2
    | cons c C =>
      simp only [List.nil_append, List.cons_append, List.cons.injEq] at h2
      obtain ⟨rfl, rfl⟩ := h2
      have := (List.nodup_cons.mp hnd).1
      simp at this
  | cons a A ih =>
    cases C with
    | nil =>
      simp only [List.nil_append, List.cons_append, List.cons.injEq] at h2
      obtain ⟨rfl, h2⟩ := h2
      have := (List.nodup_cons.mp hnd).1
      simp at this
    | cons c C =>
      simp only [List.cons_append, List.cons.injEq] at h2
      obtain ⟨rfl, h2⟩ := h2
      have := ih (List.nodup_cons.mp hnd).2 h2
      exact ⟨by rw [this.1], this.2⟩

theorem Before.irrefl_of_nodup {l : List Nat} (hnd : l.Nodup) {a b : Nat} (h : Before l a b) : a ≠ b := by
  obtain ⟨l1, l2, rfl, ha⟩ := h
  rintro rfl
  have := List.nodup_append.mp hnd
  exact this.2.2 a ha a (by simp) rfl

/-- filtering keeps the relative order -/
theorem Before.filter {l : List Nat} {a b : Nat} (p : Nat → Bool) (h : Before l a b) (ha : p a = true)
    (hb : p b = true) : Before (l.filter p) a b := by
  obtain ⟨l1, l2, rfl, hal⟩ := h
  exact ⟨l1.filter p, l2.filter p, by simp [List.filter_append, hb],
    List.mem_filter.mpr ⟨hal, ha⟩⟩

/-- prefix closure: in a duplicate-free list, what comes before a member of a prefix is in the prefix -/
theorem Before.mem_prefix {l P R : List Nat} (hnd : l.Nodup) (hl : l = P ++ R) {a b : Nat}
    (h : Before l a b) (hb : b ∈ P) : a ∈ P := by
  obtain ⟨l1, l2, h1, hal⟩ := h
  obtain ⟨P1, P2, rfl⟩ := List.append_of_mem hb
  have h2 : l = P1 ++ b :: (P2 ++ R) := by rw [hl]; simp
  have := (nodup_split_unique hnd h1 h2).1
  subst this
  simp [hal]

/-! ### the sweep lists built by `preProcess` (after fix ecd8f06) -/

/-- what the proofs use of the sweep lists: each is a permutation of the node ids sorted by its
coordinate, and ties in list `k` are ordered as in list `k+1` -/
structure OrdersOK (rel : List Vec) (m : Nat) (orders : List (List Nat)) : Prop where
  perm : ∀ k, k < m → (orders.getD k []).Perm (List.range rel.length)
  sorted : ∀ k, k < m →
    (orders.getD k []).Pairwise (fun i j => co (rel.getD i []) k ≤ co (rel.getD j []) k)
  stable : ∀ k, k + 1 < m → ∀ a b, Before (orders.getD (k + 1) []) a b →
    co (rel.getD a []) k ≤ co (rel.getD b []) k → Before (orders.getD k []) a b

theorem go_spec (rel : List Vec) : ∀ (fuel : Nat) (cur : List Nat) (acc : List (List Nat)),
    ∃ pre, preOrdersDown.go rel fuel cur acc = pre ++ acc ∧ pre.length = fuel ∧
      ∀ k, k < fuel → pre.getD k [] = sortByDim rel k (if k + 1 < fuel then pre.getD (k + 1) [] else cur)
  | 0, cur, acc => ⟨[], rfl, rfl, fun k hk => absurd hk (Nat.not_lt_zero k)⟩
  | i + 1, cur, acc => by
    obtain ⟨pre', h1, h2, h3⟩ := go_spec rel i (sortByDim rel i cur) (sortByDim rel i cur :: acc)
    refine ⟨pre' ++ [sortByDim rel i cur], ?_, by simp [h2], ?_⟩
    · show preOrdersDown.go rel i (sortByDim rel i cur) (sortByDim rel i cur :: acc) = _
      rw [h1]; simp
    · intro k hk
      have hget : ∀ j, j < i → (pre' ++ [sortByDim rel i cur]).getD j [] = pre'.getD j [] := by
        intro j hj
        simp only [List.getD_eq_getElem?_getD]
        rw [List.getElem?_append_left (by rw [h2]; exact hj)]
      have hlast : (pre' ++ [sortByDim rel i cur]).getD i [] = sortByDim rel i cur := by
        simp only [List.getD_eq_getElem?_getD]
        rw [List.getElem?_append_right (by rw [h2])]
        simp [h2]
      by_cases hki : k < i
      · rw [hget k hki, h3 k hki]
        by_cases hk1 : k + 1 < i
        · rw [if_pos hk1, if_pos (by omega), hget (k + 1) hk1]
        · have : k + 1 = i := by omega
          rw [if_neg hk1, if_pos (by omega), this, hlast]
      · have : k = i := by omega
        subst this
        rw [hlast, if_neg (by omega)]

theorem preOrders_ok (rel : List Vec) (m : Nat) : OrdersOK rel m (preOrders true rel m) := by
  obtain ⟨pre, h1, h2, h3⟩ := go_spec rel m (List.range rel.length) []
  have ho : preOrders true rel m = pre := by
    simp only [preOrders, preOrdersDown, if_true]; rw [h1]; simp
  rw [ho]
  -- every list is a permutation of the ids (downwards from the last dimension)
  have hperm : ∀ j k, k < m → m - k = j → (pre.getD k []).Perm (List.range rel.length) := by
    intro j
    induction j with
    | zero => intro k hk hj; omega
    | succ j ih =>
      intro k hk hj
      rw [h3 k hk]
      by_cases hk1 : k + 1 < m
      · rw [if_pos hk1]
        exact (sortByKey_perm _ _).trans (ih (k + 1) hk1 (by omega))
      · rw [if_neg hk1]
        exact sortByKey_perm _ _
  refine ⟨fun k hk => hperm (m - k) k hk rfl, ?_, ?_⟩
  · intro k hk
    rw [h3 k hk]
    exact sortByKey_sorted _ _
  · intro k hk a b hab hz
    rw [h3 k (by omega), if_pos hk]
    exact before_sortByKey _ hab hz

/-- the dominating node stays in front in every lower list -/
theorem before_lower {rel : List Vec} {m : Nat} {orders : List (List Nat)} (ho : OrdersOK rel m orders)
    {r x : Nat} : ∀ (j d e : Nat), e < m → d + j = e → Before (orders.getD e []) r x →
    (∀ k, d ≤ k → k < e → co (rel.getD r []) k ≤ co (rel.getD x []) k) → Before (orders.getD d []) r x
  | 0, d, e, _, hde, hb, _ => by
    have : d = e := by omega
    subst this; exact hb
  | j + 1, d, e, he, hde, hb, hz => by
    have h1 := before_lower ho j (d + 1) e he (by omega) hb (fun k hk hke => hz k (by omega) hke)
    exact ho.stable d (by omega) r x h1 (hz d (Nat.le_refl _) (by omega))

/-! ### volumes of projected prefixes -/

/-- the first `k+1` coordinates of node `i`, last one first (the order in which the code sweeps) -/
def rvec (rel : List Vec) (k i : Nat) : Vec := ((rel.getD i []).take (k + 1)).reverse

/-- coordinate `k` of node `i` -/
def zc (rel : List Vec) (k i : Nat) : Rat := co (rel.getD i []) k

/-- hypervolume (reference at the origin) of the nodes `S` projected on coordinates `0..k` -/
def Vk (rel : List Vec) (k : Nat) (S : List Nat) : Rat :=
  hv (List.replicate (k + 1) 0) (S.map (rvec rel k))

/-- `hvol` when the sweep of level `d` reaches the last node of the list (`pre` = nodes before) -/
def vsAux (rel : List Vec) (d : Nat) : List Nat → List Nat → Rat
  | _, [] => 0
  | _, [_] => 0
  | pre, a :: b :: rest =>
    Vk rel (d - 1) (pre ++ [a]) * (zc rel d b - zc rel d a) + vsAux rel d (pre ++ [a]) (b :: rest)

def volSum (rel : List Vec) (d : Nat) (S : List Nat) : Rat := vsAux rel d [] S

theorem vsAux_snoc (rel : List Vec) (d : Nat) : ∀ (S pre : List Nat) (a b : Nat),
    vsAux rel d pre (S ++ [a] ++ [b])
      = vsAux rel d pre (S ++ [a]) + Vk rel (d - 1) (pre ++ S ++ [a]) * (zc rel d b - zc rel d a)
  | [], pre, a, b => by simp [vsAux]
  | [s], pre, a, b => by
    have := vsAux_snoc rel d [] (pre ++ [s]) a b
    simp only [List.nil_append, List.cons_append, vsAux] at this ⊢
    rw [this]; simp only [List.append_assoc, List.cons_append, List.nil_append]; ring
  | s :: s' :: S, pre, a, b => by
    have := vsAux_snoc rel d (s' :: S) (pre ++ [s]) a b
    simp only [List.cons_append, vsAux] at this ⊢
    rw [this]; simp only [List.append_assoc, List.cons_append, List.nil_append]; ring

theorem volSum_snoc (rel : List Vec) (d : Nat) (S : List Nat) (a b : Nat) :
    volSum rel d (S ++ [a] ++ [b])
      = volSum rel d (S ++ [a]) + Vk rel (d - 1) (S ++ [a]) * (zc rel d b - zc rel d a) := by
  have := vsAux_snoc rel d S [] a b
  simpa [volSum] using this

theorem volSum_single (rel : List Vec) (d : Nat) (a : Nat) : volSum rel d [a] = 0 := rfl

section rows
variable {rel : List Vec} {m : Nat} (hrect : Rect m rel)
include hrect

theorem row_length {i : Nat} (hi : i < rel.length) : (rel.getD i []).length = m :=
  hrect _ (getD_mem hi)

omit hrect in
theorem take_succ_reverse (row : List Rat) (k : Nat) (h : k < row.length) :
    (row.take (k + 1)).reverse = row.getD k 0 :: (row.take k).reverse := by
  rw [List.take_add_one, List.getD_eq_getElem?_getD, List.getElem?_eq_getElem h]
  simp

theorem rvec_succ {k i : Nat} (hi : i < rel.length) (hk : k + 1 < m) :
    rvec rel (k + 1) i = zc rel (k + 1) i :: rvec rel k i := by
  unfold rvec zc co
  exact take_succ_reverse _ _ (by rw [row_length hrect hi]; exact hk)

theorem rvec_zero {i : Nat} (hi : i < rel.length) (hm : 0 < m) : rvec rel 0 i = [zc rel 0 i] := by
  unfold rvec zc co
  have := take_succ_reverse (rel.getD i []) 0 (by rw [row_length hrect hi]; exact hm)
  simpa using this

theorem rvec_length {k i : Nat} (hi : i < rel.length) (hk : k < m) : (rvec rel k i).length = k + 1 := by
  unfold rvec
  rw [List.length_reverse, List.length_take, row_length hrect hi]
  omega

theorem rect_rvec {k : Nat} (hk : k < m) {S : List Nat} (hS : ∀ i ∈ S, i < rel.length) :
    Rect (k + 1) (S.map (rvec rel k)) := by
  intro v hv
  obtain ⟨i, hi, rfl⟩ := List.mem_map.mp hv
  exact rvec_length hrect (hS i hi) hk

/-- tails of the level-`(k+1)` vectors are the level-`k` vectors -/
theorem map_tail_rvec {k : Nat} (hk : k + 1 < m) {S : List Nat} (hS : ∀ i ∈ S, i < rel.length) :
    (S.map (rvec rel (k + 1))).map List.tail = S.map (rvec rel k) := by
  rw [List.map_map]
  apply List.map_congr_left
  intro i hi
  simp [Function.comp, rvec_succ hrect (hS i hi) hk]

theorem hd_rvec_succ {k i : Nat} (hi : i < rel.length) (hk : k + 1 < m) :
    hd (rvec rel (k + 1) i) = zc rel (k + 1) i := by
  rw [rvec_succ hrect hi hk]; rfl

/-- **the sweep of level `k+1` in terms of node ids**: for nodes sorted by coordinate `k+1`
(not above the reference) the hypervolume is the accumulated `hvol` plus the last slab -/
theorem Vk_sweep {k : Nat} (hk : k + 1 < m) :
    ∀ (rest pre : List Nat) (q : Nat), (∀ i ∈ pre ++ q :: rest, i < rel.length) →
      sweepSum (fun X => hv (List.replicate (k + 1) 0) (X.map List.tail)) 0
          (pre.map (rvec rel (k + 1))) (rvec rel (k + 1) q) (rest.map (rvec rel (k + 1)))
        = vsAux rel (k + 1) pre (q :: rest)
          + Vk rel k (pre ++ q :: rest) * (0 - zc rel (k + 1) ((q :: rest).getLastD q))
  | [], pre, q, hlt => by
    have hq : q < rel.length := hlt q (by simp)
    simp only [List.map_nil, sweepSum, vsAux, List.getLastD_cons, List.getLastD_nil]
    have : (pre.map (rvec rel (k + 1)) ++ [rvec rel (k + 1) q]).map List.tail
        = (pre ++ [q]).map (rvec rel k) := by
      rw [← map_tail_rvec hrect hk (S := pre ++ [q]) (fun i hi => hlt i (by simpa using hi))]
      simp
    rw [this, hd_rvec_succ hrect hq hk]
    simp only [Vk]; ring
  | p :: rest, pre, q, hlt => by
    have hq : q < rel.length := hlt q (by simp)
    have hp : p < rel.length := hlt p (by simp)
    simp only [List.map_cons, sweepSum, vsAux]
    have ih := Vk_sweep hk rest (pre ++ [q]) p
      (fun i hi => hlt i (by simp only [List.mem_append, List.mem_cons, List.not_mem_nil, or_false] at hi ⊢; tauto))
    have hpre : pre.map (rvec rel (k + 1)) ++ [rvec rel (k + 1) q] = (pre ++ [q]).map (rvec rel (k + 1)) := by simp
    rw [hpre, ih]
    have : ((pre ++ [q]).map (rvec rel (k + 1))).map List.tail = (pre ++ [q]).map (rvec rel k) :=
      map_tail_rvec hrect hk (fun i hi => hlt i (by simp only [List.mem_append, List.mem_cons, List.not_mem_nil, or_false] at hi ⊢; tauto))
    rw [this, hd_rvec_succ hrect hq hk, hd_rvec_succ hrect hp hk]
    simp only [List.getLastD_cons, Vk, Nat.add_sub_cancel, List.append_assoc, List.cons_append, List.nil_append]
    ring

end rows

section rows
variable {rel : List Vec} {m : Nat} (hrect : Rect m rel)
include hrect

/-- **level `k+1` of the sweep is exact given exact cross-sections**: `hvol` accumulated up to the
last node `q` plus the last slab is the hypervolume of the projected nodes -/
theorem Vk_last {k : Nat} (hk : k + 1 < m) (S : List Nat) (q : Nat)
    (hS : ∀ i ∈ S ++ [q], i < rel.length)
    (hsorted : (S ++ [q]).Pairwise (fun i j => zc rel (k + 1) i ≤ zc rel (k + 1) j))
    (hneg : ∀ i ∈ S ++ [q], zc rel (k + 1) i ≤ 0) :
    Vk rel (k + 1) (S ++ [q])
      = volSum rel (k + 1) (S ++ [q]) + Vk rel k (S ++ [q]) * (0 - zc rel (k + 1) q) := by
  obtain ⟨a, t, hat⟩ : ∃ a t, S ++ [q] = a :: t := by
    cases S with
    | nil => exact ⟨q, [], rfl⟩
    | cons a S => exact ⟨a, S ++ [q], rfl⟩
  have hlast : (a :: t).getLastD a = q := by
    rw [← hat]; simp
  rw [hat] at hS hsorted hneg ⊢
  have hsw := Vk_sweep hrect hk t [] a (by simpa using hS)
  simp only [List.map_nil, List.nil_append] at hsw
  unfold volSum
  rw [← hlast, ← hsw]
  unfold Vk
  rw [List.map_cons, show List.replicate (k + 1 + 1) (0 : Rat) = 0 :: List.replicate (k + 1) 0 from rfl]
  have e : rvec rel (k + 1) a :: t.map (rvec rel (k + 1)) = (a :: t).map (rvec rel (k + 1)) := rfl
  apply hv_eq_sweepSum
  · rw [e, List.pairwise_map]
    refine (List.Pairwise.and_mem.mp hsorted).imp ?_
    rintro i j ⟨hi, hj, hij⟩
    rw [hd_rvec_succ hrect (hS i hi) hk, hd_rvec_succ hrect (hS j hj) hk]; exact hij
  · intro p hp
    rw [e] at hp
    obtain ⟨i, hi, rfl⟩ := List.mem_map.mp hp
    rw [hd_rvec_succ hrect (hS i hi) hk]; exact hneg i hi
  · intro p hp
    rw [e] at hp
    obtain ⟨i, hi, rfl⟩ := List.mem_map.mp hp
    rw [rvec_succ hrect (hS i hi) hk]; simp

end rows
end DH.Hypervolume
