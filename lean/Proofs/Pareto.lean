import Model.Pareto

/-! Helper lemmas for C11 (core Lean only). -/

namespace DH.Pareto

/-! ### weak dominance on vectors is a preorder, antisymmetric -/

theorem wdVec_refl : ∀ v : Vec, wdVec v v = true
  | [] => rfl
  | a :: as => by simp [wdVec, wdVec_refl as]

theorem wdVec_trans : ∀ a b c : Vec, wdVec a b = true → wdVec b c = true → wdVec a c = true
  | [], [], [], _, _ => rfl
  | [], [], _ :: _, _, h => by simp [wdVec] at h
  | [], _ :: _, _, h, _ => by simp [wdVec] at h
  | _ :: _, [], _, h, _ => by simp [wdVec] at h
  | _ :: _, _ :: _, [], _, h => by simp [wdVec] at h
  | x :: xs, y :: ys, z :: zs, h1, h2 => by
    simp only [wdVec, Bool.and_eq_true, decide_eq_true_eq] at h1 h2 ⊢
    exact ⟨Rat.le_trans h1.1 h2.1, wdVec_trans xs ys zs h1.2 h2.2⟩

theorem wdVec_antisymm : ∀ a b : Vec, wdVec a b = true → wdVec b a = true → a = b
  | [], [], _, _ => rfl
  | [], _ :: _, h, _ => by simp [wdVec] at h
  | _ :: _, [], h, _ => by simp [wdVec] at h
  | x :: xs, y :: ys, h1, h2 => by
    simp only [wdVec, Bool.and_eq_true, decide_eq_true_eq] at h1 h2
    rw [Rat.le_antisymm h1.1 h2.1, wdVec_antisymm xs ys h1.2 h2.2]

/-! ### the sweep, over an abstract preorder -/

section generic
variable {P : Type} (wd : P → P → Bool)

structure Pre : Prop where
  refl : ∀ a, wd a a = true
  trans : ∀ a b c, wd a b = true → wd b c = true → wd a c = true

def Anti (l : List P) : Prop := l.Pairwise (fun a b => wd a b = false ∧ wd b a = false)

theorem sweep_spec (h : Pre wd) (orig : List P) :
    ∀ (post pre : List P),
      Anti wd pre →
      (∀ a ∈ pre, ∀ q ∈ post, wd a q = false) →
      (∀ x ∈ orig, ∃ y ∈ pre ++ post, wd y x = true) →
      (∀ y ∈ pre ++ post, y ∈ orig) →
      Anti wd (sweep wd pre post) ∧ (∀ x ∈ orig, ∃ r ∈ sweep wd pre post, wd r x = true)
        ∧ (∀ r ∈ sweep wd pre post, r ∈ orig) := by
  intro post
  induction post using (measure List.length).wf.induction with
  | _ post ih =>
    intro pre hA hB hC hD
    cases post with
    | nil =>
      simp only [sweep]
      refine ⟨hA, ?_, ?_⟩
      · intro x hx; simpa using hC x hx
      · intro r hr; exact hD r (by simp [hr])
    | cons p rest =>
      rw [sweep]
      apply ih
      · show (rest.filter _).length < (p :: rest).length
        simp only [List.length_cons]; exact Nat.lt_succ_of_le (List.length_filter_le _ _)
      · unfold Anti
        rw [List.pairwise_append]
        refine ⟨?_, by simp, ?_⟩
        · exact List.Pairwise.sublist List.filter_sublist hA
        · intro a ha b hb
          simp only [List.mem_singleton] at hb; subst hb
          simp only [List.mem_filter, Bool.not_eq_true'] at ha
          exact ⟨hB a ha.1 b (by simp), ha.2⟩
      · intro a ha q hq
        simp only [List.mem_append, List.mem_filter, List.mem_singleton, Bool.not_eq_true'] at ha hq
        rcases ha with ha | rfl
        · exact hB a ha.1 q (by simp [hq.1])
        · exact hq.2
      · intro x hx
        obtain ⟨y, hy, hyx⟩ := hC x hx
        by_cases hpy : wd p y = true
        · exact ⟨p, by simp, h.trans _ _ _ hpy hyx⟩
        · refine ⟨y, ?_, hyx⟩
          simp only [List.mem_append, List.mem_cons, List.mem_filter, List.mem_singleton,
            Bool.not_eq_true'] at hy ⊢
          have hf : wd p y = false := by simpa using hpy
          rcases hy with hy | rfl | hy
          · exact Or.inl (Or.inl ⟨hy, hf⟩)
          · exact Or.inl (Or.inr (by simp))
          · exact Or.inr ⟨hy, hf⟩
      · intro y hy
        simp only [List.mem_append, List.mem_filter, List.mem_singleton] at hy
        rcases hy with (hy | rfl) | hy
        · exact hD y (by simp [hy.1])
        · exact hD _ (by simp)
        · exact hD y (by simp [hy.1])

/-- the sweep started as the code starts it (`idx = 0`) -/
theorem sweep_nil_spec (h : Pre wd) (l : List P) :
    Anti wd (sweep wd [] l) ∧ (∀ x ∈ l, ∃ r ∈ sweep wd [] l, wd r x = true)
      ∧ (∀ r ∈ sweep wd [] l, r ∈ l) := by
  apply sweep_spec wd h l l []
  · exact List.Pairwise.nil
  · intro a ha; simp at ha
  · intro x hx; exact ⟨x, by simpa using hx, h.refl x⟩
  · intro y hy; simpa using hy

/-- the sweep of a non-empty list is non-empty (each peeling round makes progress) -/
theorem sweep_ne_nil (h : Pre wd) (l : List P) (hl : l ≠ []) : sweep wd [] l ≠ [] := by
  obtain ⟨x, hx⟩ := List.exists_mem_of_ne_nil l hl
  obtain ⟨r, hr, _⟩ := (sweep_nil_spec wd h l).2.1 x hx
  exact List.ne_nil_of_mem hr

end generic

theorem pairwise_mem_ne {α : Type} {R : α → α → Prop} (hsym : ∀ x y, R x y → R y x) :
    ∀ {l : List α} {a b : α}, l.Pairwise R → a ∈ l → b ∈ l → a ≠ b → R a b
  | [], _, _, _, ha, _, _ => by simp at ha
  | c :: l, a, b, hp, ha, hb, hne => by
    rw [List.pairwise_cons] at hp
    rcases List.mem_cons.1 ha with rfl | ha' <;> rcases List.mem_cons.1 hb with rfl | hb'
    · exact absurd rfl hne
    · exact hp.1 b hb'
    · exact hsym _ _ (hp.1 a ha')
    · exact pairwise_mem_ne hsym hp.2 ha' hb' hne

theorem wdRow_pre : Pre wdRow :=
  ⟨fun a => wdVec_refl a.2, fun a b c => wdVec_trans a.2 b.2 c.2⟩

/-! ### the specification of a Pareto-optimal selection -/

/-- `sel` is an exact Pareto-optimal selection of `pts` (indices into `pts`). -/
structure NdsSpec (pts : List Vec) (sel : List Nat) : Prop where
  valid : ∀ i ∈ sel, i < pts.length
  nodup : sel.Nodup
  anti : ∀ i ∈ sel, ∀ j ∈ sel, i ≠ j → ∀ p q, pts[i]? = some p → pts[j]? = some q →
    wdVec p q = false
  cover : ∀ x ∈ pts, ∃ j ∈ sel, ∃ r, pts[j]? = some r ∧ wdVec r x = true

/-- rows that really are rows of `pts` -/
def RowOf (pts : List Vec) (r : Row) : Prop := pts[r.1]? = some r.2

theorem mem_permuteBy {pts : List Vec} {order : List Nat} {r : Row} :
    r ∈ permuteBy pts order ↔ r.1 ∈ order ∧ RowOf pts r := by
  unfold permuteBy RowOf
  simp only [List.mem_filterMap, Option.map_eq_some_iff]
  constructor
  · rintro ⟨i, hi, v, hv, rfl⟩; exact ⟨hi, hv⟩
  · rintro ⟨hi, hv⟩; exact ⟨r.1, hi, r.2, hv, rfl⟩

/-- any list of genuine rows that is an antichain, covers the genuine rows with
indices in `order` and consists of them, gives an `NdsSpec` on indices -/
theorem ndsSpec_of_rows (pts : List Vec) (order : List Nat)
    (hperm : ∀ i, i < pts.length → i ∈ order) (hval : ∀ i ∈ order, i < pts.length)
    (out : List Row)
    (hA : Anti wdRow out)
    (hC : ∀ x ∈ permuteBy pts order, ∃ r ∈ out, wdRow r x = true)
    (hS : ∀ r ∈ out, r ∈ permuteBy pts order) :
    NdsSpec pts (out.map (·.1)) := by
  have hrow : ∀ r ∈ out, RowOf pts r := fun r hr => (mem_permuteBy.1 (hS r hr)).2
  refine ⟨?_, ?_, ?_, ?_⟩
  · intro i hi
    obtain ⟨r, hr, rfl⟩ := List.mem_map.1 hi
    exact hval _ (mem_permuteBy.1 (hS r hr)).1
  · -- distinct indices: two rows with one index are the same row, excluded by Anti + refl
    rw [List.Nodup, List.pairwise_map]
    refine List.Pairwise.imp_of_mem ?_ hA
    intro a b ha hb hab heq
    have h1 := hrow a ha; have h2 := hrow b hb
    unfold RowOf at h1 h2
    rw [heq] at h1
    have : a.2 = b.2 := by rw [h1] at h2; exact Option.some.inj h2
    have hr := wdVec_refl a.2
    unfold wdRow at hab
    rw [← this] at hab; rw [hr] at hab; exact absurd hab.1 (by simp)
  · intro i hi j hj hij p q hp hq
    obtain ⟨a, ha, rfl⟩ := List.mem_map.1 hi
    obtain ⟨b, hb, rfl⟩ := List.mem_map.1 hj
    have h1 := hrow a ha; have h2 := hrow b hb
    unfold RowOf at h1 h2
    rw [h1] at hp; rw [h2] at hq
    cases hp; cases hq
    have hne : a ≠ b := fun e => hij (by rw [e])
    exact (pairwise_mem_ne (fun _ _ h => ⟨h.2, h.1⟩) hA ha hb hne).1
  · intro x hx
    obtain ⟨k, hk, hkx⟩ := List.getElem_of_mem hx
    have hmem : (k, x) ∈ permuteBy pts order :=
      mem_permuteBy.2 ⟨hperm k hk, by unfold RowOf; simp [List.getElem?_eq_getElem hk, hkx]⟩
    obtain ⟨r, hr, hrx⟩ := hC _ hmem
    exact ⟨r.1, List.mem_map.2 ⟨r, hr, rfl⟩, r.2, hrow r hr, hrx⟩

end DH.Pareto

namespace DH.Pareto

/-- `ndsIdx` for any `order` that mentions exactly the valid indices (in particular
any permutation of `range n`, whatever `argsort` does with ties or rounding) -/
theorem ndsIdx_spec (pts : List Vec) (order : List Nat)
    (hperm : ∀ i, i < pts.length → i ∈ order) (hval : ∀ i ∈ order, i < pts.length) :
    NdsSpec pts (ndsIdx pts order) := by
  have h := sweep_nil_spec wdRow wdRow_pre (permuteBy pts order)
  exact ndsSpec_of_rows pts order hperm hval _ h.1 h.2.1 h.2.2

theorem checkSel_iff (pts : List Vec) (sel : List Nat) :
    checkSel pts sel = true ↔ NdsSpec pts sel := by
  unfold checkSel
  simp only [Bool.and_eq_true, List.all_eq_true, decide_eq_true_eq, List.any_eq_true,
    Bool.or_eq_true, beq_iff_eq]
  constructor
  · rintro ⟨⟨⟨hv, hn⟩, ha⟩, hc⟩
    refine ⟨hv, hn, ?_, ?_⟩
    · intro i hi j hj hij p q hp hq
      have := ha i hi j hj
      rcases this with h | h
      · exact absurd h hij
      · rw [hp, hq] at h; simpa using h
    · intro x hx
      obtain ⟨j, hj, h⟩ := hc x hx
      cases hpj : pts[j]? with
      | none => rw [hpj] at h; simp at h
      | some r => rw [hpj] at h; exact ⟨j, hj, r, hpj, h⟩
  · rintro ⟨hv, hn, ha, hc⟩
    refine ⟨⟨⟨hv, hn⟩, ?_⟩, ?_⟩
    · intro i hi j hj
      by_cases hij : i = j
      · exact Or.inl hij
      · right
        have hi' := hv i hi; have hj' := hv j hj
        rw [List.getElem?_eq_getElem hi', List.getElem?_eq_getElem hj']
        simpa using ha i hi j hj hij _ _ (List.getElem?_eq_getElem hi') (List.getElem?_eq_getElem hj')
    · intro x hx
      obtain ⟨j, hj, r, hr, hrx⟩ := hc x hx
      exact ⟨j, hj, by rw [hr]; exact hrx⟩

/-! ### the specification in the property's own words -/

theorem NdsSpec.no_selected_dominated {pts : List Vec} {sel : List Nat} (h : NdsSpec pts sel)
    (i : Nat) (hi : i ∈ sel) (p : Vec) (hp : pts[i]? = some p) (q : Vec) (hq : q ∈ pts) :
    dominates q p = false := by
  unfold dominates
  cases hqp : wdVec q p with
  | false => rfl
  | true =>
    simp only [Bool.true_and, Bool.not_eq_false']
    obtain ⟨j, hj, r, hr, hrq⟩ := h.cover q hq
    have hrp : wdVec r p = true := wdVec_trans _ _ _ hrq hqp
    by_cases hji : j = i
    · subst hji
      rw [hr] at hp; cases hp
      exact hrq
    · have := h.anti j hj i hi hji r p hr hp
      rw [this] at hrp; exact absurd hrp (by simp)

theorem NdsSpec.unselected_dominated_or_equal {pts : List Vec} {sel : List Nat}
    (h : NdsSpec pts sel) (k : Nat) (x : Vec) (hx : pts[k]? = some x) :
    ∃ j ∈ sel, ∃ r, pts[j]? = some r ∧ (dominates r x = true ∨ r = x) := by
  obtain ⟨j, hj, r, hr, hrx⟩ := h.cover x (List.mem_of_getElem? hx)
  refine ⟨j, hj, r, hr, ?_⟩
  unfold dominates
  cases hxr : wdVec x r with
  | true => right; exact wdVec_antisymm _ _ hrx hxr
  | false => left; simp [hrx]

/-- of several identical optimal points exactly one is selected -/
theorem NdsSpec.optimal_selected_once {pts : List Vec} {sel : List Nat} (h : NdsSpec pts sel)
    (x : Vec) (hx : x ∈ pts) (hopt : ∀ q ∈ pts, dominates q x = false) :
    ∃ j ∈ sel, pts[j]? = some x ∧ ∀ j' ∈ sel, pts[j']? = some x → j' = j := by
  obtain ⟨j, hj, r, hr, hrx⟩ := h.cover x hx
  have hrmem : r ∈ pts := List.mem_of_getElem? hr
  have hd := hopt r hrmem
  unfold dominates at hd
  rw [hrx] at hd
  simp only [Bool.true_and, Bool.not_eq_false'] at hd
  have hrx' : r = x := wdVec_antisymm _ _ hrx hd
  subst hrx'
  refine ⟨j, hj, hr, ?_⟩
  intro j' hj' hr'
  apply Classical.byContradiction
  intro hne
  have := h.anti j' hj' j hj hne r r hr' hr
  rw [wdVec_refl] at this; exact absurd this (by simp)

/-! ### mask form -/

theorem ndsMask_length (pts : List Vec) (order : List Nat) :
    (ndsMask pts order).length = pts.length := by
  simp [ndsMask]

theorem ndsMask_getD (pts : List Vec) (order : List Nat) (i : Nat) (hi : i < pts.length) :
    (ndsMask pts order).getD i false = true ↔ i ∈ ndsIdx pts order := by
  simp [ndsMask, List.getD, hi]

end DH.Pareto
