import Proofs.DirectionMinMax

/-! Helper lemmas for C05, part 6: strict Pareto-monotonicity of Linear / Chebyshev /
AugChebyshev (a vector that is strictly better in every objective gets a strictly smaller
value), hence the proposal is never beaten in every objective. -/

namespace DH.Direction

open List (Forall₂)

/-- `0 ≤ a < b` componentwise -/
abbrev SLt (a b : Rat) : Prop := 0 ≤ a ∧ a < b

theorem forall₂_weaken {z z' : Vec} (h : Forall₂ SLt z z') :
    Forall₂ (fun a b => 0 ≤ a ∧ a ≤ b) z z' := by
  induction h with
  | nil => exact Forall₂.nil
  | cons hab _ ih => exact Forall₂.cons ⟨hab.1, le_of_lt hab.2⟩ ih

theorem pos_of_sLt {z z' : Vec} (h : Forall₂ SLt z z') : ∀ x ∈ z', 0 < x := by
  induction h with
  | nil => simp
  | cons hab _ ih =>
    intro x hx
    rcases List.mem_cons.1 hx with rfl | hx
    · exact lt_of_le_of_lt hab.1 hab.2
    · exact ih x hx

theorem dot_strict_mono {z z' : Vec} (h : Forall₂ SLt z z') (w : Vec) (hlen : w.length = z.length)
    (hw : ∀ x ∈ w, 0 ≤ x) (hw0 : ∃ x ∈ w, 0 < x) : dot w z < dot w z' := by
  induction h generalizing w with
  | nil =>
    cases w with
    | nil => simp at hw0
    | cons _ _ => simp at hlen
  | @cons a b l l' hab htl ih =>
    cases w with
    | nil => simp at hw0
    | cons c cs =>
      simp only [dot, List.zipWith_cons_cons, sumL]
      have hc := hw c (by simp)
      have hweak : dot cs l ≤ dot cs l' :=
        dot_mono (forall₂_le_of (forall₂_weaken htl)) cs (fun x hx => hw x (by simp [hx]))
      simp only [dot] at hweak
      obtain ⟨x, hx, hpos⟩ := hw0
      rcases List.mem_cons.1 hx with rfl | hx
      · have : x * a < x * b := mul_lt_mul_of_pos_left hab.2 hpos
        linarith
      · have := ih cs (by simpa using hlen) (fun y hy => hw y (by simp [hy])) ⟨x, hx, hpos⟩
        simp only [dot] at this
        have : c * a ≤ c * b := mul_le_mul_of_nonneg_left (le_of_lt hab.2) hc
        linarith

/-- per component of `w·|z|`: non-negative, weakly increasing, strictly where it is positive -/
abbrev SLe (a b : Rat) : Prop := 0 ≤ a ∧ a ≤ b ∧ (0 < a → a < b)

theorem mulAbs_strict {z z' : Vec} (h : Forall₂ SLt z z') (w : Vec) (hw : ∀ x ∈ w, 0 ≤ x) :
    Forall₂ SLe (mulAbs w z) (mulAbs w z') := by
  induction h generalizing w with
  | nil => cases w <;> simp [mulAbs]
  | @cons a b l l' hab _ ih =>
    cases w with
    | nil => simp [mulAbs]
    | cons c cs =>
      simp only [mulAbs, List.zipWith_cons_cons]
      refine Forall₂.cons ?_ (ih cs (fun x hx => hw x (by simp [hx])))
      have hc := hw c (by simp)
      have hb : 0 ≤ b := le_trans hab.1 (le_of_lt hab.2)
      rw [rabs_of_nonneg hab.1, rabs_of_nonneg hb]
      refine ⟨mul_nonneg hc hab.1, mul_le_mul_of_nonneg_left (le_of_lt hab.2) hc, ?_⟩
      intro hpos
      have hcpos : 0 < c := by
        rcases lt_or_eq_of_le hc with h | h
        · exact h
        · rw [← h] at hpos; simp at hpos
      exact mul_lt_mul_of_pos_left hab.2 hcpos

theorem exists_of_sLe {l l' : Vec} (h : Forall₂ SLe l l') {m : Rat} (hm : m ∈ l) :
    ∃ x' ∈ l', m ≤ x' ∧ (0 < m → m < x') := by
  induction h with
  | nil => simp at hm
  | cons hab _ ih =>
    rcases List.mem_cons.1 hm with rfl | hm
    · exact ⟨_, by simp, hab.2.1, hab.2.2⟩
    · obtain ⟨x', hx', h1, h2⟩ := ih hm
      exact ⟨x', by simp [hx'], h1, h2⟩

theorem sLe_weaken {l l' : Vec} (h : Forall₂ SLe l l') : Forall₂ (fun a b => 0 ≤ a ∧ a ≤ b) l l' := by
  induction h with
  | nil => exact Forall₂.nil
  | cons hab _ ih => exact Forall₂.cons ⟨hab.1, hab.2.1⟩ ih

theorem maxL_strict {z z' w : Vec} (h : Forall₂ SLt z z') (hlen : w.length = z.length)
    (hw : ∀ x ∈ w, 0 ≤ x) (hw0 : ∃ x ∈ w, 0 < x) {m m' : Rat}
    (hm : maxL (mulAbs w z) = some m) (hm' : maxL (mulAbs w z') = some m') : m < m' := by
  obtain ⟨h1, _⟩ := maxL_spec hm
  obtain ⟨_, h2'⟩ := maxL_spec hm'
  have hm0 : 0 ≤ m := mulAbs_nonneg hw m h1
  obtain ⟨x', hx', hle, hlt⟩ := exists_of_sLe (mulAbs_strict h w hw) h1
  rcases lt_or_eq_of_le hm0 with hpos | hzero
  · exact lt_of_lt_of_le (hlt hpos) (h2' x' hx')
  · have hlen' : w.length = z'.length := by rw [hlen]; exact forall₂_length h
    obtain ⟨y, hy, hy0⟩ := mulAbs_exists_pos hlen' hw0 (pos_of_sLt h)
    rw [← hzero]
    exact lt_of_lt_of_le hy0 (h2' y hy)

theorem core_strict_mono (s : Strategy) (hs : s.monotone = true) {w z z' : Vec}
    (hlen : w.length = z.length) (hw : ∀ x ∈ w, 0 ≤ x) (hw0 : ∃ x ∈ w, 0 < x)
    (h : Forall₂ SLt z z') {a b : Rat}
    (ha : core s w z = some a) (hb : core s w z' = some b) : a < b := by
  cases s with
  | linear =>
    simp only [core, Option.some.injEq] at ha hb; subst ha hb
    exact dot_strict_mono h w hlen hw hw0
  | chebyshev =>
    simp only [core] at ha hb
    exact maxL_strict h hlen hw hw0 ha hb
  | augChebyshev alpha =>
    simp only [core] at ha hb
    cases hm : maxL (mulAbs w z) with
    | none => simp [hm] at ha
    | some m =>
      cases hm' : maxL (mulAbs w z') with
      | none => simp [hm'] at hb
      | some m' =>
        simp only [hm, hm', Option.map_some, Option.some.injEq] at ha hb; subst ha hb
        have h1 := maxL_strict h hlen hw hw0 hm hm'
        have h2 := norm1_mono (sLe_weaken (mulAbs_strict h w hw))
        have h3 := rabs_nonneg alpha
        nlinarith
  | pbi _ => simp [Strategy.monotone] at hs
  | quadratic _ => simp [Strategy.monotone] at hs

theorem vsub_strict {u y y' : Vec} (h1 : Forall₂ (· ≤ ·) u y) (h2 : Forall₂ (· < ·) y y') :
    Forall₂ SLt (vsub y u) (vsub y' u) := by
  induction h1 generalizing y' with
  | nil => cases h2; simp [vsub]
  | cons hab _ ih =>
    cases h2 with
    | cons hbc htl =>
      simp only [vsub, List.zipWith_cons_cons]
      exact Forall₂.cons ⟨by linarith, by linarith⟩ (ih htl)

theorem scalarize_strict_mono (s : Strategy) (hs : s.monotone = true) {w u y y' : Vec}
    (hw : ∀ x ∈ w, 0 ≤ x) (hw0 : ∃ x ∈ w, 0 < x)
    (hu : Forall₂ (· ≤ ·) u y) (hy : Forall₂ (· < ·) y y') {a b : Rat}
    (ha : scalarize s w u y = some a) (hb : scalarize s w u y' = some b) : a < b := by
  unfold scalarize at ha hb
  split at ha
  · simp at ha
  · rename_i hl
    split at hb
    · simp at hb
    · have hl' := not_or.mp hl
      have e1 : w.length = y.length := not_not.mp hl'.1
      have e2 : u.length = y.length := not_not.mp hl'.2
      have hlen : w.length = (vsub y u).length := by simp [vsub, e1, e2]
      exact core_strict_mono s hs hlen hw hw0 (vsub_strict hu hy) ha hb

/-- strict version of `RowMono`: a told row that is strictly smaller in every column stays so -/
def RowStrictMono (raw scaled : List Vec) : Prop :=
  ∀ (i j : Nat) (ri rj si sj : Vec), raw[i]? = some ri → raw[j]? = some rj → scaled[i]? = some si →
    scaled[j]? = some sj → Forall₂ (· < ·) ri rj → Forall₂ (· < ·) si sj

theorem affRow_strict {sc : Vec} (hsc : ∀ x ∈ sc, 0 < x) (off : Vec) {r r' : Vec}
    (h : Forall₂ (· < ·) r r') : Forall₂ (· < ·) (affRow sc off r) (affRow sc off r') := by
  induction h generalizing sc off with
  | nil => simp [affRow]
  | cons hab _ ih =>
    cases sc with
    | nil => simp [affRow]
    | cons s ss =>
      cases off with
      | nil => simp [affRow]
      | cons o os =>
        simp only [affRow, List.zipWith_cons_cons]
        have hs : 0 < s := hsc s (by simp)
        refine Forall₂.cons (by nlinarith) ?_
        exact ih (fun x hx => hsc x (by simp [hx])) os

theorem rowStrictMono_identity (told : List Vec) : RowStrictMono told told := by
  intro i j ri rj si sj h1 h2 h3 h4 h
  rw [h1] at h3; rw [h2] at h4
  simp only [Option.some.injEq] at h3 h4; subst h3 h4; exact h

theorem rowStrictMono_minmax {told scaled : List Vec} (h : scaleMinMax told = some scaled) :
    RowStrictMono told scaled := by
  obtain ⟨sc, off, hsc, rfl⟩ := scaleMinMax_affine h
  intro i j ri rj si sj h1 h2 h3 h4 hlt
  rw [List.getElem?_map, h1] at h3
  rw [List.getElem?_map, h2] at h4
  simp only [Option.map_some, Option.some.injEq] at h3 h4; subst h3 h4
  exact affRow_strict hsc off hlt

theorem targets_strict_mono (s : Strategy) (hs : s.monotone = true) (w : Vec) (hw : ∀ x ∈ w, 0 ≤ x)
    (hw0 : ∃ x ∈ w, 0 < x) (scaled : List Vec) (T : Vec) (hT : targetsOf s w scaled = some T)
    (i j : Nat) (si sj : Vec) (a b : Rat) (hi : scaled[i]? = some si) (hj : scaled[j]? = some sj)
    (ha : T[i]? = some a) (hb : T[j]? = some b) (hlt : Forall₂ (· < ·) si sj) : a < b := by
  unfold targetsOf at hT
  cases hu : colMin scaled with
  | none => simp [hu] at hT
  | some u =>
    simp only [hu] at hT
    have hlen : ∀ r ∈ scaled, r.length = w.length := by
      intro r hr
      rcases List.mem_iff_getElem?.1 hr with ⟨k, hk⟩
      obtain ⟨y, hy, _⟩ := mapOpt_getElem? hT k r hk
      unfold scalarize at hy
      split at hy
      · simp at hy
      · rename_i h; exact (not_not.mp (not_or.mp h).1).symm
    obtain ⟨_, hule⟩ := colMin_le hu w.length hlen
    obtain ⟨a', ha1, ha2⟩ := mapOpt_getElem? hT i si hi
    obtain ⟨b', hb1, hb2⟩ := mapOpt_getElem? hT j sj hj
    rw [ha] at ha2; rw [hb] at hb2
    simp only [Option.some.injEq] at ha2 hb2; subst ha2 hb2
    exact scalarize_strict_mono s hs hw hw0 (hule si (List.mem_of_getElem? hi)) hlt ha1 hb1

end DH.Direction
