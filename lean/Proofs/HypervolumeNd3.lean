import Proofs.HypervolumeNd2

/-! The nested dimension sweep: `settle`, the re-insertion loop and `levelN` satisfy the level
specification, given the specification of the level below. -/

namespace DH.Hypervolume
open DH.Pareto (Vec wdVec)

theorem frame_single {d : Nat} {K : List Nat} {st st' : St} {q : Nat} (hq : q ∈ K)
    (hlen : st'.nodes.length = st.nodes.length) (hb : st'.bounds = st.bounds)
    (ho : ∀ x, x ≠ q → st'.node x = st.node x) (hn : NodeFrame d (st.node q) (st'.node q)) :
    Frame d K st st' := by
  refine ⟨hlen, by rw [hb], fun x hx => ho x (fun h => hx (h ▸ hq)), fun x => ?_, fun j _ => by rw [hb]⟩
  by_cases hxq : x = q
  · subst hxq; exact hn
  · rw [ho x hxq]; exact NodeFrame.refl _ _

theorem nodeFrame_of_WF {R : Run} {st st' : St} (hW : WF R st) (hW' : WF R st') {q d : Nat}
    (hq : q < R.rel.length)
    (hhi : ∀ j, d < j → (st'.node q).area.getD j 0 = (st.node q).area.getD j 0 ∧
      (st'.node q).volume.getD j 0 = (st.node q).volume.getD j 0)
    (hign : (st'.node q).ignore = (st.node q).ignore ∨
      ((st.node q).ignore ≤ d ∧ (st'.node q).ignore ≤ d)) :
    NodeFrame d (st.node q) (st'.node q) := by
  refine ⟨by rw [hW'.cargo, hW.cargo], by rw [(hW'.alen q hq).1, (hW.alen q hq).1],
    by rw [(hW'.alen q hq).2, (hW.alen q hq).2], hhi, ?_, ?_⟩
  · intro h
    rcases hign with h' | ⟨h', _⟩
    · exact h'
    · omega
  · intro h
    rcases hign with h' | ⟨_, h'⟩
    · rw [h']; exact h
    · exact h'

theorem sentinel_area (n d : Nat) : (sentinelNode n).area.getD d 0 = 0 := by
  simp only [sentinelNode, List.getD_eq_getElem?_getD]
  by_cases h : d < n
  · simp [List.getElem?_replicate, h]
  · simp [List.getElem?_replicate, h]

/-- **`settle` in general**: the node `q` that has just been linked (the linked ids are
`K0 ++ [q]`, in the order of list `d`) gets the exact cross-section volume of the linked ids as
`area[d]` — whether it is recomputed by the level below or copied from the predecessor because of
an `ignore` flag — unless `q` lies on the reference boundary in coordinate `d` (then a lower bound:
its slab has width zero); a flag that is set is justified; the caches of the lower levels stay
valid. -/
theorem settle_general {R : Run} (hR : R.OK) {d : Nat} (hd2 : 2 ≤ d) (hdm : d < R.m)
    (rec : List Nat → St → Rat × St) (hrec : Spec R (d - 1) rec)
    (K0 : List Nat) (q : Nat) (prev : Option Nat) (hvol : Rat) (st : St)
    (hKnd : (K0 ++ [q]).Nodup) (hKlt : ∀ i ∈ K0 ++ [q], i < R.rel.length)
    (hW : WF R st) (hC : ∀ k, 2 ≤ k → k < d → Cache R k (K0 ++ [q]) st) (hF : AllFI R (K0 ++ [q]) st)
    (hbefore : ∀ r ∈ K0, Before (R.orders.getD d []) r q)
    (hzq : ∀ q' ∈ K0, zc R.rel d q' ≤ zc R.rel d q)
    (hprev : (prev = none ∧ K0 = []) ∨
      (∃ q', prev = some q' ∧ q' ∈ K0 ∧ (st.node q').area.getD d 0 ≤ Vk R.rel (d - 1) K0 ∧
        (zc R.rel d q' < 0 → (st.node q').area.getD d 0 = Vk R.rel (d - 1) K0))) :
    WF R (settle d rec q prev (K0 ++ [q]) hvol st) ∧
    (∀ k, 2 ≤ k → k < d → Cache R k (K0 ++ [q]) (settle d rec q prev (K0 ++ [q]) hvol st)) ∧
    AllFI R (K0 ++ [q]) (settle d rec q prev (K0 ++ [q]) hvol st) ∧
    (((settle d rec q prev (K0 ++ [q]) hvol st).node q).area.getD d 0 ≤ Vk R.rel (d - 1) (K0 ++ [q]) ∧
     (zc R.rel d q < 0 →
      ((settle d rec q prev (K0 ++ [q]) hvol st).node q).area.getD d 0 = Vk R.rel (d - 1) (K0 ++ [q]))) ∧
    ((settle d rec q prev (K0 ++ [q]) hvol st).node q).volume.getD d 0 = hvol ∧
    Frame d (K0 ++ [q]) st (settle d rec q prev (K0 ++ [q]) hvol st) ∧
    (∀ x, x ≠ q → NodeFrame (d - 1) (st.node x) ((settle d rec q prev (K0 ++ [q]) hvol st).node x)) ∧
    (settle d rec q prev (K0 ++ [q]) hvol st).bounds.getD d 0 = st.bounds.getD d 0 := by
  have hq : q < R.rel.length := hKlt q (by simp)
  have hqK : q ∈ K0 ++ [q] := by simp
  have hqK0 : q ∉ K0 := by
    have := List.nodup_append.mp hKnd
    intro h; exact this.2.2 q h q (by simp) rfl
  have hd1m : d - 1 < R.m := by omega
  -- the value the code reads from the predecessor (0 from the sentinel), in any state that agrees
  -- with `st` on the other nodes' `area[d]`
  have hprevval : ∀ st' : St, (∀ x, x ≠ q → (st'.node x).area.getD d 0 = (st.node x).area.getD d 0) →
      (st'.nodeOpt prev).area.getD d 0 ≤ Vk R.rel (d - 1) K0 ∧
      (zc R.rel d q < 0 → (st'.nodeOpt prev).area.getD d 0 = Vk R.rel (d - 1) K0) := by
    intro st' hsame
    rcases hprev with ⟨hp, hK0⟩ | ⟨q', hp, hq'K0, hq'le, hq'eq⟩
    · subst hp; subst hK0
      show (sentinelNode _).area.getD d 0 ≤ _ ∧ (_ → (sentinelNode _).area.getD d 0 = _)
      rw [sentinel_area, Vk_nil]; exact ⟨le_refl _, fun _ => rfl⟩
    · subst hp
      have hq'q : q' ≠ q := fun h => hqK0 (h ▸ hq'K0)
      show (st'.node q').area.getD d 0 ≤ _ ∧ (_ → (st'.node q').area.getD d 0 = _)
      rw [hsame q' hq'q]
      exact ⟨hq'le, fun hz => hq'eq (lt_of_le_of_lt (hzq q' hq'K0) hz)⟩
  -- step 1: volume
  obtain ⟨hW1, hb1, ho1, ha1, hi1, hv1, hvo1⟩ := setVolume_facts hW hq d hdm hvol
  have hnode1 : ∀ x, (setVolume d q hvol st).node x = st.node x ∨ x = q := by
    intro x; by_cases hx : x = q
    · exact Or.inr hx
    · exact Or.inl (ho1 x hx)
  have harea1 : ∀ x, ((setVolume d q hvol st).node x).area = (st.node x).area := by
    intro x; rcases hnode1 x with h | rfl
    · rw [h]
    · exact ha1
  have hign1 : ∀ x, ((setVolume d q hvol st).node x).ignore = (st.node x).ignore := by
    intro x; rcases hnode1 x with h | rfl
    · rw [h]
    · exact hi1
  have hvolne1 : ∀ x j, j ≠ d → ((setVolume d q hvol st).node x).volume.getD j 0 = (st.node x).volume.getD j 0 := by
    intro x j hj; rcases hnode1 x with h | rfl
    · rw [h]
    · exact hvo1 j hj
  have hC1 : ∀ k, 2 ≤ k → k < d → Cache R k (K0 ++ [q]) (setVolume d q hvol st) := by
    intro k hk2 hkd
    exact (hC k hk2 hkd).congr (fun x => ⟨by rw [harea1 x], hvolne1 x k (by omega)⟩) (by rw [hb1])
  have hF1 : AllFI R (K0 ++ [q]) (setVolume d q hvol st) := fun x hx => (hF x hx).congr (hign1 x)
  have hnf1 : NodeFrame d (st.node q) ((setVolume d q hvol st).node q) :=
    nodeFrame_of_WF hW hW1 hq (fun j hj => ⟨by rw [ha1], hvo1 j (by omega)⟩) (Or.inl hi1)
  have hFr1 : Frame d (K0 ++ [q]) st (setVolume d q hvol st) :=
    frame_single hqK (by rw [hW1.len, hW.len]) hb1 ho1 hnf1
  unfold settle
  by_cases hsc : d ≤ ((setVolume d q hvol st).node q).ignore
  · -- the ignore shortcut
    simp only [if_pos hsc]
    rw [hi1] at hsc
    have hJ := hF q hqK
    rcases hJ with h0 | ⟨hem, hjust⟩
    · omega
    -- q adds nothing in the coordinates < d, or lies on the boundary in coordinate d
    have hcase : Vk R.rel (d - 1) (K0 ++ [q]) = Vk R.rel (d - 1) K0 ∨ zc R.rel d q = 0 := by
      rcases hjust with ⟨r, hrK, hrq, hbef, hdom⟩ | ⟨i, hie, hzi⟩
      · have hrK0 : r ∈ K0 := by
          rcases List.mem_append.mp hrK with h | h
          · exact h
          · simp at h; exact absurd h hrq
        have hr : r < R.rel.length := hKlt r hrK
        have hdl := (dom_lower hR.toBase hr hq ((st.node q).ignore - d) (d - 1)
          (by omega) (by
            have : d - 1 + ((st.node q).ignore - d) = (st.node q).ignore - 1 := by omega
            rw [this]; exact hdom)).1
        exact Or.inl (Vk_snoc_dominated hrK0 hdl)
      · have hcl := hR.cls q i hq (by omega) hzi
        have hi2 : i ≤ 2 := by
          rcases hcl with h | h
          · exact h
          · omega
        by_cases hid : i < d
        · exact Or.inl (Vk_snoc_zero hR.toBase hd1m hq (by omega) hzi)
        · have : i = d := by omega
          subst this; exact Or.inr hzi
    obtain ⟨hvle, hveq⟩ := hprevval (setVolume d q hvol st) (fun x _ => by rw [harea1 x])
    generalize hvdef : ((setVolume d q hvol st).nodeOpt prev).area.getD d 0 = v at hvle hveq
    obtain ⟨hW2, hb2, ho2, hvs2, hi2, ha2, hao2⟩ := setArea_facts hW1 hq d hdm v
    have hnode2 : ∀ x, x ≠ q → (setArea d q v (setVolume d q hvol st)).node x = st.node x :=
      fun x hx => by rw [ho2 x hx, ho1 x hx]
    refine ⟨hW2, ?_, ?_, ⟨?_, ?_⟩, by rw [hvs2]; exact hv1, ?_, ?_, by rw [hb2, hb1]⟩
    · intro k hk2 hkd
      refine (hC1 k hk2 hkd).congr (fun x => ?_) (by rw [hb2])
      by_cases hx : x = q
      · subst hx; exact ⟨hao2 k (by omega), by rw [hvs2]⟩
      · rw [ho2 x hx]; exact ⟨rfl, rfl⟩
    · intro x hx
      refine (hF1 x hx).congr ?_
      by_cases hxq : x = q
      · subst hxq; exact hi2
      · rw [ho2 x hxq]
    · rw [ha2]; exact le_trans hvle (Vk_le_snoc _ _ _)
    · intro hz
      rw [ha2, hveq hz]
      rcases hcase with h | h
      · exact h.symm
      · rw [h] at hz; exact absurd hz (lt_irrefl _)
    · refine hFr1.trans (frame_single hqK (by rw [hW2.len, hW1.len]) hb2 ho2 ?_)
      exact nodeFrame_of_WF hW1 hW2 hq (fun j hj => ⟨hao2 j (by omega), by rw [hvs2]⟩) (Or.inl hi2)
    · intro x hx; rw [hnode2 x hx]; exact NodeFrame.refl _ _
  · -- the level below recomputes the cross-section
    simp only [if_neg hsc]
    have hne : K0 ++ [q] ≠ [] := by simp
    obtain ⟨hres, hW2, hC2, hF2, hFr2⟩ := hrec (K0 ++ [q]) (setVolume d q hvol st) hne hKnd hKlt hW1
      (fun k hk2 hk => hC1 k hk2 (by omega)) (fun x hx _ => hF1 x hx)
    generalize hrdef : rec (K0 ++ [q]) (setVolume d q hvol st) = r at hres hW2 hC2 hF2 hFr2
    obtain ⟨a, st2⟩ := r
    simp only at hres hW2 hC2 hF2 hFr2 ⊢
    subst hres
    have hd1 : d - 1 < d := by omega
    obtain ⟨hW3, hb3, ho3, hvs3, hi3, ha3, hao3⟩ := setArea_facts hW2 hq d hdm (Vk R.rel (d - 1) (K0 ++ [q]))
    have hq2v : (st2.node q).volume.getD d 0 = hvol := by
      rw [((hFr2.node q).hi d hd1).2]; exact hv1
    have hC3 : ∀ k, 2 ≤ k → k < d → Cache R k (K0 ++ [q]) (setArea d q (Vk R.rel (d - 1) (K0 ++ [q])) st2) := by
      intro k hk2 hkd
      refine (hC2 k hk2 (by omega)).congr (fun x => ?_) (by rw [hb3])
      by_cases hx : x = q
      · subst hx; exact ⟨hao3 k (by omega), by rw [hvs3]⟩
      · rw [ho3 x hx]; exact ⟨rfl, rfl⟩
    have hF3 : AllFI R (K0 ++ [q]) (setArea d q (Vk R.rel (d - 1) (K0 ++ [q])) st2) := by
      intro x hx
      refine (hF2 x hx).congr ?_
      by_cases hxq : x = q
      · subst hxq; exact hi3
      · rw [ho3 x hxq]
    have hnf3 : NodeFrame d (st2.node q) ((setArea d q (Vk R.rel (d - 1) (K0 ++ [q])) st2).node q) :=
      nodeFrame_of_WF hW2 hW3 hq (fun j hj => ⟨hao3 j (by omega), by rw [hvs3]⟩) (Or.inl hi3)
    have hFr3 : Frame d (K0 ++ [q]) st (setArea d q (Vk R.rel (d - 1) (K0 ++ [q])) st2) :=
      (hFr1.trans (hFr2.mono (by omega) (fun x hx => hx))).trans
        (frame_single hqK (by rw [hW3.len, hW2.len]) hb3 ho3 hnf3)
    have hoth3 : ∀ x, x ≠ q → NodeFrame (d - 1) (st.node x)
        ((setArea d q (Vk R.rel (d - 1) (K0 ++ [q])) st2).node x) := by
      intro x hx
      rw [ho3 x hx, ← ho1 x hx]; exact hFr2.node x
    have hbd3 : (setArea d q (Vk R.rel (d - 1) (K0 ++ [q])) st2).bounds.getD d 0 = st.bounds.getD d 0 := by
      rw [hb3, hFr2.bhi d hd1, hb1]
    have hsame3 : ∀ x, x ≠ q → ((setArea d q (Vk R.rel (d - 1) (K0 ++ [q])) st2).node x).area.getD d 0
        = (st.node x).area.getD d 0 := fun x hx => ((hoth3 x hx).hi d hd1).1
    split
    · -- the flag is set
      rename_i hle
      obtain ⟨hW4, hb4, ho4, hvs4, has4, hi4⟩ := setIgnore_facts hW3 hq d
      have hle' : Vk R.rel (d - 1) (K0 ++ [q]) ≤ Vk R.rel (d - 1) K0 :=
        le_trans hle (hprevval _ hsame3).1
      have hjust := exists_dom_of_Vk_le hR.toBase hd1m (fun i hi => hKlt i (by simp [hi])) hq hle'
      refine ⟨hW4, ?_, ?_, ⟨by rw [has4, ha3], fun _ => by rw [has4]; exact ha3⟩,
        by rw [hvs4, hvs3]; exact hq2v, ?_, ?_, by rw [hb4]; exact hbd3⟩
      · intro k hk2 hkd
        refine (hC3 k hk2 hkd).congr (fun x => ?_) (by rw [hb4])
        by_cases hx : x = q
        · subst hx; rw [has4, hvs4]; exact ⟨rfl, rfl⟩
        · rw [ho4 x hx]; exact ⟨rfl, rfl⟩
      · intro x hx
        by_cases hxq : x = q
        · subst hxq
          refine Or.inr ?_
          rw [hi4]
          refine ⟨hdm, ?_⟩
          rcases hjust with ⟨r, hrK0, hrdom⟩ | ⟨i, hi, hzi⟩
          · exact Or.inl ⟨r, by simp [hrK0], fun h => hqK0 (h ▸ hrK0), hbefore r hrK0, hrdom⟩
          · exact Or.inr ⟨i, by omega, hzi⟩
        · exact (hF3 x hx).congr (by rw [ho4 x hxq])
      · refine hFr3.trans (frame_single hqK (by rw [hW4.len, hW3.len]) hb4 ho4 ?_)
        refine nodeFrame_of_WF hW3 hW4 hq (fun j _ => ⟨by rw [has4], by rw [hvs4]⟩) (Or.inr ⟨?_, by rw [hi4]⟩)
        rw [hi3]
        have : (st2.node q).ignore ≤ d - 1 := by
          apply (hFr2.node q).ign_lo
          rw [hi1] at hsc ⊢; omega
        omega
      · intro x hx; rw [ho4 x hx]; exact hoth3 x hx
    · exact ⟨hW3, hC3, hF3, ⟨by rw [ha3], fun _ => ha3⟩, by rw [hvs3]; exact hq2v, hFr3, hoth3, hbd3⟩

/-- the nodes `D` of list `l` hold the level-`d` values: exact accumulated volume, and the exact
cross-section volume unless the node lies on the reference boundary in coordinate `d` (then a lower
bound) -/
def LvlVals (R : Run) (d : Nat) (l D : List Nat) (st : St) : Prop :=
  ∀ P x post, l = P ++ x :: post → x ∈ D →
    ((st.node x).area.getD d 0 ≤ Vk R.rel (d - 1) (P ++ [x]) ∧
     (zc R.rel d x < 0 → (st.node x).area.getD d 0 = Vk R.rel (d - 1) (P ++ [x]))) ∧
    (st.node x).volume.getD d 0 = volSum R.rel d (P ++ [x])

/-- justification of a flag of a node that is not linked below level `d` at the moment: the
dominating node is somewhere in list `d` -/
def JustL (R : Run) (d : Nat) (l : List Nat) (st : St) (x : Nat) : Prop :=
  (st.node x).ignore = 0 ∨
  (d ≤ (st.node x).ignore ∧ (st.node x).ignore < R.m ∧ ((∃ r ∈ l, r ≠ x ∧
    Before (R.orders.getD (st.node x).ignore []) r x ∧ Dom R (st.node x).ignore r x) ∨
    ZeroB R (st.node x).ignore x))

theorem frame_bounds {d : Nat} {S : List Nat} {st : St} (b : List Rat) (hb : b.length = st.bounds.length)
    (hhi : ∀ j, d < j → b.getD j 0 = st.bounds.getD j 0) : Frame d S st ({ st with bounds := b } : St) :=
  ⟨rfl, hb, fun x _ => node_bounds_irrel st b hb x,
   fun x => by rw [node_bounds_irrel st b hb x]; exact NodeFrame.refl _ _, hhi⟩

theorem WF.bounds {R : Run} {st : St} (h : WF R st) (b : List Rat) (hb : b.length = st.bounds.length)
    (hbnd : ∀ k, b.getD k 0 ≤ 0) : WF R ({ st with bounds := b } : St) :=
  ⟨h.len, by rw [← h.blen]; exact hb, fun i => by rw [node_bounds_irrel st b hb i]; exact h.cargo i,
   fun i hi => by rw [node_bounds_irrel st b hb i]; exact h.alen i hi, hbnd⟩

/-- facts about list `d` restricted to the linked ids that the loop lemmas use -/
structure ListD (R : Run) (d : Nat) (l : List Nat) : Prop where
  nodup : l.Nodup
  lt : ∀ i ∈ l, i < R.rel.length
  sorted : l.Pairwise (fun i j => zc R.rel d i ≤ zc R.rel d j)
  before_of : ∀ P x post, l = P ++ x :: post → ∀ r ∈ P, Before (R.orders.getD d []) r x
  of_before : ∀ r x, r ∈ l → x ∈ l → Before (R.orders.getD d []) r x → Before l r x

/-- **the re-insertion loop in general** -/
theorem reinsertLoop_general {R : Run} (hR : R.OK) {d : Nat} (hd2 : 2 ≤ d) (hdm : d < R.m)
    (rec : List Nat → St → Rat × St) (hrec : Spec R (d - 1) rec) (l : List Nat) (hl : ListD R d l) :
    ∀ (Rm K0 : List Nat) (q : Nat) (D : List Nat) (hvol : Rat) (st : St),
      l = K0 ++ [q] ++ Rm → (∀ x ∈ D, x ∈ K0 ++ [q]) →
      WF R st → (∀ k, 2 ≤ k → k < d → Cache R k (K0 ++ [q]) st) → AllFI R (K0 ++ [q]) st →
      ((st.node q).area.getD d 0 ≤ Vk R.rel (d - 1) (K0 ++ [q]) ∧
       (zc R.rel d q < 0 → (st.node q).area.getD d 0 = Vk R.rel (d - 1) (K0 ++ [q]))) →
      hvol = volSum R.rel d (K0 ++ [q]) →
      LvlVals R d l D st → (∀ x ∈ Rm, JustL R d l st x) →
      ∃ K0' q', l = K0' ++ [q'] ∧
        (reinsertLoop d rec Rm q (K0 ++ [q]) hvol st).1 = q' ∧
        (reinsertLoop d rec Rm q (K0 ++ [q]) hvol st).2.1 = volSum R.rel d l ∧
        (((reinsertLoop d rec Rm q (K0 ++ [q]) hvol st).2.2.node q').area.getD d 0 ≤ Vk R.rel (d - 1) l ∧
         (zc R.rel d q' < 0 →
          ((reinsertLoop d rec Rm q (K0 ++ [q]) hvol st).2.2.node q').area.getD d 0 = Vk R.rel (d - 1) l)) ∧
        WF R (reinsertLoop d rec Rm q (K0 ++ [q]) hvol st).2.2 ∧
        (∀ k, 2 ≤ k → k < d → Cache R k l (reinsertLoop d rec Rm q (K0 ++ [q]) hvol st).2.2) ∧
        AllFI R l (reinsertLoop d rec Rm q (K0 ++ [q]) hvol st).2.2 ∧
        Frame d l st (reinsertLoop d rec Rm q (K0 ++ [q]) hvol st).2.2 ∧
        LvlVals R d l (D ++ Rm) (reinsertLoop d rec Rm q (K0 ++ [q]) hvol st).2.2
  | [], K0, q, D, hvol, st, hlK, _, hW, hC, hF, hA, hV, hD, _ => by
    have hlK' : l = K0 ++ [q] := by simpa using hlK
    refine ⟨K0, q, hlK', rfl, ?_, ?_, hW, ?_, ?_, Frame.refl _ _ _, by simp only [reinsertLoop, List.append_nil]; exact hD⟩
    · simp only [reinsertLoop]; rw [hV, hlK']
    · simp only [reinsertLoop]; rw [hlK']; exact hA
    · simp only [reinsertLoop]; rw [hlK']; exact hC
    · simp only [reinsertLoop]; rw [hlK']; exact hF
  | p :: rest, K0, q, D, hvol, st, hlK, hDK, hW, hC, hF, hA, hV, hD, hJ => by
    have hlK' : l = (K0 ++ [q]) ++ p :: rest := by simpa using hlK
    have hp_l : p ∈ l := by rw [hlK']; simp
    have hq_l : q ∈ l := by rw [hlK']; simp
    have hp : p < R.rel.length := hl.lt p hp_l
    have hq : q < R.rel.length := hl.lt q hq_l
    have hKp_nd : ((K0 ++ [q]) ++ [p]).Nodup := by
      have := hl.nodup
      rw [hlK', show (K0 ++ [q]) ++ p :: rest = ((K0 ++ [q]) ++ [p]) ++ rest by simp] at this
      exact (List.nodup_append.mp this).1
    have hp_notK : p ∉ K0 ++ [q] := by
      have := List.nodup_append.mp hKp_nd
      intro h; exact this.2.2 p h p (by simp) rfl
    have hKp_lt : ∀ i ∈ (K0 ++ [q]) ++ [p], i < R.rel.length := by
      intro i hi; apply hl.lt; rw [hlK']
      simp only [List.mem_append, List.mem_cons, List.not_mem_nil, or_false] at hi ⊢; tauto
    -- list d is sorted: everything linked so far is not above p
    have hsortedKp : ∀ y ∈ K0 ++ [q], zc R.rel d y ≤ zc R.rel d p := by
      intro y hy
      have := hl.sorted
      rw [hlK'] at this
      exact (List.pairwise_append.mp this).2.2 y hy p (by simp)
    have hzp0 : zc R.rel d p ≤ 0 := (hR.inter p d hp hdm).2
    -- the new hvol
    have hvol' : hvol + (st.node q).area.getD d 0 * (co (st.node p).cargo d - co (st.node q).cargo d)
        = volSum R.rel d ((K0 ++ [q]) ++ [p]) := by
      rw [volSum_snoc, hV, hW.cargo p, hW.cargo q]
      show _ + _ * (zc R.rel d p - zc R.rel d q) = _ + _ * (zc R.rel d p - zc R.rel d q)
      by_cases hzq : zc R.rel d q < 0
      · rw [hA.2 hzq]
      · have hq0 : zc R.rel d q = 0 := le_antisymm (hR.inter q d hq hdm).2 (not_lt.mp hzq)
        have hp0 : zc R.rel d p = 0 := le_antisymm hzp0 (by rw [← hq0]; exact hsortedKp q (by simp))
        rw [hq0, hp0]; ring
    -- the bounds update
    let b := updBounds d (st.bounds.set d (co (st.node p).cargo d)) (st.node p).cargo
    have hbl : b.length = st.bounds.length := by simp [b, updBounds_length]
    have hnodeb : ∀ x, ({ st with bounds := b } : St).node x = st.node x := node_bounds_irrel st b hbl
    have hblow : ∀ k, k < d → b.getD k 0 ≤ st.bounds.getD k 0 ∧ b.getD k 0 ≤ zc R.rel k p := by
      intro k hk
      have h1 := updBounds_le d (st.bounds.set d (co (st.node p).cargo d)) (st.node p).cargo k hk
        (by rw [List.length_set, hW.blen]; omega)
      rw [getD_set_ne _ _ _ _ (by omega : d ≠ k)] at h1
      have hz : co (st.node p).cargo k = zc R.rel k p := by rw [hW.cargo p]; rfl
      exact ⟨h1.1, h1.2.trans (le_of_eq hz)⟩
    have hbhi : ∀ j, d < j → b.getD j 0 = st.bounds.getD j 0 := by
      intro j hj
      show (updBounds d _ _).getD j 0 = _
      rw [updBounds_getD_ge d _ _ j (by omega), getD_set_ne _ _ _ _ (by omega : d ≠ j)]
    have hbd : b.getD d 0 = zc R.rel d p := by
      show (updBounds d _ _).getD d 0 = _
      rw [updBounds_getD_ge d _ _ d (Nat.le_refl _), getD_set_self _ _ _ (by rw [hW.blen]; exact hdm), hW.cargo p]
      rfl
    have hbnd : ∀ k, b.getD k 0 ≤ 0 := by
      intro k
      rcases Nat.lt_trichotomy k d with hk | hk | hk
      · exact le_trans (hblow k hk).1 (hW.bnd k)
      · subst hk; rw [hbd]; exact hzp0
      · rw [hbhi k hk]; exact hW.bnd k
    have hWb := hW.bounds b hbl hbnd
    have hCb : ∀ k, 2 ≤ k → k < d → Cache R k ((K0 ++ [q]) ++ [p]) ({ st with bounds := b } : St) := by
      intro k hk2 hkd
      refine Cache.restrict hR.toBase (by omega) (hC k hk2 hkd) ?_ (fun x => by rw [hnodeb x]; exact ⟨rfl, rfl⟩)
        (hblow k hkd).1
      intro y hy
      have hyp : y ≠ p := by
        rintro rfl
        exact absurd hy (not_lt.mpr (hblow k hkd).2)
      simp only [List.mem_append, List.mem_cons, List.not_mem_nil, or_false]
      tauto
    have hFb : AllFI R ((K0 ++ [q]) ++ [p]) ({ st with bounds := b } : St) := by
      intro x hx
      rcases List.mem_append.mp hx with hx | hx
      · exact ((hF x hx).mono (fun y hy => List.mem_append.mpr (Or.inl hy))).congr (by rw [hnodeb x])
      · simp only [List.mem_singleton] at hx; subst hx
        refine Just.congr (st := st) (by rw [hnodeb x]) ?_
        rcases hJ x (by simp) with h0 | ⟨hde, hem, hjust⟩
        · exact Or.inl h0
        rcases hjust with ⟨r, hrl, hrx, hbef, hdom⟩ | hz
        · refine Or.inr ⟨hem, Or.inl ⟨r, ?_, hrx, hbef, hdom⟩⟩
          -- the dominating node is in front of x in list d, hence already linked
          have hr : r < R.rel.length := hl.lt r hrl
          have hdl := dom_lower hR.toBase hr hp ((st.node x).ignore - 1 - (d - 1)) (d - 1) (by omega) (by
            have : d - 1 + ((st.node x).ignore - 1 - (d - 1)) = (st.node x).ignore - 1 := by omega
            rw [this]; exact hdom)
          have hbd' : Before (R.orders.getD d []) r x :=
            before_lower hR.ord ((st.node x).ignore - d) d (st.node x).ignore hem (by omega) hbef
              (fun k hk1 hk2 => hdl.2 k (by omega) (by omega))
          have hbl' := hl.of_before r x hrl hp_l hbd'
          exact Before.mem_prefix hl.nodup
            (show l = ((K0 ++ [q]) ++ [x]) ++ rest by rw [hlK']; simp) hbl' (by simp)
        · exact Or.inr ⟨hem, Or.inr hz⟩
    have hbef_p : ∀ r ∈ K0 ++ [q], Before (R.orders.getD d []) r p :=
      hl.before_of (K0 ++ [q]) p rest hlK'
    obtain ⟨hW2, hC2, hF2, hA2, hV2, hFr2, hoth2, hbd2⟩ :=
      settle_general hR hd2 hdm rec hrec (K0 ++ [q]) p (some q)
        (hvol + (st.node q).area.getD d 0 * (co (st.node p).cargo d - co (st.node q).cargo d))
        ({ st with bounds := b } : St) hKp_nd hKp_lt hWb hCb hFb hbef_p hsortedKp
        (Or.inr ⟨q, rfl, by simp, by rw [hnodeb q]; exact hA⟩)
    -- apply the induction hypothesis
    have hlK2 : l = (K0 ++ [q]) ++ [p] ++ rest := by rw [hlK']; simp
    have ih := reinsertLoop_general hR hd2 hdm rec hrec l hl rest (K0 ++ [q]) p (D ++ [p])
      (hvol + (st.node q).area.getD d 0 * (co (st.node p).cargo d - co (st.node q).cargo d))
      (settle d rec p (some q) ((K0 ++ [q]) ++ [p])
        (hvol + (st.node q).area.getD d 0 * (co (st.node p).cargo d - co (st.node q).cargo d))
        ({ st with bounds := b } : St))
      hlK2
      (by intro x hx
          rcases List.mem_append.mp hx with hx | hx
          · exact List.mem_append.mpr (Or.inl (hDK x hx))
          · exact List.mem_append.mpr (Or.inr hx))
      hW2 hC2 hF2 hA2 hvol'
      (by -- level-d values of the done nodes
          intro P x post hsplit hx
          rcases List.mem_append.mp hx with hx | hx
          · have hxp : x ≠ p := fun h => hp_notK (h ▸ hDK x hx)
            have hnf := hoth2 x hxp
            rw [hnodeb x] at hnf
            rw [(hnf.hi d (by omega)).1, (hnf.hi d (by omega)).2]
            exact hD P x post hsplit hx
          · simp only [List.mem_singleton] at hx; subst hx
            have := (nodup_split_unique hl.nodup hsplit hlK').1
            subst this
            exact ⟨hA2, by rw [hV2, hvol']⟩)
      (by -- the nodes still waiting keep their flags
          intro x hx
          have hxnot : x ∉ (K0 ++ [q]) ++ [p] := by
            have := hl.nodup
            rw [hlK2] at this
            intro h; exact (List.nodup_append.mp this).2.2 x h x hx rfl
          have hsame : (settle d rec p (some q) ((K0 ++ [q]) ++ [p])
              (hvol + (st.node q).area.getD d 0 * (co (st.node p).cargo d - co (st.node q).cargo d))
              ({ st with bounds := b } : St)).node x = st.node x := by
            rw [hFr2.out x hxnot, hnodeb x]
          have := hJ x (by simp [hx])
          unfold JustL at this ⊢
          rw [hsame]; exact this)
    obtain ⟨K0', q', e1, e2, e3, e4, e5, e6, e7, e8, e9⟩ := ih
    refine ⟨K0', q', e1, ?_, ?_, ?_, ?_, ?_, ?_, ?_, ?_⟩
    · simp only [reinsertLoop]; exact e2
    · simp only [reinsertLoop]; exact e3
    · simp only [reinsertLoop]; exact e4
    · simp only [reinsertLoop]; exact e5
    · simp only [reinsertLoop]; exact e6
    · simp only [reinsertLoop]; exact e7
    · simp only [reinsertLoop]
      refine ((frame_bounds (S := l) b hbl hbhi).trans (hFr2.mono (Nat.le_refl _) ?_)).trans e8
      intro x hx; rw [hlK2]; exact List.mem_append.mpr (Or.inl hx)
    · simp only [reinsertLoop]
      have : D ++ p :: rest = (D ++ [p]) ++ rest := by simp
      rw [this]; exact e9

/-! ### the area initialisation (after fix 9767936) writes the exact single-node values -/

/-- `Π_{i<t} (-cargo[i])` -/
def prodNeg (c : Vec) : Nat → Rat
  | 0 => 1
  | t + 1 => prodNeg c t * -(co c t)

theorem runProd_getD (c : Vec) : ∀ (fuel i t : Nat), t < fuel →
    (runProd c i fuel (prodNeg c i)).getD t 0 = prodNeg c (i + t + 1)
  | 0, _, _, h => absurd h (Nat.not_lt_zero _)
  | fuel + 1, i, 0, _ => by simp [runProd, prodNeg]
  | fuel + 1, i, t + 1, h => by
    have := runProd_getD c fuel (i + 1) t (by omega)
    simp only [runProd, List.getD_cons_succ]
    rw [show prodNeg c i * -(co c i) = prodNeg c (i + 1) from rfl, this]
    congr 1; omega

theorem areaInit_len (d : Nat) (area : List Rat) (c : Vec) (h : d < area.length) :
    (areaInit true d area c).length = area.length := by
  simp only [areaInit, if_true, List.length_append, List.length_take, List.length_set, runProd_length,
    List.length_drop]
  omega

theorem areaInit_hi (d : Nat) (area : List Rat) (c : Vec) (h : d < area.length) (j : Nat) (hj : d < j) :
    (areaInit true d area c).getD j 0 = area.getD j 0 := by
  simp only [areaInit, if_true, List.getD_eq_getElem?_getD]
  rw [List.getElem?_append_right (by simp [runProd_length]; omega)]
  simp only [List.length_append, List.length_take, List.length_set, runProd_length, List.getElem?_drop]
  have : d + 1 + (j - (min 1 area.length + d)) = j := by omega
  rw [this, List.getElem?_set_ne (by omega)]

theorem areaInit_mid (d : Nat) (area : List Rat) (c : Vec) (h : d < area.length) (k : Nat) (hk1 : 1 ≤ k)
    (hkd : k ≤ d) : (areaInit true d area c).getD k 0 = prodNeg c k := by
  have h1 : min 1 area.length = 1 := by omega
  simp only [areaInit, if_true, List.getD_eq_getElem?_getD]
  rw [List.append_assoc, List.getElem?_append_right (by simp only [List.length_take, List.length_set, h1]; omega)]
  simp only [List.length_take, List.length_set, h1]
  rw [List.getElem?_append_left (by rw [runProd_length]; omega)]
  have := runProd_getD c d 0 (k - 1) (by omega)
  have e : 0 + (k - 1) + 1 = k := by omega
  rw [e] at this
  simp only [prodNeg, List.getD_eq_getElem?_getD] at this
  exact this

theorem boxVol_rvec {R : Run} (hR : R.Base) {q : Nat} (hq : q < R.rel.length) : ∀ (j : Nat), j < R.m →
    boxVol (List.replicate (j + 1) 0) (rvec R.rel j q) = prodNeg (R.rel.getD q []) (j + 1)
  | 0, hj => by
    rw [rvec_zero hR.rect hq hj]
    simp [boxVol, prodNeg, zc]
  | j + 1, hj => by
    rw [rvec_succ hR.rect hq hj, List.replicate_succ]
    simp only [boxVol, prodNeg]
    rw [boxVol_rvec hR hq j (by omega)]
    simp only [prodNeg, zc]; ring

/-- the cross-section volume of a single interior node is the running product -/
theorem Vk_single {R : Run} (hR : R.Base) {q : Nat} (hq : q < R.rel.length) {j : Nat} (hj : j < R.m) :
    Vk R.rel j [q] = prodNeg (R.rel.getD q []) (j + 1) := by
  unfold Vk
  rw [List.map_cons, List.map_nil, hv_single _ _ (wdVec_rvec hR hq j hj), boxVol_rvec hR hq j hj]

theorem Before.of_sublist {l' L : List Nat} (hs : l'.Sublist L) {a b : Nat} (h : Before l' a b) :
    Before L a b := by
  induction hs with
  | slnil => obtain ⟨l1, l2, he, _⟩ := h; cases l1 <;> simp at he
  | cons y _ ih => exact (ih h).cons y
  | cons_cons y hs' ih =>
    rcases before_cons_iff.mp h with ⟨rfl, hb⟩ | h' | hf
    · exact before_cons_self (hs'.subset hb)
    · exact (ih h').cons y
    · exact absurd hf id

theorem resetIgnore_out (d : Nat) : ∀ (l : List Nat) (st : St) (x : Nat), x ∉ l →
    (resetIgnore d st l).node x = st.node x
  | [], _, _, _ => rfl
  | i :: l, st, x, hx => by
    rw [resetIgnore_cons, resetIgnore_out d l _ x (fun h => hx (by simp [h]))]
    unfold resetStep
    split
    · exact node_setNode_ne st i x _ (fun h => hx (by simp [h]))
    · rfl

theorem listD_lk {R : Run} (hR : R.Base) {d : Nat} (hd : d < R.m) {S : List Nat}
    (hS : ∀ i ∈ S, i < R.rel.length) : ListD R d (R.lk d S) := by
  refine ⟨nodup_lk hR hd S, fun i hi => hS i ((mem_lk hR hd hS).mp hi), sorted_lk hR hd S, ?_, ?_⟩
  · intro P x post hl r hr
    have : Before (R.lk d S) r x := ⟨P, post, hl, hr⟩
    exact this.of_sublist List.filter_sublist
  · intro r x hr hx hb
    exact hb.filter _ (List.mem_filter.mp hr).2 (List.mem_filter.mp hx).2

theorem Vk_congr (rel : List Vec) (k : Nat) {S S' : List Nat} (h : ∀ x, x ∈ S ↔ x ∈ S') :
    Vk rel k S = Vk rel k S' := by
  unfold Vk
  apply hv_set_ext
  intro p
  simp only [List.mem_map]
  constructor
  · rintro ⟨i, hi, rfl⟩; exact ⟨i, (h i).mp hi, rfl⟩
  · rintro ⟨i, hi, rfl⟩; exact ⟨i, (h i).mpr hi, rfl⟩

end DH.Hypervolume
