import Model.Direction
import Mathlib.Tactic.Ring
import Mathlib.Tactic.Linarith
import Mathlib.Tactic.Positivity
import Mathlib.Tactic.FieldSimp

/-! Helper lemmas for C05, part 1: scalars, `maxL`, `chooseNext`, `mapOpt`, sums. -/

namespace DH.Direction

/-! ### scalars -/

theorem rabs_nonneg (x : Rat) : 0 ≤ rabs x := by
  unfold rabs; split <;> linarith

theorem rabs_of_nonneg {x : Rat} (h : 0 ≤ x) : rabs x = x := by
  unfold rabs; simp [h]

theorem rabs_mul_of_nonneg {c : Rat} (x : Rat) (h : 0 ≤ c) : rabs (c * x) = c * rabs x := by
  unfold rabs
  by_cases hx : 0 ≤ x
  · have : 0 ≤ c * x := mul_nonneg h hx
    simp [hx, this]
  · have hx' : x < 0 := not_le.mp hx
    by_cases hc : c = 0
    · subst hc; simp
    · have hc' : 0 < c := lt_of_le_of_ne h (Ne.symm hc)
      have : ¬ 0 ≤ c * x := by
        intro h0; nlinarith
      simp [hx, this]

theorem rabs_rabs (x : Rat) : rabs (rabs x) = rabs x := rabs_of_nonneg (rabs_nonneg x)

theorem le_rmax_left (a b : Rat) : a ≤ rmax a b := by unfold rmax; split <;> linarith
theorem le_rmax_right (a b : Rat) : b ≤ rmax a b := by unfold rmax; split <;> linarith
theorem rmax_eq_or (a b : Rat) : rmax a b = a ∨ rmax a b = b := by unfold rmax; split <;> simp
theorem rmin_le_left (a b : Rat) : rmin a b ≤ a := by unfold rmin; split <;> linarith
theorem rmin_le_right (a b : Rat) : rmin a b ≤ b := by unfold rmin; split <;> linarith
theorem rmin_eq_or (a b : Rat) : rmin a b = a ∨ rmin a b = b := by unfold rmin; split <;> simp

theorem rmin_add (a b c : Rat) : rmin (a + c) (b + c) = rmin a b + c := by
  unfold rmin
  by_cases h : b ≤ a
  · have : b + c ≤ a + c := by linarith
    simp [h, this]
  · have : ¬ b + c ≤ a + c := by intro h'; apply h; linarith
    simp [h, this]

theorem rmin_mul_of_pos {c : Rat} (hc : 0 < c) (a b : Rat) : rmin (c * a) (c * b) = c * rmin a b := by
  unfold rmin
  by_cases h : b ≤ a
  · have : c * b ≤ c * a := by nlinarith
    simp [h, this]
  · have : ¬ c * b ≤ c * a := by intro h'; apply h; nlinarith
    simp [h, this]

/-! ### sums -/

theorem sumL_nonneg (l : Vec) (h : ∀ x ∈ l, 0 ≤ x) : 0 ≤ sumL l := by
  induction l with
  | nil => simp [sumL]
  | cons a as ih =>
    simp only [sumL]
    have h1 := h a (by simp)
    have h2 := ih (fun x hx => h x (by simp [hx]))
    linarith

theorem sumL_smul (c : Rat) (l : Vec) : sumL (smul c l) = c * sumL l := by
  induction l with
  | nil => simp [sumL, smul]
  | cons a as ih =>
    simp only [smul, List.map_cons, sumL] at ih ⊢
    rw [ih]; ring

theorem norm1_nonneg (l : Vec) : 0 ≤ norm1 l := by
  unfold norm1
  apply sumL_nonneg
  intro x hx
  rcases List.mem_map.1 hx with ⟨y, _, rfl⟩
  exact rabs_nonneg y

theorem norm1_smul {c : Rat} (hc : 0 ≤ c) (l : Vec) : norm1 (smul c l) = c * norm1 l := by
  induction l with
  | nil => simp [norm1, smul, sumL]
  | cons a as ih =>
    simp only [norm1, smul, List.map_cons, sumL] at ih ⊢
    rw [ih, rabs_mul_of_nonneg a hc]; ring

/-! ### `maxL` -/

theorem foldl_rmax_ge_init (l : Vec) (a : Rat) : a ≤ l.foldl rmax a := by
  induction l generalizing a with
  | nil => simp
  | cons x xs ih => exact le_trans (le_rmax_left a x) (ih (rmax a x))

theorem foldl_rmax_ge_mem (l : Vec) (a : Rat) (x : Rat) (hx : x ∈ l) : x ≤ l.foldl rmax a := by
  induction l generalizing a with
  | nil => simp at hx
  | cons y ys ih =>
    rcases List.mem_cons.1 hx with rfl | h
    · exact le_trans (le_rmax_right a x) (foldl_rmax_ge_init ys _)
    · exact ih _ h

theorem foldl_rmax_mem (l : Vec) (a : Rat) : l.foldl rmax a = a ∨ l.foldl rmax a ∈ l := by
  induction l generalizing a with
  | nil => simp
  | cons y ys ih =>
    simp only [List.foldl_cons, List.mem_cons]
    rcases ih (rmax a y) with h | h
    · rcases rmax_eq_or a y with h' | h'
      · left; rw [h, h']
      · right; left; rw [h, h']
    · right; right; exact h

theorem maxL_spec {l : Vec} {m : Rat} (h : maxL l = some m) : m ∈ l ∧ ∀ x ∈ l, x ≤ m := by
  cases l with
  | nil => simp [maxL] at h
  | cons a as =>
    simp only [maxL, Option.some.injEq] at h
    subst h
    refine ⟨?_, ?_⟩
    · rcases foldl_rmax_mem as a with h | h
      · rw [h]; simp
      · simp [h]
    · intro x hx
      rcases List.mem_cons.1 hx with rfl | hx
      · exact foldl_rmax_ge_init as _
      · exact foldl_rmax_ge_mem as a x hx

theorem maxL_of_spec {l : Vec} {m : Rat} (hm : m ∈ l) (hub : ∀ x ∈ l, x ≤ m) : maxL l = some m := by
  cases l with
  | nil => simp at hm
  | cons a as =>
    have h : maxL (a :: as) = some (as.foldl rmax a) := rfl
    obtain ⟨h1, h2⟩ := maxL_spec h
    rw [h]
    congr 1
    exact le_antisymm (hub _ h1) (h2 _ hm)

theorem maxL_isSome_of_ne_nil {l : Vec} (h : l ≠ []) : ∃ m, maxL l = some m := by
  cases l with
  | nil => exact absurd rfl h
  | cons a as => exact ⟨_, rfl⟩

theorem maxL_smul {c : Rat} (hc : 0 ≤ c) (l : Vec) :
    maxL (smul c l) = (maxL l).map (c * ·) := by
  cases hl : maxL l with
  | none =>
    cases l with
    | nil => simp [smul, maxL]
    | cons a as => simp [maxL] at hl
  | some m =>
    obtain ⟨h1, h2⟩ := maxL_spec hl
    simp only [Option.map_some]
    apply maxL_of_spec
    · exact List.mem_map.2 ⟨m, h1, rfl⟩
    · intro x hx
      rcases List.mem_map.1 hx with ⟨y, hy, rfl⟩
      exact mul_le_mul_of_nonneg_left (h2 y hy) hc

theorem exists_ge_of_forall₂ {l l' : Vec} (h : List.Forall₂ (· ≤ ·) l l') {m : Rat} (hm : m ∈ l) :
    ∃ x' ∈ l', m ≤ x' := by
  induction h with
  | nil => simp at hm
  | cons hab _ ih =>
    rcases List.mem_cons.1 hm with rfl | hm
    · exact ⟨_, by simp, hab⟩
    · obtain ⟨x', hx', hle⟩ := ih hm
      exact ⟨x', by simp [hx'], hle⟩

theorem maxL_mono {l l' : Vec} (h : List.Forall₂ (· ≤ ·) l l') {m m' : Rat}
    (hm : maxL l = some m) (hm' : maxL l' = some m') : m ≤ m' := by
  obtain ⟨h1, _⟩ := maxL_spec hm
  obtain ⟨_, h2'⟩ := maxL_spec hm'
  obtain ⟨x', hx', hle⟩ := exists_ge_of_forall₂ h h1
  exact le_trans hle (h2' x' hx')

/-! ### `chooseNext` = first arg-min -/

theorem argminFrom_spec (l pre : Vec) (best : Rat) (bi i : Nat)
    (hbi : pre[bi]? = some best) (hmin : ∀ v ∈ pre, best ≤ v) (hi : i = pre.length) :
    ∃ m, (pre ++ l)[argminFrom best bi i l]? = some m ∧ ∀ v ∈ pre ++ l, m ≤ v := by
  induction l generalizing pre best bi i with
  | nil =>
    refine ⟨best, ?_, ?_⟩
    · simpa [argminFrom] using hbi
    · simpa using hmin
  | cons a as ih =>
    simp only [argminFrom]
    split
    · rename_i hlt
      have := ih (pre ++ [a]) a i (i + 1) (by subst hi; simp)
        (by
          intro v hv
          rcases List.mem_append.1 hv with hv | hv
          · exact le_trans (le_of_lt hlt) (hmin v hv)
          · simp at hv; subst hv; exact le_refl _)
        (by subst hi; simp)
      simpa using this
    · rename_i hnlt
      have hle : best ≤ a := not_lt.mp hnlt
      have := ih (pre ++ [a]) best bi (i + 1)
        (by
          have hlt : bi < pre.length := by
            rcases Nat.lt_or_ge bi pre.length with h | h
            · exact h
            · rw [List.getElem?_eq_none h] at hbi; simp at hbi
          rw [List.getElem?_append_left hlt]; exact hbi)
        (by
          intro v hv
          rcases List.mem_append.1 hv with hv | hv
          · exact hmin v hv
          · simp at hv; subst hv; exact hle)
        (by subst hi; simp)
      simpa using this

/-- `np.argmin`: the chosen index is valid and its value is a minimum -/
theorem chooseNext_spec {vals : Vec} {k : Nat} (h : chooseNext vals = some k) :
    ∃ m, vals[k]? = some m ∧ ∀ v ∈ vals, m ≤ v := by
  cases vals with
  | nil => simp [chooseNext] at h
  | cons a as =>
    simp only [chooseNext, Option.some.injEq] at h
    subst h
    have := argminFrom_spec as [a] a 0 1 (by simp) (by simp) (by simp)
    simpa using this

theorem chooseNext_isSome {vals : Vec} (h : vals ≠ []) : ∃ k, chooseNext vals = some k := by
  cases vals with
  | nil => exact absurd rfl h
  | cons a as => exact ⟨_, rfl⟩

theorem argminFrom_map {f : Rat → Rat} (hf : ∀ a b, a < b ↔ f a < f b) (l : Vec) (best : Rat) (bi i : Nat) :
    argminFrom (f best) bi i (l.map f) = argminFrom best bi i l := by
  induction l generalizing best bi i with
  | nil => rfl
  | cons a as ih =>
    simp only [List.map_cons, argminFrom]
    by_cases h : a < best
    · have h' : f a < f best := (hf a best).1 h
      simp only [h, h', if_true]; exact ih _ _ _
    · have h' : ¬ f a < f best := fun hh => h ((hf a best).2 hh)
      simp only [h, h', if_false]; exact ih _ _ _

/-- the arg-min does not change under a strictly increasing re-labelling of the values -/
theorem chooseNext_map {f : Rat → Rat} (hf : ∀ a b, a < b ↔ f a < f b) (l : Vec) :
    chooseNext (l.map f) = chooseNext l := by
  cases l with
  | nil => rfl
  | cons a as => simp only [List.map_cons, chooseNext, argminFrom_map hf]

/-! ### `mapOpt` -/

theorem mapOpt_length {α β : Type} {f : α → Option β} {l : List α} {r : List β}
    (h : mapOpt f l = some r) : r.length = l.length := by
  induction l generalizing r with
  | nil => simp [mapOpt] at h; subst h; rfl
  | cons a as ih =>
    simp only [mapOpt] at h
    split at h
    · rename_i b bs hb hbs
      simp only [Option.some.injEq] at h; subst h
      simp [ih hbs]
    · simp at h

theorem mapOpt_getElem? {α β : Type} {f : α → Option β} {l : List α} {r : List β}
    (h : mapOpt f l = some r) (i : Nat) (x : α) (hx : l[i]? = some x) :
    ∃ y, f x = some y ∧ r[i]? = some y := by
  induction l generalizing r i with
  | nil => simp at hx
  | cons a as ih =>
    simp only [mapOpt] at h
    split at h
    · rename_i b bs hb hbs
      simp only [Option.some.injEq] at h; subst h
      cases i with
      | zero => simp at hx; subst hx; exact ⟨b, hb, by simp⟩
      | succ i =>
        simp only [List.getElem?_cons_succ] at hx ⊢
        exact ih hbs i hx
    · simp at h

theorem mapOpt_getElem?_inv {α β : Type} {f : α → Option β} {l : List α} {r : List β}
    (h : mapOpt f l = some r) (i : Nat) (y : β) (hy : r[i]? = some y) :
    ∃ x, l[i]? = some x ∧ f x = some y := by
  have hlen := mapOpt_length h
  have hi : i < l.length := by
    rcases Nat.lt_or_ge i r.length with h' | h'
    · omega
    · rw [List.getElem?_eq_none h'] at hy; simp at hy
  obtain ⟨y', hy1, hy2⟩ := mapOpt_getElem? h i l[i] (by simp [hi])
  rw [hy2] at hy
  simp only [Option.some.injEq] at hy; subst hy
  exact ⟨l[i], by simp [hi], hy1⟩

theorem mapOpt_congr {α β : Type} {f g : α → Option β} {l : List α}
    (h : ∀ x ∈ l, f x = g x) : mapOpt f l = mapOpt g l := by
  induction l with
  | nil => rfl
  | cons a as ih =>
    simp only [mapOpt]
    rw [h a (by simp), ih (fun x hx => h x (by simp [hx]))]

theorem mapOpt_map {α β γ : Type} (g : γ → α) (f : α → Option β) (l : List γ) :
    mapOpt f (l.map g) = mapOpt (fun x => f (g x)) l := by
  induction l with
  | nil => rfl
  | cons a as ih => simp only [List.map_cons, mapOpt, ih]

theorem mapOpt_some_map {α β : Type} (f : α → β) (l : List α) :
    mapOpt (fun x => some (f x)) l = some (l.map f) := by
  induction l with
  | nil => rfl
  | cons a as ih => simp only [mapOpt, ih, List.map_cons]

theorem mapOpt_map_out {α β γ : Type} (f : α → Option β) (g : β → γ) (l : List α) :
    mapOpt (fun x => (f x).map g) l = (mapOpt f l).map (List.map g) := by
  induction l with
  | nil => rfl
  | cons a as ih =>
    simp only [mapOpt, ih]
    cases f a <;> cases mapOpt f as <;> simp

end DH.Direction
