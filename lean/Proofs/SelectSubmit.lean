import Proofs.SelectGreedy

/-! C20: the jobs of one `predictions_from_predictors` call carry ids that increase along the
`predictors` list, whatever the members are (`submitJobs`). -/

namespace DH.Select

theorem submitJobs_ge {α : Type} (ms : List α) : ∀ (start : Nat), ∀ p ∈ submitJobs start ms, start ≤ p.1 := by
  induction ms with
  | nil => intro start p hp; simp [submitJobs] at hp
  | cons m ms ih =>
    intro start p hp
    simp only [submitJobs, List.mem_cons] at hp
    rcases hp with rfl | hp
    · exact Nat.le_refl _
    · exact Nat.le_of_succ_le (ih (start + 1) p hp)

theorem submitJobs_increasing {α : Type} (ms : List α) : ∀ (start : Nat),
    (submitJobs start ms).Pairwise (fun a b => a.1 < b.1) := by
  induction ms with
  | nil => intro start; simp [submitJobs]
  | cons m ms ih =>
    intro start
    simp only [submitJobs]
    exact List.pairwise_cons.2 ⟨fun b hb => submitJobs_ge ms (start + 1) b hb, ih (start + 1)⟩

theorem submitJobs_payload {α : Type} (ms : List α) : ∀ (start : Nat), (submitJobs start ms).map (·.2) = ms := by
  induction ms with
  | nil => intro start; rfl
  | cons m ms ih => intro start; simp [submitJobs, ih]

theorem submitJobs_length {α : Type} (ms : List α) : ∀ (start : Nat), (submitJobs start ms).length = ms.length := by
  induction ms with
  | nil => intro start; rfl
  | cons m ms ih => intro start; simp [submitJobs, ih]

end DH.Select
