import Std.Data.String.ToNat
import Model.DumpText
import Proofs.Dump
import Proofs.Csv

/-! Column names are injective; reading `results.csv` back by name.  (Std's `Nat.repr_injective`
and the core `String.toList` lemmas; no Mathlib.) -/

namespace DH.Dump
open DH.Csv

theorem toList_p : "p:".toList = ['p', ':'] := by decide
theorem toList_m : "m:".toList = ['m', ':'] := by decide
theorem toList_objective : "objective".toList = ['o', 'b', 'j', 'e', 'c', 't', 'i', 'v', 'e'] := by decide
theorem toList_objective_ : "objective_".toList = ['o', 'b', 'j', 'e', 'c', 't', 'i', 'v', 'e', '_'] := by decide
theorem toList_job_id : "job_id".toList = ['j', 'o', 'b', '_', 'i', 'd'] := by decide
theorem toList_job_status :
    "job_status".toList = ['j', 'o', 'b', '_', 's', 't', 'a', 't', 'u', 's'] := by decide

/-- the characters of each kind of column name -/
theorem colText_eq (c : Col) :
    colText c = match c with
      | .param k => 'p' :: ':' :: k.toList
      | .objective => ['o', 'b', 'j', 'e', 'c', 't', 'i', 'v', 'e']
      | .objectiveI i => ['o', 'b', 'j', 'e', 'c', 't', 'i', 'v', 'e', '_'] ++ (Nat.repr i).toList
      | .jobId => ['j', 'o', 'b', '_', 'i', 'd']
      | .jobStatus => ['j', 'o', 'b', '_', 's', 't', 'a', 't', 'u', 's']
      | .mdata k => 'm' :: ':' :: k.toList := by
  cases c with
  | param k => simp [colText, Col.name, String.toList_append, toList_p]
  | objective => simp [colText, Col.name, toList_objective]
  | objectiveI i =>
    simp only [colText, Col.name, String.toList_append, toList_objective_]
    rfl
  | jobId => simp [colText, Col.name, toList_job_id]
  | jobStatus => simp [colText, Col.name, toList_job_status]
  | mdata k => simp [colText, Col.name, String.toList_append, toList_m]

/-- distinct columns have distinct names (as character lists) -/
theorem colText_injective (a b : Col) (h : colText a = colText b) : a = b := by
  rw [colText_eq, colText_eq] at h
  cases a with
  | param k =>
    cases b with
    | param k' => simp only [List.cons.injEq, true_and] at h; rw [String.toList_inj.1 h]
    | objective => simp at h
    | objectiveI j => simp at h
    | jobId => simp at h
    | jobStatus => simp at h
    | mdata k' => simp at h
  | objective =>
    cases b with
    | param k' => simp at h
    | objective => rfl
    | objectiveI j => simp at h
    | jobId => simp at h
    | jobStatus => simp at h
    | mdata k' => simp at h
  | objectiveI i =>
    cases b with
    | param k' => simp at h
    | objective => simp at h
    | objectiveI j =>
      have h2 := List.append_cancel_left h
      rw [Nat.repr_injective (String.toList_inj.1 h2)]
    | jobId => simp at h
    | jobStatus => simp at h
    | mdata k' => simp at h
  | jobId =>
    cases b with
    | param k' => simp at h
    | objective => simp at h
    | objectiveI j => simp at h
    | jobId => rfl
    | jobStatus => simp at h
    | mdata k' => simp at h
  | jobStatus =>
    cases b with
    | param k' => simp at h
    | objective => simp at h
    | objectiveI j => simp at h
    | jobId => simp at h
    | jobStatus => rfl
    | mdata k' => simp at h
  | mdata k =>
    cases b with
    | param k' => simp at h
    | objective => simp at h
    | objectiveI j => simp at h
    | jobId => simp at h
    | jobStatus => simp at h
    | mdata k' => simp only [List.cons.injEq, true_and] at h; rw [String.toList_inj.1 h]

/-- `p:<name>`, `objective`, `objective_<i>`, `job_id`, `job_status`, `m:<key>`: the name of a
column determines the column -/
theorem Col.name_injective (a b : Col) (h : a.name = b.name) : a = b :=
  colText_injective a b (by simp [colText, h])

theorem tableLines_nonempty (fmt : Val → Text) (h : List Col) (hne : h ≠ [])
    (rows : List (List (Option Val))) (hr : ∀ r ∈ rows, r ≠ []) :
    ∀ l ∈ tableLines fmt ⟨some h, rows⟩, l ≠ [] := by
  intro l hl
  simp only [tableLines, List.mem_cons, List.mem_map] at hl
  rcases hl with rfl | ⟨r, hrm, rfl⟩
  · simpa using hne
  · simpa using hr r hrm

theorem renderRow_ne_nil (h : List Col) (hne : h ≠ []) (n : Option Nat) (j : JobRec) :
    renderRow h n j ≠ [] := by
  unfold renderRow; simpa using hne

end DH.Dump
