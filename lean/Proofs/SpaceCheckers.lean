import Proofs.SpaceSpec
import Model.Sampling

/-! The executable checkers decide exactly their index-wise specifications. -/

namespace DH.Space

theorem all2_iff {α β : Type} (p : α → β → Bool) : ∀ (l1 : List α) (l2 : List β),
    all2 p l1 l2 = true ↔
      l1.length = l2.length ∧ ∀ (j : Nat) (a : α) (b : β), l1[j]? = some a → l2[j]? = some b → p a b = true
  | [], [] => by simp [all2]
  | [], _ :: _ => by simp [all2]
  | _ :: _, [] => by simp [all2]
  | a :: as, b :: bs => by
    simp only [all2, Bool.and_eq_true, all2_iff p as bs, List.length_cons]
    constructor
    · intro ⟨h1, h2, h3⟩
      refine ⟨by omega, ?_⟩
      intro j x y hx hy
      cases j with
      | zero => simp at hx hy; subst hx; subst hy; exact h1
      | succ j => exact h3 j x y (by simpa using hx) (by simpa using hy)
    · intro ⟨h1, h2⟩
      refine ⟨h2 0 a b (by simp) (by simp), by omega, ?_⟩
      intro j x y hx hy
      exact h2 (j + 1) x y (by simpa using hx) (by simpa using hy)

theorem all2_refl {α : Type} (p : α → α → Bool) : ∀ l : List α, (∀ a ∈ l, p a a = true) → all2 p l l = true
  | [], _ => rfl
  | a :: as, h => by
    simp [all2, h a (by simp), all2_refl p as (fun x hx => h x (by simp [hx]))]

/-- "the same value" in words -/
def CellSpec (t : Rat) (v v' : Val) : Prop :=
  match v, v' with
  | .num a, .num b => a - b ≤ t ∧ b - a ≤ t
  | _, _ => v = v'

theorem cellClose_iff (t : Rat) (v v' : Val) : cellClose t v v' = true ↔ CellSpec t v v' := by
  cases v <;> cases v' <;> simp [cellClose, CellSpec]

theorem inBounds_eq_all2 : ∀ (r : List Rat) (b : List (Rat × Rat)),
    inBounds r b = all2 (fun x b => decide (b.1 ≤ x) && decide (x ≤ b.2)) r b
  | [], [] => rfl
  | [], _ :: _ => rfl
  | _ :: _, [] => rfl
  | x :: xs, p :: ps => by simp [inBounds, all2, inBounds_eq_all2 xs ps]

theorem cellClose_refl (v : Val) : cellClose 0 v v = true := by
  cases v <;> simp [cellClose]

theorem rows_close_refl : ∀ X : List (List Val),
    all2 (fun rowT row' => all2 (fun (vt : Val × Rat) v' => cellClose vt.2 vt.1 v') rowT row')
      (X.map (fun r => r.map (fun v => (v, (0 : Rat))))) X = true
  | [] => rfl
  | r :: rs => by
    have hr : ∀ r : List Val, all2 (fun (vt : Val × Rat) v' => cellClose vt.2 vt.1 v')
        (r.map (fun v => (v, (0 : Rat)))) r = true := by
      intro r
      induction r with
      | nil => rfl
      | cons v vs ih => simp [all2, cellClose_refl v, ih]
    simp [all2, hr r, rows_close_refl rs]

end DH.Space
