import Proofs.HypervolumeNd4

/-! The nested dimension sweep with points ON the reference boundary in a middle objective: the level
invariant relativised to *live* prefixes.

A node with a zero coordinate `i` (after the shift), `2 < i < m-1`, adds nothing at every level above `i`,
is flagged `ignore` there without a dominating node and is then skipped also at the levels below `i`, where
it would contribute.  Whatever is computed while such a node is linked below level `i` is not the exact
cross-section volume; it is multiplied by the zero width of the top group of list `i`.  The invariant
therefore claims exact values only for prefixes without such a node (`Live`), and a flag may also be
justified by a zero coordinate anywhere below the last objective (`ZeroAny`) or by a node in front that has
one at or above the flag's level (`GarbZ`: the flag was set from values that are not claimed exact). -/

namespace DH.Hypervolume
open DH.Pareto (Vec wdVec)

/-- the admitted class: a coordinate may EQUAL the reference's only in the objectives `0, 1, 2, 3` and in
the last one (no restriction for `m ≤ 5` objectives) -/
structure Run.OK5 (R : Run) : Prop extends Run.Base R where
  cls : ∀ i k, i < R.rel.length → k < R.m → zc R.rel k i = 0 → k ≤ 3 ∨ k + 1 = R.m

/-- no node of `K` lies on the reference boundary in an objective strictly between `j` and the last one -/
def Live (R : Run) (j : Nat) (K : List Nat) : Prop :=
  ∀ x ∈ K, ∀ i, j < i → i + 1 < R.m → zc R.rel i x < 0

theorem Live.mono {R : Run} {j j' : Nat} {K : List Nat} (h : Live R j K) (hjj : j ≤ j') : Live R j' K :=
  fun x hx i hi him => h x hx i (by omega) him

theorem Live.subset {R : Run} {j : Nat} {K K' : List Nat} (h : Live R j K) (hs : ∀ x ∈ K', x ∈ K) :
    Live R j K' :=
  fun x hx => h x (hs x hx)

/-- one level down, when the nodes are strictly inside in coordinate `d` -/
theorem Live.pred {R : Run} {d : Nat} {K : List Nat} (h : Live R d K) (hz : ∀ x ∈ K, zc R.rel d x < 0) :
    Live R (d - 1) K := by
  intro x hx i hi him
  by_cases hid : i = d
  · subst hid; exact hz x hx
  · exact h x hx i (by omega) him

theorem not_live {R : Run} (hR : R.Base) {j : Nat} {K : List Nat} (hK : ∀ x ∈ K, x < R.rel.length)
    (h : ¬ Live R j K) : ∃ x ∈ K, ∃ i, j < i ∧ i + 1 < R.m ∧ zc R.rel i x = 0 := by
  unfold Live at h
  simp only [not_forall] at h
  obtain ⟨x, hx, i, hi, him, hn⟩ := h
  exact ⟨x, hx, i, hi, him, le_antisymm (hR.inter x i (hK x hx) (by omega)).2 (not_lt.mp hn)⟩

/-- **cache invariant of level `k`, relativised**: every node of list `k` strictly below `bounds[k]`
whose prefix is live holds the exact cross-section volume of its prefix and the exact accumulated `hvol` -/
def CacheL (R : Run) (k : Nat) (S : List Nat) (st : St) : Prop :=
  ∀ P x post, R.lk k S = P ++ x :: post → zc R.rel k x < st.bounds.getD k 0 → Live R (k - 1) (P ++ [x]) →
    (st.node x).area.getD k 0 = Vk R.rel (k - 1) (P ++ [x]) ∧
    (st.node x).volume.getD k 0 = volSum R.rel k (P ++ [x])

/-- `x` has a coordinate below the last objective on the reference boundary -/
def ZeroAny (R : Run) (x : Nat) : Prop := ∃ i, i + 1 < R.m ∧ zc R.rel i x = 0

/-- a linked node in front of `x` in list `e` lies on the reference boundary in an objective `≥ e`
(below the last one): the values the flag test compared were not claimed exact -/
def GarbZ (R : Run) (S : List Nat) (e x : Nat) : Prop :=
  ∃ z ∈ S, z ≠ x ∧ Before (R.orders.getD e []) z x ∧ ∃ i, e ≤ i ∧ i + 1 < R.m ∧ zc R.rel i z = 0

/-- **flag invariant, relativised** -/
def JustG (R : Run) (S : List Nat) (st : St) (x : Nat) : Prop :=
  (st.node x).ignore = 0 ∨
  ((st.node x).ignore < R.m ∧ ((∃ r ∈ S, r ≠ x ∧
    Before (R.orders.getD (st.node x).ignore []) r x ∧ Dom R (st.node x).ignore r x) ∨
    ZeroAny R x ∨ GarbZ R S (st.node x).ignore x))

def FIgeG (R : Run) (lo : Nat) (S : List Nat) (st : St) : Prop :=
  ∀ x ∈ S, lo ≤ (st.node x).ignore → JustG R S st x

def AllFIG (R : Run) (S : List Nat) (st : St) : Prop := ∀ x ∈ S, JustG R S st x

theorem JustG.mono {R : Run} {S S' : List Nat} {st : St} {x : Nat} (hS : ∀ y ∈ S, y ∈ S')
    (h : JustG R S st x) : JustG R S' st x := by
  rcases h with h | ⟨h1, ⟨r, hr, h2⟩ | hz | ⟨z, hzS, h2⟩⟩
  · exact Or.inl h
  · exact Or.inr ⟨h1, Or.inl ⟨r, hS r hr, h2⟩⟩
  · exact Or.inr ⟨h1, Or.inr (Or.inl hz)⟩
  · exact Or.inr ⟨h1, Or.inr (Or.inr ⟨z, hS z hzS, h2⟩)⟩

theorem JustG.congr {R : Run} {S : List Nat} {st st' : St} {x : Nat}
    (hi : (st'.node x).ignore = (st.node x).ignore) (h : JustG R S st x) : JustG R S st' x := by
  unfold JustG at *
  rw [hi]; exact h

theorem CacheL.congr {R : Run} {k : Nat} {S : List Nat} {st st' : St} (h : CacheL R k S st)
    (hn : ∀ x, (st'.node x).area.getD k 0 = (st.node x).area.getD k 0 ∧
      (st'.node x).volume.getD k 0 = (st.node x).volume.getD k 0)
    (hb : st'.bounds.getD k 0 ≤ st.bounds.getD k 0) : CacheL R k S st' := by
  intro P x post hl hz hlive
  rw [(hn x).1, (hn x).2]
  exact h P x post hl (lt_of_lt_of_le hz hb) hlive

/-- **cache monotonicity** (as `Cache.restrict`) -/
theorem CacheL.restrict {R : Run} (hR : R.Base) {k : Nat} (hk : k < R.m) {S S' : List Nat} {st st' : St}
    (h : CacheL R k S st)
    (hagree : ∀ y, zc R.rel k y < st'.bounds.getD k 0 → (y ∈ S ↔ y ∈ S'))
    (hn : ∀ x, (st'.node x).area.getD k 0 = (st.node x).area.getD k 0 ∧
      (st'.node x).volume.getD k 0 = (st.node x).volume.getD k 0)
    (hb : st'.bounds.getD k 0 ≤ st.bounds.getD k 0) : CacheL R k S' st' := by
  intro P x post hl hz hlive
  rw [(hn x).1, (hn x).2]
  have hxl : x ∈ R.lk k S' := by rw [hl]; simp
  have hxO : x ∈ R.orders.getD k [] := (List.mem_filter.mp hxl).1
  have hxS' : S'.contains x = true := (List.mem_filter.mp hxl).2
  obtain ⟨O1, O2, hO⟩ := List.append_of_mem hxO
  have hsplit' : R.lk k S' = O1.filter (fun y => S'.contains y) ++ x :: O2.filter (fun y => S'.contains y) := by
    simp only [Run.lk, linked, hO, List.filter_append, List.filter_cons, hxS', if_true]
  have hP := (nodup_split_unique (nodup_lk hR hk S') hl hsplit').1
  have hsorted := hR.ord.sorted k hk
  rw [hO, List.pairwise_append] at hsorted
  have hO1 : ∀ y ∈ O1, zc R.rel k y < st'.bounds.getD k 0 := by
    intro y hy
    exact lt_of_le_of_lt (hsorted.2.2 y hy x (by simp)) hz
  have hfilt : O1.filter (fun y => S.contains y) = O1.filter (fun y => S'.contains y) := by
    apply List.filter_congr
    intro y hy
    rw [Bool.eq_iff_iff, List.contains_iff_mem, List.contains_iff_mem]
    exact hagree y (hO1 y hy)
  have hxS : S.contains x = true := by
    rw [List.contains_iff_mem]
    exact (hagree x hz).mpr (List.contains_iff_mem.mp hxS')
  have hsplit : R.lk k S = P ++ x :: O2.filter (fun y => S.contains y) := by
    simp only [Run.lk, linked, hO, List.filter_append, List.filter_cons, hxS, if_true]
    rw [hfilt, ← hP]
  exact h P x _ hsplit (lt_of_lt_of_le hz hb) hlive

/-- list `e` is sorted by coordinate `e` -/
theorem zc_le_of_before {R : Run} (hR : R.Base) {e : Nat} (he : e < R.m) {z x : Nat}
    (h : Before (R.orders.getD e []) z x) : zc R.rel e z ≤ zc R.rel e x := by
  obtain ⟨l1, l2, hl, hz⟩ := h
  have hs := hR.ord.sorted e he
  rw [hl, List.pairwise_append] at hs
  exact hs.2.2 z hz x (by simp)

/-- justification of a flag of a node that is not linked below level `d` at the moment (as `JustL`) -/
def JustLG (R : Run) (d : Nat) (l : List Nat) (st : St) (x : Nat) : Prop :=
  (st.node x).ignore = 0 ∨
  (d ≤ (st.node x).ignore ∧ (st.node x).ignore < R.m ∧ ((∃ r ∈ l, r ≠ x ∧
    Before (R.orders.getD (st.node x).ignore []) r x ∧ Dom R (st.node x).ignore r x) ∨
    ZeroAny R x ∨ GarbZ R l (st.node x).ignore x))

/-- **a justified flag stays justified when `x` is linked below level `d`** (the linked ids are then a
prefix `K` of list `d`): a dominating node is in front of `x` in list `d` (`before_lower`); a `GarbZ` witness
for a flag of level `d` itself is in front of `x` in list `d`; a `GarbZ` witness for a flag of a higher
level forces, in the admitted class, a zero coordinate of `x` itself.  (This is the one place where the
class restriction is used.) -/
theorem justG_prefix {R : Run} (hR : R.OK5) {d : Nat} (hd2 : 2 ≤ d) {l K rest : List Nat} (hl : ListD R d l)
    (hlK : l = K ++ rest) {st : St} {x : Nat} (hx : x ∈ K) (h : JustLG R d l st x) : JustG R K st x := by
  have hxl : x ∈ l := by rw [hlK]; exact List.mem_append.mpr (Or.inl hx)
  have hxlt : x < R.rel.length := hl.lt x hxl
  rcases h with h0 | ⟨hde, hem, hj⟩
  · exact Or.inl h0
  rcases hj with ⟨r, hrl, hrx, hbef, hdom⟩ | hz | ⟨z, hzl, hzx, hbef, i, hei, him, hzi⟩
  · refine Or.inr ⟨hem, Or.inl ⟨r, ?_, hrx, hbef, hdom⟩⟩
    have hr : r < R.rel.length := hl.lt r hrl
    have hdl := dom_lower hR.toBase hr hxlt ((st.node x).ignore - 1 - (d - 1)) (d - 1) (by omega) (by
      have : d - 1 + ((st.node x).ignore - 1 - (d - 1)) = (st.node x).ignore - 1 := by omega
      rw [this]; exact hdom)
    have hbd : Before (R.orders.getD d []) r x :=
      before_lower hR.ord ((st.node x).ignore - d) d (st.node x).ignore hem (by omega) hbef
        (fun k hk1 hk2 => hdl.2 k (by omega) (by omega))
    exact Before.mem_prefix hl.nodup hlK (hl.of_before r x hrl hxl hbd) hx
  · exact Or.inr ⟨hem, Or.inr (Or.inl hz)⟩
  · by_cases hed : (st.node x).ignore = d
    · refine Or.inr ⟨hem, Or.inr (Or.inr ⟨z, ?_, hzx, hbef, i, hei, him, hzi⟩)⟩
      rw [hed] at hbef
      exact Before.mem_prefix hl.nodup hlK (hl.of_before z x hzl hxl hbef) hx
    · -- a flag of a higher level: in the class this forces `x` itself onto the boundary
      have hz : z < R.rel.length := hl.lt z hzl
      have hi3 : i ≤ 3 := by
        rcases hR.cls z i hz (by omega) hzi with h | h
        · exact h
        · omega
      have hi : i = (st.node x).ignore := by omega
      have hle := zc_le_of_before hR.toBase hem hbef
      rw [← hi, hzi] at hle
      have hx0 : zc R.rel i x = 0 := le_antisymm (hR.inter x i hxlt (by omega)).2 hle
      exact Or.inr ⟨hem, Or.inr (Or.inl ⟨i, him, hx0⟩)⟩

/-- the nodes `D` of list `l` hold the level-`d` values, for live prefixes (as `LvlVals`) -/
def LvlValsL (R : Run) (d : Nat) (l D : List Nat) (st : St) : Prop :=
  ∀ P x post, l = P ++ x :: post → x ∈ D →
    (Live R (d - 1) (P ++ [x]) → (st.node x).area.getD d 0 = Vk R.rel (d - 1) (P ++ [x])) ∧
    (Live R d (P ++ [x]) → (st.node x).volume.getD d 0 = volSum R.rel d (P ++ [x]))

/-- what `hvRecursive(e, ·, bounds)` guarantees on the linked ids `S` (as `Spec`; the value is claimed
only when `S` is live) -/
def SpecL (R : Run) (e : Nat) (rec : List Nat → St → Rat × St) : Prop :=
  ∀ (S : List Nat) (st : St), S ≠ [] → S.Nodup → (∀ i ∈ S, i < R.rel.length) → WF R st →
    (∀ k, 2 ≤ k → k ≤ e → CacheL R k S st) → FIgeG R e S st →
    (Live R e S → (rec S st).1 = Vk R.rel e S) ∧ WF R (rec S st).2 ∧
    (∀ k, 2 ≤ k → k ≤ e → CacheL R k S (rec S st).2) ∧ AllFIG R S (rec S st).2 ∧
    Frame e S st (rec S st).2

end DH.Hypervolume
