import Drivers.AskSession

/-! Driver for C08: `session` (ask/tell replay + the verified freshness checker), `mem`. -/

def main : IO Unit := DH.Wire.serveFn DH.Session.handle
