import Drivers.Wire
import Model.Queued

/-!
Driver for C17 (stateful, one session at a time).  Resources are natural numbers.

requests
  {"op":"init","queue":[r..],"pop":n,"workers":n,"pre":bool}    pre = the pinned tree's model (witness replay)
  {"op":"submit","n":k} | {"op":"take","j":i} | {"op":"start","j":i} | {"op":"end","j":i} | {"op":"release","j":i} | {"op":"cancel","j":i}
reply
  {"ok":true,"enabled":bool,"err":null|"indexError","queue":[..],"phase":..,"ds":[..]|null,"recv":[..]|null,
   "meta":[..]|null,"measure":n,"running":[job..]}
-/

open Lean DH.Wire DH.Queued

structure Sess where
  pre : Bool
  st : PreState Nat

def optNats : Option (List Nat) → Json
  | none => Json.null
  | some l => ofNats l

def phaseJson : Phase Nat → List (String × Json)
  | .created => [("phase", "created"), ("ds", Json.null), ("recv", Json.null), ("meta", Json.null)]
  | .holding ds => [("phase", "holding"), ("ds", ofNats ds), ("recv", Json.null), ("meta", Json.null)]
  | .running ds recv => [("phase", "running"), ("ds", ofNats ds), ("recv", optNats recv), ("meta", Json.null)]
  | .returning ds recv => [("phase", "returning"), ("ds", ofNats ds), ("recv", optNats recv), ("meta", Json.null)]
  | .finished recv md => [("phase", "finished"), ("ds", Json.null), ("recv", optNats recv), ("meta", ofNats md)]
  | .cancelled => [("phase", "cancelled"), ("ds", Json.null), ("recv", Json.null), ("meta", Json.null)]

def runningJobs (s : QState Nat) : List Nat :=
  (s.jobs.zipIdx.filter (fun (x, _) => isRunning x.phase)).map (·.2)

def reply (enabled : Bool) (err : Json) (s : QState Nat) (j : Option Nat) : Json :=
  let ph := match j.bind (fun i => s.jobs[i]?) with
    | some x => phaseJson x.phase
    | none => [("phase", Json.null), ("ds", Json.null), ("recv", Json.null), ("meta", Json.null)]
  Json.mkObj ([("ok", Json.bool true), ("enabled", Json.bool enabled), ("err", err), ("queue", ofNats s.queue),
    ("measure", Json.num (JsonNumber.fromNat (measure s))), ("running", ofNats (runningJobs s))] ++ ph)

def handle (s : Option Sess) (j : Json) : Except String (Option Sess × Json) := do
  let op ← (← field j "op").getStr?
  if op == "init" then
    let q ← jList jNat (← field j "queue")
    let pop ← jNat (← field j "pop")
    let w ← jNat (← field j "workers")
    let pre ← jBool (fieldD j "pre" (Json.bool false))
    let st : PreState Nat := { st := init q pop w, slot := none }
    return (some { pre, st }, reply true Json.null st.st none)
  match s with
  | none => throw "no session: send init first"
  | some se =>
    let (t, jj) ← match op with
      | "submit" => pure (QStep.submit (← jNat (← field j "n")), none)
      | "take" => do let i ← jNat (← field j "j"); pure (QStep.take i, some i)
      | "start" => do let i ← jNat (← field j "j"); pure (QStep.start i, some i)
      | "end" => do let i ← jNat (← field j "j"); pure (QStep.endRun i, some i)
      | "release" => do let i ← jNat (← field j "j"); pure (QStep.release i, some i)
      | "cancel" => do let i ← jNat (← field j "j"); pure (QStep.cancel i, some i)
      | _ => throw s!"unknown op {op}"
    if se.pre then
      match stepPre se.st t with
      | .ok st' => return (some { se with st := st' }, reply true Json.null st'.st jj)
      | .indexError => return (some se, reply false "indexError" se.st.st jj)
      | .disabled => return (some se, reply false Json.null se.st.st jj)
    else
      match step se.st.st t with
      | some st' => return (some { se with st := { se.st with st := st' } }, reply true Json.null st' jj)
      | none => return (some se, reply false Json.null se.st.st jj)

def main : IO Unit :=
  serve (fun (s : Option Sess) j =>
    match handle s j with
    | .ok (s', r) => (s', r)
    | .error e => (s, errReply e)) none
