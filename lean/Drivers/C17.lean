import Drivers.Wire
import Model.Queued
import Model.QueuedLog

/-!
Driver for C17 (stateful, one session at a time).  Resources are natural numbers.

requests
  {"op":"init","queue":[r..],"pop":n,"workers":n,"pre":bool}    pre = the pinned tree's model (witness replay)
  {"op":"submit","n":k} | {"op":"take","j":i} | {"op":"start","j":i} | {"op":"end","j":i} | {"op":"release","j":i} | {"op":"cancel","j":i}
  {"op":"check","queue":[r..],"pop":n,"events":[{"e":"submit","n":k}|{"e":"start","j":i,"recv":[r..]|null}|
        {"e":"end","j":i}|{"e":"closed","queue":[r..]}..],"metas":[[r..]|null..],"returned":[i..],"final_queue":[r..],
        "error":bool} -> {"ok":true,"spec":bool,"clause":str|null,"first_bad":i|null}   (`checkLog`, theorem C17_checker,
        evaluated on the log of the REAL evaluator)
reply
  {"ok":true,"enabled":bool,"err":null|"indexError","queue":[..],"phase":..,"ds":[..]|null,"recv":[..]|null,
   "meta":[..]|null,"measure":n,"running":[job..]}
-/

open Lean DH.Wire DH.Queued

structure Sess where
  pre : Bool
  st : PreState Nat

def optNats : Option (List Nat) → Json
  | none => Json.null
  | some l => ofNats l

def phaseJson : Phase Nat → List (String × Json)
  | .created => [("phase", "created"), ("ds", Json.null), ("recv", Json.null), ("meta", Json.null)]
  | .holding ds => [("phase", "holding"), ("ds", ofNats ds), ("recv", Json.null), ("meta", Json.null)]
  | .running ds recv => [("phase", "running"), ("ds", ofNats ds), ("recv", optNats recv), ("meta", Json.null)]
  | .returning ds recv => [("phase", "returning"), ("ds", ofNats ds), ("recv", optNats recv), ("meta", Json.null)]
  | .finished recv md => [("phase", "finished"), ("ds", Json.null), ("recv", optNats recv), ("meta", ofNats md)]
  | .cancelled => [("phase", "cancelled"), ("ds", Json.null), ("recv", Json.null), ("meta", Json.null)]

def runningJobs (s : QState Nat) : List Nat :=
  (s.jobs.zipIdx.filter (fun (x, _) => isRunning x.phase)).map (·.2)

def reply (enabled : Bool) (err : Json) (s : QState Nat) (j : Option Nat) : Json :=
  let ph := match j.bind (fun i => s.jobs[i]?) with
    | some x => phaseJson x.phase
    | none => [("phase", Json.null), ("ds", Json.null), ("recv", Json.null), ("meta", Json.null)]
  Json.mkObj ([("ok", Json.bool true), ("enabled", Json.bool enabled), ("err", err), ("queue", ofNats s.queue),
    ("measure", Json.num (JsonNumber.fromNat (measure s))), ("running", ofNats (runningJobs s))] ++ ph)

/-! ### the verified checker on an observed log -/

def jOptNats (j : Json) : Except String (Option (List Nat)) :=
  match j with
  | .null => pure none
  | _ => do return some (← jList jNat j)

def jLEv (j : Json) : Except String (LEv Nat) := do
  match (← jStr (← field j "e")) with
  | "submit" => return .submit (← jNat (← field j "n"))
  | "start" => return .start (← jNat (← field j "j")) (← jOptNats (← field j "recv"))
  | "end" => return .endRun (← jNat (← field j "j"))
  | "closed" => return .closed (← jList jNat (← field j "queue"))
  | e => throw s!"bad event {e}"

/-- which clause fails (a reporting aid; the verdict is `checkLog`) -/
def diagnoseLog (lg : Log Nat) : Option Nat × String :=
  match firstBadEv lg.q0 lg.pop LAcc.init 0 lg.events with
  | some (i, .closed _) => (some i, "returned")
  | some (i, .start _ recv) =>
    (some i, match recv with
      | some l => if l.length != lg.pop then "count" else "exclusive"
      | none => "count")
  | some (i, _) => (some i, "?")
  | none =>
    let a := accAfter LAcc.init lg.events
    if lg.error then (none, "progress")
    else if !(decide lg.returned.Nodup) ||
        !((List.range a.nsub).all (fun j => lg.returned.contains j || decide (j < a.closedOver))) then (none, "progress")
    else if !(lg.finalQueue.isPerm lg.q0) then (none, "returned")
    else (none, "metadata")

def handleCheck (j : Json) : Except String Json := do
  let lg : Log Nat :=
    { q0 := ← jList jNat (← field j "queue"), pop := ← jNat (← field j "pop"),
      events := ← jList jLEv (← field j "events"), metas := ← jList jOptNats (← field j "metas"),
      returned := ← jList jNat (← field j "returned"), finalQueue := ← jList jNat (← field j "final_queue"),
      error := ← jBool (← field j "error") }
  let spec := checkLog lg
  if spec then
    return Json.mkObj [("ok", true), ("spec", true), ("clause", Json.null), ("first_bad", Json.null)]
  let (i, c) := diagnoseLog lg
  return Json.mkObj [("ok", true), ("spec", false), ("clause", c),
    ("first_bad", match i with | some k => Json.num (JsonNumber.fromNat k) | none => Json.null)]

def handle (s : Option Sess) (j : Json) : Except String (Option Sess × Json) := do
  let op ← (← field j "op").getStr?
  if op == "init" then
    let q ← jList jNat (← field j "queue")
    let pop ← jNat (← field j "pop")
    let w ← jNat (← field j "workers")
    let pre ← jBool (fieldD j "pre" (Json.bool false))
    let st : PreState Nat := { st := init q pop w, slot := none }
    return (some { pre, st }, reply true Json.null st.st none)
  if op == "check" then
    return (s, ← handleCheck j)
  match s with
  | none => throw "no session: send init first"
  | some se =>
    let (t, jj) ← match op with
      | "submit" => pure (QStep.submit (← jNat (← field j "n")), none)
      | "take" => do let i ← jNat (← field j "j"); pure (QStep.take i, some i)
      | "start" => do let i ← jNat (← field j "j"); pure (QStep.start i, some i)
      | "end" => do let i ← jNat (← field j "j"); pure (QStep.endRun i, some i)
      | "release" => do let i ← jNat (← field j "j"); pure (QStep.release i, some i)
      | "cancel" => do let i ← jNat (← field j "j"); pure (QStep.cancel i, some i)
      | _ => throw s!"unknown op {op}"
    if se.pre then
      match stepPre se.st t with
      | .ok st' => return (some { se with st := st' }, reply true Json.null st'.st jj)
      | .indexError => return (some se, reply false "indexError" se.st.st jj)
      | .disabled => return (some se, reply false Json.null se.st.st jj)
    else
      match step se.st.st t with
      | some st' => return (some { se with st := { se.st with st := st' } }, reply true Json.null st' jj)
      | none => return (some se, reply false Json.null se.st.st jj)

def main : IO Unit :=
  serve (fun (s : Option Sess) j =>
    match handle s j with
    | .ok (s', r) => (s', r)
    | .error e => (s, errReply e)) none
