import Drivers.Wire
import Model.Timeout
import Model.SharedStorage
import Model.StopFlag
import Model.MultiSearch

/-! Driver for C14: one request = one scenario (evaluator ops and/or `search` calls).

`{"W":2,"hpo":false,"specs":[[m,p,jobFirst,val],...],
  "ops":[{"op":"timeout","t":3},{"op":"submit","k":5},{"op":"gather","all":true,"size":0,"rep":[2,0,1]},
         {"op":"close","rep":[]},
         {"op":"search","n":5,"strict":false,"timeout":4,"reps":[[0],[2,1]],"drain":[3,4]}]}`
(a `search` op with `"views":[[null,false],…]` — one list per iteration, one entry per callback of the evaluator — is run
through `searchF`; its reply carries `"flags":[[before,expired,fired,after],…]`)
→ `{"ok":true,"outs":[{"err":null,"now":3,"stop":null},...],
    "jobs":[{"log":[0,1,2],"status":2,"pc":"gathered","start":0,"ret":2,"saw":false,"fired":false,"out":["val",0]},...],
    "results":[...],"now":5}` -/

open Lean DH.Wire DH.Timeout

def statusCode : Status → Nat
  | .ready => 0 | .running => 1 | .done => 2 | .cancelling => 3 | .cancelled => 4

def pcName : Pc → String
  | .created => "created" | .queued => "queued" | .waiting => "waiting" | .cancelling => "cancelling"
  | .returned => "returned" | .gathered => "gathered" | .closedOut => "closedOut" | .aborted => "aborted"

def gerrName : GErr → String
  | .noJobs => "noJobs" | .hang => "hang" | .badEnv => "badEnv"

def stopName : Stop → String
  | .budget => "budget" | .cap => "cap" | .timeout => "timeout" | .noJobs => "noJobs" | .hang => "hang"
  | .badEnv => "badEnv" | .envExhausted => "envExhausted"

def jSpec (j : Json) : Except String Spec := do
  let a ← j.getArr?
  match a.toList with
  | [m, p, jf, v] => return { m := ← jNat m, p := ← jNat p, jobFirst := ← jBool jf, val := ← jInt v }
  | _ => throw "spec must be [m, p, jobFirst, val]"

def jOptNat (j : Json) : Except String (Option Nat) :=
  match j with
  | .null => pure none
  | v => do pure (some (← jNat v))

def nat (n : Nat) : Json := Json.num (JsonNumber.fromNat n)

def jobJson (j : Job) : Json :=
  Json.mkObj [("log", ofNats (j.log.map statusCode)), ("status", nat (statusCode j.status)),
    ("pc", pcName j.pc), ("start", nat j.start), ("ret", nat j.ret), ("saw", j.saw), ("fired", j.fired),
    ("gen", nat j.gen),
    ("armed", match j.armed with | some c => nat c | none => Json.null),
    ("out", match j.output with
      | .none => Json.arr #["none"]
      | .val v => Json.arr #["val", Json.num (JsonNumber.fromInt v)]
      | .fCancelled => Json.arr #["F"])]

def opOut (err : Option String) (stop : Option String) (s : Ev) : Json :=
  Json.mkObj [("err", match err with | some e => Json.str e | none => Json.null),
    ("stop", match stop with | some e => Json.str e | none => Json.null),
    ("now", nat s.now), ("nresults", nat s.results.length), ("njobs", nat s.jobs.length)]


/-- `[[null,false],[null,true]]`: per iteration, per callback `null` = no `search_stopped` attribute -/
def jOptBool (j : Json) : Except String (Option Bool) :=
  match j with
  | .null => pure none
  | v => do pure (some (← jBool v))

def flagJson (f : FlagStep) : Json := Json.arr #[f.before, f.expired, f.fired, f.after]

/-- reply of a `search` op run through `searchF` (evaluator with callbacks): the usual fields + the flag history -/
def opOutF (stop : String) (flags : List FlagStep) (s : Ev) : Json :=
  Json.mkObj [("err", Json.null), ("stop", Json.str stop),
    ("now", nat s.now), ("nresults", nat s.results.length), ("njobs", nat s.jobs.length),
    ("flags", Json.arr (flags.map flagJson).toArray)]

def runOp (s : Ev) (j : Json) : Except String (Ev × Json) := do
  let op ← (← field j "op").getStr?
  match op with
  | "timeout" =>
    let t ← jOptNat (fieldD j "t" Json.null)
    let s' := setTimeout s t
    return (s', opOut none none s')
  | "submit" =>
    let k ← jNat (← field j "k")
    let s' := submitN s k
    return (s', opOut none none s')
  | "gather" =>
    let all ← jBool (← field j "all")
    let size ← jNat (fieldD j "size" (nat 0))
    let rep ← jList jNat (← field j "rep")
    let r := gather s all size rep
    return (r.1, opOut (r.2.map gerrName) none r.1)
  | "close" =>
    -- `rep` = every id `close()` appended to jobs_done; the finished-but-ungathered ones come first
    let rep ← jList jNat (fieldD j "rep" (Json.arr #[]))
    let fin := s.running.filter (fun i => pcOf s i = some .returned)
    let r := close s (rep.take fin.length)
    return (r.1, opOut (r.2.map gerrName) none r.1)
  | "settle" =>
    let s' := settle s
    return (s', opOut none none s')
  | "jobonly" =>
    -- the per-job status machine alone: acquire at `start` with deadline `armed`, return, gather
    let start ← jNat (← field j "start")
    let armed ← jOptNat (fieldD j "armed" Json.null)
    let sp := (s.specs[0]?).getD { m := 0, p := 0 }
    let jb := jOnDone (jReturn (jAcquire 0 start armed { spec := sp }))
    let s' := { s with jobs := [jb] }
    return (s', opOut none none s')
  | "search" =>
    let n ← jInt (← field j "n")
    let strict ← jBool (← field j "strict")
    let t ← jOptNat (fieldD j "timeout" Json.null)
    let reps ← jList (jList jNat) (← field j "reps")
    let drain ← jList jNat (fieldD j "drain" (Json.arr #[]))
    let delays ← jList jNat (fieldD j "delays" (Json.arr #[]))
    match fieldD j "views" Json.null with
    | .null =>
      let r := search { s with askDelays := delays } { maxEvals := n, strict := strict, timeout := t } reps drain
      return (r.1, opOut none (some (stopName r.2)) r.1)
    | vj =>
      -- the evaluator has callbacks: the loop with the explicit `stopped` flag (`Model/StopFlag.lean`)
      let views ← jList (jList jOptBool) vj
      let s0 := { s with askDelays := delays }
      let c : Call := { maxEvals := n, strict := strict, timeout := t }
      let repsO := reps.map (fun r => (r, ([] : List Nat)))
      let r := searchF s0 c repsO (drain, []) views
      return (r.1, opOutF (stopName r.2) (searchFlags s0 c repsO views) r.1)
  | _ => throw s!"unknown op {op}"

def statusOfCode (n : Nat) : Except String Status :=
  match n with
  | 0 => pure .ready | 1 => pure .running | 2 => pure .done | 3 => pure .cancelling | 4 => pure .cancelled
  | _ => throw s!"bad status code {n}"

def jJobObs (j : Json) : Except String JobObs := do
  let log ← (← jList jNat (← field j "log")).mapM statusOfCode
  return { log := log, start := ← jNat (← field j "start"), ret := ← jNat (← field j "ret"),
           natEnd := ← jNat (← field j "natEnd"), deadline := ← jOptNat (fieldD j "deadline" Json.null),
           saw := ← jBool (← field j "saw"), pollsAgain := ← jBool (← field j "pollsAgain"),
           loopRan := ← jBool (fieldD j "loopRan" true),
           tie := ← jBool (← field j "tie"), gathered := ← jBool (← field j "gathered"),
           valueKept := ← jBool (← field j "valueKept") }

/-- `{"op":"checklog","jobs":[…],"results":[…],"complete":bool}`: the verified checker on observed logs,
plus the value of each conjunct and the first offending job of the per-job clauses (for the fingerprint) -/
def handleCheck (j : Json) : Except String Json := do
  let jobs ← jList jJobObs (← field j "jobs")
  let results ← jList jNat (← field j "results")
  let complete ← jBool (← field j "complete")
  let o : Obs := { jobs := jobs, results := results, complete := complete }
  let idxs := List.range jobs.length
  let firstBad (p : JobObs → Bool) : Json :=
    match idxs.find? (fun i => match jobs[i]? with | some jb => !p jb | none => false) with
    | some i => nat i
    | none => Json.null
  return Json.mkObj [("ok", true), ("check", checkStatusLog o),
    ("monotone", jobs.all (fun jb => monotoneB jb.log)),
    ("once", decide results.Nodup && results.all (fun i => decide (i < jobs.length))),
    ("complete", !complete || idxs.all (fun i => results.contains i)),
    ("terminal", results.all (fun i => match jobs[i]? with | some jb => terminalB jb.log | none => true)),
    ("classified", jobs.all (fun jb => !jb.gathered || jb.tie || (classifiedB jb && jb.valueKept))),
    ("badMonotone", firstBad (fun jb => monotoneB jb.log)),
    ("badClassified", firstBad (fun jb => !jb.gathered || jb.tie || (classifiedB jb && jb.valueKept)))]

/-! ### several evaluators on one storage (`Model/SharedStorage.lean`)

`{"op":"world","Ws":[2,1],"hpo":true,"specs":[…],
  "acts":[{"e":0,"op":"search","n":-1,"strict":false,"timeout":2,"reps":[[[0],[]],[[1],[]]],"drain":[[2],[]],"delays":[]},
          {"e":1,"op":"gather","all":true,"size":0,"rep":[],"orep":[0,1,2]},{"e":1,"op":"other","orep":[]},
          {"e":0,"op":"timeout","t":3},{"e":0,"op":"submit","k":2}, …]}`  (`e` = the evaluator that acts)
→ `{"ok":true,"outs":[{"err":…,"stop":…,"now":…,"nresults":…,"njobs":…},…],"jobs":[…],"results":[[…],[…]],"now":…}` -/

def jPair (j : Json) : Except String (List Nat × List Nat) := do
  let a ← j.getArr?
  match a.toList with
  | [x, y] => return (← jList jNat x, ← jList jNat y)
  | _ => throw "expected [local, other]"

def runAct (s : Ev) (j : Json) : Except String (Ev × Json) := do
  let op ← (← field j "op").getStr?
  match op with
  | "search" =>
    let n ← jInt (← field j "n")
    let strict ← jBool (← field j "strict")
    let t ← jOptNat (fieldD j "timeout" Json.null)
    let reps ← jList jPair (← field j "reps")
    let drain ← jPair (fieldD j "drain" (Json.arr #[Json.arr #[], Json.arr #[]]))
    let delays ← jList jNat (fieldD j "delays" (Json.arr #[]))
    match fieldD j "views" Json.null with
    | .null =>
      let r := searchO (step s (.askDelays delays)) { maxEvals := n, strict := strict, timeout := t } reps drain
      return (r.1, opOut none (some (stopName r.2)) r.1)
    | vj =>
      let views ← jList (jList jOptBool) vj
      let s0 := step s (.askDelays delays)
      let c : Call := { maxEvals := n, strict := strict, timeout := t }
      let r := searchF s0 c reps drain views
      return (r.1, opOutF (stopName r.2) (searchFlags s0 c reps views) r.1)
  | "gather" =>
    let all ← jBool (← field j "all")
    let size ← jNat (fieldD j "size" (nat 0))
    let rep ← jList jNat (← field j "rep")
    let orep ← jList jNat (fieldD j "orep" (Json.arr #[]))
    let r := gatherO s all size rep orep
    return (r.1, opOut (r.2.map gerrName) none r.1)
  | "other" =>
    let orep ← jList jNat (fieldD j "orep" (Json.arr #[]))
    match gatherOther s orep with
    | some s' => return (s', opOut none none s')
    | none => return (s, opOut (some "badEnv") none s)
  | _ => runOp s j

def handleWorld (j : Json) : Except String Json := do
  let Ws ← jList jNat (← field j "Ws")
  let hpo ← jBool (fieldD j "hpo" true)
  let specs ← jList jSpec (← field j "specs")
  let acts ← (← field j "acts").getArr?
  let mut w := winit Ws hpo specs
  let mut outs : Array Json := #[]
  for a in acts do
    let k ← jNat (← field a "e")
    match w.evs[k]? with
    | none => throw s!"no evaluator {k}"
    | some l =>
      let (s', out) ← runAct (view w l) a
      w := put w k s'
      outs := outs.push out
  return Json.mkObj [("ok", true), ("outs", Json.arr outs), ("jobs", Json.arr (w.jobs.map jobJson).toArray),
    ("results", Json.arr (w.evs.map (fun l => ofNats l.results)).toArray),
    ("running", Json.arr (w.evs.map (fun l => ofNats l.running)).toArray), ("now", nat w.now)]

/-! ### several searches in one storage object (`Model/MultiSearch.lean`)

`{"op":"store","searches":[{"Ws":[2],"hpo":true,"specs":[…]},{"Ws":[1],"specs":[…]}],
  "acts":[{"s":0,"e":0,"op":"search",…},{"s":1,"e":0,"op":"search",…}, …]}`  (`s` = the search, `e` = its evaluator that
acts; the acts are those of `world`)
→ `{"ok":true,"outs":[…],"searches":[{"jobs":[…],"results":[[…]],"running":[[…]],"now":…},…],"now":…}` -/

def handleStore (j : Json) : Except String Json := do
  let ss ← (← field j "searches").getArr?
  let mut cfg : List (List Nat × Bool × List Spec) := []
  for sj in ss do
    cfg := cfg ++ [(← jList jNat (← field sj "Ws"), ← jBool (fieldD sj "hpo" true), ← jList jSpec (← field sj "specs"))]
  let acts ← (← field j "acts").getArr?
  let mut st := sinit cfg
  let mut outs : Array Json := #[]
  for a in acts do
    let s ← jNat (← field a "s")
    let k ← jNat (← field a "e")
    match st.searches[s]? with
    | none => throw s!"no search {s}"
    | some w0 =>
      let w : World := { w0 with now := st.now }
      match w.evs[k]? with
      | none => throw s!"no evaluator {k} on search {s}"
      | some l =>
        let (s', out) ← runAct (view w l) a
        let w' := put w k s'
        st := { now := w'.now, searches := st.searches.set s w' }
        outs := outs.push out
  let one (w : World) : Json := Json.mkObj [("jobs", Json.arr (w.jobs.map jobJson).toArray),
    ("results", Json.arr (w.evs.map (fun l => ofNats l.results)).toArray),
    ("running", Json.arr (w.evs.map (fun l => ofNats l.running)).toArray), ("now", nat w.now)]
  return Json.mkObj [("ok", true), ("outs", Json.arr outs), ("searches", Json.arr (st.searches.map one).toArray),
    ("now", nat st.now)]

def jRow (j : Json) : Except String (Nat × Status) := do
  let a ← j.getArr?
  match a.toList with
  | [i, st] => return (← jNat i, ← statusOfCode (← jNat st))
  | _ => throw "row must be [job id, status code]"

def jTable (j : Json) : Except String TableObs := do
  return { nJobs := ← jNat (← field j "nJobs"), rows := ← jList jRow (← field j "rows") }

/-- `{"op":"checkshared","jobs":[…JobObs…],"tables":[{"nJobs":4,"rows":[[0,2],[1,4],…]},…]}`: the verified checker
of a multi-evaluator history, the value of its conjuncts and the first offender of each (for the fingerprint) -/
def handleCheckShared (j : Json) : Except String Json := do
  let jobs ← jList jJobObs (← field j "jobs")
  let tables ← jList jTable (← field j "tables")
  let o : SharedObs := { jobs := jobs, tables := tables }
  let idxs := List.range jobs.length
  let badMono := idxs.find? (fun i => match jobs[i]? with | some jb => !monotoneB jb.log | none => false)
  let tidx := List.range tables.length
  let badTable := tidx.find? (fun t => match tables[t]? with | some tb => !checkTable jobs tb | none => false)
  let detail : Json := match badTable with
    | none => Json.null
    | some t =>
      match tables[t]? with
      | none => Json.null
      | some tb =>
        let ob : Obs := { jobs := jobs.take tb.nJobs, results := tb.rows.map (·.1), complete := true }
        let ids := List.range ob.jobs.length
        let firstBad (p : JobObs → Bool) : Json :=
          match ids.find? (fun i => match ob.jobs[i]? with | some jb => !p jb | none => false) with
          | some i => nat i
          | none => Json.null
        Json.mkObj [("table", nat t),
          ("once", decide ob.results.Nodup && ob.results.all (fun i => decide (i < ob.jobs.length))),
          ("complete", ids.all (fun i => ob.results.contains i)),
          ("terminal", ob.results.all (fun i => match ob.jobs[i]? with | some jb => terminalB jb.log | none => true)),
          ("classified", ob.jobs.all (fun jb => !jb.gathered || jb.tie || (classifiedB jb && jb.valueKept))),
          ("badClassified", firstBad (fun jb => !jb.gathered || jb.tie || (classifiedB jb && jb.valueKept))),
          ("reached", tb.rows.all (rowReachedB jobs)),
          ("badRow", match tb.rows.find? (fun r => !rowReachedB jobs r) with | some r => nat r.1 | none => Json.null)]
  return Json.mkObj [("ok", true), ("check", checkShared o),
    ("monotone", jobs.all (fun jb => monotoneB jb.log)),
    ("badMonotone", match badMono with | some i => nat i | none => Json.null),
    ("tablesOk", tables.all (checkTable jobs)), ("badTable", detail)]

def handle (j : Json) : Except String Json := do
  if (fieldD j "op" Json.null) == Json.str "checklog" then return ← handleCheck j
  if (fieldD j "op" Json.null) == Json.str "checkshared" then return ← handleCheckShared j
  if (fieldD j "op" Json.null) == Json.str "world" then return ← handleWorld j
  if (fieldD j "op" Json.null) == Json.str "store" then return ← handleStore j
  let W ← jNat (← field j "W")
  let hpo ← jBool (fieldD j "hpo" false)
  let specs ← jList jSpec (← field j "specs")
  let ops ← (← field j "ops").getArr?
  let mut s := init W hpo specs
  let mut outs : Array Json := #[]
  for o in ops do
    let (s', out) ← runOp s o
    s := s'
    outs := outs.push out
  return Json.mkObj [("ok", true), ("outs", Json.arr outs), ("jobs", Json.arr (s.jobs.map jobJson).toArray),
    ("results", ofNats s.results), ("running", ofNats s.running), ("now", nat s.now)]

def main : IO Unit := serveFn handle
