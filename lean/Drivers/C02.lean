import Drivers.AskSession

/-! Driver for C02: `mem` (membership oracle), `fin` (inverse step), `session` (ask/tell replay). -/

def main : IO Unit := DH.Wire.serveFn DH.Session.handle
