import Drivers.Wire
import Model.Direction

/-!
Driver for C05.

* `{"op":"names","keys":[..]}` → the three name maps on every key
* `{"op":"tell","ignore":b,"objs":[obj..]}` with `obj = {"n":rat} | {"s":str} | {"t":[{"n":rat}|{"s":str}..]}`
* `{"op":"case","single":b,"told":[[rat..]..],"scaler":"identity"|"minmax"|"given","scaled":[[..]..],
   "strategy":"Linear"|"Chebyshev"|"AugChebyshev"|"PBI"|"Quadratic","param":rat,"w":[..],
   "cands":[..],"mu":[..],"sd":[..],"kappa":rat}`
  → scaled history, utopia point, targets (post-fix and pre-fix), acquisition values, arg-min,
    and the arg-min an interpolating surrogate would give.
-/

open Lean DH.Wire DH.Direction

def optJ {α} (f : α → Json) : Option α → Json
  | some a => f a
  | none => Json.null

def ofRows (rows : List Vec) : Json := Json.arr (rows.map ofRats).toArray

def jCell (j : Json) : Except String Cell :=
  match j.getObjVal? "n" with
  | .ok v => do return .num (← jRat v)
  | .error _ => do return .str (← (← field j "s").getStr?)

def jObj (j : Json) : Except String Obj :=
  match j.getObjVal? "n" with
  | .ok v => do return .num (← jRat v)
  | .error _ =>
    match j.getObjVal? "t" with
    | .ok v => do return .tup (← jList jCell v)
    | .error _ => do return .str (← (← field j "s").getStr?)

def ofTell : TellOut → Json
  | .told (.scal r) => Json.mkObj [("k", "scal"), ("v", ofRat r)]
  | .told (.vec v) => Json.mkObj [("k", "vec"), ("v", ofRats v)]
  | .told .fail => Json.mkObj [("k", "fail")]
  | .skipped => Json.mkObj [("k", "skipped")]
  | .error e => Json.mkObj [("k", "error"), ("e", e)]

def parseStrategy (name : String) (param : Rat) : Except String Strategy :=
  match name with
  | "Linear" => .ok .linear
  | "Chebyshev" => .ok .chebyshev
  | "AugChebyshev" => .ok (.augChebyshev param)
  | "PBI" => .ok (.pbi param)
  | "Quadratic" => .ok (.quadratic param)
  | _ => .error s!"unknown strategy {name}"

def handle (j : Json) : Except String Json := do
  let op ← (← field j "op").getStr?
  match op with
  | "names" =>
    let keys ← jList jStr (← field j "keys")
    let strs (f : String → String) : Json := Json.arr (keys.map (fun k => Json.str (f k))).toArray
    return Json.mkObj [("ok", true), ("acq", strs mapAcq), ("mp", strs mapMultiPoint), ("ff", strs mapFilterFailures),
      ("scaler_forest", strs (cookScalerName · true)), ("scaler_other", strs (cookScalerName · false))]
  | "tell" =>
    let ignore ← jBool (← field j "ignore")
    let objs ← jList jObj (← field j "objs")
    return Json.mkObj [("ok", true), ("told", Json.arr (objs.map (fun o => ofTell (cboTellY ignore o))).toArray)]
  | "case" =>
    let single ← jBool (← field j "single")
    let toldOpt ← jList (fun r => match r with
      | Json.null => pure (none : Option Vec)
      | r => do return some (← jList jRat r)) (← field j "told")
    let told := toldOpt.filterMap id
    let ff := match (fieldD j "ff" (Json.str "min")).getStr? with | .ok s => s | .error _ => "min"
    let maxf := match (fieldD j "maxf" (Json.num 100)).getNat? with | .ok n => n | .error _ => 100
    let scalerName ← (← field j "scaler").getStr?
    let scaledIn ← jList (jList jRat) (fieldD j "scaled" (Json.arr #[]))
    let sc : Scaler ← match scalerName with
      | "identity" => pure Scaler.identity
      | "minmax" => pure Scaler.minmax
      | "given" => pure (Scaler.given scaledIn)
      | _ => throw s!"unknown scaler {scalerName}"
    let strat ← parseStrategy (← (← field j "strategy").getStr?) (← jRat (← field j "param"))
    let w ← jList jRat (← field j "w")
    let cands ← jList jNat (← field j "cands")
    let mu ← jList jRat (← field j "mu")
    let sd ← jList jRat (← field j "sd")
    let kappa ← jRat (← field j "kappa")
    let scaled := applyScaler sc told
    let utopia := scaled.bind colMin
    let bounds : Option (List (Option Rat)) ← match j.getObjVal? "bounds" with
      | .ok (Json.arr a) => do
        let l ← a.toList.mapM (fun b => match b with
          | Json.null => pure (none : Option Rat)
          | b => do return some (← jRat b))
        pure (some l)
      | _ => pure none
    let ubGiven ← jList jRat (fieldD j "ub_scaled" (Json.arr #[]))
    let fitted := fitTargets single sc strat w ff maxf toldOpt bounds ubGiven
    let targets : Option Vec := match fitted with | .ok v => some v | .error _ => none
    let targetsErr : String := match fitted with | .ok _ => "" | .error e => e
    let pre : Option Vec :=
      if told.length != toldOpt.length then none
      else if single then targets else if bounds.isSome then none else mooTargetsPre sc strat w told
    let acq := acqLCB kappa mu sd
    let contract : Bool := match sc with
      | .given s => orderPreservingB told s
      | _ => true
    return Json.mkObj [("ok", true),
      ("scaled", optJ ofRows scaled), ("utopia", optJ ofRats utopia),
      ("targets", optJ ofRats targets), ("targets_err", targetsErr), ("pre_targets", optJ ofRats pre),
      ("ff_internal", mapFilterFailures ff),
      ("contract", contract),
      ("acq", ofRats acq),
      ("choice", optJ (fun (n : Nat) => Json.num (JsonNumber.fromNat n)) (chooseNext acq)),
      ("choice_interp", optJ (fun (n : Nat) => Json.num (JsonNumber.fromNat n))
        ((targets.bind (fun t => interpolate t cands)).bind chooseNext)),
      ("choice_interp_pre", optJ (fun (n : Nat) => Json.num (JsonNumber.fromNat n))
        ((pre.bind (fun t => interpolate t cands)).bind chooseNext))]
  | "choice" =>
    -- verified checker (theorem C05_checker) on a real proposal
    let score ← jList jRat (← field j "score")
    let succ ← jList jBool (← field j "succ")
    let cands ← jList jNat (← field j "cands")
    let chosen ← jNat (← field j "chosen")
    return Json.mkObj [("ok", true), ("check", checkChoice score succ cands chosen)]
  | "lie" =>
    -- constant-liar lie on the internal (negated) values for a USER-facing strategy name
    let strategy ← (← field j "strategy").getStr?
    let cols ← jList (jList jRat) (← field j "cols")
    let internal := mapMultiPoint strategy
    return Json.mkObj [("ok", true), ("internal", internal), ("lie", ofRats (cols.map (lieInternal internal)))]
  | "nsmallest" =>
    -- one-shot batches: are the positions `idx` a selection of the `n` smallest of `values`?  (theorem C05_nsmallest_checker;
    -- asked once with the acquisition values — L2: `np.argsort(values)[:n]` — and once with the negated scores — L3, C05_topk_batch)
    let values ← jList jRat (← field j "values")
    let idx ← jList jNat (← field j "idx")
    let n ← jNat (← field j "n")
    return Json.mkObj [("ok", true), ("check", isNSmallestB values idx n),
      ("first", optJ (fun (k : Nat) => Json.num (JsonNumber.fromNat k)) (boltzmannFirst values))]
  | "prior" =>
    -- update_prior: the mask `y <= quantile(y, 1 - p)` of the model, and the verified direction check of an observed selection
    let y ← jList jRat (← field j "y")
    let p ← jRat (← field j "p")
    let q := cboPriorQuantile p
    let sel ← jList jBool (fieldD j "sel" (Json.arr #[]))
    let mask := priorMask q y
    return Json.mkObj [("ok", true), ("q", ofRat q), ("quantile", optJ ofRat (quantileLin y q)),
      ("mask", optJ (fun (m : List Bool) => Json.arr (m.map (fun b => Json.bool b)).toArray) mask),
      ("sel_ok", checkPriorSel y sel)]
  | _ => throw s!"unknown op {op}"

def main : IO Unit := serveFn handle
