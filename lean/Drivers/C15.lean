import Drivers.Wire
import Model.Files
import Model.FilesText
import Model.FilesEnv

/-!
Driver for C15.

* `{"op":"replay","cfg":[uniqueBackup,atomicRewrite,atomicCreate,keepForeign,resetAlways],"runs":[{"stamp":s,"cut":n,
  "acts":[{"a":"create","stamp":s}|{"a":"recreate","stamp":s}|{"a":"resume"}|{"a":"finish","j":[sid,id]}|
  {"a":"dump","js":[[sid,id]…],"sizes":[…],"stamp":s}|{"a":"end","multi":b,"sizes":[…]}]}…]}`
  → the system calls of `searchFiles` (file names rendered the way the code builds them), whether
  each call succeeds in the model, the final directory, and the visible property at every prefix.
* `{"op":"check","text":<bytes of results.csv as a string | null>,"sid":n,"done":[[sid,id]…],
  "dumped":[…],"expect":[{"id":n,"cells":[[column,text]…]}…],"want_records":b}` → the bytes read by the
  `csv.reader` model and abstracted into lines (`abstract`), `wellFormedPrefix`, the loader model, the
  cell check (`cellsOk`, `bytesOk`), whether the writer model renders the records read back to the
  same bytes, and (on request) the records themselves.
* `{"op":"move","same":b,"old":[line…]|null,"new":[line…],"sizes":[…]}` (line = `["h",ext]`, `["r",search,id,ext]`,
  `["t",search,id]`) → the environment model `Model/FilesEnv.lean`: the system calls of moving a file `src` that holds
  `new` onto `results.csv` (holding `old`) when `src` is on the same / on another file system, whether each call
  succeeds, and `results.csv` after every prefix.
-/

open Lean DH.Wire DH.Files

def nameStr : DH.Files.Name → String
  | .results => "results.csv"
  | .tmp => "results.csv.tmp"
  | .backup st 0 => s!"results_{st}.csv"
  | .backup st k => s!"results_{st}_{k}.csv"
  | .other s => s

def jJob (j : Json) : Except String Job := do
  match ← jList jNat j with
  | [a, b] => pure ⟨a, b⟩
  | _ => throw "job = [search, id]"

def ofLine : Line → Json
  | .header e => Json.arr #["h", e]
  | .row j e => Json.arr #["r", j.search, j.id, e]
  | .torn j => Json.arr #["t", j.search, j.id]

def ofContent (c : Content) : Json := Json.arr (c.map ofLine).toArray

def ofOp : Op → Json
  | .openW n => Json.mkObj [("op", "openW"), ("n", nameStr n)]
  | .openA n => Json.mkObj [("op", "openA"), ("n", nameStr n)]
  | .openR n => Json.mkObj [("op", "openR"), ("n", nameStr n)]
  | .write n ls => Json.mkObj [("op", "write"), ("n", nameStr n), ("lines", ofContent ls)]
  | .close n => Json.mkObj [("op", "close"), ("n", nameStr n)]
  | .rename a b => Json.mkObj [("op", "rename"), ("n", nameStr a), ("to", nameStr b)]

def jAct (j : Json) : Except String Act := do
  let a ← (← field j "a").getStr?
  match a with
  | "create" => return .create (← (← field j "stamp").getStr?)
  | "finish" => return .finish (← jJob (← field j "j"))
  | "recreate" => return .recreate (← (← field j "stamp").getStr?)
  | "resume" => return .resume
  | "dump" =>
    let stamp ← (fieldD j "stamp" (Json.str "")).getStr?
    return .dump (← jList jJob (← field j "js")) (← jList jNat (← field j "sizes")) stamp
  | "end" => return .endCall (← jBool (← field j "multi")) (← jList jNat (← field j "sizes"))
  | _ => throw s!"unknown act {a}"

def jRun (j : Json) : Except String Run := do
  return { stamp := ← (← field j "stamp").getStr?, acts := ← jList jAct (← field j "acts"),
           cut := ← jNat (← field j "cut") }

/-- states after every prefix of `evs` (including the empty one) -/
def scan (s : St) : List Ev → List St
  | [] => [s]
  | e :: es => s :: scan (exec s e) es

def sysOk : St → List Ev → List Bool
  | _, [] => []
  | s, .sys op :: es => opOk s.fs op :: sysOk (exec s (.sys op)) es
  | s, e :: es => sysOk (exec s e) es

/-- everything that happened before the `n`-th (0-based) system call is entered -/
def takeSys : Nat → List Ev → List Ev
  | _, [] => []
  | 0, .sys _ :: _ => []
  | n + 1, .sys op :: es => .sys op :: takeSys n es
  | n, e :: es => e :: takeSys n es

/-! the bytes of a results file: `DH.Files.abstract` (`Model/FilesText.lean`: the `csv.reader` state machine of
`Model/Csv.lean`, then every record classified against the header record) -/

def parseFile (sid : Nat) (t : String) : Content := abstract sid t.toList

def jExpect (j : Json) : Except String Expect := do
  let cells ← jList (fun c => do
    match ← jList jStr c with
    | [a, b] => pure (a.toList, b.toList)
    | _ => throw "cell = [column, text]") (← field j "cells")
  return { id := ← jNat (← field j "id"), cells := cells }

def ofRecords (rs : List (List DH.Csv.Text)) : Json :=
  Json.arr (rs.map (fun r => Json.arr (r.map (fun c => Json.str (String.ofList c))).toArray)).toArray

/-- ids of the expectations the records do not meet -/
def badExpect (t : DH.Csv.Text) (exp : List Expect) : List Nat :=
  match records t with
  | [] => []
  | hdr :: rows =>
    match colIdx jobIdName hdr with
    | none => []
    | some jc => (exp.filter (fun e => !expectOk hdr jc rows e)).map (·.id)

def ofJobs (js : List Job) : Json := Json.arr (js.map (fun j => Json.arr #[j.search, j.id])).toArray

def errStr : LoadErr → String
  | .emptyData => "emptyData"
  | .noHeader => "noHeader"
  | .tooManyFields => "tooManyFields"
  | .headerAsRow => "headerAsRow"
  | .noRows => "noRows"

def jLine (j : Json) : Except String Line := do
  match ← jList pure j with
  | [t, e] => if (← t.getStr?) == "h" then return .header (← jBool e) else throw "line tag"
  | [t, a, b] => if (← t.getStr?) == "t" then return .torn ⟨← jNat a, ← jNat b⟩ else throw "line tag"
  | [t, a, b, e] => if (← t.getStr?) == "r" then return .row ⟨← jNat a, ← jNat b⟩ (← jBool e) else throw "line tag"
  | _ => throw "line = [h,ext] | [r,search,id,ext] | [t,search,id]"

def okIn (m : Mounts) : FS → List Op → List Bool
  | _, [] => []
  | fs, op :: ops => opOkIn m fs op :: okIn m (stepIn m fs op) ops

def handle (j : Json) : Except String Json := do
  let op ← (← field j "op").getStr?
  match op with
  | "replay" =>
    let cfg ← match ← jList jBool (fieldD j "cfg" (Json.arr #[true, true, true, true, true])) with
      | [a, b, c, d, e] => pure (Cfg.mk a b c d e)
      | _ => throw "cfg = [uniqueBackup, atomicRewrite, atomicCreate, keepForeign, resetAlways]"
    let runs ← jList jRun (← field j "runs")
    let evs0 := searchFiles cfg emptyDir runs
    let evs := match fieldD j "sys_cut" Json.null with
      | .num n => takeSys n.mantissa.toNat evs0
      | _ => evs0
    let states := scan emptyDir evs
    let fin := execAll emptyDir evs
    let dir := Json.mkObj (fin.fs.map (fun (n, c) => (nameStr n, ofContent c)))
    return Json.mkObj [("ok", true), ("ops", Json.arr ((sysOf evs).map ofOp).toArray),
      ("sys_ok", ofBools (sysOk emptyDir evs)),
      ("vis", ofBools (states.map (fun s => visibleOk (get s.fs .results) s.done s.dumped))),
      ("dir", dir), ("done", ofJobs fin.done), ("dumped", ofJobs fin.dumped),
      ("started", fin.started)]
  | "check" =>
    let sid ← jNat (← field j "sid")
    let done ← jList jJob (← field j "done")
    let dumped ← jList jJob (← field j "dumped")
    let txt : Option DH.Csv.Text := match fieldD j "text" Json.null with
      | .str t => some t.toList
      | _ => none
    let res : Option Content := txt.map (abstract sid)
    let exp ← match fieldD j "expect" Json.null with
      | .null => pure []
      | e => jList jExpect e
    let want := (fieldD j "want_records" (Json.bool false)).getBool?.toOption.getD false
    let rl : Json := match res with
      | none => Json.null
      | some c => match reload c with
        | .ok js => Json.mkObj [("ok", true), ("jobs", ofJobs js)]
        | .error e => Json.mkObj [("ok", false), ("err", errStr e)]
    let recs := txt.map records
    return Json.mkObj [("ok", true), ("visible", visibleOk res done dumped),
      ("torn_last_only", match res with | none => false | some c => tornLastOnly c done dumped),
      ("wf", match res with | none => Json.null | some c => Json.bool (wellFormed c)),
      ("lines", match res with | none => Json.null | some c => ofContent c),
      ("reload", rl),
      ("bytes_ok", bytesOk sid txt done dumped exp),
      ("cells_ok", match txt with | none => true | some t => cellsOk t exp),
      ("bad_expect", match txt with
        | none => Json.arr #[]
        | some t => Json.arr ((badExpect t exp).map (fun n => Json.num (JsonNumber.fromNat n))).toArray),
      ("ended", match txt with | none => Json.null | some t => Json.bool (endsBetweenRecords t)),
      ("n_records", match recs with | none => Json.null | some r => Json.num (JsonNumber.fromNat r.length)),
      ("rerender_equal", match txt, recs with
        | some t, some r => Json.bool (DH.Csv.renderFile r == t)
        | _, _ => Json.null),
      ("records", match recs with
        | some r => if want then ofRecords r else Json.null
        | none => Json.null)]
  | "move" =>
    let same ← jBool (← field j "same")
    let m : Mounts := fun _ => if same then .logDev else .otherDev
    let src : DH.Files.Name := .other "src"
    let new ← jList jLine (← field j "new")
    let sizes ← jList jNat (fieldD j "sizes" (Json.arr #[]))
    let fs0 : FS ← match fieldD j "old" Json.null with
      | .null => pure [(src, new)]
      | o => do pure [(.results, ← jList jLine o), (src, new)]
    let ops := moveOps m src .results new sizes
    return Json.mkObj [("ok", true), ("ops", Json.arr (ops.map ofOp).toArray), ("sys_ok", ofBools (okIn m fs0 ops)),
      ("results", Json.arr ((scanOps m fs0 ops).map (fun fs => match get fs .results with
        | none => Json.null
        | some c => ofContent c)).toArray)]
  | _ => throw s!"unknown op {op}"

def main : IO Unit := serveFn handle
