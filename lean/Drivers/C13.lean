import Drivers.Wire
import Model.Storage
import Model.StorageAlias

/-!
Driver for C13 — stateful sessions (`DH.Wire.serve`): the driver keeps one model store per session id.

requests
  `{"op":"init","s":k}`                         new empty MemoryStorage model in session `k`
  `{"op":"init","s":k,"null":true}`             … NullStorage model
  `{"op":"call","s":k,"c":[name,arg,…]}`       one method call          → `{"ok":true,"out":OUT}`
  `{"op":"hist","s":k,"calls":[[name,arg,…],…]}` several calls in order → `{"ok":true,"outs":[OUT,…]}`
  `{"op":"fan","calls":[…],"alts":[call,…]}`   fresh store: the calls in order, then every alternative
                                                 call applied (independently) to the state after them
  `{"op":"check","calls":[…],"outs":[OUT,…]}`  the verified checker `checkHistory` (theorem `C13_checker`) on the
                                                 answers the REAL storage gave → `{"ok":true,"spec":bool,"bad":index|null}`
  `{"op":"end","s":k}`                          forget the session
  `{"op":"conc","progs":[[call,…],…],"sched":[i,…]}`  the concurrent semantics `Conc.run` from an empty store
                                                 → per-client outputs + the linearized history's outputs
  `{"op":"split","sid":…}`                      the non-atomic `create_new_job` witness on a fresh store
  `{"op":"alias","ops":[aop,…]}`                the world of OBJECTS (`Model/StorageAlias.lean`: identities of the dicts / lists)
                                                 from an empty job table; every answer with the identity of each container:
                                                 `{"d":[…],"id":n}` / `{"l":[…],"id":n}`
      aop  `["submit",jid,REF]` (a real evaluator submits REF and runs the job: `World.submit`) |
           `["new_job",jid]` | `["store_job",jid,key,REF]` | `["store_meta",jid,key,REF]` | `["load_job",jid]` | `["load_all"]`
           | `["load_jobs",[jid,…]]` | `["edit",REF,["set",key,REF] | ["del",key] | ["append",REF] | ["clear"]]`
      REF  `{"new":value}` (an object the caller just built) | `{"held":i,"path":[key,…]}` (a part of what the i-th
           successful load returned)
values  `null` | `true` | `{"i":n}` | `{"f":"n/d"}` | `{"s":"…"}` | `{"l":[…]}` | `{"t":[…]}` | `{"d":[[key,value],…]}`
keys / identifiers in calls: a JSON string (a str) or a value `null | true | {"i":n} | {"f":"n/d"} | {"s":"…"} | {"t":[item,…]}`
        (a key of another hashable type; rendered by `Key.render`); in answers the keys of dicts are the rendered strings
OUT     `{"k":"none"}` | `{"k":"id","v":"0.1"}` | `{"k":"ids","v":[…]}` | `{"k":"val","v":value}` |
        `{"k":"vals","v":[value,…]}` | `{"k":"error","v":"KeyError"}` | `{"k":"oom"}`
-/

open Lean DH.Wire DH.Storage

/-! keys and identifiers of any hashable type: a JSON string is a str key, anything else an ordinary wire value
(`null`, `true`, `{"i":1}`, `{"f":"5/2"}`, `{"s":"a"}`, `{"t":[item,…]}`); the model's string key is `Key.render` of it
(injective: `C13_key_rendering_injective`) -/

def jKAtom (j : Json) : Except String KAtom :=
  match j with
  | .null => .ok .none
  | .bool b => .ok (.num (if b then 1 else 0))
  | .str s => .ok (.str s)
  | _ =>
    match j.getObjVal? "i" with
    | .ok v => do return .num (Rat.ofInt (← jInt v))
    | .error _ =>
    match j.getObjVal? "f" with
    | .ok v => do return .num (← jRat v)
    | .error _ =>
    match j.getObjVal? "s" with
    | .ok v => do return .str (← jStr v)
    | .error _ => .error s!"bad key {j.compress}"

def jKeyT (j : Json) : Except String Key :=
  match j with
  | .null | .bool _ | .str _ => do return .atom (← jKAtom j)
  | _ =>
    match j.getObjVal? "t" with
    | .ok v => do return .tuple (← jList jKAtom v)
    | .error _ => do return .atom (← jKAtom j)

/-- the model's string for a key / identifier on the wire -/
def jKey (j : Json) : Except String String := do return (← jKeyT j).render

/-- a value in the form calls carry it: dict keys are wire keys (rendered here; two keys that are equal for a Python
dict are one entry, the later value at the place of the first: `aset`) -/
partial def jVal (j : Json) : Except String Val :=
  match j with
  | .null => .ok .none
  | .bool b => .ok (.bool b)
  | _ =>
    match j.getObjVal? "i" with
    | .ok v => do return .int (← jInt v)
    | .error _ =>
    match j.getObjVal? "f" with
    | .ok v => do return .num (← jRat v)
    | .error _ =>
    match j.getObjVal? "s" with
    | .ok v => do return .str (← jStr v)
    | .error _ =>
    match j.getObjVal? "l" with
    | .ok v => do return .list (← jList jVal v)
    | .error _ =>
    match j.getObjVal? "t" with
    | .ok v => do return .tuple (← jList jVal v)
    | .error _ =>
    match j.getObjVal? "d" with
    | .ok v => do
      let kvs ← jList (fun p => do
        let a ← p.getArr?
        let k ← jKey (a.getD 0 Json.null)
        let x ← jVal (a.getD 1 Json.null)
        return (k, x)) v
      return .dict (kvs.foldl (fun acc p => aset p.1 p.2 acc) [])
    | .error _ => .error s!"bad value {j.compress}"

/-- a value in the form answers carry it: the keys of dicts are already rendered -/
partial def jValOut (j : Json) : Except String Val :=
  match j with
  | .null => .ok .none
  | .bool b => .ok (.bool b)
  | _ =>
    match j.getObjVal? "i" with
    | .ok v => do return .int (← jInt v)
    | .error _ =>
    match j.getObjVal? "f" with
    | .ok v => do return .num (← jRat v)
    | .error _ =>
    match j.getObjVal? "s" with
    | .ok v => do return .str (← jStr v)
    | .error _ =>
    match j.getObjVal? "l" with
    | .ok v => do return .list (← jList jValOut v)
    | .error _ =>
    match j.getObjVal? "t" with
    | .ok v => do return .tuple (← jList jValOut v)
    | .error _ =>
    match j.getObjVal? "d" with
    | .ok v => do
      let kvs ← jList (fun p => do
        let a ← p.getArr?
        let k ← jStr (a.getD 0 Json.null)
        let x ← jValOut (a.getD 1 Json.null)
        return (k, x)) v
      return .dict kvs
    | .error _ => .error s!"bad value {j.compress}"

partial def valJson : Val → Json
  | .none => Json.null
  | .bool b => Json.bool b
  | .int i => Json.mkObj [("i", Json.num (JsonNumber.fromInt i))]
  | .num q => Json.mkObj [("f", ofRat q)]
  | .str s => Json.mkObj [("s", s)]
  | .list l => Json.mkObj [("l", Json.arr (l.map valJson).toArray)]
  | .tuple l => Json.mkObj [("t", Json.arr (l.map valJson).toArray)]
  | .dict kv => Json.mkObj [("d", Json.arr (kv.map (fun (k, v) => Json.arr #[Json.str k, valJson v])).toArray)]

def errName : Err → String
  | .keyError => "KeyError"
  | .valueError => "ValueError"
  | .typeError => "TypeError"
  | .attributeError => "AttributeError"

def strs (l : List String) : Json := Json.arr (l.map Json.str).toArray

def outJson : Out → Json
  | .none => Json.mkObj [("k", "none")]
  | .id s => Json.mkObj [("k", "id"), ("v", s)]
  | .ids l => Json.mkObj [("k", "ids"), ("v", strs l)]
  | .val v => Json.mkObj [("k", "val"), ("v", valJson v)]
  | .vals l => Json.mkObj [("k", "vals"), ("v", Json.arr (l.map valJson).toArray)]
  | .error e => Json.mkObj [("k", "error"), ("v", errName e)]
  | .outOfModel => Json.mkObj [("k", "oom")]

def jOp (j : Json) : Except String Op := do
  let a ← j.getArr?
  let name ← jStr (a.getD 0 Json.null)
  let s (i : Nat) : Except String String := jKey (a.getD i Json.null)
  let v (i : Nat) : Except String Val := jVal (a.getD i Json.null)
  match name with
  | "create_new_search" => return .createSearch
  | "create_new_job" => return .createJob (← s 1)
  | "store_job" => return .storeJob (← s 1) (← s 2) (← v 3)
  | "store_job_in" => return .storeJobIn (← s 1) (← v 2) (← v 3)
  | "store_job_out" => return .storeJobOut (← s 1) (← v 2)
  | "store_job_metadata" => return .storeJobMetadata (← s 1) (← s 2) (← v 3)
  | "store_job_status" => return .storeJobStatus (← s 1) (← v 2)
  | "store_search_value" => return .storeSearchValue (← s 1) (← s 2) (← v 3)
  | "load_all_search_ids" => return .loadAllSearchIds
  | "load_all_job_ids" => return .loadAllJobIds (← s 1)
  | "load_search" => return .loadSearch (← s 1)
  | "load_job" => return .loadJob (← s 1)
  | "load_search_value" => return .loadSearchValue (← s 1) (← s 2)
  | "load_metadata_from_all_jobs" => return .loadMetadataFromAllJobs (← s 1) (← s 2)
  | "load_out_from_all_jobs" => return .loadOutFromAllJobs (← s 1)
  | "load_jobs" => return .loadJobs (← jList jKey (a.getD 1 Json.null))
  | "load_job_status" => return .loadJobStatus (← s 1)
  | _ => throw s!"unknown method {name}"

def isStrJson : Json → Bool
  | .str _ => true
  | _ => false

/-- the methods that start with `job_id.split(".")` -/
def jobIdFirst (name : String) : Bool :=
  ["store_job", "store_job_in", "store_job_out", "store_job_metadata", "store_job_status", "load_job", "load_job_status",
   "job_status", "running_job_status", "job_status_set"].contains name

/-- a call as the real object sees it: a job identifier that is not a str has no `split` — `AttributeError` before anything
is looked up (no step of the model); `load_jobs` walks its list and raises at the first such identifier, unless an earlier
one is unknown / malformed; every other call is an `Op` -/
inductive Call where
  | op (o : Op)
  | attrErr
  | jobsThenAttr (pre : List String)
  | view (jid : String)            -- `Job(jid, …).status` / `RunningJob(jid, …).status` through any handle: `viewStatus`

def jCall (j : Json) : Except String Call := do
  let a ← j.getArr?
  let name ← jStr (a.getD 0 Json.null)
  if jobIdFirst name && !isStrJson (a.getD 1 Json.null) then
    return .attrErr
  if name == "job_status" || name == "running_job_status" then
    return .view (← jKey (a.getD 1 Json.null))
  if name == "job_status_set" then          -- `handle.status = JobStatus(v)`: `setStatus`
    return .op (.storeJobStatus (← jKey (a.getD 1 Json.null)) (← jVal (a.getD 2 Json.null)))
  if name == "load_jobs" then
    let ids ← (a.getD 1 Json.null).getArr?
    if ids.any (fun x => !isStrJson x) then
      return .jobsThenAttr (← (ids.toList.takeWhile isStrJson).mapM jStr)
  return .op (← jOp j)

def jErr (s : String) : Except String Err :=
  match s with
  | "KeyError" => .ok .keyError
  | "ValueError" => .ok .valueError
  | "TypeError" => .ok .typeError
  | "AttributeError" => .ok .attributeError
  | _ => .error s!"unknown exception class {s}"

/-- an answer of the REAL storage, as the harness encoded it -/
def jOut (j : Json) : Except String Out := do
  let k ← jStr (← field j "k")
  match k with
  | "none" => return .none
  | "id" => return .id (← jStr (← field j "v"))
  | "ids" => return .ids (← jList jStr (← field j "v"))
  | "val" => return .val (← jValOut (← field j "v"))
  | "vals" => return .vals (← jList jValOut (← field j "v"))
  | "error" => return .error (← jErr (← jStr (← field j "v")))
  | _ => throw s!"unknown answer kind {k}"

/-! ### the world of objects (`Model/StorageAlias.lean`) -/

/-- an object the caller has just built: every container in it is new (identities from `n` on) -/
partial def labelVal (n : Nat) : Val → RVal × Nat
  | .none => (.atom .none, n)
  | .bool b => (.atom (.bool b), n)
  | .int i => (.atom (.int i), n)
  | .num q => (.atom (.num q), n)
  | .str s => (.atom (.str s), n)
  | .list l =>
    let (l', m) := l.foldl (fun (acc : List RVal × Nat) x => let (x', k) := labelVal acc.2 x; (acc.1 ++ [x'], k)) ([], n + 1)
    (.list n l', m)
  | .tuple l =>
    let (l', m) := l.foldl (fun (acc : List RVal × Nat) x => let (x', k) := labelVal acc.2 x; (acc.1 ++ [x'], k)) ([], n)
    (.tuple l', m)
  | .dict kv =>
    let (kv', m) := kv.foldl (fun (acc : List (String × RVal) × Nat) p =>
      let (x', k) := labelVal acc.2 p.2; (acc.1 ++ [(p.1, x')], k)) ([], n + 1)
    (.dict n kv', m)

partial def rvalJson : RVal → Json
  | .atom a => valJson a.toVal
  | .list a l => Json.mkObj [("l", Json.arr (l.map rvalJson).toArray), ("id", Json.num (JsonNumber.fromNat a))]
  | .tuple l => Json.mkObj [("t", Json.arr (l.map rvalJson).toArray)]
  | .dict a kv => Json.mkObj [("d", Json.arr (kv.map (fun (k, v) => Json.arr #[Json.str k, rvalJson v])).toArray),
      ("id", Json.num (JsonNumber.fromNat a))]

def aoutJson : AOut → Json
  | .none => Json.mkObj [("k", "none")]
  | .val r => Json.mkObj [("k", "val"), ("v", rvalJson r)]
  | .error e => Json.mkObj [("k", "error"), ("v", errName e)]

/-- what the i-th successful load returned (the world keeps them newest first) -/
def heldAt (W : World) (i : Nat) : Option RVal :=
  if i < W.held.length then W.held[W.held.length - 1 - i]? else none

def resolveRef (W : World) (j : Json) : Except String RVal :=
  match j.getObjVal? "new" with
  | .ok v => do return (labelVal W.next (← jVal v)).1
  | .error _ => do
    let h ← jNat (← field j "held")
    let p ← jList jStr (← field j "path")
    match heldAt W h with
    | none => throw s!"no handle {h}"
    | some r =>
      match r.sub p with
      | some x => return x
      | none => throw s!"handle {h} has no part {p}"

def jEdit (W : World) (j : Json) : Except String Edit := do
  let a ← j.getArr?
  match ← jStr (a.getD 0 Json.null) with
  | "set" => return .setKey (← jStr (a.getD 1 Json.null)) (← resolveRef W (a.getD 2 Json.null))
  | "del" => return .delKey (← jStr (a.getD 1 Json.null))
  | "append" => return .append (← resolveRef W (a.getD 1 Json.null))
  | "clear" => return .clear
  | x => throw s!"unknown edit {x}"

def jAOp (W : World) (j : Json) : Except String AOp := do
  let a ← j.getArr?
  let s (i : Nat) : Except String String := jStr (a.getD i Json.null)
  match ← s 0 with
  | "new_job" => return .newJob (← s 1)
  | "store_job" => return .storeJob (← s 1) (← s 2) (← resolveRef W (a.getD 3 Json.null))
  | "store_meta" => return .storeMeta (← s 1) (← s 2) (← resolveRef W (a.getD 3 Json.null))
  | "load_job" => return .loadJob (← s 1)
  | "load_all" => return .loadAll
  | "load_jobs" => return .loadJobs (← jList jStr (a.getD 1 Json.null))
  | "edit" =>
    match ← resolveRef W (a.getD 1 Json.null) with
    | .dict b _ => return .callerEdit b (← jEdit W (a.getD 2 Json.null))
    | .list b _ => return .callerEdit b (← jEdit W (a.getD 2 Json.null))
    | _ => throw "edit: not a container"
  | x => throw s!"unknown aop {x}"

/-- `["submit", jid, REF]`: a real evaluator submits the configuration and runs the job to completion — `create_new_job`,
`World.submit` (the job's parameters: one deep copy, held outside the storage; the stored inputs: another one), status DONE;
the answer is the parameters object the run-function received -/
def runSubmit (W : World) (j : Json) : Except String (World × Json) := do
  let a ← j.getArr?
  let jid ← jStr (a.getD 1 Json.null)
  let W1 := (astep W (.newJob jid)).1
  let cfg ← resolveRef W1 (a.getD 2 Json.null)
  let p := (submitObjs W1.next cfg).1
  let (W2, o) := W1.submit jid cfg
  let W3 := (astep W2 (.storeJob jid "status" (.atom (.int 2)))).1
  match o with
  | .none => return (W3, aoutJson (.val p))
  | e => return (W3, aoutJson e)

def isSubmit (j : Json) : Bool :=
  match j.getArr? with
  | .ok a => (a.getD 0 Json.null) == Json.str "submit"
  | .error _ => false

/-- a script; an operation whose references cannot be resolved in the model's world (the real storage returned something
of another shape) is answered `unresolved` and skipped: the harness reports the difference, the driver does not fail -/
def runAlias (js : List Json) : World × List Json :=
  js.foldl (fun (acc : World × List Json) j =>
    if isSubmit j then
      match runSubmit acc.1 j with
      | .ok (W', o) => (W', acc.2 ++ [o])
      | .error e => (acc.1, acc.2 ++ [Json.mkObj [("k", "unresolved"), ("v", e)]])
    else
    match jAOp acc.1 j with
    | .ok op =>
      let (W', o) := astep acc.1 op
      (W', acc.2 ++ [aoutJson o])
    | .error e => (acc.1, acc.2 ++ [Json.mkObj [("k", "unresolved"), ("v", e)]])) (World.init, [])

inductive Sess where
  | mem (s : Store)
  | null (s : NullStore)

def Sess.call (x : Sess) (op : Op) : Sess × Out :=
  match x with
  | .mem s => let (s', o) := step s op; (.mem s', o)
  | .null s => let (s', o) := nullStep s op; (.null s', o)

def Sess.calls (x : Sess) : List Op → Sess × List Out
  | [] => (x, [])
  | op :: ops =>
    let (x1, o) := x.call op
    let (x2, os) := x1.calls ops
    (x2, o :: os)

def Sess.callX (x : Sess) : Call → Sess × Out
  | .op o => x.call o
  | .attrErr => (x, .error .attributeError)
  | .jobsThenAttr pre =>
    match (x.call (.loadJobs pre)).2 with
    | .error e => (x, .error e)
    | _ => (x, .error .attributeError)
  | .view jid =>
    match x with
    | .mem s => (x, viewStatus s jid)
    | .null _ => (x, (x.call (.loadJobStatus jid)).2)

def Sess.callsX (x : Sess) : List Call → Sess × List Out
  | [] => (x, [])
  | c :: cs =>
    let (x1, o) := x.callX c
    let (x2, os) := x1.callsX cs
    (x2, o :: os)

abbrev St := List (Nat × Sess)

def getSess (st : St) (k : Nat) : Option Sess := (st.find? (·.1 == k)).map (·.2)
def putSess (st : St) (k : Nat) (x : Sess) : St := (k, x) :: st.filter (·.1 != k)

def handle (st : St) (j : Json) : Except String (St × Json) := do
  let op ← jStr (← field j "op")
  match op with
  | "init" =>
    let k ← jNat (← field j "s")
    let isNull := match j.getObjVal? "null" with
      | .ok (.bool true) => true
      | _ => false
    return (putSess st k (if isNull then .null ⟨0⟩ else .mem Store.init), Json.mkObj [("ok", true)])
  | "end" =>
    let k ← jNat (← field j "s")
    return (st.filter (·.1 != k), Json.mkObj [("ok", true)])
  | "call" =>
    let k ← jNat (← field j "s")
    let some x := getSess st k | throw s!"no session {k}"
    let (x', o) := x.callX (← jCall (← field j "c"))
    return (putSess st k x', Json.mkObj [("ok", true), ("out", outJson o)])
  | "hist" =>
    let k ← jNat (← field j "s")
    let x := (getSess st k).getD (.mem Store.init)
    let ops ← jList jCall (← field j "calls")
    let (x', os) := x.callsX ops
    let st' := match j.getObjVal? "keep" with
      | .ok (.bool true) => putSess st k x'
      | _ => st.filter (·.1 != k)
    return (st', Json.mkObj [("ok", true), ("outs", Json.arr (os.map outJson).toArray)])
  | "fan" =>
    -- a shared prefix, then each alternative last call applied to the state after the prefix
    let ops ← jList jCall (← field j "calls")
    let alts ← jList jCall (← field j "alts")
    let (x, os) := (Sess.mem Store.init).callsX ops
    let aos := alts.map (fun op => (x.callX op).2)
    return (st, Json.mkObj [("ok", true), ("outs", Json.arr (os.map outJson).toArray),
      ("alts", Json.arr (aos.map outJson).toArray)])
  | "check" =>
    -- the verified checker (theorem C13_checker) on the answers of the REAL storage
    let ops ← jList jOp (← field j "calls")
    let outs ← jList jOut (← field j "outs")
    let h := ops.zip outs
    return (st, Json.mkObj [("ok", true), ("spec", checkHistory h),
      ("bad", match firstBadAnswer Store.init h 0 with | some i => Json.num (JsonNumber.fromNat i) | none => Json.null)])
  | "conc" =>
    let progs ← jList (jList jOp) (← field j "progs")
    let sched ← jList jNat (← field j "sched")
    let c := (Conc.start Store.init progs).run sched
    let lin := linearize progs sched
    let (_, los) := run Store.init (lin.map (·.2))
    return (st, Json.mkObj [("ok", true),
      ("outs", Json.arr (c.outs.map (fun l => Json.arr (l.map outJson).toArray)).toArray),
      ("lin_clients", ofNats (lin.map (·.1))),
      ("lin_outs", Json.arr (los.map outJson).toArray)])
  | "split" =>
    -- client A reads the counter, client B runs its whole create_new_job, then A commits
    let (s0, sidOut) := createSearch Store.init
    let sid := match sidOut with | .id s => s | _ => ""
    let a := createJobRead s0 sid
    let b := createJobRead s0 sid
    let (s1, ob) := createJobCommit s0 sid (b.getD 0)
    let (s2, oa) := createJobCommit s1 sid (a.getD 0)
    let (s3, olist) := step s2 (.loadAllJobIds sid)
    let (_, onext) := step s3 (.createJob sid)
    return (st, Json.mkObj [("ok", true), ("b", outJson ob), ("a", outJson oa), ("listing", outJson olist),
      ("next", outJson onext)])
  | "alias" =>
    let ops ← (← field j "ops").getArr?
    let (W, outs) := runAlias ops.toList
    return (st, Json.mkObj [("ok", true), ("outs", Json.arr outs.toArray),
      ("next", Json.num (JsonNumber.fromNat W.next))])
  | _ => throw s!"unknown op {op}"

def main : IO Unit :=
  serve (fun (st : St) j => match handle st j with
    | .ok (st', r) => (st', r)
    | .error e => (st, errReply e)) []
