import Drivers.SpaceWire
import Model.Sampling
import Model.Proposal

/-!
Driver for C10 (declaration → space conversion, samplers).  One JSON request per line.

  py        = {"t":"i","v":int} | {"t":"f","v":rat} | {"t":"s","v":str} | {"t":"b","v":bool} | {"t":"n"} | {"t":"o"}
  shorthand = {"k":"hp","hp":cshp} | {"k":"scalar","v":py} | {"k":"tuple","items":[py…]} | {"k":"list","items":[py…]}
            | {"k":"dict","musigma":bool,"mu":py,"bounds":bool} | {"k":"array"}
  cshp      = {"k":"uint","name":s,"lo":int,"hi":int,"log":bool} | {"k":"ufloat","name":s,"lo":rat,"hi":rat,"log":bool}
            | {"k":"cat","name":s,"choices":[val…],"weights":[rat…]|null} | {"k":"ord","name":s,"seq":[val…]}
            | {"k":"const","name":s,"v":val} | {"k":"other","name":s}
  draw      = {"u":rat,"s":rat} | {"r":int}

Ops
  every op: optional "R": [[x, float(np.round(x, 13))]…]  (ConfigSpace's rounding of float bounds)
  "check"    value, name|null                  → res = {"err":kind} | {"hp":cshp}
  "adds"     adds:[{"value":shorthand,"name":s|null}…] → steps:[ "ok" | kind …], names:[s…], hps:[cshp…]
  "convert"  hps:[cshp…], ncond, nforb, surrogate → res = {"err":kind} | {"dims":[{"name","dim","prior"}…],"cs":bool}
  "sample"   dim, prior|null, draws:[draw…], L, E → vals:[val | {"err":kind} …], mem:[bool…]
  "sample_old" dim, qs:[rat…], L, E             → vals (the pre-fix normalized sampler)
  "check_point" hps, loose, rows:[[val…]…]     → legal:[bool…]          (checkPoint)
  "cells"    kind:"flat"|"cs", lo, hi          → cells:[[c1,c2]…]       (flatCell / csCell for every value of lo..hi)
  "cs_int_log" lo, hi, us:[rat…], L, E         → vals:[int…]            (csIntLogSample, model of ConfigSpace)
  "point"    dims:[{"name","dim","prior"}…], conf:[[name,val]…] → res = {"err":kind} | {"row":[val…]}, mem
  "handout"  on:bool, sampled:[[val…]…], asks:[{"cands":[[val…]…],"n":int|null}…] → out:[{"rows":[[val…]…]} | {"err":kind} …]
             (Model/Proposal.lean `askMany`: the rows each initial-phase `Optimizer.ask` hands out, given the candidates drawn for it)
  "geom"     qs:[rat…], T:rat, n:nat           → g:[rat…]               (`geom q T n` of C10_first_proposal_law)
-/

open Lean DH.Wire DH.Space

def jPy (j : Json) : Except String Py := do
  let t ← (← field j "t").getStr?
  match t with
  | "i" => return .int (← jInt (← field j "v"))
  | "f" => return .float (← jRat (← field j "v"))
  | "s" => return .str (← jStr (← field j "v"))
  | "b" => return .bool (← jBool (← field j "v"))
  | "n" => return .none
  | "o" => return .other
  | _ => throw s!"bad py tag {t}"

def jOptRats (j : Json) : Except String (Option (List Rat)) :=
  match j with
  | .null => .ok none
  | j => do return some (← jList jRat j)

def jCsHp (j : Json) : Except String CsHp := do
  let k ← (← field j "k").getStr?
  let name ← (← field j "name").getStr?
  match k with
  | "uint" => return .uniformInt name (← jInt (← field j "lo")) (← jInt (← field j "hi")) (← jBool (← field j "log"))
  | "ufloat" => return .uniformFloat name (← jRat (← field j "lo")) (← jRat (← field j "hi")) (← jBool (← field j "log"))
  | "cat" => return .categorical name (← jList jVal (← field j "choices")) (← jOptRats (fieldD j "weights" .null))
  | "ord" => return .ordinal name (← jList jVal (← field j "seq"))
  | "const" => return .constant name (← jVal (← field j "v"))
  | "other" => return .other name
  | _ => throw s!"bad cshp kind {k}"

def ofOptRats : Option (List Rat) → Json
  | none => .null
  | some l => ofRats l

def ofCsHp : CsHp → Json
  | .uniformInt n lo hi log => Json.mkObj [("k", "uint"), ("name", n), ("lo", Json.num (JsonNumber.fromInt lo)),
      ("hi", Json.num (JsonNumber.fromInt hi)), ("log", log)]
  | .uniformFloat n lo hi log => Json.mkObj [("k", "ufloat"), ("name", n), ("lo", ofRat lo), ("hi", ofRat hi), ("log", log)]
  | .categorical n cs w => Json.mkObj [("k", "cat"), ("name", n), ("choices", .arr (cs.map ofVal).toArray),
      ("weights", ofOptRats w)]
  | .ordinal n s => Json.mkObj [("k", "ord"), ("name", n), ("seq", .arr (s.map ofVal).toArray)]
  | .constant n v => Json.mkObj [("k", "const"), ("name", n), ("v", ofVal v)]
  | .other n => Json.mkObj [("k", "other"), ("name", n)]

def jShorthand (j : Json) : Except String Shorthand := do
  let k ← (← field j "k").getStr?
  match k with
  | "hp" => return .hp (← jCsHp (← field j "hp"))
  | "scalar" => return .scalar (← jPy (← field j "v"))
  | "tuple" => return .tuple (← jList jPy (← field j "items"))
  | "list" => return .list (← jList jPy (← field j "items"))
  | "dict" => return .dict (← jBool (← field j "musigma")) (← jPy (← field j "mu")) (← jBool (← field j "bounds"))
  | "array" => return .array
  | _ => throw s!"bad shorthand kind {k}"

def jName (j : Json) : Except String (Option String) :=
  match j with
  | .null => .ok none
  | j => do return some (← j.getStr?)

def cErrName : CErr → String
  | .valueError => "ValueError"
  | .typeError => "TypeError"
  | .assertionError => "AssertionError"
  | .unboundLocalError => "UnboundLocalError"
  | .indexError => "IndexError"
  | .alreadyExists => "HyperparameterAlreadyExistsError"

def priorName : Prior → String
  | .uniform => "uniform"
  | .logUniform => "log-uniform"

def ofDim : Dim → Json
  | .real lo hi p t => Json.mkObj [("k", "real"), ("lo", ofRat lo), ("hi", ofRat hi), ("prior", priorName p),
      ("tr", match t with | .identity => "identity" | .normalize => "normalize")]
  | .int lo hi p t => Json.mkObj [("k", "int"), ("lo", Json.num (JsonNumber.fromInt lo)),
      ("hi", Json.num (JsonNumber.fromInt hi)), ("prior", priorName p),
      ("tr", match t with | .identity => "identity" | .normalize => "normalize")]
  | .cat cs t => Json.mkObj [("k", "cat"), ("cats", .arr (cs.map ofVal).toArray),
      ("tr", match t with | .identity => "identity" | .label => "label" | .onehot => "onehot" | .normalize => "normalize")]

def ofSkoptDim (d : SkoptDim) : Json :=
  Json.mkObj [("name", d.name), ("dim", ofDim d.dim), ("prior", ofOptRats d.prior)]

def jSkoptDim (j : Json) : Except String SkoptDim := do
  return ⟨← (← field j "name").getStr?, ← jDim (← field j "dim"), ← jOptRats (fieldD j "prior" .null)⟩

def jDraw (j : Json) : Except String Draw :=
  match j.getObjVal? "r" with
  | .ok r => do return .r (← jInt r)
  | .error _ => do return .u (← jRat (← field j "u")) (← jRat (← field j "s"))

/-- observed `float(np.round(x, 13))` (identity for a number that is not in the table) -/
def tabR (t : List (Rat × Rat)) (x : Rat) : Rat :=
  match t.find? (fun p => p.1 == x) with
  | some p => p.2
  | none => x

def handle (j : Json) : Except String Json := do
  let op ← (← field j "op").getStr?
  let R := tabR (← jPairs (fieldD j "R" (.arr #[])))
  match op with
  | "check" =>
    let v ← jShorthand (← field j "value")
    let n ← jName (fieldD j "name" .null)
    let res := match checkHyperparameter R v n with
      | .error e => Json.mkObj [("err", cErrName e)]
      | .ok h => Json.mkObj [("hp", ofCsHp h)]
    return Json.mkObj [("ok", true), ("res", res)]
  | "adds" =>
    let adds ← jList (fun a => do
      return (← jShorthand (← field a "value"), ← jName (fieldD a "name" .null))) (← field j "adds")
    let (space, steps) := adds.foldl (fun (acc : List CsHp × List String) (v, n) =>
      match addHyperparameter R acc.1 v n with
      | .ok sp => (sp, acc.2 ++ ["ok"])
      | .error e => (acc.1, acc.2 ++ [cErrName e])) ([], [])
    return Json.mkObj [("ok", true), ("steps", .arr (steps.map Json.str).toArray),
      ("names", .arr (space.map (fun h => Json.str h.name)).toArray),
      ("hps", .arr (space.map ofCsHp).toArray)]
  | "convert" =>
    let hps ← jList jCsHp (← field j "hps")
    let nc ← jNat (← field j "ncond")
    let nf ← jNat (← field j "nforb")
    let sur ← (← field j "surrogate").getStr?
    let res := match convertToSkoptSpace hps nc nf sur with
      | .error e => Json.mkObj [("err", cErrName e)]
      | .ok (dims, cs) => Json.mkObj [("dims", .arr (dims.map ofSkoptDim).toArray), ("cs", cs)]
    return Json.mkObj [("ok", true), ("res", res)]
  | "sample" =>
    let d ← jDim (← field j "dim")
    let prior ← jOptRats (fieldD j "prior" .null)
    let draws ← jList jDraw (← field j "draws")
    let tL ← jPairs (fieldD j "L" (.arr #[]))
    let tE ← jPairs (fieldD j "E" (.arr #[]))
    let rs := draws.map (sampleDim (tabL tL) (tabE tE) d prior)
    return Json.mkObj [("ok", true),
      ("vals", .arr (rs.map (fun r => match r with | .ok v => ofVal v | .error e => ofErr e)).toArray),
      ("mem", ofBools (rs.map (fun r => match r with | .ok v => memDim d v | .error _ => false)))]
  | "sample_old" =>
    let d ← jDim (← field j "dim")
    let qs ← jList jRat (← field j "qs")
    let tL ← jPairs (fieldD j "L" (.arr #[]))
    let tE ← jPairs (fieldD j "E" (.arr #[]))
    let rs := qs.map (sampleNormalizedOld (tabL tL) (tabE tE) d)
    return Json.mkObj [("ok", true),
      ("vals", .arr (rs.map (fun r => match r with | .ok v => ofVal v | .error e => ofErr e)).toArray)]
  | "point" =>
    let dims ← jList jSkoptDim (← field j "dims")
    let conf ← jList (fun p => do
      match ← p.getArr? with
      | #[n, v] => return (← n.getStr?, ← jVal v)
      | _ => throw "pair expected") (← field j "conf")
    let r := pointOfConf dims conf
    let res := match r with
      | .error e => ofErr e
      | .ok row => Json.mkObj [("row", .arr (row.map ofVal).toArray)]
    let mem := match r with
      | .error _ => false
      | .ok row => memRow (dims.map (·.dim)) row
    return Json.mkObj [("ok", true), ("res", res), ("mem", mem)]
  | "check_point" =>
    -- verified checker (C10_checker_point) on sampled points; hps in the order of problem.hyperparameter_names
    let hps ← jList jCsHp (← field j "hps")
    let loose ← jBool (fieldD j "loose" false)
    let rows ← jList (jList jVal) (← field j "rows")
    return Json.mkObj [("ok", true), ("legal", ofBools (rows.map (checkPoint loose hps)))]
  | "cells" =>
    -- the cells of the proved integer log-uniform laws (C10_int_log_flat_law / _configspace_law)
    let lo ← jInt (← field j "lo")
    let hi ← jInt (← field j "hi")
    let kind ← (← field j "kind").getStr?
    let ks := (List.range (hi - lo + 1).toNat).map (fun (n : Nat) => (n : Int))
    let cells := ks.map (fun n => if kind == "flat" then flatCell lo hi (lo + n) else csCell lo hi n)
    return Json.mkObj [("ok", true), ("cells", .arr (cells.map (fun c => Json.arr #[ofRat c.1, ofRat c.2])).toArray)]
  | "cs_int_log" =>
    -- the model of ConfigSpace's integer log-uniform sampler on scripted uniform numbers
    let lo ← jInt (← field j "lo")
    let hi ← jInt (← field j "hi")
    let us ← jList jRat (← field j "us")
    let tL ← jPairs (fieldD j "L" (.arr #[]))
    let tE ← jPairs (fieldD j "E" (.arr #[]))
    let vals := us.map (csIntLogSample (tabL tL) (tabE tE) lo hi)
    return Json.mkObj [("ok", true), ("vals", .arr (vals.map (fun v => Json.num (JsonNumber.fromInt v))).toArray)]
  | "handout" =>
    let on ← jBool (← field j "on")
    let sampled ← jList (jList jVal) (fieldD j "sampled" (.arr #[]))
    let asks ← jList (fun a => do
      let n ← match fieldD a "n" .null with
        | .null => pure none
        | x => do pure (some (← jNat x))
      return (← jList (jList jVal) (← field a "cands"), n)) (← field j "asks")
    let out := DH.Proposal.askMany on sampled asks
    let ofRows (rows : List (List Val)) : Json := .arr (rows.map (fun r => Json.arr (r.map ofVal).toArray)).toArray
    return Json.mkObj [("ok", true), ("out", .arr (out.map (fun r => match r with
      | .ok rows => Json.mkObj [("rows", ofRows rows)]
      | .error .indexError => Json.mkObj [("err", "IndexError")]
      | .error .valueError => Json.mkObj [("err", "ValueError")])).toArray)]
  | "geom" =>
    let qs ← jList jRat (← field j "qs")
    let T ← jRat (← field j "T")
    let n ← jNat (← field j "n")
    return Json.mkObj [("ok", true), ("g", ofRats (qs.map (fun q => DH.Proposal.geom q T n)))]
  | _ => throw s!"unknown op {op}"

def main : IO Unit := serveFn handle
