import Drivers.Wire
import Model.Streams
import Generated.C07Sites

/-! Driver for C07.

* `{"op":"predict","cfg":{"search":"CBO","acq":"MES",…},"rounds":3}` — what the generated table
  says about one configuration: the hidden-input sites it reaches, whether the table program's
  outputs (evaluated with a concrete generator under two worlds that differ on every hidden
  stream) coincide, whether a reached site overwrites the global NumPy generator.
* `{"op":"table"}` — size / obligation of the table and the static tie of the hand model
  (`modelSites`) to the generated rows.
* `{"op":"search","opts":{…},"ops":[["ask",n,fitted,random] | ["tell",fit] …]}` — evaluates the
  hand model `searchProgram`: well-initialised?, number of proposals, same outputs in two worlds?,
  different outputs for two seeds?, same outputs after earlier searches ran in the interpreter (`worldAfter`)?
-/

open Lean DH.Wire DH.Streams

def hasSub (s pat : String) : Bool := (s.splitOn pat).length > 1

def jCfg (j : Json) : Except String Config := do
  let o ← j.getObj?
  let mut out : Config := []
  for (k, v) in o.toList do
    let t := match v with
      | .str s => s
      | .bool b => if b then "true" else "false"
      | .num n => toString n
      | .null => "none"
      | _ => "?"
    out := (k, t) :: out
  return out.reverse

def siteJson (s : Site) : Json :=
  Json.mkObj [("id", s.id), ("file", s.file), ("line", s.line), ("func", s.func), ("kind", s.kind),
    ("text", s.text), ("stream", s.stream.name), ("why", s.why)]

def siteMatch (m : ModelSite) (s : Site) : Bool :=
  (s.func == m.func || s.func.endsWith ("." ++ m.func)) && s.kind == m.kind && hasSub s.text m.pat

def inCore (s : Site) : Bool := coreFuncs.any (fun f => s.func == f || s.func.endsWith ("." ++ f))

def jBoolD (j : Json) (k : String) (d : Bool) : Bool :=
  match j.getObjVal? k with
  | .ok (.bool b) => b
  | _ => d

def jOpts (j : Json) : Except String Opts := do
  let search ← (← field j "search").getStr?
  let strat ← (← field j "strategy").getStr?
  let nd ← jNat (← field j "ndims")
  let sk ← match search with
    | "CBO" => pure SearchKind.cbo | "RS" => pure SearchKind.random | "REGEVO" => pure SearchKind.regevo
    | s => throw s!"unknown search {s}"
  let st ← match strat with
    | "cl" => pure Strategy.cl | "qlcb" => pure Strategy.qlcb | "boltzmann" => pure Strategy.boltzmann
    | "topk" => pure Strategy.topk | s => throw s!"unknown strategy {s}"
  return { search := sk, estimatorByName := jBoolD j "estimatorByName" false, cfgSpace := jBoolD j "cfgSpace" false,
           design := jBoolD j "design" false, ndims := nd, mes := jBoolD j "mes" false, hedge := jBoolD j "hedge" false,
           moo := jBoolD j "moo" false, pymoo := jBoolD j "pymoo" false, strategy := st }

def jOp (j : Json) : Except String Op := do
  let a ← j.getArr?
  match a.toList with
  | [.str "ask", n, f, r] => return .ask (← jNat n) (← jBool f) (← jBool r)
  | [.str "tell", f] => return .tell (← jBool f)
  | [.str "refresh", f] => return .refresh (← jBool f)
  | _ => throw "bad op"

def handle (j : Json) : Except String Json := do
  let op ← (← field j "op").getStr?
  match op with
  | "predict" =>
    let cfg ← jCfg (← field j "cfg")
    let rounds ← jNat (fieldD j "rounds" (3 : Nat))
    let r := reached Gen.sites cfg
    let hid := hiddenSites Gen.sites cfg
    let prog := tableProgram Gen.sites cfg rounds
    let o₁ := outputs lcg 42 prog (mkWorld 0 1)
    let o₂ := outputs lcg 42 prog (mkWorld 0 2)
    let o₃ := outputs lcg 43 prog (mkWorld 0 1)
    let globalWrite := r.any (fun s => s.kind == "seed-kw" && hasSub s.text "minimize(")
    return Json.mkObj [("ok", true), ("reached", r.length), ("hidden", Json.arr (hid.map siteJson).toArray),
      ("streams", Json.arr ((hid.map (fun s => s.stream.name)).eraseDups.map Json.str).toArray),
      ("same_outputs", decide (o₁ = o₂)), ("seeds_differ", decide (o₁ ≠ o₃)), ("proposals", o₁.length),
      ("well_init", WellInit prog), ("global_write", globalWrite)]
  | "table" =>
    let missing := modelSites.filter (fun m => (Gen.sites.filter (siteMatch m)).length < m.count)
    let unmodelled := Gen.sites.filter (fun s => inCore s && s.generatorRelated &&
      !(modelSites.any (fun m => siteMatch m s)) &&
      !(notModelled.any (fun (f, p, _) => (s.func == f || s.func.endsWith ("." ++ f)) && hasSub s.text p)))
    let live := Gen.sites.filter (fun s => s.reach.isLive)
    let bad := Gen.sites.filter (fun s => !s.ok)
    return Json.mkObj [("ok", true), ("n_sites", Gen.sites.length), ("n_files", Gen.nFiles), ("n_live", live.length),
      ("sites_seeded", sitesSeeded Gen.sites), ("offending", Json.arr (bad.map siteJson).toArray),
      ("model_sites", modelSites.length),
      ("missing", Json.arr (missing.map (fun m => Json.mkObj [("func", m.func), ("kind", m.kind), ("pat", m.pat), ("what", m.what)])).toArray),
      ("unmodelled", Json.arr (unmodelled.map siteJson).toArray)]
  | "search" =>
    let o ← jOpts (← field j "opts")
    let ops ← jList jOp (← field j "ops")
    let prog := searchProgram o ops
    let o₁ := outputs lcg 42 prog (mkWorld 0 1)
    let o₂ := outputs lcg 42 prog (mkWorld 9 2)
    let o₃ := outputs lcg 43 prog (mkWorld 0 1)
    let asks := (ops.filter (fun x => match x with | .ask .. => true | _ => false)).length
    -- the same search after two earlier searches of the interpreter (another seed, the same seed) and a global draw
    let o₄ := outputs lcg 42 prog (worldAfter lcg [(7, prog ++ [.draw 1 .numpyGlobal]), (42, prog)] (mkWorld 0 1))
    return Json.mkObj [("ok", true), ("well_init", WellInit prog), ("pure", prog.all Instr.pure),
      ("history_independent", decide (o₁ = o₄)),
      ("proposals", o₁.length), ("asks", asks), ("same_outputs", decide (o₁ = o₂)), ("seeds_differ", decide (o₁ ≠ o₃)),
      ("instructions", prog.length),
      ("draws_root", (prog.filter (fun i => match i with | .draw _ (.seeded 0) => true | _ => false)).length),
      ("forks", (prog.filter (fun i => match i with | .fork .. => true | _ => false)).length)]
  | _ => throw s!"unknown op {op}"

def main : IO Unit := serveFn handle
