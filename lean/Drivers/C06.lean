import Drivers.Wire
import Model.Failures

/-!
Driver for C06.  Values as in `Drivers/C04.lean` (`{"n":..}`, `{"nf":..}`, `{"s":..}`, `{"z":0}`,
`{"l":[..]}`, `{"d":[..]}`).  An element of `opt_y` is `"F"`, `{"v":num}` or `{"vec":[num..]}` with
`num` = `"a/b"` or `{"nf":"nan"|"inf"|"-inf"}`.

* `{"op":"ondone","out":V}`            -> objective after `set_output` + `_on_done`
* `{"op":"tell","policy":P,"objs":[V..]}` -> what `CBO._tell` hands to `Optimizer.tell`
* `{"op":"filter","policy":P,"max_failures":n,"yi":[null|[rat..]..],"old":bool}`
* `{"op":"run","policy":P,"max_failures":n,"n_init":k,"batches":[{"objs":[V..],"scaled":[rat..]}..]}`
* `{"op":"opttell","policy":P,"max_failures":n,"n_init":k,"prev":[null|rat..],"ys":[null|rat..],"scaled":[rat..]}`
  -> `Optimizer.tell` used directly: error kind (`exhausted`, `markerToSurrogate`, ..) or the fit input
* `{"op":"regevo","cap":n,"items":[[id,V]..]}` -> ids in the population
* `{"op":"cache","ops":[..]}` -> the constant-liar ask cache over a sequence of Optimizer / CBO calls
-/

open Lean DH.Wire DH.Dump DH.Failures

partial def jVal (j : Json) : Except String Val := do
  match j with
  | .null => return .none
  | _ =>
  if let .ok v := j.getObjVal? "n" then return .num (← jRat v)
  if let .ok v := j.getObjVal? "nf" then
    match (← v.getStr?) with
    | "nan" => return .nonfin .nan
    | "inf" => return .nonfin .posInf
    | "-inf" => return .nonfin .negInf
    | s => throw s!"bad nonfinite {s}"
  if let .ok v := j.getObjVal? "s" then return .str (← v.getStr?)
  if let .ok _ := j.getObjVal? "z" then return .none
  if let .ok v := j.getObjVal? "l" then
    let a ← v.getArr?
    return .list (← a.toList.mapM jVal)
  if let .ok v := j.getObjVal? "d" then
    let a ← v.getArr?
    let kv ← a.toList.mapM (fun e => do
      let p ← e.getArr?
      match p.toList with
      | [k, x] => return ((← k.getStr?), (← jVal x))
      | _ => throw "bad pair")
    return .dict kv
  throw s!"bad value {j.compress}"

partial def ofVal : Val → Json
  | .num q => Json.mkObj [("n", ofRat q)]
  | .nonfin .nan => Json.mkObj [("nf", "nan")]
  | .nonfin .posInf => Json.mkObj [("nf", "inf")]
  | .nonfin .negInf => Json.mkObj [("nf", "-inf")]
  | .str s => Json.mkObj [("s", s)]
  | .none => Json.mkObj [("z", (0 : Nat))]
  | .list l => Json.mkObj [("l", Json.arr (l.map ofVal).toArray)]
  | .dict kv => Json.mkObj [("d", Json.arr (kv.map (fun p => Json.arr #[Json.str p.1, ofVal p.2])).toArray)]

def ofNum : Num → Json
  | .fin q => ofRat q
  | .nf .nan => Json.mkObj [("nf", "nan")]
  | .nf .posInf => Json.mkObj [("nf", "inf")]
  | .nf .negInf => Json.mkObj [("nf", "-inf")]

def ofY : Y → Json
  | .fail => Json.str "F"
  | .val x => Json.mkObj [("v", ofNum x)]
  | .vec xs => Json.mkObj [("vec", Json.arr (xs.map ofNum).toArray)]

def jPolicy (j : Json) : Except String Policy := do
  match (← j.getStr?) with
  | "mean" => return .mean
  | "max" => return .max
  | "ignore" => return .ignore
  | s => throw s!"bad policy {s}"

def tellErrName : TellErr → String
  | .emptyString => "emptyString"
  | .notIterable => "notIterable"
  | .unsupported => "unsupported"

def optErrName : OptErr → String
  | .exhausted => "exhausted"
  | .ragged => "ragged"
  | .nonFiniteToSurrogate => "nonFiniteToSurrogate"
  | .markerToSurrogate => "markerToSurrogate"
  | .envContract => "envContract"

def stdErrName : StdErr → String
  | .badType => "badType"
  | .noObjective => "noObjective"
  | .badMetadata => "badMetadata"

def jOptVec (j : Json) : Except String (Option (List Rat)) :=
  match j with
  | .null => .ok none
  | _ => do return some (← jList jRat j)

def ofOptVec : Option (List Rat) → Json
  | none => Json.null
  | some v => ofRats v

def handle (j : Json) : Except String Json := do
  let op ← (← field j "op").getStr?
  match op with
  | "ondone" =>
    let out ← jVal (← field j "out")
    match standardizeOutput out with
    | .error e => return Json.mkObj [("ok", true), ("err", stdErrName e)]
    | .ok (o, _) =>
      -- `stored`: the "out" entry of the storage; `other`: the objective of the job another evaluator on
      -- the same search rebuilds from it (null = not reported; {"err":..} = `set_output` raises)
      let d := onDoneStore o
      let other := match otherObjective d.stored with
        | .ok (some v) => Json.mkObj [("seen", ofVal v)]
        | .ok none => Json.null
        | .error e => Json.mkObj [("err", stdErrName e)]
      return Json.mkObj [("ok", true), ("err", Json.null), ("objective", ofVal d.job), ("stored", ofVal d.stored),
        ("other", other)]
  | "tell" =>
    let p ← jPolicy (← field j "policy")
    let objs ← jList jVal (← field j "objs")
    match cboTell p objs with
    | .error e => return Json.mkObj [("ok", true), ("err", tellErrName e)]
    | .ok ys => return Json.mkObj [("ok", true), ("err", Json.null), ("ys", Json.arr (ys.map ofY).toArray)]
  | "filter" =>
    let p ← jPolicy (← field j "policy")
    let mf ← (← field j "max_failures").getNat?
    let yi ← jList jOptVec (← field j "yi")
    let old := (fieldD j "old" (Json.bool false)).getBool?.toOption.getD false
    match (if old then filterFailuresOld p mf yi else filterFailures p mf yi) with
    | .error e => return Json.mkObj [("ok", true), ("err", optErrName e)]
    | .ok zs => return Json.mkObj [("ok", true), ("err", Json.null), ("yi", Json.arr (zs.map ofOptVec).toArray)]
  | "run" =>
    let p ← jPolicy (← field j "policy")
    let mf ← (← field j "max_failures").getNat?
    let n0 ← (← field j "n_init").getInt?
    let bs ← (← field j "batches").getArr?
    let mut st : Opt := { nInit := n0, yi := [] }
    let mut out : List Json := []
    let mut dead := false
    for b in bs.toList do
      if dead then
        out := out ++ [Json.mkObj [("skipped", true)]]
      else
        let objs ← jList jVal (← field b "objs")
        let scaled ← jList jRat (← field b "scaled")
        let told := match cboTell p objs with
          | .ok ys => Json.arr (ys.map ofY).toArray
          | .error _ => Json.null
        match searchTell p mf st objs scaled with
        | .error (.inl e) =>
          out := out ++ [Json.mkObj [("err", tellErrName e), ("told", told)]]
          dead := true
        | .error (.inr e) =>
          out := out ++ [Json.mkObj [("err", optErrName e), ("told", told)]]
          dead := true
        | .ok (st', fit) =>
          st := st'
          out := out ++ [Json.mkObj [("err", Json.null), ("told", told), ("n_init", Json.num (JsonNumber.fromInt st'.nInit)),
            ("n_yi", Json.num (JsonNumber.fromNat st'.yi.length)),
            ("fit", match fit with | some f => ofRats f | none => Json.null)]]
    return Json.mkObj [("ok", true), ("batches", Json.arr out.toArray)]
  | "opttell" =>
    -- `Optimizer.tell(X, y)` used directly (no `CBO._tell` in front): y = null ("F") | rat
    let p ← jPolicy (← field j "policy")
    let mf ← (← field j "max_failures").getNat?
    let n0 ← (← field j "n_init").getInt?
    let told ← jList (fun v => match v with
      | .null => pure Y.fail
      | _ => do return Y.val (.fin (← jRat v))) (← field j "ys")
    let prev ← jList (fun v => match v with
      | .null => pure Y.fail
      | _ => do return Y.val (.fin (← jRat v))) (fieldD j "prev" (Json.arr #[]))
    let scaled ← jList jRat (← field j "scaled")
    match optTell p mf { nInit := n0, yi := prev } told scaled with
    | .error e => return Json.mkObj [("ok", true), ("err", optErrName e)]
    | .ok (st', fit) =>
      return Json.mkObj [("ok", true), ("err", Json.null), ("n_init", Json.num (JsonNumber.fromInt st'.nInit)),
        ("fit", match fit with | some f => ofRats f | none => Json.null)]
  | "cache" =>
    -- ops: {"k":"opt_ask","key":s,"single":b} | {"k":"opt_reset"} | {"k":"cbo_ask","key":s,"single":b}
    --      | {"k":"cbo_tell","policy":P,"objs":[V..]}
    -- batches are numbered by the moment they are computed: 2*i for the batch computed by the ask at op i,
    -- 2*i+1 for the single point computed by a tell / update_next at op i (also the one inside CBO.ask),
    -- 0 for the point the sequence starts with.  Reply per ask: that number, and whether it was cached.
    let ops ← (← field j "ops").getArr?
    let mut c : AskCache String Nat := AskCache.init 0
    let mut out : List Json := []
    let mut i : Nat := 1
    for o in ops.toList do
      let k ← (← field o "k").getStr?
      match k with
      | "opt_ask" =>
        let key ← (← field o "key").getStr?
        let single ← (← field o "single").getBool?
        let (c', b, hit) := optAsk c single key (2 * i)
        c := c'
        out := out ++ [Json.mkObj [("from", Json.num (JsonNumber.fromNat b)), ("hit", hit)]]
      | "cbo_ask" =>
        let key ← (← field o "key").getStr?
        let single ← (← field o "single").getBool?
        let (c', b, hit) := cboAsk c single key (2 * i) (2 * i + 1)
        c := c'
        out := out ++ [Json.mkObj [("from", Json.num (JsonNumber.fromNat b)), ("hit", hit)]]
      | "opt_reset" =>
        c := optReset c (2 * i + 1)
        out := out ++ [Json.null]
      | "cbo_tell" =>
        let p ← jPolicy (← field o "policy")
        let objs ← jList jVal (← field o "objs")
        let told := match cboTell p objs with | .ok (_ :: _) => true | _ => false
        c := cboTellCache c told (2 * i + 1)
        out := out ++ [Json.mkObj [("told", told)]]
      | _ => throw s!"unknown cache op {k}"
      i := i + 1
    return Json.mkObj [("ok", true), ("asks", Json.arr out.toArray)]
  | "regevo" =>
    let cap ← (← field j "cap").getNat?
    let items ← (← field j "items").getArr?
    let its ← items.toList.mapM (fun e => do
      let p ← e.getArr?
      match p.toList with
      | [i, v] => return ((← i.getNat?), (← jVal v))
      | _ => throw "bad item")
    let pop := regevoTell cap [] its
    return Json.mkObj [("ok", true), ("pop", ofNats (pop.map (·.1)))]
  | _ => throw s!"unknown op {op}"

def main : IO Unit := serveFn handle
