import Drivers.Wire
import Model.Ask
import Model.Membership
import Model.RegEvo

/-!
Shared driver code of C02 and C08 (one JSON request per line, see `Drivers/Wire.lean`).

ops:
* `mem`     — `memSpace` / `checkXInSpace` of a list of configurations (+ which clause fails,
              + the activity vector), the oracle of C02;
* `fin`     — the model's clip → inverse_transform → deactivate step on transformed rows, with
              the observed values of `pow`, `log`, ConfigSpace rounding supplied as tables;
* `session` — replay of a whole ask/tell session of the real optimizer through `Model/Ask.lean`
              with the observed environment (candidate lists drawn by `Space.rvs`, proposals);
              reports the first disagreement, the path taken by every `ask`, and evaluates the
              verified C08 checker `selsOKb` on the replayed proposals.

Everything here is glue (decoding, guessing the environment's argmin indices from the observed
proposals); verdicts come from the model functions: the guessed environment is fed to
`cboAsk`/`cboTell` and the model's output is compared with the observed one.
-/

open Lean DH.Wire DH.Mem DH.Ask

namespace DH.Session

/-! ### decoding -/

def jVal (j : Json) : Except String Val := do
  let a ← j.getArr?
  match a.toList with
  | [k, v] =>
    match (← k.getStr?) with
    | "i" => return .int (← v.getInt?)
    | "f" => return .real (← jRat v)
    | "s" => return .str (← v.getStr?)
    | "b" => return .bool (← v.getBool?)
    | t => throw s!"bad value tag {t}"
  | _ => throw "bad value"

def ofVal : Val → Json
  | .int i => Json.arr #[Json.str "i", Json.num (JsonNumber.fromInt i)]
  | .real q => Json.arr #[Json.str "f", ofRat q]
  | .str s => Json.arr #[Json.str "s", Json.str s]
  | .bool b => Json.arr #[Json.str "b", Json.bool b]

def ofConfig (x : Config) : Json := Json.arr (x.map ofVal).toArray

def jConfig (j : Json) : Except String Config := jList jVal j

def jDim (j : Json) : Except String Dim := do
  let t ← (← field j "t").getStr?
  let prior : Prior := if (fieldD j "log" (Json.bool false)) == Json.bool true then .logUniform else .uniform
  match t with
  | "int" => return .int (← jInt (← field j "lo")) (← jInt (← field j "hi")) prior
  | "real" => return .real (← jRat (← field j "lo")) (← jRat (← field j "hi")) prior
  | "cat" => return .cat (← jList jVal (← field j "choices"))
  | _ => throw s!"bad dim {t}"

def jCmp (s : String) : Except String CmpOp :=
  match s with
  | "eq" => pure .eq | "ne" => pure .ne | "lt" => pure .lt | "gt" => pure .gt
  | _ => throw s!"bad cmp {s}"

partial def jCond (j : Json) : Except String Cond := do
  let op ← (← field j "op").getStr?
  match op with
  | "and" => return .and (← jCond (← field j "a")) (← jCond (← field j "b"))
  | "or" => return .or (← jCond (← field j "a")) (← jCond (← field j "b"))
  | "in" => return .isIn (← jNat (← field j "p")) (← jList jVal (← field j "vs"))
  | _ => return .cmp (← jNat (← field j "p")) (← jCmp op) (← jVal (← field j "v"))

partial def jForb (j : Json) : Except String Forb := do
  let op ← (← field j "op").getStr?
  match op with
  | "and" => return .and (← jForb (← field j "a")) (← jForb (← field j "b"))
  | "in" => return .isIn (← jNat (← field j "p")) (← jList jVal (← field j "vs"))
  | "eq" => return .eq (← jNat (← field j "p")) (← jVal (← field j "v"))
  | "rel" => return .rel (← jNat (← field j "a")) (← jNat (← field j "b")) (← jCmp (← (← field j "cmp").getStr?))
  | _ => throw s!"bad forbidden {op}"

def jTr (s : String) : Except String Tr :=
  match s with
  | "identity" => pure .identity | "normalize" => pure .normalize
  | "label" => pure .label | "onehot" => pure .onehot
  | _ => throw s!"bad transformer {s}"

def jHp (j : Json) : Except String Hp := do
  let cond ← match j.getObjVal? "cond" with
    | .ok (.null) => pure none
    | .ok c => pure (some (← jCond c))
    | .error _ => pure none
  let dim ← jDim (← field j "dim")
  let enc ← match j.getObjVal? "enc" with
    | .ok (.null) => pure (match dim with | .cat cs => cs | _ => [])
    | .ok e => jList jVal e
    | .error _ => pure (match dim with | .cat cs => cs | _ => [])
  return { name := ← (← field j "name").getStr?, dim, tr := ← jTr (← (← field j "tr").getStr?), cond, enc }

def jDecl (j : Json) : Except String Decl := do
  return { hps := ← jList jHp (← field j "hps"), forbs := ← jList jForb (← field j "forbs") }

/-! ### `mem`: the oracle, with the clause that fails -/

/-- first membership clause that fails (classification for the fingerprint; the verdict is
`memSpace`) -/
def whyNot (d : Decl) (x : Config) : String :=
  if x.length != d.hps.length then "length" else
  let act := activeList d x
  let rec go : List Hp → List Val → List Bool → Nat → Option String
    | h :: hs, v :: vs, a :: as, i =>
      if a then
        if memDim h.dim v then go hs vs as (i + 1)
        else
          let kindOK := match h.dim, v with
            | .int _ _ _, .int _ => true
            | .real _ _ _, .real _ => true
            | .cat cs, w => cs.any (fun c => match c, w with
                | .int _, .int _ => true | .real _, .real _ => true
                | .str _, .str _ => true | .bool _, .bool _ => true | _, _ => false)
            | _, _ => false
          let what := match h.dim with
            | .cat _ => if kindOK then "choice" else "kind"
            | _ => if kindOK then "bounds" else "kind"
          some s!"{what}:{h.name}"
      else if canon h.dim = some v then go hs vs as (i + 1)
      else some s!"inactive-not-canonical:{h.name}"
    | _, _, _, _ => none
  match go d.hps x act 0 with
  | some w => w
  | none => if d.forbs.any (forbHolds d.hps x act) then "forbidden" else "member"

def handleMem (j : Json) : Except String Json := do
  let d ← jDecl (← field j "decl")
  let xs ← jList jConfig (← field j "xs")
  let res := xs.map (fun x => Json.mkObj [
    ("mem", memSpace d x), ("accept", checkXInSpace d x), ("why", whyNot d x),
    ("act", ofBools (activeList d x))])
  return Json.mkObj [("ok", true), ("wf", d.wfAll), ("unconstrained", d.unconstrained), ("res", Json.arr res.toArray)]

/-- a raw ConfigSpace sample: one entry per hyperparameter, `null` = absent (inactive) -/
def jSample (j : Json) : Except String (List (Option Val)) :=
  jList (fun v => match v with
      | .null => pure none
      | w => do return some (← jVal w)) j

/-- `fill`: ConfigSpace samples (absent = `null`) completed with the canonical inactive values -/
def handleFill (j : Json) : Except String Json := do
  let d ← jDecl (← field j "decl")
  let samples ← jList jSample (← field j "samples")
  let res := samples.map (fun s =>
    match fillInactive d.hps s with
    | none => Json.null
    | some x => ofConfig x)
  return Json.mkObj [("ok", true), ("res", Json.arr res.toArray)]

/-! ### `fin`: the model's inverse step with observed numerics -/

def absR (q : Rat) : Rat := if q < 0 then -q else q

/-- nearest-key lookup (the keys are the float-computed arguments; the model's exact argument is
within rounding error of one of them) -/
def nearest (tbl : List (Rat × Rat)) (dflt : Rat) (q : Rat) : Rat :=
  match tbl with
  | [] => dflt
  | (k, v) :: rest =>
    (rest.foldl (fun (best : Rat × Rat) (kv : Rat × Rat) =>
      if absR (q - kv.1) < absR (q - best.1) then kv else best) (k, v)).2

def jTable (j : Json) : Except String (List (Rat × Rat)) :=
  jList (fun p => do
    let a ← p.getArr?
    match a.toList with
    | [k, v] => return (← jRat k, ← jRat v)
    | _ => throw "bad table row") j

def jNumEnv (j : Json) : Except String NumEnv := do
  let lg ← jTable (fieldD j "lg" (Json.arr #[]))
  let pw ← jTable (fieldD j "pw" (Json.arr #[]))
  let rnd ← jTable (fieldD j "rnd" (Json.arr #[]))
  return { lg := fun q => nearest lg q q, pw := fun q => nearest pw q q,
           rnd := fun q => if rnd.isEmpty then q else nearest rnd q q }

def handleFin (j : Json) : Except String Json := do
  let d ← jDecl (← field j "decl")
  let rows ← jList (fun r => do
      let ne ← jNumEnv r
      let t ← jList (jList jRat) (← field r "t")
      return (ne, t)) (← field j "rows")
  let res := rows.map (fun (ne, t) =>
    match fin ne d t with
    | none => Json.mkObj [("raises", true)]
    | some y => Json.mkObj [("raises", false), ("y", ofConfig y), ("mem", memSpace d y)])
  return Json.mkObj [("ok", true), ("res", Json.arr res.toArray)]

/-! ### `session`: replay of a real ask/tell session -/

/-- identity space: the session model works directly on configurations (what the real
`inverse_transform ∘ transform` returned is supplied as a `free` pick when it is not literally a
candidate) -/
def idOps (d : Decl) : Ops Config Config := { tr := id, fin := some, accept := checkXInSpace d }

def jStrategy (s : String) : Except String Strategy :=
  match s with
  | "cl_min" => pure .clMin | "cl_mean" => pure .clMean | "cl_max" => pure .clMax
  | "topk" => pure .topk | "boltzmann" => pure .boltzmann
  | "qLCB" => pure .qLCB | "qLCBd" => pure .qLCBd
  | _ => throw s!"bad strategy {s}"

def jRes (s : String) : Except String Res :=
  match s with
  | "val" => pure .val | "fail" => pure .fail | "other" => pure .other
  | _ => throw s!"bad result kind {s}"

structure RoundObs where
  n : Nat
  askDraws : List (List Config)
  X : List Config
  hasTell : Bool
  results : List (Config × Res)
  tellDraws : List (List Config)

def jRound (j : Json) : Except String RoundObs := do
  let results ← jList (fun p => do
      let a ← p.getArr?
      match a.toList with
      | [x, r] => return (← jConfig x, ← jRes (← r.getStr?))
      | _ => throw "bad result") (fieldD j "results" (Json.arr #[]))
  return { n := ← jNat (← field j "n"),
           askDraws := ← jList (jList jConfig) (← field j "askDraws"),
           X := ← jList jConfig (← field j "X"),
           hasTell := (fieldD j "hasTell" (Json.bool true)) == Json.bool true,
           results,
           tellDraws := ← jList (jList jConfig) (fieldD j "tellDraws" (Json.arr #[])) }

/-- relative closeness of two configurations: identical except float coordinates within 1e-9 -/
def approxEq (x y : Config) : Bool :=
  x.length == y.length &&
  (List.zip x y).all (fun (a, b) =>
    match a, b with
    | .real p, .real q =>
      let m := if absR p < absR q then absR q else absR p
      decide (absR (p - q) ≤ m / 1000000000)
    | a, b => decide (a = b))

def findExact (l : List Config) (x : Config) : Option Nat := l.findIdx? (fun c => decide (c = x))
def findApprox (l : List Config) (x : Config) : Option Nat := l.findIdx? (fun c => approxEq c x)

/-- a pick that makes `fit` select `x` from the candidates `cands` given `sampled`; `none` when
`x` is (even approximately) not one of the duplicate-filtered candidates and a free optimiser
output is not possible for this optimizer -/
def guessPick (on : Bool) (sampled cands : List Config) (x : Config) (freeAllowed : Bool) :
    Option (Pick Config Config × String) :=
  let f := filterDup on sampled cands
  match findExact f x with
  | some i => some (.idx (fun _ => i), "idx")
  | none =>
    match findApprox f x with
    | some i => some (.free x (fun _ => i), "idx~")
    | none => if freeAllowed then some (.free x (fun _ => 0), "free") else none

/-- the argsort handed to the model for one qLCB slot: the observed index first, then every
other index (so that the model may not repeat a candidate while others are left) -/
def padOrder (i m : Nat) : List Nat := i :: (List.range m).filter (· != i)

structure Replay where
  c : Cbo Config
  pending : Option (List (Config × Res) × List (List Config)) := none
  sels : List (Sel Config) := []
  paths : List String := []
  mismatch : Option String := none
  replayed : Nat := 0

def showConfig (x : Config) : String := (ofConfig x).compress

/-- which path `ask` takes and how many `Space.rvs` draws it makes (mirrors the dispatch of
`Model/Ask.lean`'s `ask`; only used to label and to check the draw counts) -/
def askPath (s : Opt Config) (n : Nat) (strat : Strategy) : String × Nat :=
  if n == 1 then
    if s.randomPhase then (if s.initSamples.isEmpty then ("single-random", 1) else ("single-initial", 0))
    else ("single-next", 0)
  else if n > 0 && s.randomPhase then ("initial-batch", 1)
  else if n == 0 then ("bad-n", 0)
  else if strat.isOneShot && s.last.isSome then
    (if strat = .topk then ("topk", 0) else ("boltzmann", 0))
  else if strat.isQ && s.nextX.isSome then ("qLCB", 1)
  else match s.cache with
    | some (n', st', _) => if n' = n ∧ st' = strat then ("cache", 0) else ("constant-liar", n)
    | none => ("constant-liar", n)

def tellDrawsExpected (c : Cbo Config) (results : List (Config × Res)) : Nat :=
  let told := cboTold c.ignoreFailures results
  if told.isEmpty then (if c.opt.nextX.isSome then 1 else 0)
  else
    let s1 := told1 c.opt told
    if s1.nInit ≤ 0 ∧ s1.dummy = false then 1 else 0

def errStr (e : Err) : String := reprStr e

/-- apply the pending `tell`, choosing the pick so that `_next_x` becomes `want` (if given) -/
def applyPending (d : Decl) (freeAllowed : Bool) (r : Replay) (want : Option Config) : Replay :=
  match r.pending with
  | none => r
  | some (results, draws) =>
    let cands := draws.headD []
    let expected := tellDrawsExpected r.c results
    if draws.length != expected then
      { r with mismatch := some s!"tell: the model expects {expected} Space.rvs draw(s), the implementation made {draws.length}", pending := none }
    else
    let pick? : Option (Pick Config Config × String) :=
      match want with
      | none => some (.idx (fun _ => 0), "unobserved")
      | some x => guessPick r.c.opt.filterOn r.c.opt.sampled cands x freeAllowed
    match pick? with
    | none =>
      { r with mismatch := some s!"the next point {showConfig (want.getD [])} is not one of the duplicate-filtered candidates offered at the preceding tell", pending := none }
    | some (pick, label) =>
      match cboTell (idOps d) r.c results { cands, pick } with
      | .error e => { r with mismatch := some s!"tell: model raises {errStr e}", pending := none }
      | .ok c' => { r with c := c', pending := none, paths := r.paths ++ [s!"tell:{label}"] }

def indexAll (l : List Config) (xs : List Config) : Option (List Nat) := xs.mapM (findExact l)

/-- positions of `xs` in `l`, preferring positions not used yet (the qLCB loop masks the
positions it already chose; an exhausted, unfiltered candidate list contains repeated rows) -/
def indexAllFresh (l : List Config) (xs : List Config) : Option (List Nat) :=
  let li := l.zipIdx
  let rec go : List Config → List Nat → Option (List Nat)
    | [], _ => some []
    | x :: rest, used =>
      let pick := match li.find? (fun p => decide (p.1 = x) && !used.contains p.2) with
        | some p => some p.2
        | none => findExact l x
      match pick with
      | none => none
      | some i => (go rest (used ++ [i])).map (i :: ·)
  go xs []

/-- build the environment of one `ask` from what was observed -/
def guessAskEnv (freeAllowed : Bool) (c : Cbo Config) (o : RoundObs) (path : String) :
    Except String (AskEnv Config Config) :=
  let s := c.opt
  let d0 := o.askDraws.headD []
  let dummyFit : Fit Config Config := { cands := [], pick := .idx (fun _ => 0) }
  let base : AskEnv Config Config :=
    { cands := d0, copyFit := dummyFit, steps := [], orders := fun _ => [], refresh := dummyFit }
  if path == "topk" then
    match s.last with
    | none => .ok base
    | some l =>
      match indexAll l o.X with
      | none => .error "a topk proposal is not a row of the last candidate sample"
      | some idx => .ok { base with orders := fun _ => [idx] }
  else if path == "boltzmann" then
    match s.last with
    | none => .ok base
    | some l =>
      match indexAll l o.X with
      | none => .error "a boltzmann proposal is not a row of the last candidate sample"
      | some [] => .ok base
      | some (i0 :: rest) =>
        -- a repeated index is accepted only once 100 draws were rejected (the counter of
        -- rejected draws is shared by the whole batch)
        let draws := (rest.foldl (fun (acc : List Nat × List Nat × Nat) i =>
          if acc.2.1.contains i then
            (acc.1 ++ List.replicate (100 - acc.2.2 + 1) i, acc.2.1 ++ [i], 100)
          else (acc.1 ++ [i], acc.2.1 ++ [i], acc.2.2)) ([], [i0], 0)).1
        .ok { base with orders := fun _ => [[i0], draws] }
  else if path == "qLCB" then
    match s.nextX with
    | none => .ok base
    | some x0 =>
      let f := filterDup s.filterOn (s.sampled ++ [x0]) d0
      match indexAllFresh f (o.X.drop 1) with
      | none => .error "a qUCB proposal is not one of the duplicate-filtered candidates"
      | some idx => .ok { base with orders := fun l => idx.map (fun i => padOrder i l.length) }
  else if path == "constant-liar" then
    -- the copy inherits `sampled`; step j selects X[j] from draws[j] filtered against
    -- sampled ++ X[0..j)
    let rec picks (j : Nat) (draws : List (List Config)) (xs : List Config) (smp : List Config) :
        Except String (List (Fit Config Config)) :=
      match draws, xs with
      | dr :: drs, x :: xs' =>
        match guessPick s.filterOn smp dr x freeAllowed with
        | none => .error s!"constant-liar proposal #{j} {showConfig x} is not one of the duplicate-filtered candidates"
        | some (p, _) =>
          match picks (j + 1) drs xs' (smp ++ [x]) with
          | .error e => .error e
          | .ok rest => .ok ({ cands := dr, pick := p } :: rest)
      | _, _ => .ok []
    match picks 0 o.askDraws o.X s.sampled with
    | .error e => .error e
    | .ok [] => .ok base
    | .ok (f0 :: fs) =>
      -- fit j+1 belongs to the `_tell` of step j; the last step has no `_tell`
      let steps := (fs.map (fun f => ({ askCands := [], fit := f } : ClStep Config Config))) ++
        [{ askCands := [], fit := dummyFit }]
      .ok { base with copyFit := f0, steps }
  else .ok base

def replayRound (d : Decl) (freeAllowed : Bool) (r : Replay) (o : RoundObs) : Replay :=
  if r.mismatch.isSome then r else
  -- 1. the pending tell: does the coming ask consume `_next_x`?
  let s0 := r.c.opt
  -- `_next_x` is consumed by a single ask / a qLCB ask once the random phase is over; whether
  -- the random phase is over after the pending tell is decided by the model, so resolve with
  -- the first proposal and fall back to "unobserved" when the ask does not use it
  let r1 :=
    match r.pending with
    | none => r
    | some (results, _) =>
      let told := cboTold r.c.ignoreFailures results
      let s1 := if told.isEmpty then s0 else told1 s0 told
      let fitted := (s1.nInit ≤ 0 ∧ s1.dummy = false)
      let uses := fitted && (o.n == 1 || r.c.strat.isQ)
      applyPending d freeAllowed r (if uses then o.X.head? else none)
  if r1.mismatch.isSome then r1 else
  -- 2. asked again before any tell: `update_next()` comes first (one draw if a model is fitted)
  let s1 := r1.c.opt
  let refreshing := r1.c.asked && s1.nextX.isSome
  let nRefresh := if refreshing then 1 else 0
  let fittedNow := (s1.nInit ≤ 0 ∧ s1.dummy = false)
  let usesNext := fittedNow && (o.n == 1 || r1.c.strat.isQ)
  let dummyFit : Fit Config Config := { cands := [], pick := .idx (fun _ => 0) }
  let refresh? : Option (Fit Config Config × String) :=
    if refreshing then
      let cands := o.askDraws.headD []
      match (if usesNext then o.X.head? else none) with
      | none => some ({ cands, pick := .idx (fun _ => 0) }, "unobserved")
      | some x =>
        match guessPick s1.filterOn s1.sampled cands x freeAllowed with
        | none => none
        | some (p, label) => some ({ cands, pick := p }, label)
    else some (dummyFit, "")
  match refresh? with
  | none => { r1 with mismatch := some s!"ask({o.n}) again before a tell: the proposal {showConfig (o.X.headD [])} is not one of the duplicate-filtered candidates drawn by update_next" }
  | some (refreshFit, rlabel) =>
  -- the optimizer state the ask itself starts from (glue: only used to guess the environment)
  let opt0? : Option (Opt Config) :=
    if r1.c.asked then (updateNext (idOps d) s1 refreshFit).toOption else some s1
  match opt0? with
  | none => { r1 with mismatch := some s!"ask({o.n}) again before a tell: model's update_next raises" }
  | some opt0 =>
  let cg : Cbo Config := { r1.c with opt := opt0 }
  let o' : RoundObs := { o with askDraws := o.askDraws.drop nRefresh }
  let (path, expectedDraws) := askPath opt0 o.n r1.c.strat
  if o.askDraws.length != expectedDraws + nRefresh then
    { r1 with mismatch := some s!"ask({o.n}) [{path}{if r1.c.asked then ", asked again" else ""}]: the model expects {expectedDraws + nRefresh} Space.rvs draw(s), the implementation made {o.askDraws.length}" }
  else
  match guessAskEnv freeAllowed cg o' path with
  | .error e => { r1 with mismatch := some s!"ask({o.n}) [{path}]: {e}" }
  | .ok env0 =>
    let env := { env0 with refresh := refreshFit }
    match cboAsk (idOps d) r1.c o.n env with
    | .error e => { r1 with mismatch := some s!"ask({o.n}) [{path}]: model raises {errStr e}" }
    | .ok (c', Z) =>
      let Xm := Z.map (·.x)
      if Xm != o.X then
        { r1 with mismatch := some s!"ask({o.n}) [{path}]: model returns {(Json.arr (Xm.map ofConfig).toArray).compress}, implementation returned {(Json.arr (o.X.map ofConfig).toArray).compress}" }
      else
        { r1 with c := c', sels := r1.sels ++ Z,
                  paths := r1.paths ++ (if r1.c.asked then [s!"ask-again:{rlabel}"] else []) ++ [path],
                  replayed := r1.replayed + 1,
                  pending := if o.hasTell then some (o.results, o.tellDraws) else none }

def handleSession (j : Json) : Except String Json := do
  let d ← jDecl (← field j "decl")
  let nInit ← jInt (← field j "nInit")
  let dummy ← jBool (← field j "dummy")
  let filterOn ← jBool (← field j "filterOn")
  let strat ← jStrategy (← (← field j "strategy").getStr?)
  let ignore ← jBool (← field j "ignoreFailures")
  let freeAllowed ← jBool (← field j "freeAllowed")
  let initSamples ← jList jConfig (fieldD j "initSamples" (Json.arr #[]))
  let rounds ← jList jRound (← field j "rounds")
  let c0 : Cbo Config := { opt := Opt.init filterOn dummy nInit initSamples, strat, ignoreFailures := ignore }
  let r := rounds.foldl (replayRound d freeAllowed) { c := c0 }
  -- a last pending tell is applied with an unobserved pick (checks the draw count only)
  let r := if r.mismatch.isSome then r else applyPending d freeAllowed r none
  let xs := r.sels.map (·.x)
  let covers (univ : List Config) := r.sels.all (fun z => z.offered.isEmpty || univ.all (fun u => decide (u ∈ z.offered)))
  let univ ← jList jConfig (fieldD j "univ" (Json.arr #[]))
  let firstN := xs.take univ.length
  return Json.mkObj [
    ("ok", true),
    ("mismatch", match r.mismatch with | some m => Json.str m | none => Json.null),
    ("replayed", r.replayed),
    ("paths", Json.arr (r.paths.map Json.str).toArray),
    ("fresh_ok", selsOKb [] r.sels),
    ("recorded_ok", decide (∀ x ∈ xs, x ∈ r.c.opt.sampled)),
    ("covers", covers univ),
    ("firstN_distinct", decide firstN.Nodup),
    ("all_member", xs.all (memSpace d))]

/-! ### `regevo`: replay of a RegularizedEvolution session -/

def exactTable (tbl : List (Rat × Rat)) (q : Rat) : Rat :=
  match tbl.find? (fun kv => kv.1 == q) with
  | some kv => kv.2
  | none => q

/-- did the model's child go through the fallback branch (all 100 mutation trials forbidden)? -/
def tookFallback (ne : NumEnv) (d : Decl) (st : DH.RegEvo.St) (e : DH.RegEvo.ChildEnv) : Bool :=
  match DH.RegEvo.parentOf st e.idxs with
  | none => false
  | some parent =>
    match deactivateCS ne d parent with
    | .error _ => false
    | .ok p0 =>
      match DH.RegEvo.mutate ne d parent (activeList d p0) 100 e.attempts with
      | .ok none => true
      | _ => false

def handleRegevo (j : Json) : Except String Json := do
  let d ← jDecl (← field j "decl")
  let popSize ← jNat (← field j "popSize")
  let sampleSize ← jNat (← field j "sampleSize")
  let rnd ← jTable (fieldD j "rnd" (Json.arr #[]))
  let ne : NumEnv := { lg := fun q => q, pw := fun q => q, rnd := exactTable rnd }
  let opsJ ← (← field j "ops").getArr?
  let mut st : DH.RegEvo.St := { popSize, sampleSize, pop := [] }
  let mut mismatch : Option String := none
  let mut replayed : Nat := 0
  let mut phases : List String := []
  let mut fallbacks : Nat := 0
  for oj in opsJ.toList do
    if mismatch.isSome then break
    let kind ← (← field oj "op").getStr?
    if kind == "tell" then
      let results ← jList (fun p => do
          let a ← p.getArr?
          match a.toList with
          | [x, .null] => return (← jConfig x, (none : Option Rat))
          | [x, y] => return (← jConfig x, some (← jRat y))
          | _ => throw "bad result") (← field oj "results")
      st := DH.RegEvo.tell st results
    else
      let n ← jNat (← field oj "n")
      let fresh ← jList jSample (fieldD oj "fresh" (Json.arr #[]))
      let X ← jList jConfig (← field oj "X")
      let envs ← jList (fun c => do
          let idxs ← jList jNat (← field c "idxs")
          let attempts ← jList (fun a => do
              let arr ← a.getArr?
              match arr.toList with
              | [nm, v] => return ({ name := ← nm.getStr?, value := ← jVal v } : DH.RegEvo.Attempt)
              | _ => throw "bad attempt") (← field c "attempts")
          let fr ← match c.getObjVal? "fresh" with
            | .ok (.null) => pure []
            | .ok f => jSample f
            | .error _ => pure []
          return ({ idxs, attempts, fresh := fr } : DH.RegEvo.ChildEnv)) (fieldD oj "children" (Json.arr #[]))
      phases := phases ++ [if st.pop.length < st.popSize then "random" else "evolution"]
      if !(st.pop.length < st.popSize) then
        fallbacks := fallbacks + (envs.filter (tookFallback ne d st)).length
      match DH.RegEvo.ask ne d st n fresh envs with
      | .error e => mismatch := some s!"ask({n}): model raises {reprStr e}"
      | .ok Xm =>
        if Xm != X then
          mismatch := some s!"ask({n}): model returns {(Json.arr (Xm.map ofConfig).toArray).compress}, implementation returned {(Json.arr (X.map ofConfig).toArray).compress}"
        else replayed := replayed + 1
  return Json.mkObj [("ok", true),
    ("mismatch", match mismatch with | some m => Json.str m | none => Json.null),
    ("replayed", replayed), ("phases", Json.arr (phases.map Json.str).toArray),
    ("fallbacks", fallbacks)]

/-- the request handler shared by `Drivers/C02.lean` and `Drivers/C08.lean` -/
def handle (j : Json) : Except String Json := do
  let op ← (← field j "op").getStr?
  match op with
  | "mem" => handleMem j
  | "fin" => handleFin j
  | "fill" => handleFill j
  | "regevo" => handleRegevo j
  | "session" => handleSession j
  | _ => throw s!"unknown op {op}"

end DH.Session
