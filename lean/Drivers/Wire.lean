import Lean.Data.Json

/-!
Line protocol shared by all drivers: one JSON request per stdin line, one JSON
reply per stdout line.  Rationals cross the pipe as `"num/den"` strings (exact
`fractions.Fraction(float)` on the Python side), integers as JSON integers.
A request the driver cannot decode is answered with `{"ok":false,"err":…}` —
the harness treats that as a harness error (exit 2), never as a violation.
-/

namespace DH.Wire
open Lean

def parseRat (s : String) : Except String Rat :=
  match s.splitOn "/" with
  | [n] => match n.toInt? with
    | some k => .ok (k : Rat)
    | none => .error s!"bad rat {s}"
  | [n, d] => match n.toInt?, d.toNat? with
    | some k, some m => if m = 0 then .error s!"zero den {s}" else .ok (mkRat k m)
    | _, _ => .error s!"bad rat {s}"
  | _ => .error s!"bad rat {s}"

def ratToString (q : Rat) : String := s!"{q.num}/{q.den}"

def jRat (j : Json) : Except String Rat :=
  match j with
  | .str s => parseRat s
  | .num n => if n.exponent = 0 then .ok (n.mantissa : Rat) else .error "non-integer json number; send rationals as strings"
  | _ => .error "expected rational"

def jNat (j : Json) : Except String Nat := j.getNat?
def jInt (j : Json) : Except String Int := j.getInt?
def jBool (j : Json) : Except String Bool := j.getBool?
def jStr (j : Json) : Except String String := j.getStr?

def jList {α} (f : Json → Except String α) (j : Json) : Except String (List α) := do
  let a ← j.getArr?
  a.toList.mapM f

def field (j : Json) (k : String) : Except String Json := j.getObjVal? k

def fieldD (j : Json) (k : String) (d : Json) : Json :=
  match j.getObjVal? k with
  | .ok v => v
  | .error _ => d

def ofRat (q : Rat) : Json := .str (ratToString q)
def ofNats (l : List Nat) : Json := .arr (l.map (fun (n : Nat) => Json.num (JsonNumber.fromNat n))).toArray
def ofBools (l : List Bool) : Json := .arr (l.map Json.bool).toArray
def ofRats (l : List Rat) : Json := .arr (l.map ofRat).toArray

/-- read request lines until EOF; `step` may carry state between lines -/
partial def serve {σ} (step : σ → Json → σ × Json) (init : σ) : IO Unit := do
  let stdin ← IO.getStdin
  let stdout ← IO.getStdout
  let rec loop (s : σ) : IO Unit := do
    let line ← stdin.getLine
    if line.isEmpty then return ()
    let t := line.trimAscii.toString
    if t.isEmpty then loop s else
    match Json.parse t with
    | .error e =>
      stdout.putStrLn (Json.compress (Json.mkObj [("ok", false), ("err", s!"parse: {e}")]))
      stdout.flush
      loop s
    | .ok j =>
      let (s', out) := step s j
      stdout.putStrLn (Json.compress out)
      stdout.flush
      loop s'
  loop init

def errReply (e : String) : Json := Json.mkObj [("ok", false), ("err", e)]

/-- stateless driver helper -/
def serveFn (f : Json → Except String Json) : IO Unit :=
  serve (fun (_ : Unit) j => ((), match f j with | .ok r => r | .error e => errReply e)) ()

end DH.Wire
