import Drivers.Wire
import Model.Aggregate

/-!
Driver for C19.  A cell is a rational string or `null` (masked); a categorical row is a list of
rationals or `null`.  `ws` is a list of rationals or `null` (`weights=None`); `n` = number of members.

* `{"op":"mean","ws":…,"n":n,"cols":[[cell,…n],…]}` → per cell `loc`, `var`
* `{"op":"normal","ws":…,"n":n,"locs":[[cell…]…],"scales":[[cell…]…]}` → `loc,var,alea,epi,epi_unweighted`
* `{"op":"cat","ws":…,"n":n,"c":C,"rows":[[row,…n],…]}` → confidence form `loc,unc,alea,epi`
* `{"op":"cat_entropy",…,"hloc":[rat|null…],"hrows":[[rat|null…n]…]}` → entropy form with the
  entropy values of the rows / of `loc` supplied by the caller (`H` is a parameter of the model)
* `{"op":"mode","ws":…,"n":n,"c":C,"rows":…}` → `counts, loc, unc, counts_unnormalised`
* `{"op":"check","items":[{"k":…,"tol":…,…},…]}` → `res`: the verified checkers (`C19_checker`) on real outputs
-/

open Lean DH.Wire DH.Aggregate

def jCell (j : Json) : Except String Cell :=
  match j with
  | .null => .ok none
  | _ => do let q ← jRat j; return some q

def jRow (j : Json) : Except String Row :=
  match j with
  | .null => .ok none
  | _ => do let l ← jList jRat j; return some l

def ofCell : Cell → Json
  | none => .null
  | some q => ofRat q

def ofRow : Row → Json
  | none => .null
  | some l => ofRats l

def ofCells (l : List Cell) : Json := .arr (l.map ofCell).toArray

def jWeights (j : Json) : Except String (Option (List Rat)) :=
  match j with
  | .null => .ok none
  | _ => do let l ← jList jRat j; return some l

def errName : ArgError → String
  | .emptyInput => "emptyInput"
  | .weightsLength => "weightsLength"
  | .notArray => "notArray"
  | .missingLoc => "missingLoc"
  | .missingScale => "missingScale"
  | .keysDiffer => "keysDiffer"
  | .badMethod => "badMethod"

def jMalformed (s : String) : Except String Malformed :=
  match s with
  | "notArray" => .ok .notArray
  | "emptyList" => .ok .emptyList
  | "missingLoc" => .ok .missingLoc
  | "missingScale" => .ok .missingScale
  | "keysDiffer" => .ok .keysDiffer
  | "badMethod" => .ok .badMethod
  | _ => .error s!"unknown malformed kind {s}"

/-- one verified-checker evaluation on real outputs: `{"k":"simplex"|"between"|"unc"|"range"|"totvar", "tol":rat, …}` -/
def checkItem (j : Json) : Except String Bool := do
  let k ← (← field j "k").getStr?
  let tol ← jRat (← field j "tol")
  match k with
  | "simplex" => return checkSimplex tol (← jNat (← field j "c")) (← jList jRat (← field j "loc"))
  | "between" =>
    return checkBetween tol (← jList jRat (← field j "ws")) (← jList jCell (← field j "ys")) (← jRat (← field j "a"))
  | "unc" =>
    return checkUncertainty tol (← jRat (← field j "hi")) (← jRat (← field j "u")) (← jRat (← field j "a"))
      (← jRat (← field j "e"))
  | "range" => return checkRange tol (← jRat (← field j "hi")) (← jRat (← field j "u"))
  | "totvar" =>
    return checkTotalVariance tol (← jRat (← field j "v")) (← jRat (← field j "a")) (← jRat (← field j "e"))
  | _ => throw s!"unknown checker {k}"

def handle (j : Json) : Except String Json := do
  let op ← (← field j "op").getStr?
  if op == "validate" then
    let m ← jMalformed (← (← field j "malformed").getStr?)
    return Json.mkObj [("ok", true), ("err", errName (validate m))]
  if op == "check" then
    let items ← (← field j "items").getArr?
    let res ← items.toList.mapM checkItem
    return Json.mkObj [("ok", true), ("res", ofBools res)]
  let wsIn ← jWeights (fieldD j "ws" .null)
  let n ← jNat (← field j "n")
  match checkArgs wsIn n with
  | .error e => return Json.mkObj [("ok", true), ("err", errName e)]
  | .ok ws =>
  match op with
  | "mean" =>
    let cols ← jList (jList jCell) (← field j "cols")
    let outs := cols.map (meanAgg ws)
    return Json.mkObj [("ok", true), ("err", .null),
      ("loc", ofCells (outs.map (·.loc))), ("var", ofCells (outs.map (·.var)))]
  | "normal" =>
    let locs ← jList (jList jCell) (← field j "locs")
    let scales ← jList (jList jCell) (← field j "scales")
    let outs := (locs.zip scales).map (fun (l, s) => mixedNormal ws l s)
    return Json.mkObj [("ok", true), ("err", .null),
      ("loc", ofCells (outs.map (·.loc))), ("var", ofCells (outs.map (·.var))),
      ("alea", ofCells (outs.map (·.aleaVar))), ("epi", ofCells (outs.map (·.epiVar))),
      ("epi_unweighted", ofCells (locs.map epiVarUnweighted))]
  | "cat" =>
    let c ← jNat (← field j "c")
    let rows ← jList (jList jRow) (← field j "rows")
    let outs := rows.map (mixedCategoricalConf c ws)
    return Json.mkObj [("ok", true), ("err", .null),
      ("loc", .arr (outs.map (fun o => ofRow o.loc)).toArray), ("unc", ofCells (outs.map (·.unc))),
      ("alea", ofCells (outs.map (·.alea))), ("epi", ofCells (outs.map (·.epi)))]
  | "cat_entropy" =>
    let c ← jNat (← field j "c")
    let rows ← jList (jList jRow) (← field j "rows")
    let hloc ← jList jCell (← field j "hloc")
    let hrows ← jList (jList jCell) (← field j "hrows")
    let outs := (rows.zip (hloc.zip hrows)).map (fun (rs, hl, hr) =>
      -- the entropy function of this sample: the supplied value for each member row, `hl` elsewhere
      let table : List (List Rat × Rat) := (rs.zip hr).filterMap (fun (r, h) =>
        match r, h with
        | some p, some v => some (p, v)
        | _, _ => none)
      let H : List Rat → Rat := fun p =>
        match table.lookup p with
        | some v => v
        | none => hl.getD 0
      mixedCategoricalEntropy H c ws rs)
    return Json.mkObj [("ok", true), ("err", .null),
      ("loc", .arr (outs.map (fun o => ofRow o.loc)).toArray), ("unc", ofCells (outs.map (·.unc))),
      ("alea", ofCells (outs.map (·.alea))), ("epi", ofCells (outs.map (·.epi)))]
  | "mode" =>
    let c ← jNat (← field j "c")
    let rows ← jList (jList jRow) (← field j "rows")
    let outs := rows.map (modeAgg c ws)
    return Json.mkObj [("ok", true), ("err", .null),
      ("counts", .arr (outs.map (fun o => ofRow o.counts)).toArray),
      ("loc", .arr (outs.map (fun o => match o.loc with
        | some k => Json.num (JsonNumber.fromNat k)
        | none => Json.null)).toArray),
      ("unc", ofCells (outs.map (·.unc))),
      ("counts_unnormalised", .arr (rows.map (fun rs => ofRats (modeCountsUnnormalised c ws rs))).toArray)]
  | _ => throw s!"unknown op {op}"

def main : IO Unit := serveFn handle
