import Drivers.Wire
import Model.AggregateArray

/-!
Driver for C19.  A cell is a rational string or `null` (masked); a categorical row is a list of
rationals or `null`.  `ws` is a list of rationals or `null` (`weights=None`); `n` = number of members.

* `{"op":"mean","ws":…,"n":n,"cols":[[cell,…n],…]}` → per cell `loc`, `var`
* `{"op":"normal","ws":…,"n":n,"locs":[[cell…]…],"scales":[[cell…]…]}` → `loc,var,alea,epi,epi_unweighted`
* `{"op":"cat","ws":…,"n":n,"c":C,"rows":[[row,…n],…]}` → confidence form `loc,unc,alea,epi`
* `{"op":"cat_entropy",…,"hloc":[rat|null…],"hrows":[[rat|null…n]…]}` → entropy form with the
  entropy values of the rows / of `loc` supplied by the caller (`H` is a parameter of the model)
* `{"op":"mode","ws":…,"n":n,"c":C,"rows":…}` → `counts, loc, unc, counts_unnormalised`
* `{"op":"check","items":[{"k":…,"tol":…,…},…]}` → `res`: the verified checkers (`C19_checker`) on real outputs

Instead of `cols` / `locs`+`scales` / `rows` a request may carry the member **arrays** as the code receives them
(`Model/AggregateArray.lean`): `"arrs"` (and `"sarrs"`: the scale arrays of normal members), each
`{"ma":bool,"mask":null|[bool…],"dtype":"int8"|…,"data":[rat…]}` (flattened; `data` = all stored values, also those
under the mask), with `"size"` = number of entries per array.  The cells / rows are then derived by the model
(`stackCells`, `stackNormal`: namespace selection and stacking) and the reply carries `"ma"`: whether the `np.ma`
namespace is used (⇔ the outputs are `MaskedArray`s).
-/

open Lean DH.Wire DH.Aggregate

def jCell (j : Json) : Except String Cell :=
  match j with
  | .null => .ok none
  | _ => do let q ← jRat j; return some q

def jRow (j : Json) : Except String Row :=
  match j with
  | .null => .ok none
  | _ => do let l ← jList jRat j; return some l

def ofCell : Cell → Json
  | none => .null
  | some q => ofRat q

def ofRow : Row → Json
  | none => .null
  | some l => ofRats l

def ofCells (l : List Cell) : Json := .arr (l.map ofCell).toArray

def jDType (s : String) : Except String DType :=
  match s with
  | "bool" => .ok .bool
  | "int8" => .ok (.int 8) | "int16" => .ok (.int 16) | "int32" => .ok (.int 32) | "int64" => .ok (.int 64)
  | "uint8" => .ok (.uint 8) | "uint16" => .ok (.uint 16) | "uint32" => .ok (.uint 32) | "uint64" => .ok (.uint 64)
  | "float16" => .ok (.float 16) | "float32" => .ok (.float 32) | "float64" => .ok (.float 64)
  | _ => .error s!"unknown dtype {s}"

def jArr (j : Json) : Except String Arr := do
  let ma ← jBool (← field j "ma")
  let mask ← match fieldD j "mask" .null with
    | .null => pure MaskRep.nomask
    | m => do let bs ← jList jBool m; pure (MaskRep.bits bs)
  let dtype ← jDType (← jStr (← field j "dtype"))
  let data ← jList jRat (← field j "data")
  return { ma, mask, dtype, data }

def hasArrs (j : Json) : Bool :=
  match fieldD j "arrs" .null with
  | .null => false
  | _ => true

def jWeights (j : Json) : Except String (Option (List Rat)) :=
  match j with
  | .null => .ok none
  | _ => do let l ← jList jRat j; return some l

def errName : ArgError → String
  | .emptyInput => "emptyInput"
  | .weightsLength => "weightsLength"
  | .notArray => "notArray"
  | .missingLoc => "missingLoc"
  | .missingScale => "missingScale"
  | .keysDiffer => "keysDiffer"
  | .badMethod => "badMethod"

def jMalformed (s : String) : Except String Malformed :=
  match s with
  | "notArray" => .ok .notArray
  | "emptyList" => .ok .emptyList
  | "missingLoc" => .ok .missingLoc
  | "missingScale" => .ok .missingScale
  | "keysDiffer" => .ok .keysDiffer
  | "badMethod" => .ok .badMethod
  | _ => .error s!"unknown malformed kind {s}"

/-- one verified-checker evaluation on real outputs: `{"k":"simplex"|"between"|"unc"|"range"|"totvar", "tol":rat, …}` -/
def checkItem (j : Json) : Except String Bool := do
  let k ← (← field j "k").getStr?
  let tol ← jRat (← field j "tol")
  match k with
  | "simplex" => return checkSimplex tol (← jNat (← field j "c")) (← jList jRat (← field j "loc"))
  | "between" =>
    return checkBetween tol (← jList jRat (← field j "ws")) (← jList jCell (← field j "ys")) (← jRat (← field j "a"))
  | "unc" =>
    return checkUncertainty tol (← jRat (← field j "hi")) (← jRat (← field j "u")) (← jRat (← field j "a"))
      (← jRat (← field j "e"))
  | "range" => return checkRange tol (← jRat (← field j "hi")) (← jRat (← field j "u"))
  | "totvar" =>
    return checkTotalVariance tol (← jRat (← field j "v")) (← jRat (← field j "a")) (← jRat (← field j "e"))
  | _ => throw s!"unknown checker {k}"

def handle (j : Json) : Except String Json := do
  let op ← (← field j "op").getStr?
  if op == "validate" then
    let m ← jMalformed (← (← field j "malformed").getStr?)
    return Json.mkObj [("ok", true), ("err", errName (validate m))]
  if op == "check" then
    let items ← (← field j "items").getArr?
    let res ← items.toList.mapM checkItem
    return Json.mkObj [("ok", true), ("res", ofBools res)]
  let wsIn ← jWeights (fieldD j "ws" .null)
  let n ← jNat (← field j "n")
  match checkArgs wsIn n with
  | .error e => return Json.mkObj [("ok", true), ("err", errName e)]
  | .ok ws =>
  match op with
  | "mean" =>
    let (outs, ma) ← if hasArrs j then do
        let arrs ← jList jArr (← field j "arrs")
        pure (meanArr ws (← jNat (← field j "size")) arrs, Json.bool (useMa arrs))
      else do
        let cols ← jList (jList jCell) (← field j "cols")
        pure (cols.map (meanAgg ws), Json.null)
    return Json.mkObj [("ok", true), ("err", .null), ("ma", ma),
      ("loc", ofCells (outs.map (·.loc))), ("var", ofCells (outs.map (·.var)))]
  | "normal" =>
    let (locs, outs, ma) ← if hasArrs j then do
        let arrs ← jList jArr (← field j "arrs")
        let sarrs ← jList jArr (← field j "sarrs")
        let size ← jNat (← field j "size")
        pure (columns size (stackNormal arrs sarrs).1, normalArr ws size arrs sarrs,
          Json.bool (useMa arrs && useMa sarrs))
      else do
        let locs ← jList (jList jCell) (← field j "locs")
        let scales ← jList (jList jCell) (← field j "scales")
        pure (locs, (locs.zip scales).map (fun (l, s) => mixedNormal ws l s), Json.null)
    return Json.mkObj [("ok", true), ("err", .null), ("ma", ma),
      ("loc", ofCells (outs.map (·.loc))), ("var", ofCells (outs.map (·.var))),
      ("alea", ofCells (outs.map (·.aleaVar))), ("epi", ofCells (outs.map (·.epiVar))),
      ("epi_unweighted", ofCells (locs.map epiVarUnweighted))]
  | "cat" =>
    let c ← jNat (← field j "c")
    let (outs, ma) ← if hasArrs j then do
        let arrs ← jList jArr (← field j "arrs")
        pure (catArr c ws ((← jNat (← field j "size")) / c) arrs, Json.bool (useMa arrs))
      else do
        let rows ← jList (jList jRow) (← field j "rows")
        pure (rows.map (mixedCategoricalConf c ws), Json.null)
    return Json.mkObj [("ok", true), ("err", .null), ("ma", ma),
      ("loc", .arr (outs.map (fun o => ofRow o.loc)).toArray), ("unc", ofCells (outs.map (·.unc))),
      ("alea", ofCells (outs.map (·.alea))), ("epi", ofCells (outs.map (·.epi)))]
  | "cat_entropy" =>
    let c ← jNat (← field j "c")
    let (rows, ma) ← if hasArrs j then do
        let arrs ← jList jArr (← field j "arrs")
        pure (rowColumns ((← jNat (← field j "size")) / c) c (stackCells arrs), Json.bool (useMa arrs))
      else do
        pure (← jList (jList jRow) (← field j "rows"), Json.null)
    let hloc ← jList jCell (← field j "hloc")
    let hrows ← jList (jList jCell) (← field j "hrows")
    let outs := (rows.zip (hloc.zip hrows)).map (fun (rs, hl, hr) =>
      -- the entropy function of this sample: the supplied value for each member row, `hl` elsewhere
      let table : List (List Rat × Rat) := (rs.zip hr).filterMap (fun (r, h) =>
        match r, h with
        | some p, some v => some (p, v)
        | _, _ => none)
      let H : List Rat → Rat := fun p =>
        match table.lookup p with
        | some v => v
        | none => hl.getD 0
      mixedCategoricalEntropy H c ws rs)
    return Json.mkObj [("ok", true), ("err", .null), ("ma", ma),
      ("loc", .arr (outs.map (fun o => ofRow o.loc)).toArray), ("unc", ofCells (outs.map (·.unc))),
      ("alea", ofCells (outs.map (·.alea))), ("epi", ofCells (outs.map (·.epi)))]
  | "mode" =>
    let c ← jNat (← field j "c")
    let (rows, ma) ← if hasArrs j then do
        let arrs ← jList jArr (← field j "arrs")
        pure (rowColumns ((← jNat (← field j "size")) / c) c (stackCells arrs), Json.bool (useMa arrs))
      else do
        pure (← jList (jList jRow) (← field j "rows"), Json.null)
    let outs := rows.map (modeAgg c ws)
    return Json.mkObj [("ok", true), ("err", .null), ("ma", ma),
      ("counts", .arr (outs.map (fun o => ofRow o.counts)).toArray),
      ("loc", .arr (outs.map (fun o => match o.loc with
        | some k => Json.num (JsonNumber.fromNat k)
        | none => Json.null)).toArray),
      ("unc", ofCells (outs.map (·.unc))),
      ("counts_unnormalised", .arr (rows.map (fun rs => ofRats (modeCountsUnnormalised c ws rs))).toArray)]
  | _ => throw s!"unknown op {op}"

def main : IO Unit := serveFn handle
