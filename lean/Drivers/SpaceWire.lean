import Drivers.Wire
import Model.Space

/-! JSON encodings of `Model/Space.lean` values shared by the C09 and C10 drivers. -/

open Lean DH.Wire DH.Space

def jVal (j : Json) : Except String Val := do
  let t ← (← field j "t").getStr?
  let v ← field j "v"
  match t with
  | "f" => return .num (← jRat v)
  | "i" => return .int (← jInt v)
  | "s" => return .str (← jStr v)
  | "b" => return .bool (← jBool v)
  | _ => throw s!"bad val tag {t}"

def ofVal : Val → Json
  | .num q => Json.mkObj [("t", "f"), ("v", ofRat q)]
  | .int i => Json.mkObj [("t", "i"), ("v", Json.num (JsonNumber.fromInt i))]
  | .str s => Json.mkObj [("t", "s"), ("v", s)]
  | .bool b => Json.mkObj [("t", "b"), ("v", b)]

def jPrior (j : Json) : Except String Prior := do
  match ← j.getStr? with
  | "uniform" => return .uniform
  | "log-uniform" => return .logUniform
  | s => throw s!"bad prior {s}"

def jDim (j : Json) : Except String Dim := do
  let k ← (← field j "k").getStr?
  let tr ← (← field j "tr").getStr?
  match k with
  | "real" | "int" =>
    let p ← jPrior (← field j "prior")
    let t ← match tr with
      | "identity" => pure NumTr.identity
      | "normalize" => pure NumTr.normalize
      | s => throw s!"bad numeric transform {s}"
    if k == "real" then
      return .real (← jRat (← field j "lo")) (← jRat (← field j "hi")) p t
    else
      return .int (← jInt (← field j "lo")) (← jInt (← field j "hi")) p t
  | "cat" =>
    let cs ← jList jVal (← field j "cats")
    let t ← match tr with
      | "identity" => pure CatTr.identity
      | "label" => pure CatTr.label
      | "onehot" => pure CatTr.onehot
      | "normalize" => pure CatTr.normalize
      | s => throw s!"bad categorical transform {s}"
    return .cat cs t
  | s => throw s!"bad dim kind {s}"

def jPairs (j : Json) : Except String (List (Rat × Rat)) :=
  jList (fun p => do
    match ← jList jRat p with
    | [a, b] => return (a, b)
    | _ => throw "pair expected") j

/-- exact table lookup (0 for a missing key; missing keys are reported in `lmissing`) -/
def tabL (t : List (Rat × Rat)) (x : Rat) : Rat :=
  match t.find? (fun p => p.1 == x) with
  | some p => p.2
  | none => 0

def absR (x : Rat) : Rat := if x < 0 then -x else x

def nearest (t : List (Rat × Rat)) (x : Rat) : Option (Rat × Rat) :=
  t.foldl (fun best p =>
    match best with
    | none => some p
    | some b => if absR (p.1 - x) < absR (b.1 - x) then some p else some b) none

/-- nearest-key lookup: the code evaluates `base ** k` at the float next to the exact argument -/
def tabE (t : List (Rat × Rat)) (x : Rat) : Rat :=
  match nearest t x with
  | some p => p.2
  | none => 0

def errName : Err → String
  | .valueError => "ValueError"
  | .keyError => "KeyError"
  | .typeError => "TypeError"
  | .indexError => "IndexError"
  | .assertionError => "AssertionError"
  | .unsupported => "unsupported"

def ofErr (e : Err) : Json := Json.mkObj [("err", errName e)]

def isLog : Dim → Bool
  | .real _ _ .logUniform _ => true
  | .int _ _ .logUniform _ => true
  | _ => false

/-- the numbers `L` is applied to: bounds of the log dimensions and the numeric entries of
their columns -/
def lKeys (dims : List Dim) (X : List (List Val)) : List Rat :=
  (dims.zipIdx.filter (fun p => isLog p.1)).flatMap (fun (d, j) =>
    let b := match d with
      | .real lo hi _ _ => [lo, hi]
      | .int lo hi _ _ => [(lo : Rat), (hi : Rat)]
      | _ => []
    b ++ X.filterMap (fun r => (r[j]?).bind Val.toRat?))

/-- the arguments of `base ** ·` during `inverse_transform` of column block `c` of dimension `d`
(run the transformer inverse with the identity in place of `E`) -/
def eArgs (L : Rat → Rat) (d : Dim) (c : Col) : List Rat :=
  if isLog d then
    match (d.transformer L).inverse (fun x => x) c with
    | .ok (.vals l) => l.filterMap Val.toRat?
    | _ => []
  else []

/-- the same slicing as `inverseCols` -/
def slices : List Dim → List (List Rat) → List (Dim × Col)
  | [], _ => []
  | d :: ds, Xt =>
    let off := d.transformedSize
    match sliceCol off Xt with
    | .ok c => (d, c) :: slices ds (Xt.map (List.drop off))
    | .error _ => []

def ofEArgs (tE : List (Rat × Rat)) (args : List Rat) : Json :=
  .arr (args.map (fun a => match nearest tE a with
    | some p => Json.arr #[ofRat a, ofRat p.1]
    | none => Json.arr #[ofRat a, Json.null])).toArray

def jCol (j : Json) : Except String Col := do
  match j.getObjVal? "vals" with
  | .ok v => return .vals (← jList jVal v)
  | .error _ => return .mat (← jList (jList jRat) (← field j "mat"))

def ofCol : Col → Json
  | .vals l => Json.mkObj [("vals", .arr (l.map ofVal).toArray)]
  | .mat rows => Json.mkObj [("mat", .arr (rows.map ofRats).toArray)]

