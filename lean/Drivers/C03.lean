import Drivers.Wire
import Model.Search
import Model.SearchObjects

/-! Driver for C03.

`{"op":"calls","W":3,"fixes":[true,true,true],
  "calls":[{"n":2,"strict":false,"timeout":null,"env":[[1,false],[2,true]]}, ...]}`
→ `{"ok":true,"outs":[{"stop":"budget","evals":3,"table":3,"asks":[3]},...],"quiet":true}`

`env` = per loop iteration `[g, expired]` as observed on the implementation.

`{"op":"world","W":3,"nev":2,"cwd":[0],"ops":[{"t":"new","ev":0,"rel":[]},
   {"t":"call","ev":0,"o":0,"n":2,"strict":false,"timeout":null,"env":[[1,false]],"cwd_after":[1]},
   {"t":"chdir","p":[2]}, {"t":"new","ev":1,"abs":[0]}, ...]}`
→ `{"ok":true,"outs":[{"stop":"budget","evals":3,"asks":[3],"table":{"rows":3,"ok":true}},...]}`
(one entry per `call`): `Model/SearchObjects.lean` — search objects constructed (`new`) at any time
on `nev` evaluators sharing the file system and the working directory; `"o"` = number of the object
among those constructed on evaluator `"ev"`; directories are lists of component ids;
`"initResets":false` / `"perFile":false` select the code before the two repairs of the dump
state. -/

open Lean DH.Wire DH.Search DH.SearchObjects

def stopName : Stop → String
  | .budget => "budget" | .cap => "cap" | .timeout => "timeout" | .badTimeout => "badTimeout"
  | .noJobs => "noJobs" | .hang => "hang" | .badEnv => "badEnv" | .envExhausted => "envExhausted"

def jStep (j : Json) : Except String Step := do
  let a ← j.getArr?
  match a.toList with
  | [g, e] => return { g := ← jNat g, expired := ← jBool e }
  | _ => throw "step must be [g, expired]"

def jCall (j : Json) : Except String (Call × List Step) := do
  let n ← jInt (← field j "n")
  let strict ← jBool (← field j "strict")
  let t := fieldD j "timeout" Json.null
  let timeout ← match t with
    | .null => pure none
    | v => do pure (some (← jInt v))
  let env ← jList jStep (← field j "env")
  return ({ maxEvals := n, strict := strict, timeout := timeout }, env)

def outJson (o : Out) : Json :=
  Json.mkObj [("stop", stopName o.stop), ("evals", Json.num (JsonNumber.fromNat o.evals)),
    ("table", match o.table with | some r => Json.num (JsonNumber.fromNat r) | none => Json.null),
    ("asks", ofNats o.asks)]

def jPath (j : Json) : Except String Path := jList jNat j

def jOp (j : Json) : Except String (Nat × Op) := do
  let t ← (← field j "t").getStr?
  match t with
  | "chdir" => return (0, .chdir (← jPath (← field j "p")))
  | "new" =>
    let e ← jNat (← field j "ev")
    match fieldD j "abs" Json.null with
    | .null => return (e, .new (.rel (← jPath (← field j "rel"))))
    | v => return (e, .new (.abs (← jPath v)))
  | "call" =>
    let e ← jNat (← field j "ev")
    let o ← jNat (← field j "o")
    let (c, env) ← jCall j
    let after ← match fieldD j "cwd_after" Json.null with
      | .null => pure none
      | v => do pure (some (← jPath v))
    return (e, .call o c env after)
  | _ => throw s!"unknown event {t}"

def outWJson (o : OutW) : Json :=
  Json.mkObj [("stop", stopName o.out.stop), ("evals", Json.num (JsonNumber.fromNat o.out.evals)),
    ("asks", ofNats o.out.asks),
    ("table", match o.table with
      | some t => Json.mkObj [("rows", Json.num (JsonNumber.fromNat t.rows)), ("ok", t.wellFormed)]
      | none => Json.null)]

def handle (j : Json) : Except String Json := do
  let op ← (← field j "op").getStr?
  match op with
  | "calls" =>
    let W ← jNat (← field j "W")
    let fx ← match fieldD j "fixes" Json.null with
      | .null => pure ({} : Fixes)
      | v => do
        match ← jList jBool v with
        | [a, b, c] => pure ({ absOffset := a, resetCap := b, clearTimeout := c } : Fixes)
        | _ => throw "fixes must be [absOffset, resetCap, clearTimeout]"
    let calls ← jList jCall (← field j "calls")
    let r := runCalls fx (init W) calls
    let s := r.1
    let quiet := s.running == 0 && s.stored == s.gathered && s.pending == 0 && s.rows == s.gathered
    return Json.mkObj [("ok", true), ("outs", Json.arr (r.2.map outJson).toArray),
      ("quiet", quiet), ("rows", Json.num (JsonNumber.fromNat s.rows))]
  | "world" =>
    let W ← jNat (← field j "W")
    let nev ← jNat (← field j "nev")
    let cwd ← jPath (← field j "cwd")
    let ir ← match fieldD j "initResets" Json.null with
      | .null => pure true
      | v => jBool v
    let pf ← match fieldD j "perFile" Json.null with
      | .null => pure true
      | v => jBool v
    let cfg : Cfg := { initResets := ir, perFile := pf }
    let ops ← jList jOp (← field j "ops")
    let m : MWorld := { cwd := cwd, owns := List.replicate nev { ev := init W } }
    match runM cfg m ops with
    | none => throw "event on an evaluator that does not exist"
    | some r =>
      return Json.mkObj [("ok", true), ("outs", Json.arr (r.2.filterMap (·.map outWJson)).toArray)]
  | _ => throw s!"unknown op {op}"

def main : IO Unit := serveFn handle
