import Drivers.Wire
import Model.Search

/-! Driver for C03.

`{"op":"calls","W":3,"fixes":[true,true,true],
  "calls":[{"n":2,"strict":false,"timeout":null,"env":[[1,false],[2,true]]}, ...]}`
→ `{"ok":true,"outs":[{"stop":"budget","evals":3,"table":3,"asks":[3]},...],"quiet":true}`

`env` = per loop iteration `[g, expired]` as observed on the implementation. -/

open Lean DH.Wire DH.Search

def stopName : Stop → String
  | .budget => "budget" | .cap => "cap" | .timeout => "timeout" | .badTimeout => "badTimeout"
  | .noJobs => "noJobs" | .hang => "hang" | .badEnv => "badEnv" | .envExhausted => "envExhausted"

def jStep (j : Json) : Except String Step := do
  let a ← j.getArr?
  match a.toList with
  | [g, e] => return { g := ← jNat g, expired := ← jBool e }
  | _ => throw "step must be [g, expired]"

def jCall (j : Json) : Except String (Call × List Step) := do
  let n ← jInt (← field j "n")
  let strict ← jBool (← field j "strict")
  let t := fieldD j "timeout" Json.null
  let timeout ← match t with
    | .null => pure none
    | v => do pure (some (← jInt v))
  let env ← jList jStep (← field j "env")
  return ({ maxEvals := n, strict := strict, timeout := timeout }, env)

def outJson (o : Out) : Json :=
  Json.mkObj [("stop", stopName o.stop), ("evals", Json.num (JsonNumber.fromNat o.evals)),
    ("table", match o.table with | some r => Json.num (JsonNumber.fromNat r) | none => Json.null),
    ("asks", ofNats o.asks)]

def handle (j : Json) : Except String Json := do
  let op ← (← field j "op").getStr?
  match op with
  | "calls" =>
    let W ← jNat (← field j "W")
    let fx ← match fieldD j "fixes" Json.null with
      | .null => pure ({} : Fixes)
      | v => do
        match ← jList jBool v with
        | [a, b, c] => pure ({ absOffset := a, resetCap := b, clearTimeout := c } : Fixes)
        | _ => throw "fixes must be [absOffset, resetCap, clearTimeout]"
    let calls ← jList jCall (← field j "calls")
    let r := runCalls fx (init W) calls
    let s := r.1
    let quiet := s.running == 0 && s.stored == s.gathered && s.pending == 0 && s.rows == s.gathered
    return Json.mkObj [("ok", true), ("outs", Json.arr (r.2.map outJson).toArray),
      ("quiet", quiet), ("rows", Json.num (JsonNumber.fromNat s.rows))]
  | _ => throw s!"unknown op {op}"

def main : IO Unit := serveFn handle
