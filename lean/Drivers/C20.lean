import Drivers.Wire
import Model.Select
import Model.Aggregate

/-!
Driver for C20.

* `{"op":"topk","losses":[rat…],"order":[…],"k":k}` → `sel`, `weights`, `order_ok`, `stable`
* `{"op":"greedy","n":n,"opts":{"k","k_init","max_it","eps_tol","with_replacement","early_stopping","bagging"},
   "losses":[rat…],"order":[…],"L0":rat,"table":[[[[i,c],…],rat],…],"bags":[[…],…],"fuel":N,"pre":bool}`
  → `res` (`ok|outOfFuel|emptyEnsemble|allNaN`), `sel` (final list with repetitions), `indices`,
  `weights`, `evals` (per iteration: the candidates the model evaluated), `missing` (a multiset the
  model needed whose loss the implementation never computed), `margin` (smallest distance of an
  early-stopping comparison from its threshold), `order_ok`.
* `{"op":"sort","ids":["0.3","0.1",…]}` → `perm` (positions of the gathered list in sorted order)
* `{"op":"sort"|"predict", …, "members":[m…]}` (optional: the position in the `predictors` list of the member each
  gathered job ran, same order as `ids`) → additionally `hs_ok`: the ids increase strictly along the `predictors`
  list (hypothesis `hs` of `C20_order`, = `submitJobs_increasing` of the model of the submission) and `by_member`
  = `predictionsOf` must then list the members 0,1,2,…
* `{"op":"online_candidates","S":S,"jobs":[{"idx":[…],"vals":[rat…]},…]}` → `cands`: per job `onlineCandidate S idx vals`
  (a list of `rat | null` = masked), or `null` when the model says the assignment raises (`C20_online_candidate`)
* `{"op":"topk_history","k":k,"calls":[{"losses":[rat…],"order":[…]},…],"outs":[{"indices":[…],"weights":[rat…]}|null,…]}`
  (a history of `select()` calls on ONE `TopKSelector(k)` object; `outs` = what the real object returned per
  call, `null` where it raised / returned something that is not a list of naturals) → `steps` (per call:
  `sel`, `weights` of `topKHistory`, `order_ok`, `stable`, `spec` = `checkTopK` of the real answer of that
  call or `null`), `all` = `checkTopKHistory` of the whole history (`null` when an answer is missing)
-/

open Lean DH.Wire DH.Select

def jOpts (j : Json) : Except String Opts := do
  return { k := ← jNat (← field j "k"), kInit := ← jNat (← field j "k_init"),
           maxIt := ← jInt (← field j "max_it"), epsTol := ← jRat (← field j "eps_tol"),
           withReplacement := ← jBool (← field j "with_replacement"),
           earlyStopping := ← jBool (← field j "early_stopping"),
           bagging := ← jBool (← field j "bagging") }

def jPair (j : Json) : Except String (Nat × Nat) := do
  match ← jList jNat j with
  | [a, b] => return (a, b)
  | _ => throw "expected [index,count]"

def jEntry (j : Json) : Except String (List (Nat × Nat) × Rat) := do
  let a ← j.getArr?
  match a.toList with
  | [k, v] => return (← jList jPair k, ← jRat v)
  | _ => throw "expected [[[i,c]…],loss]"

/-- what `np.argsort` must satisfy: a permutation of `range n`, non-decreasing in loss -/
def orderOK (losses : List Rat) (order : List Nat) : Bool :=
  let n := losses.length
  order.length == n && (List.range n).all (fun i => order.contains i) &&
  (order.zip order.tail).all (fun (a, b) => decide (losses.getD a 0 ≤ losses.getD b 0))

def absR (q : Rat) : Rat := if q < 0 then -q else q

structure Trace where
  evals : List (List Nat) := []
  margin : Option Rat := none

/-- replays the trajectory of `greedyLoop` (same building blocks) to report which candidates each
iteration evaluated; auxiliary to the comparison, the result itself comes from `greedy` -/
def traceLoop (o : Opts) (n : Nat) (L : List (Nat × Nat) → Rat) (bags : Nat → List Nat) :
    Nat → Nat → List Nat → Rat → Trace → Trace
  | 0, _, _, _, t => t
  | fuel + 1, it, sel, lossMin, t =>
    if continues o n it sel then
      let cl := candLosses o n L sel (bags it)
      let ev := (List.range n).filter (fun i => (cl.getD i none).isSome)
      let t := { t with evals := t.evals ++ [ev] }
      match nanargmin cl with
      | none => t
      | some (iMin, lMin) =>
        let m := absR (lMin - (lossMin - o.epsTol))
        let t := if o.earlyStopping then
          { t with margin := some (match t.margin with | none => m | some m0 => if m < m0 then m else m0) } else t
        if stops o n sel lossMin iMin lMin then t
        else traceLoop o n L bags fuel (it + 1) (sel ++ [iMin]) lMin t
    else t

def resName : Res → String
  | .ok _ => "ok"
  | .outOfFuel => "outOfFuel"
  | .emptyEnsemble => "emptyEnsemble"
  | .allNaN => "allNaN"

def jCall (j : Json) : Except String TopKCall := do
  return { losses := ← jList jRat (← field j "losses"), order := ← jList jNat (← field j "order") }

def jOutOpt (j : Json) : Except String (Option (List Nat × List Rat)) := do
  if j.isNull then return none
  return some (← jList jNat (← field j "indices"), ← jList jRat (← field j "weights"))

/-- ids increase strictly along the `predictors` list: `members[i]` = list position of the member whose job has
`nums[i]`; sorting the jobs by member position must give strictly increasing ids -/
def idsIncreaseAlongMembers (nums members : List Nat) : Bool :=
  let byMember := (sortById (members.zip nums)).map (·.2)
  (byMember.zip byMember.tail).all (fun (a, b) => decide (a < b))

def jMembers (j : Json) : Except String (Option (List Nat)) := do
  let m := fieldD j "members" Json.null
  if m.isNull then return none
  return some (← jList jNat m)

def jJobReport (j : Json) : Except String (List Nat × List Rat) := do
  return (← jList jNat (← field j "idx"), ← jList jRat (← field j "vals"))

def handle (j : Json) : Except String Json := do
  let op ← (← field j "op").getStr?
  match op with
  | "topk" =>
    let losses ← jList jRat (← field j "losses")
    let order ← jList jNat (← field j "order")
    let k ← jNat (← field j "k")
    let (sel, w) := topK order k
    let key : Nat → Rat := fun i => losses.getD i 0
    return Json.mkObj [("ok", true), ("sel", ofNats sel), ("weights", ofRats w),
      ("order_ok", orderOK losses order), ("stable", decide (argsort key losses.length = order))]
  | "greedy" =>
    let n ← jNat (← field j "n")
    let o ← jOpts (← field j "opts")
    let losses ← jList jRat (← field j "losses")
    let order ← jList jNat (← field j "order")
    let l0 ← jRat (← field j "L0")
    let table ← jList jEntry (← field j "table")
    let bagsL ← jList (jList jNat) (← field j "bags")
    let fuel ← jNat (← field j "fuel")
    let pre ← jBool (fieldD j "pre" (Json.bool false))
    -- a loss the implementation never computed: larger than every observed one, so that it is
    -- never the argmin unless nothing else is eligible; reported through `missing`
    let big : Rat := table.foldl (fun acc e => if acc < e.2 then e.2 else acc) 0 + 1000000
    let L : List (Nat × Nat) → Rat := fun uc => (table.lookup uc).getD big
    let L0 : List Nat → Rat := fun _ => l0
    let bags : Nat → List Nat := fun it => bagsL.getD it []
    let r := if pre then greedyPre o n order L0 L bags fuel else greedy o n order L0 L bags fuel
    let tr := traceLoop o n L bags fuel 0 (initSel o order) l0 {}
    -- multisets the model asked for that the implementation did not evaluate
    let sels : List (List Nat) := match r with
      | .ok sel => (List.range (sel.length - (initSel o order).length + 1)).map
          (fun t => sel.take ((initSel o order).length + t))
      | _ => []
    let missing := (sels.zip tr.evals).any (fun (s, ev) =>
      ev.any (fun i => (table.lookup (uniqueCounts n (s ++ [i]))).isNone))
    let (sel, idx, w) := match r with
      | .ok sel => (sel, (output n sel).1, (output n sel).2)
      | _ => ([], [], [])
    return Json.mkObj [("ok", true), ("res", resName r), ("sel", ofNats sel), ("indices", ofNats idx),
      ("weights", ofRats w), ("evals", .arr (tr.evals.map ofNats).toArray), ("missing", missing),
      ("margin", match tr.margin with | some m => ofRat m | none => Json.null),
      ("order_ok", orderOK losses order)]
  | "check_topk" =>
    -- verified checker (`C20_checker`) on the real selector's output
    let losses ← jList jRat (← field j "losses")
    let k ← jNat (← field j "k")
    let idx ← jList jNat (← field j "indices")
    let w ← jList jRat (← field j "weights")
    return Json.mkObj [("ok", true), ("spec", checkTopK losses k idx w)]
  | "topk_history" =>
    -- one TopKSelector(k) object, a history of calls: the model (`topKHistory`) and the verified checkers
    let k ← jNat (← field j "k")
    let calls ← jList jCall (← field j "calls")
    let outs ← jList jOutOpt (← field j "outs")
    if outs.length != calls.length then throw "topk_history: one entry of outs per call"
    let model := topKHistory k calls
    let steps := ((calls.zip model).zip outs).map (fun ((c, m), o) =>
      let key : Nat → Rat := fun i => c.losses.getD i 0
      Json.mkObj [("sel", ofNats m.1), ("weights", ofRats m.2), ("order_ok", orderOK c.losses c.order),
        ("stable", decide (argsort key c.losses.length = c.order)),
        ("spec", match o with
          | some (idx, w) => Json.bool (checkTopK c.losses k idx w)
          | none => Json.null)])
    let given := outs.filterMap id
    let all := if given.length == outs.length
      then Json.bool (checkTopKHistory k (calls.map (·.losses)) given) else Json.null
    return Json.mkObj [("ok", true), ("steps", .arr steps.toArray), ("all", all)]
  | "check_greedy" =>
    let tol ← jRat (← field j "tol")
    let n ← jNat (← field j "n")
    let bound ← jNat (← field j "bound")
    let idx ← jList jNat (← field j "indices")
    let w ← jList jRat (← field j "weights")
    return Json.mkObj [("ok", true), ("spec", checkGreedyOut tol n bound idx w)]
  | "predict" =>
    -- `EnsemblePredictor.predict` with a MeanAggregator: ids and per-member cells in completion order
    let ids ← jList jStr (← field j "ids")
    let vals ← jList (jList jRat) (← field j "vals")
    let ws ← jList jRat (← field j "ws")
    let nums := ids.map idNum
    if nums.any Option.isNone then
      return Json.mkObj [("ok", true), ("bad_id", true), ("loc", Json.arr #[])]
    let hsOk := match ← jMembers j with
      | some ms => idsIncreaseAlongMembers (nums.filterMap id) ms
      | none => true
    let jobs : List (Nat × List Rat) := (nums.filterMap id).zip vals
    let sorted := (sortById jobs).map (·.2)
    let m := (vals.head?.map List.length).getD 0
    let locs := (List.range m).map (fun c =>
      (DH.Aggregate.meanAgg ws (sorted.map (fun v => v[c]?))).loc)
    return Json.mkObj [("ok", true), ("bad_id", false), ("hs_ok", hsOk),
      ("loc", .arr (locs.map (fun l => match l with | some q => ofRat q | none => Json.null)).toArray)]
  | "sort" =>
    let ids ← jList jStr (← field j "ids")
    let nums := ids.map idNum
    if nums.any Option.isNone then
      return Json.mkObj [("ok", true), ("bad_id", true), ("perm", ofNats [])]
    let jobs : List (Nat × Nat) := (nums.filterMap id).zipIdx
    let members ← jMembers j
    let hsOk := match members with
      | some ms => idsIncreaseAlongMembers (nums.filterMap id) ms
      | none => true
    let byMember := match members with
      | some ms => predictionsOf ((nums.filterMap id).zip ms)
      | none => []
    return Json.mkObj [("ok", true), ("bad_id", false), ("perm", ofNats ((sortById jobs).map (·.2))),
      ("hs_ok", hsOk), ("by_member", ofNats byMember)]
  | "online_candidates" =>
    let S ← jNat (← field j "S")
    let jobs ← jList jJobReport (← field j "jobs")
    let cands := jobs.map (fun (idx, vals) =>
      match onlineCandidate S idx vals with
      | some cand => Json.arr (cand.map (fun c => match c with | some q => ofRat q | none => Json.null)).toArray
      | none => Json.null)
    return Json.mkObj [("ok", true), ("cands", .arr cands.toArray)]
  | _ => throw s!"unknown op {op}"

def main : IO Unit := serveFn handle
