import Drivers.Wire
import Model.Forest

/-!
Driver for C18.  One request per fitted forest and batch of query points:

`{"op":"forest","minvar":r,"order":[..],"tolv":r,"tolm":r,
  "points":[{"trees":[[mean_t,var_t],..],"got":[mean_plain,mean_std,sd,mean_dis,sd_al,sd_ep]},..]}`

`got` are the implementation's outputs (exact rationals of the doubles; the stds, not squared).
Reply per point: the model's exact values and the tolerance verdicts; `blocks` (optional) = the tree
indices each worker thread handled (C18_blocks); `batch_rows` = the vectorised batch model agrees with the
per-row model (C18_batch).

Optional `"env":{"backend":null|"threading"|"loky"|"multiprocessing"|"sequential","n_jobs":null|k (negative: counted from the CPUs),"cpus":c}` and `"n_jobs":null|k`
(the joblib context around the call and the forest's `n_jobs`): reply `env` = `resolve codeHints` (backend, `n_eff`,
`in_caller`, `shared`) and `env_indep` = the three forms under that environment equal the context-free forms (C18_env).

`{"op":"acq","minvar":r,"tolv":r,"points":[{"trees":[..],"used_plain":r,"used_d":r},..]}`: the std read by
the plain / `d` acquisitions (observed as `-LCB(kappa="inf")`, `-LCBd(kappa="inf")`) against `acqMoments`.
-/

open Lean DH.Wire DH.Forest

def jPair (j : Json) : Except String (Rat × Rat) := do
  match ← jList jRat j with
  | [a, b] => return (a, b)
  | _ => throw "expected [mean, var]"

def jOpt {α} (f : Json → Except String α) (j : Json) : Except String (Option α) :=
  match j with
  | .null => pure none
  | _ => (f j).map some

def jBackend (j : Json) : Except String Backend := do
  match ← j.getStr? with
  | "sequential" => return .sequential
  | "threading" => return .threading
  | "loky" => return .loky
  | "multiprocessing" => return .multiprocessing
  | s => throw s!"unknown joblib backend {s}"

def backendName : Backend → String
  | .sequential => "sequential"
  | .threading => "threading"
  | .loky => "loky"
  | .multiprocessing => "multiprocessing"

def point (minVar tolv tolm : Rat) (order : List Nat) (blocks : Option (List (List Nat)))
    (env : Option (Nat × Ambient × Option Int)) (j : Json) :
    Except String (Json × List TreeOut × Option (Rat × StdOut × DisOut)) := do
  let trees ← jList jPair (← field j "trees")
  let got ← jList jRat (← field j "got")
  let idOrder := List.range trees.length
  match predictMean trees order, predictStd minVar trees order, predictDis minVar trees order, got with
  | some m, some s, some d, [g0, g1, gsd, g2, gal, gep] =>
    let scale := specScale minVar trees
    let am := specAbsMean trees
    let orderIndep :=
      predictMean trees idOrder == some m && predictStd minVar trees idOrder == some s &&
      predictDis minVar trees idOrder == some d
    -- C18_blocks: the two-level accumulation over the observed per-thread blocks = the flat fold
    let blocksOk := match blocks with
      | none => true
      | some bs => predictMeanBlocks trees bs == some m && predictStdBlocks minVar trees bs == some s &&
          predictDisBlocks minVar trees bs == some d
    -- C18_floor on the model's own values
    let floorOk := decide (minVar ≤ d.al) && decide (minVar ≤ s.var) && decide (rmax (rawAl trees) minVar ≤ d.al)
    -- C18_env: inside the observed joblib context, with the forest's n_jobs, the forms are the context-free forms
    let envOk := match env with
      | none => true
      | some (cpus, a, nj) => predictMeanEnv cpus codeHints a nj trees order == some m &&
          predictStdEnv cpus codeHints a nj minVar trees order == some s &&
          predictDisEnv cpus codeHints a nj minVar trees order == some d
    return (Json.mkObj [
      ("mean", ofRat m), ("var", ofRat s.var), ("al", ofRat d.al), ("ep", ofRat d.ep),
      ("scale", ofRat scale),
      ("means_agree", s.mean == m && d.mean == m),
      ("total_law", s.var == d.al + d.ep),
      ("order_indep", orderIndep),
      ("blocks_indep", blocksOk),
      ("floor_law", floorOk),
      ("env_indep", envOk),
      ("mean_ok", ofBools [closeTo tolm am g0 m, closeTo tolm am g1 m, closeTo tolm am g2 m]),
      ("var_ok", closeTo tolv scale (gsd * gsd) s.var),
      ("al_ok", closeTo tolv scale (gal * gal) d.al),
      ("ep_ok", closeTo tolv scale (gep * gep) d.ep),
      ("sum_ok", closeTo (3 * tolv) scale (gsd * gsd) (gal * gal + gep * gep)),
      ("nonneg", decide (0 ≤ gsd) && decide (0 ≤ gal) && decide (0 ≤ gep))], trees, some (m, s, d))
  | none, _, _, _ => throw "no trees"
  | _, _, _, _ => throw "bad point (need 6 got values)"

/-- C18_batch: the vectorised model on the whole batch against the per-row results -/
def batchOk (minVar : Rat) (order : List Nat) (cols : List (List TreeOut))
    (rows : List (Rat × StdOut × DisOut)) : Except String Bool := do
  let ntrees := (cols.head?.map List.length).getD 0
  if cols.any (fun c => c.length != ntrees) then throw "points with different numbers of trees"
  let nrows := cols.length
  let treeRows : List TreeRows := (List.range ntrees).map (fun i => cols.filterMap (fun c => c[i]?))
  return predictMeanBatch nrows treeRows order == some (rows.map (·.1)) &&
    predictStdBatch minVar nrows treeRows order == some (rows.map (·.2.1)) &&
    predictDisBatch minVar nrows treeRows order == some (rows.map (·.2.2))

/-- which std an acquisition read: `used_plain = -LCB(kappa="inf")`, `used_d = -LCBd(kappa="inf")` -/
def acqPoint (minVar tolv : Rat) (j : Json) : Except String Json := do
  let trees ← jList jPair (← field j "trees")
  let up ← jRat (← field j "used_plain")
  let ud ← jRat (← field j "used_d")
  let order := List.range trees.length
  match acqMoments false true minVar trees order, acqMoments true true minVar trees order,
      acqMoments true false minVar trees order with
  | some p, some d, some f =>
    let scale := specScale minVar trees
    return Json.mkObj [
      ("sel_plain", ofRat p.2), ("sel_d", ofRat d.2), ("scale", ofRat scale),
      -- C18_dacq_epistemic / C18_acq_total on the model's own values
      ("model_ok", d == (specMean trees, specEp trees) && decide (d.2 ≤ p.2) && f == p &&
        decide (lcb id none p ≤ lcb id none d)),
      ("plain_ok", closeTo tolv scale (up * up) p.2 && decide (0 ≤ up)),
      ("d_ok", closeTo tolv scale (ud * ud) d.2 && decide (0 ≤ ud))]
  | _, _, _ => throw "no trees"

def handle (j : Json) : Except String Json := do
  let op ← (← field j "op").getStr?
  match op with
  | "forest" =>
    let minVar ← jRat (← field j "minvar")
    let tolv ← jRat (← field j "tolv")
    let tolm ← jRat (← field j "tolm")
    let order ← jList jNat (← field j "order")
    let blocks ← match j.getObjVal? "blocks" with
      | .ok b => (jList (jList jNat) b).map some
      | .error _ => pure none
    let env ← match j.getObjVal? "env" with
      | .ok e => do
        let b ← jOpt jBackend (fieldD e "backend" .null)
        let cj ← jOpt jInt (fieldD e "n_jobs" .null)
        let nj ← jOpt jInt (fieldD j "n_jobs" .null)
        let cpus ← jNat (← field e "cpus")
        pure (some (cpus, (⟨b, cj⟩ : Ambient), nj))
      | .error _ => pure none
    let res ← jList (point minVar tolv tolm order blocks env) (← field j "points")
    let bok ← batchOk minVar order (res.map (·.2.1)) (res.filterMap (·.2.2))
    let envJ := match env with
      | none => Json.null
      | some (cpus, a, nj) =>
        let r := resolve cpus codeHints a nj
        Json.mkObj [("backend", backendName r.backend), ("n_eff", Json.num (JsonNumber.fromNat r.nEff)),
          ("in_caller", r.inCaller), ("shared", r.shared)]
    return Json.mkObj [("ok", true), ("batch_rows", bok), ("env", envJ), ("points", Json.arr (res.map (·.1)).toArray)]
  | "acq" =>
    let minVar ← jRat (← field j "minvar")
    let tolv ← jRat (← field j "tolv")
    let pts ← jList (acqPoint minVar tolv) (← field j "points")
    return Json.mkObj [("ok", true), ("points", Json.arr pts.toArray)]
  | _ => throw s!"unknown op {op}"

def main : IO Unit := serveFn handle
