import Drivers.Wire
import Model.Forest

/-!
Driver for C18.  One request per fitted forest and batch of query points:

`{"op":"forest","minvar":r,"order":[..],"tolv":r,"tolm":r,
  "points":[{"trees":[[mean_t,var_t],..],"got":[mean_plain,mean_std,sd,mean_dis,sd_al,sd_ep]},..]}`

`got` are the implementation's outputs (exact rationals of the doubles; the stds, not squared).
Reply per point: the model's exact values and the tolerance verdicts.
-/

open Lean DH.Wire DH.Forest

def jPair (j : Json) : Except String (Rat × Rat) := do
  match ← jList jRat j with
  | [a, b] => return (a, b)
  | _ => throw "expected [mean, var]"

def point (minVar tolv tolm : Rat) (order : List Nat) (j : Json) : Except String Json := do
  let trees ← jList jPair (← field j "trees")
  let got ← jList jRat (← field j "got")
  let idOrder := List.range trees.length
  match predictMean trees order, predictStd minVar trees order, predictDis minVar trees order, got with
  | some m, some s, some d, [g0, g1, gsd, g2, gal, gep] =>
    let scale := specScale minVar trees
    let am := specAbsMean trees
    let orderIndep :=
      predictMean trees idOrder == some m && predictStd minVar trees idOrder == some s &&
      predictDis minVar trees idOrder == some d
    return Json.mkObj [
      ("mean", ofRat m), ("var", ofRat s.var), ("al", ofRat d.al), ("ep", ofRat d.ep),
      ("scale", ofRat scale),
      ("means_agree", s.mean == m && d.mean == m),
      ("total_law", s.var == d.al + d.ep),
      ("order_indep", orderIndep),
      ("mean_ok", ofBools [closeTo tolm am g0 m, closeTo tolm am g1 m, closeTo tolm am g2 m]),
      ("var_ok", closeTo tolv scale (gsd * gsd) s.var),
      ("al_ok", closeTo tolv scale (gal * gal) d.al),
      ("ep_ok", closeTo tolv scale (gep * gep) d.ep),
      ("sum_ok", closeTo (3 * tolv) scale (gsd * gsd) (gal * gal + gep * gep)),
      ("nonneg", decide (0 ≤ gsd) && decide (0 ≤ gal) && decide (0 ≤ gep))]
  | none, _, _, _ => throw "no trees"
  | _, _, _, _ => throw "bad point (need 6 got values)"

def handle (j : Json) : Except String Json := do
  let op ← (← field j "op").getStr?
  match op with
  | "forest" =>
    let minVar ← jRat (← field j "minvar")
    let tolv ← jRat (← field j "tolv")
    let tolm ← jRat (← field j "tolm")
    let order ← jList jNat (← field j "order")
    let pts ← jList (point minVar tolv tolm order) (← field j "points")
    return Json.mkObj [("ok", true), ("points", Json.arr pts.toArray)]
  | _ => throw s!"unknown op {op}"

def main : IO Unit := serveFn handle
