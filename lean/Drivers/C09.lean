import Drivers.SpaceWire
import Model.SpaceObject

/-!
Driver for C09 (space transforms).  One JSON request per line.

Common fields
  "dims": [ {"k":"real","lo":rat,"hi":rat,"prior":"uniform"|"log-uniform","tr":"identity"|"normalize"}
          | {"k":"int","lo":int,"hi":int,"prior":…,"tr":…}
          | {"k":"cat","cats":[val…],"tr":"identity"|"label"|"onehot"|"normalize"} … ]
  "L": [[x, y]…]   observed values of np.log10(x)/np.log10(base)      (exact lookup)
  "E": [[k, v]…]   observed values of base ** k                       (nearest-key lookup)
  val = {"t":"f","v":rat} | {"t":"i","v":int} | {"t":"s","v":str} | {"t":"b","v":bool}

Ops
  "transform"     "X": [[val…]…]           → res = {"err":kind} | {"rows":[[rat…]…]}, wf, tsize, bounds, mem, lmissing
  "inverse"       "Xt": [[rat…]…]          → res = {"err":kind} | {"rows":[[val…]…]}, mem, eargs
  "dim_transform" "col": [val…]            → res = {"err":kind} | {"vals":[val…]} | {"mat":[[rat…]…]}
  "dim_inverse"   "c": {"vals":[val…]} | {"mat":[[rat…]…]} → res = {"err":kind} | {"vals":[val…]}, mem, eargs
  "check"         "X", "T": [[rat…]…] tolerances, "Xt" (real transform), "Xr" (real round trip), "bounds": [[lo,hi]…]
                                           → shape, bounds, roundtrip  (checkShape / checkBounds / checkRoundTrip)
  "old_identity_typed" "col": [val…]       → what `Identity(type_func).inverse_transform` returned before the fix
  "history"       "ops": [ {"o":"dim","j":n,"t":name} | {"o":"all","t":name} | {"o":"each","ts":[name…]}
                         | {"o":"type","k":"real"|"int"|"cat","t":name} | {"o":"normdims"} … ]
                  (Model/SpaceObject.lean: one Space object, "dims" = the dimensions at construction)
                                           → states = one entry per step, {"err":kind} (and nothing after it) or
                                             {"names":[name…],"ndims":n,"sizes":[n…],"bounds":[[lo,hi]…]}
-/

open Lean DH.Wire DH.Space

def jTrName (j : Json) : Except String TrName := do
  match ← j.getStr? with
  | "identity" => return .identity
  | "normalize" => return .normalize
  | "label" => return .label
  | "onehot" => return .onehot
  | s => throw s!"bad transformer name {s}"

def trNameStr : TrName → String
  | .identity => "identity"
  | .normalize => "normalize"
  | .label => "label"
  | .onehot => "onehot"

def jSpaceOp (j : Json) : Except String SpaceOp := do
  match ← (← field j "o").getStr? with
  | "dim" => return .setDim (← (← field j "j").getNat?) (← jTrName (← field j "t"))
  | "all" => return .setAll (← jTrName (← field j "t"))
  | "each" => return .setEach (← jList jTrName (← field j "ts"))
  | "type" =>
    let k ← match ← (← field j "k").getStr? with
      | "real" => pure DimKind.real
      | "int" => pure DimKind.int
      | "cat" => pure DimKind.cat
      | s => throw s!"bad dimension class {s}"
    return .setByType k (← jTrName (← field j "t"))
  | "normdims" => return .normalizeDims
  | s => throw s!"bad space op {s}"

def ofLayout (l : Layout) : Json :=
  Json.mkObj [("names", .arr (l.names.map (fun t => Json.str (trNameStr t))).toArray),
    ("ndims", Json.num (JsonNumber.fromNat l.nDims)),
    ("sizes", .arr (l.sizes.map (fun n => Json.num (JsonNumber.fromNat n))).toArray),
    ("bounds", .arr (l.bounds.map (fun b => Json.arr #[ofRat b.1, ofRat b.2])).toArray)]

def handle (j : Json) : Except String Json := do
  let op ← (← field j "op").getStr?
  let dims ← jList jDim (← field j "dims")
  let tL ← jPairs (fieldD j "L" (.arr #[]))
  let tE ← jPairs (fieldD j "E" (.arr #[]))
  let L := tabL tL
  let E := tabE tE
  match op with
  | "transform" =>
    let X ← jList (jList jVal) (← field j "X")
    let res := match transform L dims X with
      | .error e => ofErr e
      | .ok rows => Json.mkObj [("rows", .arr (rows.map ofRats).toArray)]
    let missing := (lKeys dims X).filter (fun x => !(tL.any (fun p => p.1 == x)))
    return Json.mkObj [("ok", true), ("res", res),
      ("wf", ofBools (dims.map Dim.wf)),
      ("tsize", Json.num (JsonNumber.fromNat (transformedNDims dims))),
      ("bounds", .arr ((transformedBounds L dims).map (fun b => Json.arr #[ofRat b.1, ofRat b.2])).toArray),
      ("mem", ofBools (X.map (memRow dims))),
      ("lmissing", ofRats missing)]
  | "inverse" =>
    let Xt ← jList (jList jRat) (← field j "Xt")
    let r := inverseTransform L E dims Xt
    let res := match r with
      | .error e => ofErr e
      | .ok rows => Json.mkObj [("rows", .arr (rows.map (fun r => Json.arr (r.map ofVal).toArray)).toArray)]
    let mem := match r with
      | .error _ => []
      | .ok rows => rows.map (memRow dims)
    let args := (slices dims Xt).flatMap (fun (d, c) => eArgs L d c)
    return Json.mkObj [("ok", true), ("res", res), ("mem", ofBools mem), ("eargs", ofEArgs tE args)]
  | "dim_transform" =>
    let col ← jList jVal (← field j "col")
    match dims with
    | [d] =>
      let res := match d.transform L col with
        | .error e => ofErr e
        | .ok c => ofCol c
      return Json.mkObj [("ok", true), ("res", res), ("wf", d.wf),
        ("mem", ofBools (col.map (memDim d)))]
    | _ => throw "dim_transform needs exactly one dimension"
  | "dim_inverse" =>
    let c ← jCol (← field j "c")
    match dims with
    | [d] =>
      let r := d.inverseTransform L E c
      let res := match r with
        | .error e => ofErr e
        | .ok l => ofCol (.vals l)
      let mem := match r with
        | .error _ => []
        | .ok l => l.map (memDim d)
      return Json.mkObj [("ok", true), ("res", res), ("mem", ofBools mem),
        ("eargs", ofEArgs tE (eArgs L d c))]
    | _ => throw "dim_inverse needs exactly one dimension"
  | "check" =>
    -- verified checkers (C09_checker_*) on the REAL outputs of the implementation
    let X ← jList (jList jVal) (← field j "X")
    let T ← jList (jList jRat) (← field j "T")
    let Xt ← jList (jList jRat) (← field j "Xt")
    let Xr ← jList (jList jVal) (← field j "Xr")
    let bounds ← jPairs (← field j "bounds")
    let XT := List.zipWith (fun r t => List.zip r t) X T
    return Json.mkObj [("ok", true),
      ("shape", checkShape dims X.length Xt),
      ("bounds", checkBounds bounds Xt),
      ("roundtrip", checkRoundTrip dims XT Xr)]
  | "history" =>
    let ops ← jList jSpaceOp (← field j "ops")
    let states := (layoutsAlong L dims ops).map (fun r => match r with
      | .error e => ofErr e
      | .ok l => ofLayout l)
    return Json.mkObj [("ok", true), ("states", .arr states.toArray)]
  | "old_identity_typed" =>
    let col ← jList jVal (← field j "col")
    let res := match identityTypedInverseOld col with
      | .error e => ofErr e
      | .ok l => ofCol (.vals l)
    return Json.mkObj [("ok", true), ("res", res)]
  | _ => throw s!"unknown op {op}"

def main : IO Unit := serveFn handle
