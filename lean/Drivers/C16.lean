import Drivers.Wire
import Model.Stopper

/-!
Driver for C16 (stateless, one whole run per line).

request  `{"op":"script","P":{…},"legacy":false,"events":[["add"],["rec",j,b,obj],["stop",j],…]}`
         `{"op":"proto","P":{…},"legacy":false,"events":[["add"],["step",j,obj],…]}`
`P`      `{"max_steps":n,"kind":"idle"|"const"|"sha"|"median", "stop_step":…, "min_steps":…,
           "rf":…, "mesr":…, "min_competing":…, "min_fully_completed":…, "interval":…, "eps":"n/d"}`
`obj`    `"n/d"` (a finite number), `"inf"` / `"-inf"` (the infinities) or `{"F":"tag"}` (a non-Number objective)
`variant` `"preNan"` = MedianStopper before the fix "an undefined median falls back to the lower middle value"
         (`"legacy":true` = the pinned MedianStopper, before both fixes); default: the repaired code
         `{"op":"check","P":{…},"trace":[[job,budget,obj,stopped],…]}`  → `{"ok":true,"spec":bool,"bad":index|null}`
         (the verified checker `checkStopTrace`, theorem `C16_checker`, on a trace of the real stoppers)
reply    `{"ok":true,"trace":[{"r":true|false|null|"<error>","md":{…metadata of the acting job…}},…],
           "final":[{…metadata of job 0…},…]}`
-/

open Lean DH.Wire DH.Stopper

def jObj (j : Json) : Except String Obj :=
  match j with
  | .str "inf" => .ok (.num .posInf)
  | .str "-inf" => .ok (.num .negInf)
  | .str s => do return .num (.fin (← parseRat s))
  | _ => do return .fail (← jStr (← field j "F"))

def objJson : Obj → Json
  | .num (.fin q) => ofRat q
  | .num .posInf => Json.str "inf"
  | .num .negInf => Json.str "-inf"
  | .fail t => Json.mkObj [("F", t)]

def keyStr : MKey → String
  | .completed => "_completed"
  | .rung r => s!"_completed_rung_{r}"

def metaJson (m : Meta) : Json :=
  Json.mkObj (m.map (fun (k, v) => (keyStr k, match v with
    | .bool b => Json.bool b
    | .obj o => objJson o)))

def errStr : Err → String
  | .indexError => "IndexError"
  | .zeroDivision => "ZeroDivisionError"
  | .keyError => "KeyError"

def natD (j : Json) (k : String) (d : Nat) : Except String Nat :=
  match j.getObjVal? k with
  | .ok v => jNat v
  | .error _ => .ok d

def jParams (j : Json) : Except String Params := do
  let maxSteps ← jNat (← field j "max_steps")
  let kind ← jStr (← field j "kind")
  let eps ← match j.getObjVal? "eps" with
    | .ok v => jRat v
    | .error _ => .ok (0 : Rat)
  match kind with
  | "idle" => return ⟨maxSteps, .idle⟩
  | "const" => return ⟨maxSteps, .const (← jNat (← field j "stop_step"))⟩
  | "sha" =>
    return ⟨maxSteps, .sha (← natD j "min_steps" 1) (← natD j "rf" 3) (← natD j "mesr" 0)
      (← natD j "min_competing" 0) (← natD j "min_fully_completed" 0) eps⟩
  | "median" =>
    return ⟨maxSteps, .median (← natD j "min_steps" 1) (← natD j "min_competing" 10) (← natD j "interval" 1) eps⟩
  | _ => throw s!"unknown kind {kind}"

def mdOf (s : Sys) (j : Nat) : Json :=
  match s[j]? with
  | some jr => metaJson jr.md
  | none => Json.null

def resJson : Except Err Bool → Json
  | .ok b => Json.bool b
  | .error e => Json.str (errStr e)

/-- what `RunningJob.objective`, `stopper.step` and `stopper.observations` show for job `j` -/
def viewOf (s : Sys) (j : Nat) : List (String × Json) :=
  match s[j]? with
  | some jr =>
    [("obj", match jr.js.objective with | some o => objJson o | none => Json.null),
     ("step", match jr.js.step with | some b => Json.num (JsonNumber.fromNat b) | none => Json.null),
     ("nobs", Json.num (JsonNumber.fromNat jr.js.observations.2.length))]
  | none => []

def entry (r : Json) (s : Sys) (j : Nat) : Json := Json.mkObj ([("r", r), ("md", mdOf s j)] ++ viewOf s j)

def runScript (legacy : Variant) (P : Params) : Sys → List Json → Except String (Sys × List Json)
  | s, [] => .ok (s, [])
  | s, e :: es => do
    let a ← e.getArr?
    let tag ← jStr (a.getD 0 Json.null)
    let (s1, out) ← match tag with
      | "add" => pure (addJob s, Json.mkObj [("r", Json.null), ("md", Json.null)])
      | "rec" => do
        let j ← jNat (a.getD 1 Json.null)
        let b ← jNat (a.getD 2 Json.null)
        let o ← jObj (a.getD 3 Json.null)
        let (s1, e) := record P s j b o
        pure (s1, entry (match e with | none => Json.null | some e => Json.str (errStr e)) s1 j)
      | "stop" => do
        let j ← jNat (a.getD 1 Json.null)
        let (s1, r) := stoppedGen legacy P s j
        pure (s1, entry (resJson r) s1 j)
      | _ => throw s!"unknown event {tag}"
    let (s2, outs) ← runScript legacy P s1 es
    return (s2, out :: outs)

def runProto (legacy : Variant) (P : Params) : Sys → List Json → Except String (Sys × List Json)
  | s, [] => .ok (s, [])
  | s, e :: es => do
    let a ← e.getArr?
    let tag ← jStr (a.getD 0 Json.null)
    let (ev, j) ← match tag with
      | "add" => pure (Ev.add, 0)
      | "step" => do
        let j ← jNat (a.getD 1 Json.null)
        let o ← jObj (a.getD 2 Json.null)
        pure (Ev.step j o, j)
      | _ => throw s!"unknown event {tag}"
    let (s1, d) := protoStepGen legacy P s ev
    let r := match d, ev with
      | none, .add => Json.null
      | none, _ => Json.str "skip"
      | some r, _ => resJson r
    let (s2, outs) ← runProto legacy P s1 es
    return (s2, entry r s1 j :: outs)

def handle (j : Json) : Except String Json := do
  let op ← jStr (← field j "op")
  let P ← jParams (← field j "P")
  let legacyB ← match j.getObjVal? "legacy" with
    | .ok v => jBool v
    | .error _ => .ok false
  let legacy : Variant ← match j.getObjVal? "variant" with
    | .ok (.str "preNan") => pure Variant.preNan
    | .ok (.str "preRung") => pure Variant.preRung
    | .ok (.str "fixed") => pure Variant.fixed
    | .ok _ => throw "unknown variant"
    | .error _ => pure (if legacyB then Variant.preRung else Variant.fixed)
  if op == "check" then
    -- the verified checker (theorem C16_checker) on a trace of the REAL stoppers
    let tr ← jList (fun e => do
      let a ← e.getArr?
      return ({ job := ← jNat (a.getD 0 Json.null), step := ← jNat (a.getD 1 Json.null),
                obj := ← jObj (a.getD 2 Json.null), stop := ← jBool (a.getD 3 Json.null) } : TEv)) (← field j "trace")
    let bad := firstBad P [] tr 0
    return Json.mkObj [("ok", true), ("spec", checkStopTrace P tr),
      ("bad", match bad with | some i => Json.num (JsonNumber.fromNat i) | none => Json.null)]
  let evs := (← (← field j "events").getArr?).toList
  let (s, tr) ← match op with
    | "script" => runScript legacy P [] evs
    | "proto" => runProto legacy P [] evs
    | _ => throw s!"unknown op {op}"
  return Json.mkObj [("ok", true), ("trace", Json.arr tr.toArray),
    ("final", Json.arr (s.map (fun jr => metaJson jr.md)).toArray)]

def main : IO Unit := serveFn handle
