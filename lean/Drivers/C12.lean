import Drivers.Wire
import Model.Hypervolume

/-! Driver for C12.
`{"op":"hv","ref":[rat..],"pts":[[rat..]..],"want":["hv","fast","last","code","cells"],"order":[..]}`
→ `{"ok":true,"hv":…,"fast":…,"last":…,"code":…|null,"cells":n}` (only the wanted keys). -/

open Lean DH.Wire DH.Hypervolume

def handle (j : Json) : Except String Json := do
  let op ← (← field j "op").getStr?
  match op with
  | "hv" =>
    let ref ← jList jRat (← field j "ref")
    let pts ← jList (jList jRat) (← field j "pts")
    let want ← jList jStr (← field j "want")
    let mut out : List (String × Json) := [("ok", true)]
    if want.contains "hv" then out := out ++ [("hv", ofRat (hv ref pts))]
    if want.contains "fast" then out := out ++ [("fast", ofRat (hvFast ref pts))]
    if want.contains "last" then out := out ++ [("last", ofRat (hvFast ref.reverse (pts.map List.reverse)))]
    let opt := fun (v : Option Rat) => match v with
      | some v => ofRat v
      | none => Json.null
    if want.contains "code" then
      let order ← jList jNat (← field j "order")
      out := out ++ [("code", opt (hypervolumeCode pts ref order))]
    if want.contains "variants" then
      -- the pinned code and the two single repairs, to classify a failing input
      let order ← jList jNat (← field j "order")
      out := out ++ [("code_ff", opt (hypervolumeCodeV false false pts ref order)),
                     ("code_tf", opt (hypervolumeCodeV true false pts ref order)),
                     ("code_ft", opt (hypervolumeCodeV false true pts ref order))]
    if want.contains "cells" then
      -- integer lattice inside [0, ref): ref must be natural numbers
      let dims := ref.map (fun r => r.num.toNat)
      out := out ++ [("cells", Json.num (JsonNumber.fromNat (cellCount dims pts)))]
    return Json.mkObj out
  | _ => throw s!"unknown op {op}"

def main : IO Unit := serveFn handle
