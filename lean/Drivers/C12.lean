import Drivers.Wire
import Model.Hypervolume
import Model.HvRecorder

/-! Driver for C12.
`{"op":"hv","ref":[rat..],"pts":[[rat..]..],"want":["hv","fast","last","code","cells"],"order":[..]}`
→ `{"ok":true,"hv":…,"fast":…,"last":…,"code":…|null,"cells":n}` (only the wanted keys).
`{"op":"recorder","jobs":[null|[rat..]..],"patience":n,"threshold":rat|null}` (one `ObjectiveRecorder`
/ `SearchEarlyStopping` pair driven through a stream of jobs, `null` = a failed job)
→ `{"ok":true,"values":[null|rat..],"nlower":[n..],"stopped":[bool..],"ref":null|[rat..]}` (`null` = `-inf`;
`ref` = the reference point after the whole stream, kept incrementally by `refRun`). -/

open Lean DH.Wire DH.Hypervolume

/-- `null` or a value -/
def jOpt {α} (f : Json → Except String α) (x : Json) : Except String (Option α) :=
  match x with
  | Json.null => pure none
  | x => do return some (← f x)

def handle (j : Json) : Except String Json := do
  let op ← (← field j "op").getStr?
  match op with
  | "hv" =>
    let ref ← jList jRat (← field j "ref")
    let pts ← jList (jList jRat) (← field j "pts")
    let want ← jList jStr (← field j "want")
    let mut out : List (String × Json) := [("ok", true)]
    if want.contains "hv" then out := out ++ [("hv", ofRat (hv ref pts))]
    if want.contains "fast" then out := out ++ [("fast", ofRat (hvFast ref pts))]
    if want.contains "last" then out := out ++ [("last", ofRat (hvFast ref.reverse (pts.map List.reverse)))]
    let opt := fun (v : Option Rat) => match v with
      | some v => ofRat v
      | none => Json.null
    if want.contains "code" then
      let order ← jList jNat (← field j "order")
      out := out ++ [("code", opt (hypervolumeCode pts ref order))]
    if want.contains "variants" then
      -- the pinned code and the two single repairs, to classify a failing input
      let order ← jList jNat (← field j "order")
      out := out ++ [("code_ff", opt (hypervolumeCodeV false false pts ref order)),
                     ("code_tf", opt (hypervolumeCodeV true false pts ref order)),
                     ("code_ft", opt (hypervolumeCodeV false true pts ref order))]
    if want.contains "cells" then
      -- integer lattice inside [0, ref): ref must be natural numbers
      let dims := ref.map (fun r => r.num.toNat)
      out := out ++ [("cells", Json.num (JsonNumber.fromNat (cellCount dims pts)))]
    return Json.mkObj out
  | "recorder" =>
    let jobs ← jList (jOpt (jList jRat)) (← field j "jobs")
    let patience ← jNat (fieldD j "patience" (Json.num 1))
    let threshold ← jOpt jRat (fieldD j "threshold" Json.null)
    -- `recRunFast = recRun` is `C12_recorder_fast`
    let values := recRunFast [] jobs
    let states := stopRun patience threshold Stopper.init values
    let opt := fun (v : Option Rat) => match v with
      | some v => ofRat v
      | none => Json.null
    -- the reference point kept incrementally (`C12_recorder_incremental_ref`: it is the worst point of the history)
    let ref := match refRun none jobs with
      | some r => Json.arr (r.map ofRat).toArray
      | none => Json.null
    return Json.mkObj [("ok", true), ("values", Json.arr (values.map opt).toArray),
      ("nlower", ofNats (states.map (·.nLower))), ("stopped", ofBools (states.map (·.stopped))), ("ref", ref)]
  | _ => throw s!"unknown op {op}"

def main : IO Unit := serveFn handle
