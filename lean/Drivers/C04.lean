import Drivers.Wire
import Model.TableSpec
import Model.DumpText
import Model.DumpSeq
import Model.SearchReturn

/-!
Driver for C04 (and the shared dump part of C06).

Values: `{"n":"num/den"}` number, `{"nf":"nan"|"inf"|"-inf"}`, `{"s":"text"}`, `{"z":0}` None,
`{"l":[..]}` tuple/list, `{"d":[[k,v],..]}` dict.  A missing cell is JSON `null`.

* `{"op":"std","out":V}` -> `{"err":null|kind,"objective":V,"meta":[[k,V]..]}`
* `{"op":"scenario","preset":null|n,"old":bool,"jobs":[{"id":n,"args":[[k,V]..],"status":S,
    "meta0":[[k,V]..],"out":V,"tg":V}..],"ops":[[count,flush]..],"order":[..]}`
  -> per job what `set_output`+`_on_done` leave, per op the branch / header / lines written /
  state / table so far, the final table and the `pareto_efficient` column.
  An op may also be `[count,flush,order]` (the Pareto step runs after this dump: end of a
  `search()` call) or `{"new_search":"fresh"|"reuse"}` (a new `Search` object is constructed on
  the log_dir with a fresh evaluator / the previous evaluator instance: `searchInit`; with
  `"early":true` the object was constructed before the file existed: `searchInitEarly`).
  A job may carry `"kind":"tuple"|"list"|"namedtuple"|"tuple-subclass"|"list-subclass"` = the Python class of
  the container of its objectives (default tuple): `_on_done` and the dump are the kinded functions of
  `Model/DumpSeq.lean` with the code's class tests.  Every dump step also says whether `search()` would hand
  back a table now (`"returns"`: `searchReturn` of `Model/SearchReturn.lean`).
  With `"want_text":true` and `"numtext":[[rat,text]..]` every dump step also returns the bytes of
  the file so far (`fileText`).
* `{"op":"csvparse","text":T}` / `{"op":"csvrender","rows":[[T..]..]}` : the CSV text layer.
* `{"op":"check_table","tol":rat,"hdr":[names],"rows":[[{"t":text,"q":rat|null}..]..],"jobs":[..],"preset":..}`
  -> `checkTable` (theorem `C04_checker`) on the real file content.
-/

open Lean DH.Wire DH.Dump DH.Csv

partial def jVal (j : Json) : Except String Val := do
  match j with
  | .null => return .none
  | _ =>
  if let .ok v := j.getObjVal? "n" then return .num (← jRat v)
  if let .ok v := j.getObjVal? "nf" then
    match (← v.getStr?) with
    | "nan" => return .nonfin .nan
    | "inf" => return .nonfin .posInf
    | "-inf" => return .nonfin .negInf
    | s => throw s!"bad nonfinite {s}"
  if let .ok v := j.getObjVal? "s" then return .str (← v.getStr?)
  if let .ok _ := j.getObjVal? "z" then return .none
  if let .ok v := j.getObjVal? "l" then
    let a ← v.getArr?
    return .list (← a.toList.mapM jVal)
  if let .ok v := j.getObjVal? "d" then
    let a ← v.getArr?
    let kv ← a.toList.mapM (fun e => do
      let p ← e.getArr?
      match p.toList with
      | [k, x] => return ((← k.getStr?), (← jVal x))
      | _ => throw "bad pair")
    return .dict kv
  throw s!"bad value {j.compress}"

partial def ofVal : Val → Json
  | .num q => Json.mkObj [("n", ofRat q)]
  | .nonfin .nan => Json.mkObj [("nf", "nan")]
  | .nonfin .posInf => Json.mkObj [("nf", "inf")]
  | .nonfin .negInf => Json.mkObj [("nf", "-inf")]
  | .str s => Json.mkObj [("s", s)]
  | .none => Json.mkObj [("z", (0 : Nat))]
  | .list l => Json.mkObj [("l", Json.arr (l.map ofVal).toArray)]
  | .dict kv => Json.mkObj [("d", Json.arr (kv.map (fun p => Json.arr #[Json.str p.1, ofVal p.2])).toArray)]

def jDict (j : Json) : Except String Dict := do
  let a ← j.getArr?
  a.toList.mapM (fun e => do
    let p ← e.getArr?
    match p.toList with
    | [k, x] => return ((← k.getStr?), (← jVal x))
    | _ => throw "bad pair")

def ofDict (d : Dict) : Json := Json.arr (d.map (fun p => Json.arr #[Json.str p.1, ofVal p.2])).toArray

def jStatus (j : Json) : Except String Status := do
  match (← j.getStr?) with
  | "READY" => return .ready
  | "RUNNING" => return .running
  | "DONE" => return .done
  | "CANCELLING" => return .cancelling
  | "CANCELLED" => return .cancelled
  | s => throw s!"bad status {s}"

def errName : StdErr → String
  | .badType => "badType"
  | .noObjective => "noObjective"
  | .badMetadata => "badMetadata"

def ofCell : Option Val → Json
  | none => Json.null
  | some v => ofVal v

def ofOptNat : Option Nat → Json
  | none => Json.null
  | some n => Json.num (JsonNumber.fromNat n)

def ofHeader : Option (List Col) → Json
  | none => Json.null
  | some h => Json.arr (h.map (fun c => Json.str c.name)).toArray

def ofRows (rows : List (List (Option Val))) : Json :=
  Json.arr (rows.map (fun r => Json.arr (r.map ofCell).toArray)).toArray

def jOptNat (j : Json) : Except String (Option Nat) :=
  match j with
  | .null => .ok none
  | _ => do return some (← j.getNat?)

def jSeqKind (j : Json) : Except String SeqKind := do
  match j with
  | .null => return .tuple
  | _ =>
    match (← j.getStr?) with
    | "tuple" => return .tuple
    | "list" => return .list
    | "namedtuple" => return .namedtuple
    | "tuple-subclass" => return .tupleSubclass
    | "list-subclass" => return .listSubclass
    | s => throw s!"bad container kind {s}"

/-- jobs of a request: `set_output` + `_on_done`; malformed outputs are reported and dropped.  The third
component is the container class of each job's objectives, in the order of the jobs. -/
def buildJobsK (jobsJ : Array Json) : Except String (List JobRec × List Json × List SeqKind) := do
  let mut jobs : List JobRec := []
  let mut jobOut : List Json := []
  let mut kinds : List SeqKind := []
  for jj in jobsJ.toList do
    let id ← (← field jj "id").getNat?
    let args ← jDict (← field jj "args")
    let status ← jStatus (← field jj "status")
    let meta0 ← jDict (← field jj "meta0")
    let out ← jVal (← field jj "out")
    let tg ← jVal (← field jj "tg")
    let kind ← jSeqKind (fieldD jj "kind" Json.null)
    match setOutput id args status meta0 out with
    | .error e => jobOut := jobOut ++ [Json.mkObj [("err", errName e)]]
    | .ok r =>
      let r' := onDoneK codeTests (fun _ => kind) tg r
      jobs := jobs ++ [r']
      kinds := kinds ++ [kind]
      jobOut := jobOut ++ [Json.mkObj [("err", Json.null), ("objective", ofVal r'.objective),
        ("status", r'.status.name), ("meta", ofDict r'.md)]]
  return (jobs, jobOut, kinds)

def buildJobs (jobsJ : Array Json) : Except String (List JobRec × List Json) := do
  let (jobs, jobOut, _) ← buildJobsK jobsJ
  return (jobs, jobOut)

/-- container class of the job with this id among the jobs handed to the dump so far (the most recent one:
a fresh evaluator numbers its jobs from 0 again) -/
def kindOfSeen (seen : List (Nat × SeqKind)) (id : Nat) : SeqKind :=
  match seen.reverse.find? (fun p => p.1 == id) with
  | some p => p.2
  | none => .tuple

/-- how Python printed the numbers of this request (`str(value)`), given by the harness -/
def mkFmt (tbl : List (Rat × String)) : Val → Text
  | .num q => match tbl.find? (fun p => p.1 == q) with
    | some p => p.2.toList
    | none => "?".toList
  | .nonfin .nan => "nan".toList
  | .nonfin .posInf => "inf".toList
  | .nonfin .negInf => "-inf".toList
  | _ => "?".toList

/-- parse of a header name into a column (untrusted: `checkTable` re-renders and compares) -/
def parseCol (s : String) : Option Col :=
  if s == "objective" then some .objective
  else if s == "job_id" then some .jobId
  else if s == "job_status" then some .jobStatus
  else if s.startsWith "p:" then some (.param (String.ofList (s.toList.drop 2)))
  else if s.startsWith "m:" then some (.mdata (String.ofList (s.toList.drop 2)))
  else if s.startsWith "objective_" then (String.ofList (s.toList.drop 10)).toNat?.map Col.objectiveI
  else none

def jCellIn (j : Json) : Except String CellIn := do
  let t ← (← field j "t").getStr?
  let q ← match fieldD j "q" Json.null with
    | .null => pure none
    | v => do pure (some (← jRat v))
  return { text := t, num := q }

def handle (j : Json) : Except String Json := do
  let op ← (← field j "op").getStr?
  match op with
  | "std" =>
    let out ← jVal (← field j "out")
    match standardizeOutput out with
    | .error e => return Json.mkObj [("ok", true), ("err", errName e)]
    | .ok (o, md) =>
      return Json.mkObj [("ok", true), ("err", Json.null), ("objective", ofVal o),
        ("after_done", ofVal (onDoneObjective o)), ("meta", ofDict md)]
  | "scenario" =>
    let preset ← jOptNat (fieldD j "preset" Json.null)
    let old := (fieldD j "old" (Json.bool false)).getBool?.toOption.getD false
    let (jobs, jobOut, kinds) ← buildJobsK (← (← field j "jobs").getArr?)
    let numtext ← jList (fun e => do
      let p ← e.getArr?
      match p.toList with
      | [q, t] => return ((← jRat q), (← t.getStr?))
      | _ => throw "bad numtext") (fieldD j "numtext" (Json.arr #[]))
    let fmt := mkFmt numtext
    let wantText := (fieldD j "want_text" (Json.bool false)).getBool?.toOption.getD false
    let opsJ ← (← field j "ops").getArr?
    let mut st : DumpState := { DumpState.fresh with numObjective := preset }
    let mut tbl : Table := Table.empty
    let mut rest := jobs
    let mut restK := kinds
    let mut seen : List (Nat × SeqKind) := []
    let mut steps : List Json := []
    let parOf := fun (tb : Table) (order : List Nat) => match tb.header with
      | none => Json.mkObj [("kind", "nofile")]
      | some h => match paretoFlags h tb.rows order with
        | .noColumn => Json.mkObj [("kind", "none")]
        | .raises => Json.mkObj [("kind", "raises")]
        | .flags l => Json.mkObj [("kind", "flags"), ("flags", ofBools l)]
    for oj in opsJ.toList do
      -- `{"new_search":"fresh"|"reuse"}` : a new Search object is constructed on the log_dir
      if let .ok c := oj.getObjVal? "new_search" then
        let ch ← match (← c.getStr?) with
          | "fresh" => pure EvalChoice.fresh
          | "reuse" => pure EvalChoice.reuse
          | x => throw s!"bad evaluator choice {x}"
        let noReset := (fieldD oj "no_reset" (Json.bool false)).getBool?.toOption.getD false
        let early := (fieldD oj "early" (Json.bool false)).getBool?.toOption.getD false
        -- "no_file": the Search is constructed on a directory without results.csv (another log_dir)
        if (fieldD oj "no_file" (Json.bool false)).getBool?.toOption.getD false then
          tbl := Table.empty
        let r := if early then searchInitEarly st tbl
          else if noReset then searchInitNoReset ch st tbl else searchInit ch st tbl
        st := r.1
        tbl := r.2
        steps := steps ++ [Json.mkObj [("branch", "new-search"), ("header", Json.null), ("rows", ofRows []),
          ("started", st.started), ("numObjective", ofOptNat st.numObjective),
          ("pending", Json.num (JsonNumber.fromNat st.pending.length)),
          ("table", Json.mkObj [("header", ofHeader tbl.header), ("rows", ofRows tbl.rows)])]]
        continue
      let p ← oj.getArr?
      match p.toList with
      | c :: f :: more =>
        let cnt ← c.getNat?
        let fl ← f.getBool?
        let b := rest.take cnt
        seen := seen ++ (b.map (·.id)).zip (restK.take cnt)
        rest := rest.drop cnt
        restK := restK.drop cnt
        let st1 := { st with pending := st.pending ++ b }
        let branch := dumpBranch fl st1
        let r := if old then dumpStepOld fl st1 else dumpStepK codeTests (kindOfSeen seen) fl st1
        st := r.1
        tbl := tbl.add r.2
        let par ← match more with
          | [o] => do pure (parOf tbl (← jList jNat o))   -- Pareto step after this dump (end of a search() call)
          | _ => pure Json.null
        steps := steps ++ [Json.mkObj [("branch", branch), ("header", ofHeader r.2.header),
          ("rows", ofRows r.2.rows), ("started", st.started), ("numObjective", ofOptNat st.numObjective),
          ("pending", Json.num (JsonNumber.fromNat st.pending.length)),
          ("table", Json.mkObj [("header", ofHeader tbl.header), ("rows", ofRows tbl.rows)]),
          ("text", if wantText then Json.str (String.ofList (fileText fmt tbl)) else Json.null),
          ("returns", (searchReturn st tbl).isSome),
          ("pareto", par)]]
      | _ => throw "bad op"
    let order ← match j.getObjVal? "order" with
      | .ok o => jList jNat o
      | .error _ => pure []
    let par := parOf tbl order
    return Json.mkObj [("ok", true), ("jobs", Json.arr jobOut.toArray), ("steps", Json.arr steps.toArray),
      ("table", Json.mkObj [("header", ofHeader tbl.header), ("rows", ofRows tbl.rows)]),
      ("pareto", par)]
  | "csvparse" =>
    -- `csv.reader` on a text
    let t ← (← field j "text").getStr?
    let rows := parseFile t.toList
    return Json.mkObj [("ok", true), ("rows",
      Json.arr (rows.map (fun r => Json.arr (r.map (fun c => Json.str (String.ofList c))).toArray)).toArray)]
  | "csvrender" =>
    -- `csv.writer.writerows` on cells
    let rows ← jList (jList jStr) (← field j "rows")
    return Json.mkObj [("ok", true),
      ("text", Json.str (String.ofList (renderFile (rows.map (fun r => r.map String.toList)))))]
  | "check_table" =>
    -- the verified checker (theorem C04_checker) on the real file content
    let preset ← jOptNat (fieldD j "preset" Json.null)
    let (jobs, _) ← buildJobs (← (← field j "jobs").getArr?)
    let hdr ← jList jStr (← field j "hdr")
    let rows ← jList (jList jCellIn) (← field j "rows")
    let tol ← jRat (← field j "tol")
    let n := inferNumObjective preset jobs
    match hdr.mapM parseCol with
    | none => return Json.mkObj [("ok", true), ("check", false), ("why", "a header name is not a column name")]
    | some cols =>
      let needMeta := (fieldD j "need_meta" (Json.bool true)).getBool?.toOption.getD true
      return Json.mkObj [("ok", true), ("check", checkTable tol cols hdr rows jobs n needMeta),
        ("meta_ok", headerMetaOK cols jobs),
        ("cols_ok", decide (cols.map Col.name = hdr)), ("arity", ofOptNat n)]
  | "pareto_check" =>
    -- verified checker of C11 on the implementation's flags: pts = negated successful objectives
    let pts ← jList (jList jRat) (← field j "pts")
    let mask ← jList jBool (← field j "mask")
    return Json.mkObj [("ok", true), ("spec", DH.Pareto.checkMask pts mask)]
  | _ => throw s!"unknown op {op}"

def main : IO Unit := serveFn handle
