import Drivers.Wire
import Model.Pareto
import Model.ParetoColumn

/-! Driver for C11: `{"op":"nds","pts":[[rat..]..],"order":[..],"mask":[..],"idx":[..]}` etc. -/

open Lean DH.Wire DH.Pareto

/-- a cell of a results table: `["n","num/den"]` a number, `["f"]` a failure marker, `["t"]` anything else -/
def jCell (j : Json) : Except String Cell := do
  let a ← j.getArr?
  match a.toList with
  | [t] => match (← t.getStr?) with
    | "f" => return .fail
    | "t" => return .txt
    | s => throw s!"bad cell tag {s}"
  | [t, v] => match (← t.getStr?) with
    | "n" => return .num (← jRat v)
    | s => throw s!"bad cell tag {s}"
  | _ => throw "bad cell"

def handle (j : Json) : Except String Json := do
  let op ← (← field j "op").getStr?
  let pts ← jList (jList jRat) (← field j "pts")
  match op with
  | "nds" =>
    -- order = what argsort returned; mask/idx = what the implementation returned
    let order ← jList jNat (← field j "order")
    let mask ← jList jBool (← field j "mask")
    let idx ← jList jNat (← field j "idx")
    let mMask := ndsMask pts order
    let mIdx := ndsIdx pts order
    let rows := permuteBy pts order
    let lit := (loopIdx rows.length rows 0).map (·.1)
    let sorted := frontSortedIdx pts order
    return Json.mkObj [("ok", true),
      ("model_mask", ofBools mMask), ("model_idx", ofNats mIdx), ("literal_idx", ofNats lit), ("sorted_idx", ofNats sorted),
      ("spec_mask", checkMask pts mask), ("spec_idx", checkSel pts idx),
      ("spec_model", checkSel pts mIdx)]
  | "ipe" =>
    let new ← jList jRat (← field j "new")
    return Json.mkObj [("ok", true), ("model", isParetoEfficient new pts)]
  | "ranked" =>
    -- orders = what argsort returned in each peeling round (indices into the remaining rows)
    let req ← jInt (← field j "req")
    let orders ← jList (jList jNat) (← field j "orders")
    -- replay the rounds with the observed per-round orders
    let ord : List Row → List Row := fun rem =>
      -- find the first observed order of matching length whose application is a permutation
      match orders.find? (fun o => o.length == rem.length) with
      | some o => o.filterMap (fun k => rem[k]?)
      | none => rem
    let m := rankedMask ord pts req
    let idx := if 0 < req ∧ req < pts.length then rankedIdx ord pts req.toNat else []
    -- specification side: first `req` indices of the concatenated fronts (theorem C11_ranked_fronts)
    let spec := ((fronts ord pts.length (rowsOf pts)).flatten).take req.toNat
    return Json.mkObj [("ok", true), ("model_mask", ofBools m), ("model_idx", ofNats idx),
      ("spec_idx", ofNats spec)]
  | "column" =>
    -- header = the column names of the table, rows = its cells, order = what argsort returned inside
    -- non_dominated_set on the successful rows
    let header := (← jList jStr (← field j "header")).map String.toList
    let rows ← jList (jList jCell) (← field j "rows")
    let order ← jList jNat (← field j "order")
    let cols := ofNats (objectiveCols header)
    match paretoColumn header rows order with
    | .noColumn => return Json.mkObj [("ok", true), ("column", "none"), ("objective_columns", cols)]
    | .raises => return Json.mkObj [("ok", true), ("column", "raises"), ("objective_columns", cols)]
    | .column flags => return Json.mkObj [("ok", true), ("column", ofBools flags), ("objective_columns", cols)]
  | _ => throw s!"unknown op {op}"

def main : IO Unit := serveFn handle
