import Drivers.Wire
import Model.Evaluator
import Model.EvaluatorTrace

/-!
Driver for C01 (stateful, one session at a time; `init` starts a new evaluator).

Configurations are `{"x":int,"tag":str,"fail":bool}`; the run-function of the harness returns
`3*x + 1/2 + 16*w` (a float, exact; `w` = sum of the integers in the configuration's nested values, `nest` their
canonical text) or the failure string `"F_" ++ tag` — `runF` below is the same function.  `{"op":"noop"}` = a
caller-side action between calls (editing its own objects) that must not change anything.

requests
  {"op":"init","hpo":bool,"pre":bool}            pre = use the pinned tree's close (replay of witnesses)
  {"op":"submit","cfgs":[cfg..]}
  {"op":"gather","all":bool,"k":n,"started":[id..],"waits":[[id..]..]}
  {"op":"close","finished":[id..]}
  {"op":"dump","flush":bool}
  {"op":"check","hpo":bool,"trace":[{"call":{"op":..},"res":{"kind":..},"num_submitted":n,"num_gathered":n,
                                      "jobs_done":[job..]}..]}
        -> {"ok":true,"spec":bool,"first_bad":i|null,"clause":str|null}    (`checkTrace`, theorem C01_checker,
           evaluated on the trace observed on the REAL evaluator; `clause` names the first failing conjunct)
reply
  {"ok":true,"env_ok":bool,"out":{"kind":..,"jobs":[..],"err":..},
   "num_submitted":n,"num_gathered":n,"jobs_done":[id..],"statuses":[..],"other":[id..]}
-/

open Lean DH.Wire DH.Evaluator

structure Cfg where
  x : Int
  tag : String
  fail : Bool
  /-- canonical text of the nested (mutable) values of the configuration, and the sum of their integers -/
  nest : String
  w : Int
  deriving DecidableEq, Repr

inductive OutV
  | obj (q : Rat)
  | fstr (s : String)
  deriving DecidableEq, Repr

def runF (c : Cfg) : OutV :=
  if c.fail then .fstr ("F_" ++ c.tag) else .obj (3 * (c.x : Rat) + 1 / 2 + 16 * (c.w : Rat))

def mkParams (hpo : Bool) : Params Cfg OutV :=
  { f := runF, hpo := hpo, cancelOut := .fstr "F_CANCELLED",
    isStr := fun o => match o with | .fstr _ => true | .obj _ => false }

structure Sess where
  hpo : Bool
  pre : Bool
  ev : Ev Cfg OutV

def jCfg (j : Json) : Except String Cfg := do
  return { x := ← jInt (← field j "x"), tag := ← jStr (← field j "tag"), fail := ← jBool (← field j "fail"),
           nest := ← jStr (fieldD j "nest" (Json.str "{}")), w := ← jInt (fieldD j "w" (Json.num 0)) }

def statusStr : Status → String
  | .ready => "READY" | .running => "RUNNING" | .done => "DONE" | .cancelled => "CANCELLED"

def errStr : Err → String
  | .noLoop => "noLoop" | .noJobs => "noJobs" | .loopClosed => "loopClosed"
  | .badTask => "badTask" | .envStuck => "envStuck"

def ofOutV : Option OutV → Json
  | none => Json.null
  | some (.obj q) => Json.mkObj [("t", "num"), ("v", ofRat q)]
  | some (.fstr s) => Json.mkObj [("t", "str"), ("v", s)]

def ofJob (j : JobRec Cfg OutV) : Json :=
  Json.mkObj [("id", Json.num (JsonNumber.fromNat j.id)), ("x", Json.num (JsonNumber.fromInt j.cfg.x)),
    ("tag", j.cfg.tag), ("fail", j.cfg.fail), ("nest", j.cfg.nest), ("w", Json.num (JsonNumber.fromInt j.cfg.w)),
    ("out", ofOutV j.out), ("status", statusStr j.status)]

def ofOut : Out Cfg OutV → Json
  | .unit => Json.mkObj [("kind", "unit")]
  | .jobs l => Json.mkObj [("kind", "jobs"), ("jobs", Json.arr (l.map ofJob).toArray)]
  | .rows l => Json.mkObj [("kind", "rows"), ("jobs", Json.arr (l.map ofJob).toArray)]
  | .error e => Json.mkObj [("kind", "error"), ("err", errStr e)]

def parseOp (j : Json) : Except String (Op Cfg) := do
  let op ← (← field j "op").getStr?
  match op with
  | "submit" => return .submit (← jList jCfg (← field j "cfgs"))
  | "gather" =>
    return .gather (← jBool (← field j "all")) (← jNat (← field j "k"))
      (← jList jNat (← field j "started")) (← jList (jList jNat) (← field j "waits"))
  | "close" => return .close (← jList jNat (← field j "finished"))
  | "dump" => return .dump (← jBool (← field j "flush"))
  | _ => throw s!"unknown op {op}"

/-! ### the verified checker on an observed trace -/

def jStatus (j : Json) : Except String Status := do
  match (← j.getStr?) with
  | "READY" => pure .ready | "RUNNING" => pure .running | "DONE" => pure .done
  | "CANCELLED" => pure .cancelled
  | "CANCELLING" => pure .running   -- only with timeouts (outside C01); never DONE/CANCELLED
  | s => throw s!"bad status {s}"

def jOutV (j : Json) : Except String (Option OutV) :=
  match j with
  | .null => pure none
  | _ => do
    let t ← jStr (← field j "t")
    match t with
    | "num" => return some (.obj (← jRat (← field j "v")))
    | "str" => return some (.fstr (← jStr (← field j "v")))
    | _ => return some (.fstr ("<" ++ t ++ ">"))   -- neither a float nor a string: never what `runF` returns

def jJob (j : Json) : Except String (JobRec Cfg OutV) := do
  return { id := ← jNat (← field j "id"), cfg := ← jCfg j, out := ← jOutV (← field j "out"),
           status := ← jStatus (← field j "status") }

def jTStep (j : Json) : Except String (TStep Cfg OutV) := do
  let c ← field j "call"
  let op ← match (← jStr (← field c "op")) with
    | "submit" => pure (TOp.submit (← jList jCfg (← field c "cfgs")))
    | "gather" => pure (TOp.gather (← jBool (← field c "all")) (← jNat (← field c "k")))
    | "close" => pure TOp.close
    | "dump" => pure TOp.dump
    | o => throw s!"bad call {o}"
  let r ← field j "res"
  let res ← match (← jStr (← field r "kind")) with
    | "unit" => pure TRes.unit
    | "jobs" => pure (TRes.jobs (← jList jJob (← field r "jobs")))
    | "rows" => pure (TRes.rows (← jList jNat (← field r "ids")))
    | "error" => match (← jStr (← field r "err")) with
      | "noLoop" => pure (TRes.error .noLoop)
      | "noJobs" => pure (TRes.error .noJobs)
      | _ => pure (TRes.error .other)
    | _ => pure (TRes.error .other)
  return { op, res, numSubmitted := ← jNat (← field j "num_submitted"), numGathered := ← jNat (← field j "num_gathered"),
           jobsDone := ← jList jJob (← field j "jobs_done") }

/-- which conjunct of `StepOk` fails first (a reporting aid; the verdict is `checkTrace`) -/
def diagnose (p : Params Cfg OutV) (a : Acc Cfg) (st : TStep Cfg OutV) : String :=
  let counters :=
    if st.numSubmitted != (nextAcc a st).cfgs.length then "count-submitted"
    else if st.numGathered != (nextAcc a st).delivered.length then "count-gathered" else "?"
  match st.op, st.res with
  | _, .error .other => "no-exception"
  | .submit _, .unit => if decide (CallOk p a st) then counters else "jobs-done"
  | .gather all k, .jobs js =>
    if !decide (js.map (·.id)).Nodup || js.any (fun j => (a.delivered.map (·.1)).contains j.id) then "twice"
    else if js.any (fun j => a.cfgs[j.id]? == none) then "unknown-job"
    else if js.any (fun j => a.cfgs[j.id]? != some j.cfg) then "payload-config"
    else if js.any (fun j => j.out != some (p.f j.cfg)) then "payload-output"
    else if js.any (fun j => j.status != .done) then "payload-status"
    else if !decide (min (if all then a.inflight else k) a.inflight ≤ js.length) then "batch-size"
    else if all && js.length != a.inflight then "all-leaves-running"
    else if !decide (CallOk p a st) then "jobs-done"
    else counters
  | .gather _ _, .error _ => if decide (CallOk p a st) then counters else "no-exception"
  | .close, .unit =>
    let new := st.jobsDone.drop a.pending.length
    if !decide (new.map (·.id)).Nodup || new.any (fun j => (a.delivered.map (·.1)).contains j.id) then "both"
    else if new.any (fun j => a.cfgs[j.id]? == none) then "unknown-job"
    else if new.any (fun j => a.cfgs[j.id]? != some j.cfg) then "payload-config"
    else if new.any (fun j => !decide (ClosedOk p a j)) then "close-record"
    else if new.length != a.inflight then "lost"
    else if !decide (CallOk p a st) then "jobs-done"
    else counters
  | .dump, .rows _ => if decide (CallOk p a st) then counters else "dump-once"
  | _, _ => "no-exception"

def handleCheck (j : Json) : Except String Json := do
  let hpo ← jBool (← field j "hpo")
  let t ← jList jTStep (← field j "trace")
  let p := mkParams hpo
  let spec := checkTrace p t
  match firstBad p Acc.init 0 t with
  | none => return Json.mkObj [("ok", true), ("spec", spec), ("first_bad", Json.null), ("clause", Json.null)]
  | some (i, a, st) =>
    return Json.mkObj [("ok", true), ("spec", spec), ("first_bad", Json.num (JsonNumber.fromNat i)),
      ("clause", diagnose p a st)]

def handle (s : Option Sess) (j : Json) : Except String (Option Sess × Json) := do
  let op ← (← field j "op").getStr?
  if op == "init" then
    let hpo ← jBool (← field j "hpo")
    let pre ← jBool (fieldD j "pre" (Json.bool false))
    return (some { hpo, pre, ev := init }, Json.mkObj [("ok", true)])
  if op == "check" then
    return (s, ← handleCheck j)
  match s with
  | none => throw "no session: send init first"
  | some se =>
    let p := mkParams se.hpo
    let (envOk, ev', out) ← (if op == "noop" then pure (true, se.ev, (Out.unit : Out Cfg OutV)) else do
      let o ← parseOp j
      let r := if se.pre then stepPre p se.ev o else step p se.ev o
      pure (opOk se.ev o, r.1, r.2))
    let rep := Json.mkObj [("ok", true), ("env_ok", envOk), ("out", ofOut out),
      ("num_submitted", Json.num (JsonNumber.fromNat (numSubmitted ev'))),
      ("num_gathered", Json.num (JsonNumber.fromNat (numGathered ev'))),
      ("jobs_done", Json.arr ((lookupAll ev'.jobs ev'.jobsDone).map ofJob).toArray),
      ("statuses", Json.arr (ev'.jobs.map (fun j => Json.str (statusStr j.status))).toArray),
      ("running", ofNats (runningIds ev')),
      ("other", ofNats (otherIds ev'))]
    return (some { se with ev := ev' }, rep)

def main : IO Unit :=
  serve (fun (s : Option Sess) j =>
    match handle s j with
    | .ok (s', r) => (s', r)
    | .error e => (s, errReply e)) none
