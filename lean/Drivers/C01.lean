import Drivers.Wire
import Model.Evaluator

/-!
Driver for C01 (stateful, one session at a time; `init` starts a new evaluator).

Configurations are `{"x":int,"tag":str,"fail":bool}`; the run-function of the harness returns
`3*x + 1/2` (a float, exact) or the failure string `"F_" ++ tag` — `runF` below is the same function.

requests
  {"op":"init","hpo":bool,"pre":bool}            pre = use the pinned tree's close (replay of witnesses)
  {"op":"submit","cfgs":[cfg..]}
  {"op":"gather","all":bool,"k":n,"started":[id..],"waits":[[id..]..]}
  {"op":"close","finished":[id..]}
  {"op":"dump","flush":bool}
reply
  {"ok":true,"env_ok":bool,"out":{"kind":..,"jobs":[..],"err":..},
   "num_submitted":n,"num_gathered":n,"jobs_done":[id..],"statuses":[..],"other":[id..]}
-/

open Lean DH.Wire DH.Evaluator

structure Cfg where
  x : Int
  tag : String
  fail : Bool
  deriving DecidableEq, Repr

inductive OutV
  | obj (q : Rat)
  | fstr (s : String)
  deriving DecidableEq, Repr

def runF (c : Cfg) : OutV := if c.fail then .fstr ("F_" ++ c.tag) else .obj (3 * (c.x : Rat) + 1 / 2)

def mkParams (hpo : Bool) : Params Cfg OutV :=
  { f := runF, hpo := hpo, cancelOut := .fstr "F_CANCELLED",
    isStr := fun o => match o with | .fstr _ => true | .obj _ => false }

structure Sess where
  hpo : Bool
  pre : Bool
  ev : Ev Cfg OutV

def jCfg (j : Json) : Except String Cfg := do
  return { x := ← jInt (← field j "x"), tag := ← jStr (← field j "tag"), fail := ← jBool (← field j "fail") }

def statusStr : Status → String
  | .ready => "READY" | .running => "RUNNING" | .done => "DONE" | .cancelled => "CANCELLED"

def errStr : Err → String
  | .noLoop => "noLoop" | .noJobs => "noJobs" | .loopClosed => "loopClosed"
  | .badTask => "badTask" | .envStuck => "envStuck"

def ofOutV : Option OutV → Json
  | none => Json.null
  | some (.obj q) => Json.mkObj [("t", "num"), ("v", ofRat q)]
  | some (.fstr s) => Json.mkObj [("t", "str"), ("v", s)]

def ofJob (j : JobRec Cfg OutV) : Json :=
  Json.mkObj [("id", Json.num (JsonNumber.fromNat j.id)), ("x", Json.num (JsonNumber.fromInt j.cfg.x)),
    ("tag", j.cfg.tag), ("fail", j.cfg.fail), ("out", ofOutV j.out), ("status", statusStr j.status)]

def ofOut : Out Cfg OutV → Json
  | .unit => Json.mkObj [("kind", "unit")]
  | .jobs l => Json.mkObj [("kind", "jobs"), ("jobs", Json.arr (l.map ofJob).toArray)]
  | .rows l => Json.mkObj [("kind", "rows"), ("jobs", Json.arr (l.map ofJob).toArray)]
  | .error e => Json.mkObj [("kind", "error"), ("err", errStr e)]

def parseOp (j : Json) : Except String (Op Cfg) := do
  let op ← (← field j "op").getStr?
  match op with
  | "submit" => return .submit (← jList jCfg (← field j "cfgs"))
  | "gather" =>
    return .gather (← jBool (← field j "all")) (← jNat (← field j "k"))
      (← jList jNat (← field j "started")) (← jList (jList jNat) (← field j "waits"))
  | "close" => return .close (← jList jNat (← field j "finished"))
  | "dump" => return .dump (← jBool (← field j "flush"))
  | _ => throw s!"unknown op {op}"

def handle (s : Option Sess) (j : Json) : Except String (Option Sess × Json) := do
  let op ← (← field j "op").getStr?
  if op == "init" then
    let hpo ← jBool (← field j "hpo")
    let pre ← jBool (fieldD j "pre" (Json.bool false))
    return (some { hpo, pre, ev := init }, Json.mkObj [("ok", true)])
  match s with
  | none => throw "no session: send init first"
  | some se =>
    let o ← parseOp j
    let p := mkParams se.hpo
    let envOk := opOk se.ev o
    let (ev', out) := if se.pre then stepPre p se.ev o else step p se.ev o
    let rep := Json.mkObj [("ok", true), ("env_ok", envOk), ("out", ofOut out),
      ("num_submitted", Json.num (JsonNumber.fromNat (numSubmitted ev'))),
      ("num_gathered", Json.num (JsonNumber.fromNat (numGathered ev'))),
      ("jobs_done", Json.arr ((lookupAll ev'.jobs ev'.jobsDone).map ofJob).toArray),
      ("statuses", Json.arr (ev'.jobs.map (fun j => Json.str (statusStr j.status))).toArray),
      ("running", ofNats (runningIds ev')),
      ("other", ofNats (otherIds ev'))]
    return (some { se with ev := ev' }, rep)

def main : IO Unit :=
  serve (fun (s : Option Sess) j =>
    match handle s j with
    | .ok (s', r) => (s', r)
    | .error e => (s, errReply e)) none
