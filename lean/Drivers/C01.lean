import Drivers.Wire
import Model.Evaluator
import Model.EvaluatorTrace
import Model.EvaluatorMulti
import Model.EvaluatorMultiTrace

/-!
Driver for C01 (stateful, one session at a time; `init` starts a new evaluator).

Configurations are `{"x":int,"tag":str,"fail":bool}`; the run-function of the harness returns
`3*x + 1/2 + 16*w` (a float, exact; `w` = sum of the integers in the configuration's nested values, `nest` their
canonical text) or the failure string `"F_" ++ tag` — `runF` below is the same function.  `{"op":"noop"}` = a
caller-side action between calls (editing its own objects) that must not change anything.

requests
  {"op":"init","hpo":bool,"pre":bool}            pre = use the pinned tree's close (replay of witnesses)
  {"op":"submit","cfgs":[cfg..]}
  {"op":"gather","all":bool,"k":n,"started":[id..],"waits":[[id..]..]}
  {"op":"close","finished":[id..]}
  {"op":"dump","flush":bool}
  {"op":"check","hpo":bool,"trace":[{"call":{"op":..},"res":{"kind":..},"num_submitted":n,"num_gathered":n,
                                      "jobs_done":[job..]}..]}
        -> {"ok":true,"spec":bool,"first_bad":i|null,"clause":str|null}    (`checkTrace`, theorem C01_checker,
           evaluated on the trace observed on the REAL evaluator; `clause` names the first failing conjunct)
reply
  {"ok":true,"env_ok":bool,"out":{"kind":..,"jobs":[..],"err":..},
   "num_submitted":n,"num_gathered":n,"jobs_done":[id..],"statuses":[..],"other":[id..]}

several evaluators on ONE storage search (`Model/EvaluatorMulti.lean`); job ids are the storage's
  {"op":"minit","hpo":bool,"n":N,"out_truthy_always":bool}   a new search with N evaluators attached
  {"op":"mstep","who":i,"call":{"op":"submit"|"gather"|"close"|"dump"|"setmax",..}}   ("setmax": "n":int)
        -> {"ok":true,"env_ok":bool,"out":{"kind":"unit"|"jobs"|"rows"|"error"|"spawnmax","jobs":[..],"other":[..],
            "err":..,"created":k},"num_submitted":int,"num_gathered":int,"jobs_done":[job..],
            "statuses":[status of every job of the search..],"own":[ids of evaluator i's jobs..]}
  {"op":"mcheck","hpo":bool,"n":N,"trace":[{"who":i,"call":..,"res":{"kind":..,"jobs":[..],"other":[..]},
                                            "num_submitted":int,"num_gathered":int,"jobs_done":[job..]}..]}
        -> {"ok":true,"spec":bool,"first_bad":i|null,"clause":str|null}    (`checkMTrace`, theorem C01_multi_checker)
-/

open Lean DH.Wire DH.Evaluator

structure Cfg where
  x : Int
  tag : String
  fail : Bool
  /-- the run-function returns the objective `0.0` (falsy as a stored output) -/
  zero : Bool
  /-- canonical text of the nested (mutable) values of the configuration, and the sum of their integers -/
  nest : String
  w : Int
  deriving DecidableEq, Repr

inductive OutV
  | obj (q : Rat)
  | fstr (s : String)
  deriving DecidableEq, Repr

def runF (c : Cfg) : OutV :=
  if c.fail then .fstr ("F_" ++ c.tag) else if c.zero then .obj 0
  else .obj (3 * (c.x : Rat) + 1 / 2 + 16 * (c.w : Rat))

def mkParams (hpo : Bool) : Params Cfg OutV :=
  { f := runF, hpo := hpo, cancelOut := .fstr "F_CANCELLED",
    isStr := fun o => match o with | .fstr _ => true | .obj _ => false }

/-- `always = false`: `if job_data["out"]` (a stored objective 0.0 or "" is falsy — the pinned tree);
`always = true`: `if job_data["out"] is not None`.  Which one the tree under test implements is observed
by the harness with a one-job probe (the model and its theorems are parametric in `truthy`). -/
def mkMParams (hpo : Bool) (always : Bool := false) : MParams Cfg OutV :=
  { toParams := mkParams hpo,
    truthy := fun o => always || (match o with | .fstr s => s != "" | .obj q => q != 0) }

structure Sess where
  hpo : Bool
  pre : Bool
  ev : Ev Cfg OutV

structure MSess where
  hpo : Bool
  always : Bool
  sys : Sys Cfg OutV

structure St where
  single : Option Sess := none
  multi : Option MSess := none

def jCfg (j : Json) : Except String Cfg := do
  return { x := ← jInt (← field j "x"), tag := ← jStr (← field j "tag"), fail := ← jBool (← field j "fail"),
           zero := ← jBool (fieldD j "zero" (Json.bool false)), nest := ← jStr (fieldD j "nest" (Json.str "{}")), w := ← jInt (fieldD j "w" (Json.num 0)) }

def statusStr : Status → String
  | .ready => "READY" | .running => "RUNNING" | .done => "DONE" | .cancelled => "CANCELLED"

def errStr : Err → String
  | .noLoop => "noLoop" | .noJobs => "noJobs" | .loopClosed => "loopClosed"
  | .badTask => "badTask" | .envStuck => "envStuck"

def ofOutV : Option OutV → Json
  | none => Json.null
  | some (.obj q) => Json.mkObj [("t", "num"), ("v", ofRat q)]
  | some (.fstr s) => Json.mkObj [("t", "str"), ("v", s)]

def ofJob (j : JobRec Cfg OutV) : Json :=
  Json.mkObj [("id", Json.num (JsonNumber.fromNat j.id)), ("x", Json.num (JsonNumber.fromInt j.cfg.x)),
    ("tag", j.cfg.tag), ("fail", j.cfg.fail), ("zero", j.cfg.zero), ("nest", j.cfg.nest), ("w", Json.num (JsonNumber.fromInt j.cfg.w)),
    ("out", ofOutV j.out), ("status", statusStr j.status)]

def ofOut : Out Cfg OutV → Json
  | .unit => Json.mkObj [("kind", "unit")]
  | .jobs l => Json.mkObj [("kind", "jobs"), ("jobs", Json.arr (l.map ofJob).toArray)]
  | .rows l => Json.mkObj [("kind", "rows"), ("jobs", Json.arr (l.map ofJob).toArray)]
  | .error e => Json.mkObj [("kind", "error"), ("err", errStr e)]

def parseOp (j : Json) : Except String (Op Cfg) := do
  let op ← (← field j "op").getStr?
  match op with
  | "submit" => return .submit (← jList jCfg (← field j "cfgs"))
  | "gather" =>
    return .gather (← jBool (← field j "all")) (← jNat (← field j "k"))
      (← jList jNat (← field j "started")) (← jList (jList jNat) (← field j "waits"))
  | "close" => return .close (← jList jNat (← field j "finished"))
  | "dump" => return .dump (← jBool (← field j "flush"))
  | _ => throw s!"unknown op {op}"

/-! ### the verified checker on an observed trace -/

def jStatus (j : Json) : Except String Status := do
  match (← j.getStr?) with
  | "READY" => pure .ready | "RUNNING" => pure .running | "DONE" => pure .done
  | "CANCELLED" => pure .cancelled
  | "CANCELLING" => pure .running   -- only with timeouts (outside C01); never DONE/CANCELLED
  | s => throw s!"bad status {s}"

def jOutV (j : Json) : Except String (Option OutV) :=
  match j with
  | .null => pure none
  | _ => do
    let t ← jStr (← field j "t")
    match t with
    | "num" => return some (.obj (← jRat (← field j "v")))
    | "str" => return some (.fstr (← jStr (← field j "v")))
    | _ => return some (.fstr ("<" ++ t ++ ">"))   -- neither a float nor a string: never what `runF` returns

def jJob (j : Json) : Except String (JobRec Cfg OutV) := do
  return { id := ← jNat (← field j "id"), cfg := ← jCfg j, out := ← jOutV (← field j "out"),
           status := ← jStatus (← field j "status") }

def jTStep (j : Json) : Except String (TStep Cfg OutV) := do
  let c ← field j "call"
  let op ← match (← jStr (← field c "op")) with
    | "submit" => pure (TOp.submit (← jList jCfg (← field c "cfgs")))
    | "gather" => pure (TOp.gather (← jBool (← field c "all")) (← jNat (← field c "k")))
    | "close" => pure TOp.close
    | "dump" => pure TOp.dump
    | o => throw s!"bad call {o}"
  let r ← field j "res"
  let res ← match (← jStr (← field r "kind")) with
    | "unit" => pure TRes.unit
    | "jobs" => pure (TRes.jobs (← jList jJob (← field r "jobs")))
    | "rows" => pure (TRes.rows (← jList jNat (← field r "ids")))
    | "error" => match (← jStr (← field r "err")) with
      | "noLoop" => pure (TRes.error .noLoop)
      | "noJobs" => pure (TRes.error .noJobs)
      | _ => pure (TRes.error .other)
    | _ => pure (TRes.error .other)
  return { op, res, numSubmitted := ← jNat (← field j "num_submitted"), numGathered := ← jNat (← field j "num_gathered"),
           jobsDone := ← jList jJob (← field j "jobs_done") }

/-- which conjunct of `StepOk` fails first (a reporting aid; the verdict is `checkTrace`) -/
def diagnose (p : Params Cfg OutV) (a : Acc Cfg) (st : TStep Cfg OutV) : String :=
  let counters :=
    if st.numSubmitted != (nextAcc a st).cfgs.length then "count-submitted"
    else if st.numGathered != (nextAcc a st).delivered.length then "count-gathered" else "?"
  match st.op, st.res with
  | _, .error .other => "no-exception"
  | .submit _, .unit => if decide (CallOk p a st) then counters else "jobs-done"
  | .gather all k, .jobs js =>
    if !decide (js.map (·.id)).Nodup || js.any (fun j => (a.delivered.map (·.1)).contains j.id) then "twice"
    else if js.any (fun j => a.cfgs[j.id]? == none) then "unknown-job"
    else if js.any (fun j => a.cfgs[j.id]? != some j.cfg) then "payload-config"
    else if js.any (fun j => j.out != some (p.f j.cfg)) then "payload-output"
    else if js.any (fun j => j.status != .done) then "payload-status"
    else if !decide (min (if all then a.inflight else k) a.inflight ≤ js.length) then "batch-size"
    else if all && js.length != a.inflight then "all-leaves-running"
    else if !decide (CallOk p a st) then "jobs-done"
    else counters
  | .gather _ _, .error _ => if decide (CallOk p a st) then counters else "no-exception"
  | .close, .unit =>
    let new := st.jobsDone.drop a.pending.length
    if !decide (new.map (·.id)).Nodup || new.any (fun j => (a.delivered.map (·.1)).contains j.id) then "both"
    else if new.any (fun j => a.cfgs[j.id]? == none) then "unknown-job"
    else if new.any (fun j => a.cfgs[j.id]? != some j.cfg) then "payload-config"
    else if new.any (fun j => !decide (ClosedOk p a j)) then "close-record"
    else if new.length != a.inflight then "lost"
    else if !decide (CallOk p a st) then "jobs-done"
    else counters
  | .dump, .rows _ => if decide (CallOk p a st) then counters else "dump-once"
  | _, _ => "no-exception"

def handleCheck (j : Json) : Except String Json := do
  let hpo ← jBool (← field j "hpo")
  let t ← jList jTStep (← field j "trace")
  let p := mkParams hpo
  let spec := checkTrace p t
  match firstBad p Acc.init 0 t with
  | none => return Json.mkObj [("ok", true), ("spec", spec), ("first_bad", Json.null), ("clause", Json.null)]
  | some (i, a, st) =>
    return Json.mkObj [("ok", true), ("spec", spec), ("first_bad", Json.num (JsonNumber.fromNat i)),
      ("clause", diagnose p a st)]

/-! ### several evaluators on one storage search -/

def ofMOut : MOut Cfg OutV → Json
  | .unit => Json.mkObj [("kind", "unit")]
  | .jobs l o => Json.mkObj [("kind", "jobs"), ("jobs", Json.arr (l.map ofJob).toArray),
      ("other", Json.arr (o.map ofJob).toArray)]
  | .rows l => Json.mkObj [("kind", "rows"), ("jobs", Json.arr (l.map ofJob).toArray)]
  | .error e => Json.mkObj [("kind", "error"), ("err", errStr e)]
  | .spawnMax k => Json.mkObj [("kind", "spawnmax"), ("created", Json.num (JsonNumber.fromNat k))]

def parseMOp (j : Json) : Except String (MOp Cfg) := do
  let op ← (← field j "op").getStr?
  match op with
  | "submit" => return .submit (← jList jCfg (← field j "cfgs"))
  | "gather" =>
    return .gather (← jBool (← field j "all")) (← jNat (← field j "k"))
      (← jList jNat (← field j "started")) (← jList (jList jNat) (← field j "waits"))
  | "close" => return .close (← jList jNat (← field j "finished"))
  | "dump" => return .dump (← jBool (← field j "flush"))
  | "setmax" => return .setMax (← jInt (← field j "n"))
  | _ => throw s!"unknown op {op}"

def jMTStep (j : Json) : Except String (MTStep Cfg OutV) := do
  let c ← field j "call"
  let op ← match (← jStr (← field c "op")) with
    | "submit" => pure (MTOp.submit (← jList jCfg (← field c "cfgs")))
    | "gather" => pure (MTOp.gather (← jBool (← field c "all")) (← jNat (← field c "k")))
    | "close" => pure MTOp.close
    | "dump" => pure MTOp.dump
    | "setmax" => pure (MTOp.setMax (← jInt (← field c "n")))
    | o => throw s!"bad call {o}"
  let r ← field j "res"
  let res ← match (← jStr (← field r "kind")) with
    | "unit" => pure MTRes.unit
    | "jobs" => pure (MTRes.jobs (← jList jJob (← field r "jobs")) (← jList jJob (fieldD r "other" (Json.arr #[]))))
    | "rows" => pure (MTRes.rows (← jList jNat (← field r "ids")))
    | "spawnmax" => pure MTRes.spawnMax
    | "error" => match (← jStr (← field r "err")) with
      | "noLoop" => pure (MTRes.error .noLoop)
      | "noJobs" => pure (MTRes.error .noJobs)
      | _ => pure (MTRes.error .other)
    | _ => pure (MTRes.error .other)
  return { who := ← jNat (← field j "who"), op, res, numSubmitted := ← jInt (← field j "num_submitted"),
           numGathered := ← jInt (← field j "num_gathered"), jobsDone := ← jList jJob (← field j "jobs_done") }

/-- which conjunct of `MStepOk` fails first (a reporting aid; the verdict is `checkMTrace`) -/
def diagnoseM (p : MParams Cfg OutV) (a : MAcc Cfg OutV) (st : MTStep Cfg OutV) : String :=
  let e := a.ev st.who
  let a' := mNextAcc a st
  let e' := a'.ev st.who
  let counters :=
    if st.numSubmitted != (a'.cfgs.length : Int) - e'.offset then "count-submitted"
    else if st.numGathered != ((e'.delivered.length + e'.reported.length : Nat) : Int) - e'.offset then "count-gathered"
    else "?"
  if st.who ≥ a.evs.length then "no-such-evaluator" else
  match st.op, st.res with
  | _, .error .other => "no-exception"
  | .submit _, .unit => if decide (MCallOk p a st) then counters
      else if st.jobsDone.map (·.id) != e.pending then "jobs-done" else "cap"
  | .submit _, .spawnMax => if decide (MCallOk p a st) then counters
      else if st.jobsDone.map (·.id) != e.pending then "jobs-done" else "cap"
  | .setMax _, .unit => if decide (MCallOk p a st) then counters else "jobs-done"
  | .gather all k, .jobs js others =>
    if !decide (js.map (·.id)).Nodup || js.any (fun j => (e.delivered.map (·.1)).contains j.id) then "twice"
    else if js.any (fun j => a.cfgs[j.id]? == none) then "unknown-job"
    else if js.any (fun j => a.owners[j.id]? != some st.who) then "not-owner"
    else if js.any (fun j => a.cfgs[j.id]? != some j.cfg) then "payload-config"
    else if js.any (fun j => j.out != some (p.f j.cfg)) then "payload-output"
    else if js.any (fun j => j.status != .done) then "payload-status"
    else if !decide (min (if all then a.inflight st.who else k) (a.inflight st.who) ≤ js.length) then "batch-size"
    else if all && js.length != a.inflight st.who then "all-leaves-running"
    else if !decide (others.map (·.id)).Nodup || others.any (fun o => e.reported.contains o.id) then "other-twice"
    else if others.any (fun o => a.owners[o.id]? == some st.who) then "other-own"
    else if others.any (fun o => !((a.foreignRecs st.who).map (·.id)).contains o.id) then "other-early"
    else if others.any (fun o => !(a.foreignRecs st.who).contains o || a.cfgs[o.id]? != some o.cfg) then "other-payload"
    else if others.any (fun o => !decide (ReportedOk p a st.who o)) then "other-unexpected"
    else if !decide (ReportsAll p a st.who others) then "other-missing"
    else if !decide (MCallOk p a st) then "jobs-done"
    else counters
  | .gather _ _, .error _ => if decide (MCallOk p a st) then counters else "no-exception"
  | .close, .unit =>
    let new := st.jobsDone.drop e.pending.length
    if !decide (new.map (·.id)).Nodup || new.any (fun j => (e.delivered.map (·.1)).contains j.id) then "both"
    else if new.any (fun j => a.cfgs[j.id]? == none) then "unknown-job"
    else if new.any (fun j => a.owners[j.id]? != some st.who) then "not-owner"
    else if new.any (fun j => a.cfgs[j.id]? != some j.cfg) then "payload-config"
    else if new.any (fun j => !decide (MClosedOk p a st.who j)) then "close-record"
    else if new.length != a.inflight st.who then "lost"
    else if !decide (MCallOk p a st) then "jobs-done"
    else counters
  | .dump, .rows _ => if decide (MCallOk p a st) then counters else "dump-once"
  | _, _ => "no-exception"

def handleMCheck (j : Json) : Except String Json := do
  let hpo ← jBool (← field j "hpo")
  let n ← jNat (← field j "n")
  let t ← jList jMTStep (← field j "trace")
  let p := mkMParams hpo (← jBool (fieldD j "out_truthy_always" (Json.bool false)))
  let spec := checkMTrace p n t
  match mFirstBad p (MAcc.init n) 0 t with
  | none => return Json.mkObj [("ok", true), ("spec", spec), ("first_bad", Json.null), ("clause", Json.null)]
  | some (i, a, st) =>
    return Json.mkObj [("ok", true), ("spec", spec), ("first_bad", Json.num (JsonNumber.fromNat i)),
      ("clause", diagnoseM p a st)]

def handleMStep (se : MSess) (j : Json) : Except String (MSess × Json) := do
  let who ← jNat (← field j "who")
  let o ← parseMOp (← field j "call")
  let p := mkMParams se.hpo se.always
  let r := mStep p se.sys who o
  let me := r.1.evs.getD who MEv.init
  let rep := Json.mkObj [("ok", true), ("env_ok", mOpOk se.sys who o), ("out", ofMOut r.2),
    ("num_submitted", Json.num (JsonNumber.fromInt (mNumSubmitted r.1.rows me))),
    ("num_gathered", Json.num (JsonNumber.fromInt (mNumGathered me))),
    ("jobs_done", Json.arr ((doneRecs r.1.rows me).map ofJob).toArray),
    ("statuses", Json.arr (r.1.rows.map (fun r => Json.str (statusStr r.status))).toArray),
    ("own", ofNats me.jobs)]
  return ({ se with sys := r.1 }, rep)

def handle (s : St) (j : Json) : Except String (St × Json) := do
  let op ← (← field j "op").getStr?
  if op == "init" then
    let hpo ← jBool (← field j "hpo")
    let pre ← jBool (fieldD j "pre" (Json.bool false))
    return ({ s with single := some { hpo, pre, ev := init } }, Json.mkObj [("ok", true)])
  if op == "check" then
    return (s, ← handleCheck j)
  if op == "minit" then
    let hpo ← jBool (← field j "hpo")
    let n ← jNat (← field j "n")
    let always ← jBool (fieldD j "out_truthy_always" (Json.bool false))
    return ({ s with multi := some { hpo, always, sys := Sys.init n } }, Json.mkObj [("ok", true)])
  if op == "mcheck" then
    return (s, ← handleMCheck j)
  if op == "mstep" then
    match s.multi with
    | none => throw "no multi session: send minit first"
    | some se =>
      let (se', rep) ← handleMStep se j
      return ({ s with multi := some se' }, rep)
  match s.single with
  | none => throw "no session: send init first"
  | some se =>
    let p := mkParams se.hpo
    let (envOk, ev', out) ← (if op == "noop" then pure (true, se.ev, (Out.unit : Out Cfg OutV)) else do
      let o ← parseOp j
      let r := if se.pre then stepPre p se.ev o else step p se.ev o
      pure (opOk se.ev o, r.1, r.2))
    let rep := Json.mkObj [("ok", true), ("env_ok", envOk), ("out", ofOut out),
      ("num_submitted", Json.num (JsonNumber.fromNat (numSubmitted ev'))),
      ("num_gathered", Json.num (JsonNumber.fromNat (numGathered ev'))),
      ("jobs_done", Json.arr ((lookupAll ev'.jobs ev'.jobsDone).map ofJob).toArray),
      ("statuses", Json.arr (ev'.jobs.map (fun j => Json.str (statusStr j.status))).toArray),
      ("running", ofNats (runningIds ev')),
      ("other", ofNats (otherIds ev'))]
    return ({ s with single := some { se with ev := ev' } }, rep)

def main : IO Unit :=
  serve (fun (s : St) j =>
    match handle s j with
    | .ok (s', r) => (s', r)
    | .error e => (s, errReply e)) {}
