import Proofs.SpaceRows
import Proofs.SpaceCheckers
import Proofs.RealLog
import Proofs.SpaceObject

/-!
# C09 — Space transforms round-trip and stay inside their bounds

Property theorems only.  Model: `Model/Space.lean` (the code as it is on `/repo` main, after the
fixes c712e68 and 01bcae6);
lemmas: `Proofs/Space*.lean`.

`L` stands for `x ↦ np.log10(x) / np.log10(base)` and `E` for `t ↦ base ** t`; both are
*parameters*.  What each theorem needs of them is in its statement:

* nothing (`C09_member_any`, `C09_dim_member_any`): membership of whatever `inverse_transform`
  returns holds for arbitrary `L`, `E` — hence also for the IEEE functions — because
  `Real.inverse_transform` clips (since the fix), `Integer.inverse_transform` clips then rounds, and the
  categorical inverses are look-ups;
* `MonoOn L` (`C09_shape`, `C09_bounds`): `L` monotone on the positive numbers;
* `MonoOn L ∧ InvOn L E` (`C09_roundtrip`): additionally `E (L x) = x` for `x > 0` — true of the real
  logarithm/power, true of floating point only up to rounding, which is why the harness compares
  reals with a tolerance and integers/categories exactly.

`Proofs/RealLog.lean` (imported here so that it is built and audited with this file) shows with
Mathlib that `Real.logb b` / `b ^ ·` satisfy these contracts over `ℝ` for every base `b > 1`.

Hypotheses common to all: every dimension well-formed (`Dim.wf`: what the constructors accept),
every row a point of the space (`memRow`: one member per dimension, Python kind included).
Spaces have any number ≥ 1 of dimensions, `X` any number ≥ 1 of rows.
-/

namespace DH.Space

/-- **C09 (exact round trip).**  For every space, every list of its points (any length) and
every `L`, `E` with `E ∘ L = id` and `L` monotone on the positives,
`inverse_transform(transform(X))` succeeds and returns exactly `X`: the same rows, one per input
row, integers and categories (and in exact arithmetic also reals) unchanged. -/
theorem C09_roundtrip (L E : Rat → Rat) (hM : MonoOn L) (hI : InvOn L E) (dims : List Dim)
    (X : List (List Val)) (hd : dims ≠ []) (hx : X ≠ []) (hwf : ∀ d ∈ dims, d.wf = true)
    (hX : ∀ r ∈ X, memRow dims r = true) :
    ∃ Xt, transform L dims X = .ok Xt ∧ inverseTransform L E dims Xt = .ok X :=
  ⟨X.map (rowT L dims), transform_ok L hM dims X hd hx hwf hX,
    roundtrip_ok L E hM hI dims X hd hwf hX⟩

/-- **C09 (shape).**  `transform(X)` has `len(X)` rows and `transformed_n_dims` columns. -/
theorem C09_shape (L : Rat → Rat) (hM : MonoOn L) (dims : List Dim) (X : List (List Val))
    (hd : dims ≠ []) (hx : X ≠ []) (hwf : ∀ d ∈ dims, d.wf = true)
    (hX : ∀ r ∈ X, memRow dims r = true) :
    ∃ Xt, transform L dims X = .ok Xt ∧ Xt.length = X.length ∧
      ∀ row ∈ Xt, row.length = transformedNDims dims := by
  refine ⟨X.map (rowT L dims), transform_ok L hM dims X hd hx hwf hX, by simp, ?_⟩
  intro row hrow
  obtain ⟨r, hr, rfl⟩ := List.mem_map.mp hrow
  exact rowT_length L dims r (hX r hr)

/-- **C09 (bounds).**  For every monotone `L`, every coordinate of `transform(X)` lies inside the
corresponding pair of `transformed_bounds` (and there are exactly as many coordinates as pairs). -/
theorem C09_bounds (L : Rat → Rat) (hM : MonoOn L) (dims : List Dim) (X : List (List Val))
    (hd : dims ≠ []) (hx : X ≠ []) (hwf : ∀ d ∈ dims, d.wf = true)
    (hX : ∀ r ∈ X, memRow dims r = true) :
    ∃ Xt, transform L dims X = .ok Xt ∧ ∀ row ∈ Xt, inBounds row (transformedBounds L dims) = true := by
  refine ⟨X.map (rowT L dims), transform_ok L hM dims X hd hx hwf hX, ?_⟩
  intro row hrow
  obtain ⟨r, hr, rfl⟩ := List.mem_map.mp hrow
  exact rowT_bounds L hM dims r hwf (hX r hr)

/-- **C09 (membership, arbitrary inner functions, one dimension).**  Whatever `L` and `E` are and
whatever is fed in, a value returned by `Real/Integer/Categorical.inverse_transform` is a member of
the dimension (`Dim.snaps`: every dimension but the identity-transformed categorical, whose
inverse is the identity). -/
theorem C09_dim_member_any (L E : Rat → Rat) (d : Dim) (hwf : d.wf = true) (hs : d.snaps = true)
    (c : Col) (col : List Val) (h : d.inverseTransform L E c = .ok col) :
    ∀ v ∈ col, memDim d v = true :=
  dim_inverse_member L E d hwf hs c col h

/-- **C09 (membership, arbitrary inner functions, whole space).**  For arbitrary `L`, `E` and an
arbitrary matrix `Xt`, every row returned by `Space.inverse_transform` is a point of the space. -/
theorem C09_member_any (L E : Rat → Rat) (dims : List Dim) (Xt : List (List Rat))
    (X : List (List Val)) (hd : ∀ d ∈ dims, d.wf = true ∧ d.snaps = true)
    (h : inverseTransform L E dims Xt = .ok X) : ∀ r ∈ X, memRow dims r = true :=
  inverseTransform_member L E dims Xt X hd h

/-- **C09 (one row per input row, arbitrary inner functions).**  For arbitrary `L`, `E` and an
arbitrary matrix `Xt`: when `Space.inverse_transform` returns, it returns exactly as many rows as
it was given (false of the code before `fix: Identity(type_func)…`, which returned one row for a
numeric ordinal dimension whatever the number of samples). -/
theorem C09_rows_any (L E : Rat → Rat) (dims : List Dim) (hd : dims ≠ []) (Xt : List (List Rat))
    (X : List (List Val)) (h : inverseTransform L E dims Xt = .ok X) : X.length = Xt.length :=
  inverseTransform_rows L E dims hd Xt X h

/-- **C09 (round-tripped points are members).**  Under the exact hypotheses every round-tripped
point is a member for *every* space (identity-transformed numeric categories included, because the
round trip is exact); for arbitrary `E` (e.g. a rounded power) it still is for every space of
snapping dimensions, whenever the inverse returns. -/
theorem C09_roundtrip_member (L E E' : Rat → Rat) (hM : MonoOn L) (hI : InvOn L E) (dims : List Dim)
    (X : List (List Val)) (hd : dims ≠ []) (hx : X ≠ []) (hwf : ∀ d ∈ dims, d.wf = true)
    (hX : ∀ r ∈ X, memRow dims r = true) :
    ∃ Xt, transform L dims X = .ok Xt ∧
      (∃ X', inverseTransform L E dims Xt = .ok X' ∧ ∀ r ∈ X', memRow dims r = true) ∧
      ((∀ d ∈ dims, d.snaps = true) → ∀ X'', inverseTransform L E' dims Xt = .ok X'' →
        ∀ r ∈ X'', memRow dims r = true) := by
  obtain ⟨Xt, h1, h2⟩ := C09_roundtrip L E hM hI dims X hd hx hwf hX
  refine ⟨Xt, h1, ⟨X, h2, hX⟩, ?_⟩
  intro hs X'' h3
  exact C09_member_any L E' dims Xt X'' (fun d hd' => ⟨hwf d hd', hs d hd'⟩) h3

/-! ### verified checkers: the oracle the harness runs on the REAL outputs of the implementation -/

/-- **C09 (checker = specification, shape).** -/
theorem C09_checker_shape (dims : List Dim) (n : Nat) (Xt : List (List Rat)) :
    checkShape dims n Xt = true ↔ Xt.length = n ∧ ∀ r ∈ Xt, r.length = transformedNDims dims := by
  simp [checkShape, List.all_eq_true]

/-- **C09 (checker = specification, bounds).**  Every row has exactly as many coordinates as there
are `(low, high)` pairs and coordinate `j` lies inside pair `j`. -/
theorem C09_checker_bounds (bounds : List (Rat × Rat)) (Xt : List (List Rat)) :
    checkBounds bounds Xt = true ↔
      ∀ r ∈ Xt, r.length = bounds.length ∧
        ∀ (j : Nat) (x : Rat) (b : Rat × Rat), r[j]? = some x → bounds[j]? = some b → b.1 ≤ x ∧ x ≤ b.2 := by
  simp only [checkBounds, List.all_eq_true, all2_iff, Bool.and_eq_true, decide_eq_true_eq]

/-- **C09 (checker = specification, round trip).**  `XT`: the input points with the tolerance of
every entry (0 for integers and categories).  The checker accepts exactly when there is one returned
row per input row, one entry per entry, every entry is "the same value" (`CellSpec`: floats within
the tolerance, anything else the identical Python value of the same kind), and every returned row
is a point of the space. -/
theorem C09_checker_roundtrip (dims : List Dim) (XT : List (List (Val × Rat))) (X' : List (List Val)) :
    checkRoundTrip dims XT X' = true ↔
      (XT.length = X'.length ∧
        ∀ (i : Nat) (rowT : List (Val × Rat)) (row' : List Val), XT[i]? = some rowT → X'[i]? = some row' →
          rowT.length = row'.length ∧
          ∀ (j : Nat) (vt : Val × Rat) (v' : Val), rowT[j]? = some vt → row'[j]? = some v' →
            CellSpec vt.2 vt.1 v') ∧
      ∀ r ∈ X', memRow dims r = true := by
  simp only [checkRoundTrip, Bool.and_eq_true, all2_iff, List.all_eq_true, cellClose_iff]

/-- the checkers are not vacuous: with zero tolerance they accept what the exact round trip returns
(`C09_roundtrip`: `X' = X`) and the model's transform (`C09_shape`, `C09_bounds`). -/
theorem C09_checker_accepts_exact (L E : Rat → Rat) (hM : MonoOn L) (hI : InvOn L E) (dims : List Dim)
    (X : List (List Val)) (hd : dims ≠ []) (hx : X ≠ []) (hwf : ∀ d ∈ dims, d.wf = true)
    (hX : ∀ r ∈ X, memRow dims r = true) :
    ∃ Xt X', transform L dims X = .ok Xt ∧ inverseTransform L E dims Xt = .ok X' ∧
      checkShape dims X.length Xt = true ∧ checkBounds (transformedBounds L dims) Xt = true ∧
      checkRoundTrip dims (X.map (fun r => r.map (fun v => (v, (0 : Rat))))) X' = true := by
  obtain ⟨Xt, h1, h2⟩ := C09_roundtrip L E hM hI dims X hd hx hwf hX
  obtain ⟨Xt', h1', hs1, hs2⟩ := C09_shape L hM dims X hd hx hwf hX
  obtain ⟨Xt'', h1'', hb⟩ := C09_bounds L hM dims X hd hx hwf hX
  have e1 : Xt' = Xt := Except.ok.inj (h1'.symm.trans h1)
  have e2 : Xt'' = Xt := Except.ok.inj (h1''.symm.trans h1)
  rw [e1] at hs1 hs2
  rw [e2] at hb
  refine ⟨Xt, X, h1, h2, (C09_checker_shape dims X.length Xt).mpr ⟨hs1, hs2⟩, ?_, ?_⟩
  · simp only [checkBounds, List.all_eq_true]
    intro r hr
    rw [← inBounds_eq_all2]
    exact hb r hr
  · simp only [checkRoundTrip, Bool.and_eq_true, List.all_eq_true]
    exact ⟨rows_close_refl X, hX⟩

/-! ### one `Space` object over a history of transformer changes (`Model/SpaceObject.lean`)

The state of the object is its list of dimensions; every query (`transformed_size`,
`transformed_bounds`, `transformed_n_dims`, `transform`, `inverse_transform`) is a function of the
current list (`layout`, `transform`, `inverseTransform` applied to it) — there is nothing else to
go stale.  The theorems say that the property holds of the object after *any* accepted history of
`Dimension.set_transformer` / `Space.set_transformer` (string or list) / `set_transformer_by_type` /
`normalize_dimensions` steps, for the transformers in force at that moment and the points of the
space as it was declared. -/

/-- **C09 (a history only replaces transformers).**  After any accepted history the object has the
dimensions it was declared with — position by position the same class, bounds, prior / categories
(`sameDecl`) — all still well-formed, and exactly the same points. -/
theorem C09_history_decl (dims0 dims : List Dim) (ops : List SpaceOp)
    (h : runOps dims0 ops = .ok dims) :
    dims.length = dims0.length ∧
    (∀ (j : Nat) (d0 d : Dim), dims0[j]? = some d0 → dims[j]? = some d → d0.sameDecl d = true) ∧
    ((∀ d ∈ dims0, d.wf = true) → ∀ d ∈ dims, d.wf = true) ∧
    ∀ r : List Val, memRow dims r = memRow dims0 r := by
  have rel := runOps_rel ops dims0 dims h
  exact ⟨relDims_length rel, fun j d0 d h0 h1 => relDims_get rel j d0 d h0 h1,
    fun hw => relDims_wf rel hw, relDims_memRow rel⟩

/-- **C09 (the property after any history).**  Whatever accepted sequence of transformer changes
one `Space` object went through — dimension-level ones included —, for every non-empty list of points
of the declared space `transform` succeeds with the transformers now in force, the round trip
returns exactly the points, and `transform(X)` has `len(X)` rows of the *current*
`transformed_n_dims` columns, every row inside the *current* `transformed_bounds`. -/
theorem C09_history_roundtrip (L E : Rat → Rat) (hM : MonoOn L) (hI : InvOn L E)
    (dims0 dims : List Dim) (ops : List SpaceOp) (h : runOps dims0 ops = .ok dims)
    (hd : dims0 ≠ []) (hwf : ∀ d ∈ dims0, d.wf = true)
    (X : List (List Val)) (hx : X ≠ []) (hX : ∀ r ∈ X, memRow dims0 r = true) :
    ∃ Xt, transform L dims X = .ok Xt ∧ inverseTransform L E dims Xt = .ok X ∧
      Xt.length = X.length ∧
      ∀ row ∈ Xt, row.length = (layout L dims).nDims ∧ inBounds row (layout L dims).bounds = true := by
  obtain ⟨hlen, _, hw, hmem⟩ := C09_history_decl dims0 dims ops h
  have hd' : dims ≠ [] := by
    intro e
    rw [e] at hlen
    exact hd (List.eq_nil_of_length_eq_zero hlen.symm)
  have hwf' := hw hwf
  have hX' : ∀ r ∈ X, memRow dims r = true := fun r hr => by rw [hmem r]; exact hX r hr
  obtain ⟨Xt, h1, h2⟩ := C09_roundtrip L E hM hI dims X hd' hx hwf' hX'
  obtain ⟨Xt', h1', hs1, hs2⟩ := C09_shape L hM dims X hd' hx hwf' hX'
  obtain ⟨Xt'', h1'', hb⟩ := C09_bounds L hM dims X hd' hx hwf' hX'
  have e1 : Xt' = Xt := Except.ok.inj (h1'.symm.trans h1)
  have e2 : Xt'' = Xt := Except.ok.inj (h1''.symm.trans h1)
  rw [e1] at hs1 hs2
  rw [e2] at hb
  exact ⟨Xt, h1, h2, hs1, fun row hr => ⟨hs2 row hr, hb row hr⟩⟩

/-- **C09 (a dimension-level switch is seen by the space).**  `space.dimensions[j].set_transformer(t)`
replaces the transformer of dimension `j` — the state the space computes its layout from — and
leaves every other dimension exactly as it was. -/
theorem C09_history_setDim (dims dims' : List Dim) (j : Nat) (t : TrName)
    (h : (SpaceOp.setDim j t).apply dims = .ok dims') :
    (∃ d d', dims[j]? = some d ∧ dims'[j]? = some d' ∧ d.setTransformer t = .ok d' ∧
      d'.trName = t ∧ d.sameDecl d' = true) ∧
    ∀ i, i ≠ j → dims'[i]? = dims[i]? := by
  obtain ⟨⟨d, d', h1, h2, h3⟩, h4⟩ := setAt_get dims j t dims' h
  have s := setTransformer_spec d d' t h3
  exact ⟨⟨d, d', h1, h2, h3, s.2.1, s.1⟩, h4⟩

/-- **C09 (`normalize_dimensions` on a living space).**  It is accepted by every space, and
afterwards every dimension is normalized: the warped space has `n_dims` columns and
`transformed_bounds` is `(0, 1)` for each of them — whatever the layout was before. -/
theorem C09_history_normalize_dimensions (L : Rat → Rat) (dims : List Dim) :
    ∃ dims', SpaceOp.normalizeDims.apply dims = .ok dims' ∧
      (layout L dims').names = dims.map (fun _ => TrName.normalize) ∧
      (layout L dims').nDims = dims.length ∧
      (layout L dims').bounds = List.replicate dims.length (0, 1) := by
  obtain ⟨dims', h, hn⟩ := normalizeDims_accepted dims
  have hall : ∀ d ∈ dims', d.trName = .normalize := by
    intro d hd
    have : d.trName ∈ dims'.map Dim.trName := List.mem_map_of_mem hd
    rw [hn] at this
    obtain ⟨_, _, e⟩ := List.mem_map.mp this
    exact e.symm
  have hl : dims'.length = dims.length := by
    have := congrArg List.length hn
    simpa using this
  obtain ⟨h1, h2⟩ := normalized_layouts L dims' hall
  exact ⟨dims', h, hn, by simp [layout, h1, hl], by simp [layout, h2, hl]⟩

/-! ### non-vacuity: the hypotheses are satisfiable by non-trivial states -/

theorem monoOn_id : MonoOn (fun x => x) := fun _ _ _ h => h
theorem invOn_id : InvOn (fun x => x) (fun x => x) := fun _ _ => rfl

/-- a mixed space: log-uniform normalized real, normalized integer, label / one-hot / identity
categories (2 and 3 categories) -/
abbrev exDims : List Dim :=
  [.real 1 8 .logUniform .normalize, .int (-2) 5 .uniform .normalize,
   .cat [.str "b", .str "a", .str "c"] .label, .cat [.str "x", .str "y"] .onehot,
   .cat [.bool true, .bool false, .str "z"] .onehot, .cat [.int 1, .int 2, .int 4] .identity]

abbrev exX : List (List Val) :=
  [[.num 8, .int 5, .str "a", .str "y", .str "z", .int 4],
   [.num 1, .int (-2), .str "b", .str "x", .bool true, .int 1],
   [.num (5/2), .int 0, .str "c", .str "y", .bool false, .int 2]]

example : exDims ≠ [] ∧ exX ≠ [] ∧ (∀ d ∈ exDims, d.wf = true) ∧ (∀ r ∈ exX, memRow exDims r = true) := by
  refine ⟨by decide, by decide, ?_, ?_⟩ <;> decide +kernel

example : (transform (fun x => x) exDims exX).toOption.map (fun Xt => (Xt.length, Xt.map List.length)) =
    some (3, [8, 8, 8]) := by decide +kernel

example : (transform (fun x => x) exDims exX).toOption.bind
    (fun Xt => (inverseTransform (fun x => x) (fun x => x) exDims Xt).toOption) = some exX := by
  decide +kernel

/-! ### non-vacuity of the history theorems: a history of every kind of step on the mixed space -/

abbrev exOps : List SpaceOp :=
  [.setDim 2 .onehot, .normalizeDims, .setByType .cat .label, .setDim 4 .onehot,
   .setEach [.identity, .identity, .onehot, .label, .normalize, .identity], .setAll .normalize,
   .setDim 5 .identity, .setDim 0 .identity]

/-- the history is accepted; the width of the warped space after every step follows the switches:
8 at construction, then 10, 6, 6, 8, 8, 6, 6, 6 -/
example : (layoutsAlong (fun x => x) exDims exOps).map (fun l => l.toOption.map Layout.nDims) =
    [some 10, some 6, some 6, some 8, some 8, some 6, some 6, some 6] := by decide +kernel

example : (runOps exDims exOps).toOption.map (fun dims => dims.map Dim.trName) =
    some [.identity, .normalize, .normalize, .normalize, .normalize, .identity] := by decide +kernel

/-- … and the round trip on the object after the history returns the points -/
example : (runOps exDims exOps).toOption.bind (fun dims =>
    (transform (fun x => x) dims exX).toOption.bind
      (fun Xt => (inverseTransform (fun x => x) (fun x => x) dims Xt).toOption)) = some exX := by
  decide +kernel

/-- a dimension-level switch of a used space changes its layout: one-hot (3 columns, three `(0, 1)`
pairs) → label (1 column, `(0, 2)`); a layout remembered from before the switch would be wrong -/
example : ((SpaceOp.setDim 0 .label).apply [.cat [.str "a", .str "b", .str "c"] .onehot]).toOption.map
      (fun dims => ((layout (fun x => x) dims).nDims, (layout (fun x => x) dims).bounds)) = some (1, [(0, 2)]) ∧
    (layout (fun x => x) [.cat [.str "a", .str "b", .str "c"] .onehot]).nDims = 3 := by
  decide +kernel

/-- rejected steps: a name the class does not know, a list of names that is too short, an index
past the last dimension -/
example : errOf ((SpaceOp.setAll .label).apply exDims) = some .valueError ∧
    errOf ((SpaceOp.setEach [.identity]).apply exDims) = some .indexError ∧
    errOf ((SpaceOp.setDim 6 .normalize).apply exDims) = some .indexError ∧
    errOf ((SpaceOp.setDim 2 .identity).apply exDims) = some .unsupported := by decide +kernel

/-! ### regression witnesses of the repaired defects -/

/-- 9a, before the fix: `Identity(type_func).inverse_transform` of three rows returned one -/
example : identityTypedInverseOld [.num 1, .num 4, .num 8] = .ok [.int 1] := by decide +kernel

/-- 9a, after the fix: three rows in, three rows out -/
example : (Dim.cat [.int 1, .int 2, .int 4, .int 8] .identity).inverseTransform (fun x => x) (fun x => x)
    (.vals [.num 1, .num 4, .num 8]) = .ok [.int 1, .int 4, .int 8] := by decide +kernel

/-- 2b: an `E` that overshoots (as `base ** x` does in floating point) would leave the
dimension; after the fix `Real.inverse_transform` clips and the result is a member -/
example : memDim (.real 1 2 .logUniform .identity) (.num ((fun x : Rat => x + 1/1000000) 2)) = false := by
  decide +kernel
example : (Dim.real 1 2 .logUniform .identity).inverseTransform (fun x => x) (fun x => x + 1/1000000)
    (.vals [.num 2]) = .ok [.num 2] := by decide +kernel

end DH.Space
