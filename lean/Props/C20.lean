import Proofs.SelectAggregate
import Proofs.SelectSigned
import Proofs.SelectSubmit
import Proofs.SelectOnline
import Props.C19

/-!
# C20 — Ensemble selection and prediction are well-formed and order-stable

Property theorems only (model: `Model/Select.lean`, lemmas: `Proofs/Select*.lean`).

Environment, universally quantified: the individual losses `losses : Nat → Rat`, what `np.argsort`
returned (`order`, any loss-sorted permutation of `range n`: `OrderOK`), the loss `L0` of the
starting ensemble, the loss `L` of every multiset of members (an **arbitrary** function — any
aggregator, any loss function, masked or not), the bootstrap subsets `bags`, and every option
combination `o : Opts`.  The `while` loop of the code has no bound of its own, so the model is run
with `fuel` iterations: `Res.outOfFuel` = still looping.
-/

namespace DH.Select

/-- **TopK returns exactly the `min k n` lowest-loss members**: distinct valid indices, every
selected loss `≤` every unselected loss, weights `[1.0] * len`. -/
theorem C20_topk {n : Nat} {losses : Nat → Rat} {order : List Nat} (h : OrderOK n losses order) (k : Nat) :
    (topK order k).1.length = min k n ∧ (topK order k).1.Nodup ∧ (∀ i ∈ (topK order k).1, i < n) ∧
    (∀ i ∈ (topK order k).1, ∀ j, j < n → j ∉ (topK order k).1 → losses i ≤ losses j) ∧
    (topK order k).2 = List.replicate (min k n) 1 :=
  topK_spec h k

/-- the contract on `np.argsort` is satisfiable: the stable sort of the model meets it -/
theorem C20_argsort_ok (losses : Nat → Rat) (n : Nat) : OrderOK n losses (argsort losses n) :=
  argsort_ok losses n

/-- **Greedy selection is well-formed and has no error branch**: for every `n ≥ 1` (one candidate
included), `k_init ≥ 1` and every option combination, loss function and bootstrap sequence, after any
number of iterations `select` has either returned or is still looping — it never raises — and what it
returns are valid, distinct indices, at most `max k (min k_init n)` of them (`k`, or the size of the
starting ensemble if that is larger), with as many weights, all positive, summing to one. -/
theorem C20_greedy_wf (o : Opts) {n : Nat} {losses : Nat → Rat} {order : List Nat} (h : OrderOK n losses order)
    (hn : 0 < n) (hk : 0 < o.kInit) (L0 : List Nat → Rat) (L : List (Nat × Nat) → Rat) (bags : Nat → List Nat)
    (fuel : Nat) :
    greedy o n order L0 L bags fuel = .outOfFuel ∨
    ∃ sel, greedy o n order L0 L bags fuel = .ok sel ∧
      (output n sel).1.Nodup ∧ (∀ i ∈ (output n sel).1, i < n ∧ i ∈ sel) ∧ (output n sel).1 ≠ [] ∧
      (output n sel).1.length ≤ max o.k (min o.kInit n) ∧
      (output n sel).2.length = (output n sel).1.length ∧
      (∀ w ∈ (output n sel).2, 0 < w) ∧ (output n sel).2.sum = 1 := by
  have hw := init_wf h o hn hk
  have hne : (initSel o order).isEmpty = false := by
    cases hi : initSel o order with
    | nil => exact absurd hi hw.nonempty
    | cons a l => rfl
  simp only [greedy, hne]
  rcases greedyLoop_total o n L bags fuel 0 (initSel o order) (L0 (initSel o order)) with ⟨s, hs⟩ | hs
  · right
    exact ⟨s, by simpa using hs, output_wf (greedyLoop_wf o n L bags (Nat.le_max_left _ _) fuel 0 _ _ s hw hs)⟩
  · left; simpa using hs

/-- **… and it terminates** in each of the three situations that bound the loop: an iteration limit
(`max_it ≥ 0`: at most `max_it` iterations), no replacement (every iteration adds a new member: at
most `k`), early stopping with a positive tolerance and a loss bounded below by `B` (every iteration
lowers the loss by more than `eps_tol`: fewer than `(L0 - B)/eps_tol + 1`).  The remaining
combination (`early_stopping=False, with_replacement=True, max_it<0`) is `C20_greedy_may_diverge`. -/
theorem C20_greedy_terminates (o : Opts) (n : Nat) (order : List Nat) (L0 : List Nat → Rat)
    (L : List (Nat × Nat) → Rat) (bags : Nat → List Nat) :
    (0 ≤ o.maxIt → greedy o n order L0 L bags o.maxIt.toNat ≠ .outOfFuel) ∧
    (o.withReplacement = false → greedy o n order L0 L bags o.k ≠ .outOfFuel) ∧
    (∀ (B : Rat) (fuel : Nat), o.earlyStopping = true → 0 < o.epsTol → (∀ uc, B ≤ L uc) →
      B ≤ L0 (initSel o order) → L0 (initSel o order) - B < (fuel : Rat) * o.epsTol →
      greedy o n order L0 L bags fuel ≠ .outOfFuel) := by
  have lift : ∀ fuel, greedyLoop o n L bags fuel 0 (initSel o order) (L0 (initSel o order)) ≠ .outOfFuel →
      greedy o n order L0 L bags fuel ≠ .outOfFuel := by
    intro fuel h
    simp only [greedy]
    split
    · simp
    · exact h
  exact ⟨fun hm => lift _ (total_maxIt o n L bags hm _ 0 _ _ (by omega)),
    fun hr => lift _ (total_no_replacement o n L bags hr _ 0 _ _ (by omega)),
    fun B fuel hes heps hB hB0 hf => lift _ (total_early_stopping o n L bags hes heps B hB fuel 0 _ _ hB0 hf)⟩

/-- **With early stopping the returned ensemble is no worse than the starting ensemble** (its
aggregated loss is `≤` the loss `L0 init` the loop started from), for `eps_tol ≥ 0`.  `hInit` links the
two ways the code evaluates the starting ensemble (`aggregate(members)` without weights, in argsort
order, vs. unique members with weights counts/total): they agree by C19 (`C19_uniform_eq_none`,
`C19_perm`), here it is an explicit hypothesis. -/
theorem C20_greedy_no_worse (o : Opts) (n : Nat) (order : List Nat) (L0 : List Nat → Rat)
    (L : List (Nat × Nat) → Rat) (bags : Nat → List Nat) (fuel : Nat)
    (hes : o.earlyStopping = true) (heps : 0 ≤ o.epsTol)
    (hInit : L (uniqueCounts n (initSel o order)) ≤ L0 (initSel o order))
    {sel : List Nat} (h : greedy o n order L0 L bags fuel = .ok sel) :
    L (uniqueCounts n sel) ≤ L0 (initSel o order) := by
  unfold greedy at h
  cases he : (initSel o order).isEmpty
  · simp only [he, Bool.false_eq_true, if_false] at h
    exact greedyLoop_no_worse o n L bags hes heps _ fuel 0 _ _ sel ⟨hInit, le_refl _⟩ h
  · simp [he] at h

/-
The full-strength claim of the property quantifies over `early_stopping` too:

  theorem C20_greedy_no_worse_any_option (o) … (h : greedy o n order L0 L bags fuel = .ok sel) :
      L (uniqueCounts n sel) ≤ L0 (initSel o order)

It is false of the model (and of the code: recorded finding 14c): with `early_stopping = False` every
iteration appends the best candidate even when that increases the loss.  Negation witness:
-/
theorem C20_greedy_no_worse_fails_without_early_stopping :
    ∃ (o : Opts) (n : Nat) (order : List Nat) (L0 : List Nat → Rat) (L : List (Nat × Nat) → Rat)
      (bags : Nat → List Nat) (fuel : Nat) (sel : List Nat),
      o.earlyStopping = false ∧ OrderOK n (fun i => (i : Rat)) order ∧
      L (uniqueCounts n (initSel o order)) ≤ L0 (initSel o order) ∧
      greedy o n order L0 L bags fuel = .ok sel ∧ L0 (initSel o order) < L (uniqueCounts n sel) := by
  refine ⟨{ k := 2, kInit := 1, maxIt := -1, epsTol := 1 / 1000, withReplacement := true,
            earlyStopping := false, bagging := false }, 2, [0, 1], fun _ => 0,
    fun uc => if uc.length = 1 then 0 else 1, fun _ => [], 5, [0, 1], rfl, ?_, by decide +kernel,
    by decide +kernel, by decide +kernel⟩
  exact ⟨by decide, by simp⟩

/-- defect 14b (recorded finding): `early_stopping=False, with_replacement=True, max_it=-1` — three
candidates, `k = 3`, a loss under which re-adding member 0 is always the best step: the loop never
reaches three distinct members, for every amount of fuel. -/
theorem C20_greedy_may_diverge (L0 : List Nat → Rat) (bags : Nat → List Nat) (fuel : Nat) :
    o14b.earlyStopping = false ∧ o14b.withReplacement = true ∧ o14b.maxIt < 0 ∧
    OrderOK 3 (fun i => (i : Rat)) [0, 1, 2] ∧
    greedy o14b 3 [0, 1, 2] L0 L14b bags fuel = .outOfFuel := by
  refine ⟨rfl, rfl, by decide, ⟨by decide, by simp⟩, ?_⟩
  have hinit : initSel o14b [0, 1, 2] = [0] := rfl
  simp only [greedy, hinit, List.isEmpty_cons, Bool.false_eq_true, if_false]
  rw [greedyLoop_unfold]
  have hc : continues o14b 3 0 [0] = true := by decide +kernel
  simp only [hc, if_true]
  cases fuel with
  | zero => rfl
  | succ fuel =>
    have hn : nanargmin (candLosses o14b 3 L14b [0] (bags 0)) = some (1, 1) := by
      have : candLosses o14b 3 L14b [0] (bags 0) = [none, some 1, some 2] := by
        simp [candLosses, List.range_succ, eligible, o14b, L14b_val]
      rw [this]; decide +kernel
    have hs : stops o14b 3 [0] (L0 [0]) 1 1 = false := by
      simp [stops, o14b]
    simp only [hn, hs, Bool.false_eq_true, if_false]
    exact stuck_forever bags fuel 1 [0, 1] 1 ⟨by simp, by simp, by simp, by simp⟩

/-- **EnsemblePredictor returns the members' predictions in member order**: job ids increase with
submission order (C13), so whatever order the jobs were gathered in, sorting them by numeric id gives
back the submission (= member) order. -/
theorem C20_order {α : Type} (submitted gathered : List (Nat × α))
    (hs : submitted.Pairwise (fun a b => a.1 < b.1)) (hp : gathered.Perm submitted) :
    sortById gathered = submitted := by
  have hperm : (sortById gathered).Perm submitted := (sortById_perm gathered).trans hp
  refine List.Perm.eq_of_pairwise (le := fun a b => a.1 ≤ b.1) ?_ (sortById_sorted gathered)
    (hs.imp (fun h => Nat.le_of_lt h)) hperm
  intro a b ha hb h1 h2
  exact eq_of_id_eq hs (hperm.subset ha) hb (Nat.le_antisymm h1 h2)

/-! ### the starting-ensemble hypothesis discharged through C19; `predict` end to end; verified checkers -/

open DH.Aggregate in
/-- `MeanAggregator` has the two symmetries (from `C19_weight_scale_invariant`, `C19_perm`) -/
def meanSym : SymAgg Cell MeanOut :=
  ⟨meanAgg, fun k hk ws xs => (C19_weight_scale_invariant k hk ws).1 xs, fun h => C19_perm.1 _ _ h⟩

theorem zip_fst_snd {α β : Type} (xs : List (α × β)) : (xs.map (·.1)).zip (xs.map (·.2)) = xs := by
  induction xs with
  | nil => rfl
  | cons x xs ih => simp [ih]

open DH.Aggregate in
/-- `MixedNormalAggregator` on members given as (loc, scale) pairs (`C19_perm_normal`) -/
def normalSym : SymAgg (Cell × Cell) NormalOut :=
  ⟨fun ws xs => mixedNormal ws (xs.map (·.1)) (xs.map (·.2)),
   fun k hk ws xs => (C19_weight_scale_invariant k hk ws).2.1 _ _,
   fun {ws ws' xs xs'} h => C19_perm_normal (by simp) (by simp) (by rw [zip_fst_snd, zip_fst_snd]; exact h)⟩

open DH.Aggregate in
/-- `MixedCategoricalAggregator` (either uncertainty statistic `u`) and `ModeAggregator` -/
def catSym (u : List Rat → Option Rat) (c : Nat) : SymAgg Row CatOut :=
  ⟨catAgg u c, fun k hk ws xs => (C19_weight_scale_invariant k hk ws).2.2.1 u c xs,
   fun h => C19_perm.2.1 u c _ _ h⟩

open DH.Aggregate in
def modeSym (c : Nat) : SymAgg Row ModeOut :=
  ⟨modeAgg c, fun k hk ws xs => (C19_weight_scale_invariant k hk ws).2.2.2 c xs, fun h => C19_perm.2.2 c _ _ h⟩

/-- **`C20_greedy_no_worse` without the hypothesis on the starting ensemble**, for every aggregator
with the C19 symmetries (`meanSym`, `normalSym`, `catSym`, `modeSym` — the four aggregators of the
library), every prediction table `pred` (candidate × cell, masked or not), every loss function of the
aggregated prediction: with early stopping the loss of the returned ensemble (unique members, weights
counts/total) is `≤` the loss of the starting ensemble (aggregated without weights, as the code does). -/
theorem C20_greedy_no_worse_agg {X Out : Type} (A : SymAgg X Out) (pred : Nat → Nat → X) (m : Nat)
    (loss : List Out → Rat) (o : Opts) {n : Nat} {losses : Nat → Rat} {order : List Nat}
    (h : OrderOK n losses order) (hk : 0 < o.kInit) (bags : Nat → List Nat) (fuel : Nat)
    (hes : o.earlyStopping = true) (heps : 0 ≤ o.epsTol) {sel : List Nat}
    (hr : greedy o n order (lossNone A pred m loss) (lossCounts A pred m loss) bags fuel = .ok sel) :
    lossCounts A pred m loss (uniqueCounts n sel) ≤ lossNone A pred m loss (initSel o order) := by
  by_cases hn : 0 < n
  · have hw := init_wf h o hn hk
    have hnd : (initSel o order).Nodup := (List.take_sublist _ _).nodup h.nodup
    exact C20_greedy_no_worse o n order _ _ bags fuel hes heps
      (le_of_eq (lossCounts_init A pred m loss hnd hw.valid hw.nonempty)) hr
  · -- no candidate: the starting ensemble is empty and `select` raises
    have hn0 : n = 0 := by omega
    have hlen := h.length
    rw [hn0] at hlen
    have : initSel o order = [] := by simp [initSel, List.length_eq_zero_iff.1 hlen]
    simp [greedy, this] at hr

open DH.Aggregate in
/-- the four instances, spelled out -/
theorem C20_greedy_no_worse_four (o : Opts) {n : Nat} {losses : Nat → Rat} {order : List Nat}
    (h : OrderOK n losses order) (hk : 0 < o.kInit) (bags : Nat → List Nat) (fuel m : Nat)
    (hes : o.earlyStopping = true) (heps : 0 ≤ o.epsTol) (sel : List Nat) :
    (∀ pred loss, greedy o n order (lossNone meanSym pred m loss) (lossCounts meanSym pred m loss) bags fuel = .ok sel →
      lossCounts meanSym pred m loss (uniqueCounts n sel) ≤ lossNone meanSym pred m loss (initSel o order)) ∧
    (∀ pred loss, greedy o n order (lossNone normalSym pred m loss) (lossCounts normalSym pred m loss) bags fuel = .ok sel →
      lossCounts normalSym pred m loss (uniqueCounts n sel) ≤ lossNone normalSym pred m loss (initSel o order)) ∧
    (∀ u c pred loss, greedy o n order (lossNone (catSym u c) pred m loss) (lossCounts (catSym u c) pred m loss) bags fuel = .ok sel →
      lossCounts (catSym u c) pred m loss (uniqueCounts n sel) ≤ lossNone (catSym u c) pred m loss (initSel o order)) ∧
    (∀ c pred loss, greedy o n order (lossNone (modeSym c) pred m loss) (lossCounts (modeSym c) pred m loss) bags fuel = .ok sel →
      lossCounts (modeSym c) pred m loss (uniqueCounts n sel) ≤ lossNone (modeSym c) pred m loss (initSel o order)) :=
  ⟨fun pred loss hr => C20_greedy_no_worse_agg meanSym pred m loss o h hk bags fuel hes heps hr,
   fun pred loss hr => C20_greedy_no_worse_agg normalSym pred m loss o h hk bags fuel hes heps hr,
   fun u c pred loss hr => C20_greedy_no_worse_agg (catSym u c) pred m loss o h hk bags fuel hes heps hr,
   fun c pred loss hr => C20_greedy_no_worse_agg (modeSym c) pred m loss o h hk bags fuel hes heps hr⟩

/-- **`EnsemblePredictor.predict` does not depend on the completion order** (nor on the order in which
the members are listed with their weights): the members' jobs are submitted with increasing ids,
gathered in any order, sorted by id (`C20_order`) and aggregated with the ensemble's weights; the
result is the aggregation of the members' predictions in member order, and listing the members —
together with their weights — in another order gives the same prediction (`C19_perm`). -/
theorem C20_predict_order_invariant {X Out : Type} (A : SymAgg X Out) (ws : List Rat)
    (submitted gathered gathered' : List (Nat × X))
    (hs : submitted.Pairwise (fun a b => a.1 < b.1))
    (hp : gathered.Perm submitted) (hp' : gathered'.Perm submitted) :
    predictModel A ws gathered = A.agg ws (submitted.map (·.2)) ∧
    predictModel A ws gathered = predictModel A ws gathered' ∧
    (∀ (ws' : List Rat) (submitted' : List (Nat × X)),
      (ws'.zip (submitted'.map (·.2))).Perm (ws.zip (submitted.map (·.2))) →
      submitted'.Pairwise (fun a b => a.1 < b.1) → ∀ g, g.Perm submitted' →
      predictModel A ws' g = predictModel A ws gathered) := by
  have e1 : predictModel A ws gathered = A.agg ws (submitted.map (·.2)) := by
    unfold predictModel; rw [C20_order submitted gathered hs hp]
  have e2 : predictModel A ws gathered' = A.agg ws (submitted.map (·.2)) := by
    unfold predictModel; rw [C20_order submitted gathered' hs hp']
  refine ⟨e1, by rw [e1, e2], ?_⟩
  intro ws' submitted' hperm hs' g hg
  unfold predictModel at *
  rw [C20_order submitted' g hs' hg, e1]
  exact A.perm hperm

/-- **verified checkers** (run by the driver on the real selectors' outputs): each decides exactly its
clause of the property, and the model's outputs pass them -/
theorem C20_checker (losses : List Rat) (k : Nat) (idx : List Nat) (ws : List Rat) (tol : Rat) (n bound : Nat) :
    (checkTopK losses k idx ws = true ↔ TopKSpec losses.length (fun i => losses.getD i 0) k idx ws) ∧
    (checkGreedyOut tol n bound idx ws = true ↔ GreedyOutSpec tol n bound idx ws) :=
  ⟨checkTopK_iff losses k idx ws, checkGreedyOut_iff tol n bound idx ws⟩

theorem C20_checker_model_passes :
    (∀ (losses : List Rat) (order : List Nat) (k : Nat), OrderOK losses.length (fun i => losses.getD i 0) order →
      checkTopK losses k (topK order k).1 (topK order k).2 = true) ∧
    (∀ (tol : Rat) (n bound : Nat) (sel : List Nat), 0 ≤ tol → WF n bound sel →
      checkGreedyOut tol n bound (output n sel).1 (output n sel).2 = true) := by
  refine ⟨fun losses order k h => (checkTopK_iff _ _ _ _).2 (topK_spec h k), fun tol n bound sel ht hw => ?_⟩
  obtain ⟨h1, h2, h3, h4, h5, h6, h7⟩ := output_wf hw
  exact (checkGreedyOut_iff _ _ _ _ _).2 ⟨h1, fun i hi => (h2 i hi).1, h3, h4, h5, h6,
    by rw [h7]; linarith, by rw [h7]; linarith⟩

/-! ### histories: ONE selector object serving several `select()` calls -/

/-- **Every call of a history on one `TopKSelector(k)` object returns the `min k n` lowest-loss members
of the candidates given to THAT call** — whatever the object was asked before (other candidate lists of
smaller, equal or larger length, other targets, i.e. other `losses`): as many answers as calls; the
answer to a call is `topK` of that call alone and meets `TopKSpec` for that call's losses; the answers
to a continuation do not depend on the calls made before it; and the verified checker the driver runs
on the real object's answers (`checkTopKHistory`) decides exactly this clause and is passed by the model. -/
theorem C20_topk_history (k : Nat) (calls : List TopKCall)
    (h : ∀ c ∈ calls, OrderOK c.losses.length (fun i => c.losses.getD i 0) c.order) :
    (topKHistory k calls).length = calls.length ∧
    (∀ p ∈ calls.zip (topKHistory k calls), p.2 = topK p.1.order k ∧
      TopKSpec p.1.losses.length (fun i => p.1.losses.getD i 0) k p.2.1 p.2.2) ∧
    (∀ pre post, topKHistory k (pre ++ post) = topKHistory k pre ++ topKHistory k post) ∧
    (∀ lossess outs, checkTopKHistory k lossess outs = true ↔ TopKHistorySpec k lossess outs) ∧
    checkTopKHistory k (calls.map (·.losses)) (topKHistory k calls) = true := by
  refine ⟨topKHistory_length k calls, fun p hp => ?_, topKHistory_append k, checkTopKHistory_iff k,
    (checkTopKHistory_iff k _ _).2 (topKHistory_spec k calls h)⟩
  have e := topKHistory_zip k calls p hp
  exact ⟨e, by rw [e]; exact topK_spec (h p.1 (List.of_mem_zip hp).1) k⟩

/-- what `C20_greedy_wf` says of one answer of a `GreedySelector(o)` to a call with `n` candidates -/
def GreedyAnswerOK (o : Opts) (n : Nat) (r : Res) : Prop :=
  r = .outOfFuel ∨
  ∃ sel, r = .ok sel ∧
    (output n sel).1.Nodup ∧ (∀ i ∈ (output n sel).1, i < n ∧ i ∈ sel) ∧ (output n sel).1 ≠ [] ∧
    (output n sel).1.length ≤ max o.k (min o.kInit n) ∧
    (output n sel).2.length = (output n sel).1.length ∧
    (∀ w ∈ (output n sel).2, 0 < w) ∧ (output n sel).2.sum = 1

/-- **Every call of a history on one `GreedySelector(o)` object is well-formed for the candidates of THAT
call** (`C20_greedy_wf` per call: no error branch; valid, distinct indices `< n` of this call, at most
`max k (min k_init n)`, positive weights summing to one), the answer to a call is `greedy` of that call
alone, and the answers to a continuation do not depend on the calls made before it. -/
theorem C20_greedy_history (o : Opts) (hk : 0 < o.kInit) (calls : List GreedyCall)
    (h : ∀ c ∈ calls, 0 < c.n ∧ ∃ losses, OrderOK c.n losses c.order) :
    (greedyHistory o calls).length = calls.length ∧
    (∀ p ∈ calls.zip (greedyHistory o calls),
      p.2 = greedy o p.1.n p.1.order p.1.L0 p.1.L p.1.bags p.1.fuel ∧ GreedyAnswerOK o p.1.n p.2) ∧
    (∀ pre post, greedyHistory o (pre ++ post) = greedyHistory o pre ++ greedyHistory o post) := by
  refine ⟨greedyHistory_length o calls, fun p hp => ?_, greedyHistory_append o⟩
  have e := greedyHistory_zip o calls p hp
  obtain ⟨hn, losses, hok⟩ := h p.1 (List.of_mem_zip hp).1
  exact ⟨e, by rw [e]; exact C20_greedy_wf o hok hn hk p.1.L0 p.1.L p.1.bags p.1.fuel⟩

/-! ### wave 5: losses of any sign; members of any kind; the online candidates -/

/-- **The greedy selection does not depend on the sign or the origin of the losses**: adding one constant
`c` — positive, negative, anything — to the loss of the starting ensemble and to the loss of every multiset
of members changes nothing in what `select` does (same outcome, same final list, for every option
combination, bootstrap sequence and fuel).  The early-stopping test compares a DIFFERENCE of two losses
with `eps_tol`.  So the theorems above, which put no hypothesis on `L0` and `L` (all rationals), really
cover loss functions taking negative values (a negated score, the negative log-likelihood of confident
accurate members), the value zero and values of both signs: each such run is the run on the shifted,
non-negative loss. -/
theorem C20_greedy_shift_invariant (o : Opts) (n : Nat) (order : List Nat) (L0 : List Nat → Rat)
    (L : List (Nat × Nat) → Rat) (bags : Nat → List Nat) (fuel : Nat) (c : Rat) :
    greedy o n order (fun s => L0 s + c) (fun uc => L uc + c) bags fuel = greedy o n order L0 L bags fuel :=
  greedy_shift o n order L0 L bags fuel c

/-- **With early stopping every accepted member gains more than `eps_tol`** — for every rational loss
(no sign hypothesis) and every `eps_tol`: the returned list is the starting ensemble followed by the
appended members, and its aggregated loss is at most the loss of the starting ensemble minus
`eps_tol` per appended member.  (`C20_greedy_no_worse` is the case `eps_tol ≥ 0`.)  In particular a member
that worsens the aggregate — by however little, and whatever the sign of the current loss — is never
appended. -/
theorem C20_greedy_gain (o : Opts) (n : Nat) (order : List Nat) (L0 : List Nat → Rat)
    (L : List (Nat × Nat) → Rat) (bags : Nat → List Nat) (fuel : Nat)
    (hes : o.earlyStopping = true)
    (hInit : L (uniqueCounts n (initSel o order)) ≤ L0 (initSel o order))
    {sel : List Nat} (h : greedy o n order L0 L bags fuel = .ok sel) :
    ∃ added, sel = initSel o order ++ added ∧
      L (uniqueCounts n sel) + (added.length : Rat) * o.epsTol ≤ L0 (initSel o order) := by
  unfold greedy at h
  cases he : (initSel o order).isEmpty
  · simp only [he, Bool.false_eq_true, if_false] at h
    exact greedyLoop_gain o n L bags hes _ (initSel o order) fuel 0 _ _ sel
      ⟨[], by simp, hInit, by simp⟩ h
  · simp [he] at h

/-- **`predictions_from_predictors` returns the members' predictions in the order of the `predictors`
list whatever kind of object each member is** (`α` arbitrary: in-memory predictors of any class, loaders,
any mixture of them, in any pattern), from whatever value `start` of the evaluator's job counter (a fresh
or a reused evaluator), for every order in which the jobs finish. -/
theorem C20_member_order_any_kind {α : Type} (start : Nat) (members : List α) (gathered : List (Nat × α))
    (hp : gathered.Perm (submitJobs start members)) : predictionsOf gathered = members := by
  unfold predictionsOf
  rw [C20_order (submitJobs start members) gathered (submitJobs_increasing members start) hp]
  exact submitJobs_payload members start

/-- **The candidate `OnlineSelector.on_done` hands to the selector for a finished job is the job's own
report**: as many entries as validation targets, the entries `idx` hold exactly the values the job
reported (rationals: no rounding, truncation or conversion to the targets' type), every other entry is
masked; and building it does not fail (distinct indexes inside `y`, one value per index). -/
theorem C20_online_candidate (S : Nat) (idx : List Nat) (vals : List Rat) (hl : vals.length = idx.length)
    (hv : ∀ i ∈ idx, i < S) (hnd : idx.Nodup) :
    ∃ cand, onlineCandidate S idx vals = some cand ∧ cand.length = S ∧
      (∀ p ∈ idx.zip vals, cand[p.1]? = some (some p.2)) ∧
      (∀ s, s < S → s ∉ idx → cand[s]? = some none) := by
  have hall : idx.all (fun i => decide (i < S)) = true := by
    simpa [List.all_eq_true] using hv
  have hkeys : (idx.zip vals).map (·.1) = idx := by
    rw [List.map_fst_zip]; omega
  obtain ⟨h1, h2, h3⟩ := scatter_spec (idx.zip vals) (List.replicate S none)
    (fun p hp => by simpa using hv p.1 (List.of_mem_zip hp).1) (by rw [hkeys]; exact hnd)
  refine ⟨_, by simp [onlineCandidate, hl, hall], by simpa using h1, h2, fun s hs hns => ?_⟩
  rw [h3 s (by rw [hkeys]; exact hns)]
  simp [hs]

/-! ### non-vacuity and regression witnesses -/

def oDefault : Opts :=
  { k := 5, kInit := 5, maxIt := -1, epsTol := 1 / 1000, withReplacement := true, earlyStopping := true,
    bagging := false }

example : OrderOK 3 (fun i => [3, 1, 2].getD i 0) [1, 2, 0] := ⟨by decide, by simp; norm_num⟩
example : topK [1, 2, 0] 2 = ([1, 2], [1, 1]) := by decide +kernel
example : argsort (fun i => [3, 1, 2, 1].getD i 0) 4 = [1, 3, 2, 0] := by decide +kernel
/-- defect 14a (pinned tree): one candidate (what `OnlineSelector` passes after the first finished
job), default options: `np.nanargmin` raises on the all-NaN list; after the fix the loop stops -/
example : greedyPre oDefault 1 [0] (fun _ => 1) (fun _ => 1) (fun _ => []) 10 = .allNaN := by decide +kernel
example : greedy oDefault 1 [0] (fun _ => 1) (fun _ => 1) (fun _ => []) 10 = .ok [0] := by decide +kernel
example : output 1 [0] = ([0], [1]) := by decide +kernel
/-- … and candidates exhausted without replacement (3 candidates, `k = 5`) -/
example : greedyPre { oDefault with kInit := 1, withReplacement := false, earlyStopping := false } 3 [0, 1, 2]
    (fun _ => 1) (fun uc => (uc.length : Rat)) (fun _ => []) 10 = .allNaN := by decide +kernel
example : greedy { oDefault with kInit := 1, withReplacement := false, earlyStopping := false } 3 [0, 1, 2]
    (fun _ => 1) (fun uc => (uc.length : Rat)) (fun _ => []) 10 = .ok [0, 1, 2] := by decide +kernel
-- a run with replacement that re-adds a member: weights 2/3, 1/3
example : greedy { oDefault with kInit := 1, k := 3, maxIt := 2, earlyStopping := false } 2 [0, 1]
    (fun _ => 1) (fun uc => if uc = [(0, 2), (1, 1)] then 0 else 1 / 2) (fun _ => []) 10 = .ok [0, 1, 0] := by
  decide +kernel
example : output 2 [0, 1, 0] = ([0, 1], [2 / 3, 1 / 3]) := by decide +kernel
example : sortById [(2, "c"), (0, "a"), (10, "k"), (1, "b")] = [(0, "a"), (1, "b"), (2, "c"), (10, "k")] := by
  decide +kernel

example : checkTopK [3, 1, 2] 2 [1, 2] [1, 1] = true := by decide +kernel
example : checkTopK [3, 1, 2] 2 [1, 0] [1, 1] = false := by decide +kernel
example : checkGreedyOut 0 2 3 [0, 1] [2 / 3, 1 / 3] = true := by decide +kernel
example : checkGreedyOut 0 2 3 [0, 0] [1 / 2, 1 / 2] = false := by decide +kernel
open DH.Aggregate in
example : predictModel meanSym [1, 2, 4] [(2, some 5), (0, some 1), (1, some 3)]
    = meanSym.agg [1, 2, 4] [some 1, some 3, some 5] := by decide +kernel

/-- a history on one `TopKSelector(2)`: three candidates, then the same number of candidates with the
losses reversed (e.g. another target), then a longer list — every answer is about its own call; an
object answering the second call from the losses of the first (`[1, 2]`) fails the checker -/
def histCalls : List TopKCall :=
  [⟨[3, 1, 2], [1, 2, 0]⟩, ⟨[2, 1, 3], [1, 0, 2]⟩, ⟨[5, 4, 3, 2, 1], [4, 3, 2, 1, 0]⟩]
example : ∀ c ∈ histCalls, OrderOK c.losses.length (fun i => c.losses.getD i 0) c.order := by
  intro c hc
  simp only [histCalls, List.mem_cons, List.not_mem_nil, or_false] at hc
  rcases hc with rfl | rfl | rfl <;> exact ⟨by decide, by simp; norm_num⟩
example : topKHistory 2 histCalls = [([1, 2], [1, 1]), ([1, 0], [1, 1]), ([4, 3], [1, 1])] := by decide +kernel
example : checkTopKHistory 2 (histCalls.map (·.losses)) (topKHistory 2 histCalls) = true := by decide +kernel
example : checkTopKHistory 2 (histCalls.map (·.losses)) [([1, 2], [1, 1]), ([1, 2], [1, 1]), ([4, 3], [1, 1])] = false := by
  decide +kernel
/-- a history on one `GreedySelector`: one candidate (the online start), then two -/
example : greedyHistory oDefault [⟨1, [0], fun _ => 1, fun _ => 1, fun _ => [], 10⟩,
    ⟨2, [1, 0], fun _ => 1, fun uc => if uc.length = 2 then 0 else 1, fun _ => [], 10⟩] = [.ok [0], .ok [1, 0, 0]] := by
  decide +kernel
example : GreedyAnswerOK oDefault 2 (.ok [1, 0, 0]) :=
  Or.inr ⟨[1, 0, 0], rfl, by decide +kernel, by decide +kernel, by decide +kernel, by decide +kernel, by decide +kernel,
    by decide +kernel, by decide +kernel⟩


/-- negative losses: two candidates, the start `[0]` has loss `-2`; adding the near-copy `1` gives `-1999/1000`
(WORSE by `1/1000`, far less than `eps_tol·|loss|`-style slack would allow): the loop stops and returns the
start.  The same run on the losses shifted by `+2` (start `0`) and by `+10` (all positive) is identical. -/
def Lneg (uc : List (Nat × Nat)) : Rat := if uc.length = 1 then -2 else -1999 / 1000
example : greedy { oDefault with kInit := 1, epsTol := 1 / 2 } 2 [0, 1] (fun _ => -2) Lneg (fun _ => []) 10 = .ok [0] := by
  decide +kernel
example : greedy { oDefault with kInit := 1, epsTol := 1 / 2 } 2 [0, 1] (fun _ => -2 + 2) (fun uc => Lneg uc + 2)
    (fun _ => []) 10 = .ok [0] := by decide +kernel
example : greedy { oDefault with kInit := 1, epsTol := 1 / 2 } 2 [0, 1] (fun _ => -2 + 10) (fun uc => Lneg uc + 10)
    (fun _ => []) 10 = .ok [0] := by decide +kernel
/-- … and a member that improves a negative loss by more than `eps_tol` is taken (hypotheses of `C20_greedy_gain`
met with a non-empty `added`) -/
example : greedy { oDefault with kInit := 1, k := 2 } 2 [0, 1] (fun _ => -2) (fun uc => if uc.length = 1 then -2 else -3)
    (fun _ => []) 10 = .ok [0, 1] := by decide +kernel
/-- members of mixed kinds (`Sum`: an in-memory predictor `inl`, a loader `inr`) on an evaluator whose counter
is at 7, finishing in the order 2, 0, 1 -/
example : predictionsOf [(9, (Sum.inl 2 : Sum Nat Nat)), (7, Sum.inl 0), (8, Sum.inr 1)] = [Sum.inl 0, Sum.inr 1, Sum.inl 2] := by
  decide +kernel
example : submitJobs 7 [(Sum.inl 0 : Sum Nat Nat), Sum.inr 1, Sum.inl 2] = [(7, Sum.inl 0), (8, Sum.inr 1), (9, Sum.inl 2)] := rfl
/-- a job that predicted samples 3 and 1 of 4 integer targets with the real values 7/2 and 9/4 -/
example : onlineCandidate 4 [3, 1] [7 / 2, 9 / 4] = some [none, some (9 / 4), none, some (7 / 2)] := by decide +kernel
example : onlineCandidate 4 [3, 4] [7 / 2, 9 / 4] = none := by decide +kernel

end DH.Select
