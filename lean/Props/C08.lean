import Proofs.AskMembership

/-!
# C08 — No configuration is proposed twice until the space is exhausted

Property theorems only; the model is `Model/Ask.lean`, the lemmas are in `Proofs/Ask.lean`.

Setting of the theorems.  `runOps ops c₀ calls` is **any sequence of calls of the public
ask/tell interface** on the `CBO` layer, in any order: `ask(n)` (any `n`) and `tell(results)` (any
results — numbers, failures, anything else — about any configurations); the search loop
`Search._search` (ask, tell, ask, tell, …) is the special case `run`.  Asking again before any
tell is covered: `CBO._ask` then refreshes the optimizer first (`update_next`, fix of round 2 —
on the pinned tree the same configurations came back).  Everything the surrogate model, the
acquisition function and the random generators decide is in the rounds' environments and is
universally quantified: the candidate lists `Space.rvs` returned, the argmin indices, the
vectors lbfgs/ga ended on (`Pick.free`, arbitrary), the argsorts per kappa.  `c₀` is any freshly
set-up CBO optimizer with `filter_duplicated=True`, the random initial design (no pre-computed
initial points), any `n_initial_points`, any surrogate (`dummy` or not), any failure policy
(`ignoreFailures`), and a multi-point strategy among `cl_min, cl_mean, cl_max, qUCB, qUCBd`.

Contracts of the environment (`OpRT`):
* `FitRT.rt` — for every sampled candidate `c`, transforming it and coming back (clip,
  `inverse_transform`, `deactivate_inactive_dimensions`) gives `c` itself.  This is exact for
  categorical / ordinal / integer dimensions (label, one-hot, identity transformers); it is
  property C09's subject and is re-checked on every run by the correspondence harness (the
  proposal must *be* one of the filtered candidates).
* `OrdersCover` — the argsort of the acquisition values mentions every index of the array it
  was computed on (it is a permutation).

Each proposal carries the history variable `offered`: the candidate list it was selected from.
-/

namespace DH.Ask

variable {α τ : Type} [DecidableEq α]

/-- **C08 (fresh proposals).**  For every sequence of `ask(n)` / `tell(results)` calls (in any
order — in particular several asks without a tell in between), every environment and every C08 strategy: if the `i`-th proposal equals an earlier proposal (of an
earlier batch or of the same batch), then *every* candidate of the list it was selected from had
already been proposed — the space was exhausted as far as candidate sampling could tell. -/
theorem C08_fresh (ops : Ops α τ) (nInit : Int) (dummy ign : Bool) (strat : Strategy)
    (hst : strat.c08) (calls : List (Op α τ))
    (henv : ∀ o ∈ calls, OpRT (fun _ => True) ops o)
    (c : Cbo α) (Z : List (Sel α))
    (hrun : runOps ops (Cbo.start nInit dummy strat ign) calls = .ok (c, Z))
    (i : Nat) (hi : i < Z.length) (hdup : Z[i].x ∈ (Z.take i).map (·.x)) :
    ∀ cand ∈ Z[i].offered, cand ∈ (Z.take i).map (·.x) := by
  have h := (runOps_fresh (start_bnd _ nInit dummy strat ign hst) henv hrun).1
  have := (selsOK_index h i hi).2
  simpa using this (by simpa using hdup)

/-- **C08 (recording).**  Every configuration handed out is in `Optimizer.sampled` afterwards,
and `sampled` contains nothing else: the duplicate filter sees exactly the proposals. -/
theorem C08_recorded (ops : Ops α τ) (nInit : Int) (dummy ign : Bool) (strat : Strategy)
    (hst : strat.c08) (calls : List (Op α τ))
    (henv : ∀ o ∈ calls, OpRT (fun _ => True) ops o)
    (c : Cbo α) (Z : List (Sel α))
    (hrun : runOps ops (Cbo.start nInit dummy strat ign) calls = .ok (c, Z)) :
    ∀ x, x ∈ c.opt.sampled ↔ x ∈ Z.map (·.x) := by
  have h := (runOps_fresh (start_bnd _ nInit dummy strat ign hst) henv hrun).2
  intro x
  simpa using h.good.smp x

/-- **C08 (finite spaces).**  On a space of `N` configurations (`univ`, duplicate-free) whose
candidate lists always cover the space, the first `N` proposals are pairwise distinct. -/
theorem C08_finite (ops : Ops α τ) (univ : List α) (hnd : univ.Nodup)
    (nInit : Int) (dummy ign : Bool) (strat : Strategy) (hst : strat.c08)
    (calls : List (Op α τ))
    (henv : ∀ o ∈ calls, OpRT (fun l => ∀ u ∈ univ, u ∈ l) ops o)
    (c : Cbo α) (Z : List (Sel α))
    (hrun : runOps ops (Cbo.start nInit dummy strat ign) calls = .ok (c, Z)) :
    ((Z.take univ.length).map (·.x)).Nodup := by
  have h := (runOps_fresh (start_bnd _ nInit dummy strat ign hst) henv hrun).1
  apply nodup_of_not_mem_take
  intro i hi hmem
  simp only [List.length_map, List.length_take] at hi
  have hiZ : i < Z.length := by omega
  have hiN : i < univ.length := by omega
  have hidx := selsOK_index h i hiZ
  simp only [List.nil_append] at hidx
  -- the i-th of the first N proposals and the proposals before it
  have e1 : ((Z.take univ.length).map (·.x))[i]'(by simp; omega) = Z[i].x := by simp
  have e2 : ((Z.take univ.length).map (·.x)).take i = (Z.take i).map (·.x) := by
    rw [← List.map_take, List.take_take, Nat.min_eq_left (Nat.le_of_lt hiN)]
  rw [e1, e2] at hmem
  have hsub : ∀ u ∈ univ, u ∈ (Z.take i).map (·.x) :=
    fun u hu => hidx.2 hmem u (hidx.1 u hu)
  have := nodup_length_le_of_subset hnd hsub
  simp only [List.length_map, List.length_take] at this
  omega

/-- **C08 (verified checker).**  The executable check the harness runs over the proposals of
the real implementation (each with the candidate list it was selected from) decides exactly
the freshness statement of `C08_fresh`. -/
theorem C08_checker (H : List α) (Z : List (Sel α)) :
    selsOKb H Z = true ↔ SelsOK (fun _ => True) H Z :=
  selsOKb_iff H Z

/-! ### non-vacuity and regression witnesses

A 3-point space `{0,1,2}` (`α = τ = Nat`, identity transforms), `n_initial_points = 1`,
candidate lists that cover the space. -/

section witnesses

def ops3 : Ops Nat Nat := { tr := id, fin := some, accept := fun _ => true }

def fit3 (i : Nat) : Fit Nat Nat := { cands := [0, 1, 2, 1], pick := .idx (fun _ => i) }

def env3 (orders : List (List Nat)) : AskEnv Nat Nat :=
  { cands := [2, 0, 1, 0], copyFit := fit3 0,
    steps := [⟨[0, 1, 2], fit3 0⟩, ⟨[0, 1, 2], fit3 0⟩, ⟨[0, 1, 2], fit3 0⟩],
    orders := fun _ => orders, refresh := fit3 0 }

/-- the contracts are satisfiable -/
example : RoundRT (fun l => ∀ u ∈ [0, 1, 2], u ∈ l) ops3
    ⟨2, env3 [], [(2, .val), (0, .fail)], fit3 0⟩ := by
  refine ⟨⟨by decide, ⟨fun _ _ => rfl, by decide⟩, ?_, ?_, ⟨fun _ _ => rfl, by decide⟩⟩,
    ⟨fun _ _ => rfl, by decide⟩⟩
  · intro st hst
    simp only [env3, List.mem_cons, List.not_mem_nil, or_false] at hst
    rcases hst with rfl | rfl | rfl <;> exact ⟨by decide, fun _ _ => rfl, by decide⟩
  · intro l o ho
    simp [env3] at ho

/-- an argsort given as a function of the array it is computed on covers that array -/
example : OrdersCover ({ env3 [] with orders := fun l => [List.range l.length] } : AskEnv Nat Nat) := by
  intro l o ho i hi
  simp only [List.mem_cons, List.not_mem_nil, or_false] at ho
  subst ho
  exact List.mem_range.2 hi

def proposals (r : Except Err (Cbo Nat × List (Sel Nat))) : List Nat :=
  match r with
  | .ok (_, Z) => Z.map (·.x)
  | .error _ => []

/-- constant liar, batches of 2 then 2: the 3 points come first, the 4th proposal repeats one
because the space is exhausted -/
example : proposals (run ops3 (Cbo.start 1 false .clMin false)
    [⟨2, env3 [], [(2, .val), (0, .val)], fit3 0⟩, ⟨2, env3 [], [(1, .val)], fit3 0⟩]) = [2, 0, 1, 0] := by
  decide +kernel

/-- qUCB after the fix: the batch `[next_x, …]` is made of distinct fresh points -/
example : proposals (run ops3 (Cbo.start 1 false .qLCB false)
    [⟨1, env3 [], [(2, .val)], fit3 0⟩, ⟨2, env3 [[0, 1, 2, 3]], [], fit3 0⟩]) = [2, 0, 1] := by
  decide +kernel

/-- asking twice before any tell (round 2): the second `ask(1)` first refreshes `_next_x`
(`update_next`), so three asks in a row give the three points of the space -/
example : proposals (runOps ops3 (Cbo.start 1 false .clMin false)
    [.ask 1 (env3 []), .tell [(2, .val)] (fit3 0), .ask 1 (env3 []), .ask 1 (env3 []), .ask 2 (env3 [])]) =
    [2, 0, 1, 0, 0] := by
  decide +kernel

/-- DESIGN §6-8a on the pinned tree: the qLCB branch took the plain argmin for every kappa and
recorded nothing — `next_x = 0` is drawn again (`[0, 0, 0]` from candidates `[2,0,1,0]` filtered
against `sampled = [2]`, argmin index 0 twice). -/
example : (askQPre (α := Nat) { (Opt.init true false 0 [] : Opt Nat) with sampled := [2], nextX := some 0 }
    3 0 [2, 0, 1, 0] [[0, 1], [0, 1]]).toOption.map (fun p => p.2.map (·.x)) = some [0, 0, 0] := by
  decide +kernel

/-- the same call after the fix -/
example : (askQ (α := Nat) { (Opt.init true false 0 [] : Opt Nat) with sampled := [2], nextX := some 0 }
    3 0 [2, 0, 1, 0] (fun _ => [[0, 1], [0, 1]])).toOption.map (fun p => p.2.map (·.x)) = some [0, 1, 1] := by
  decide +kernel

/-- DESIGN §6-8b on the pinned tree: with `filter_failures="ignore"` a failed result leaves the
optimizer untouched (`cboTellPre`), so the next `ask(1)` returns the same `_next_x` again;
after the fix (`cboTell` → `update_next`) a new point is computed. -/
example :
    let c : Cbo Nat := { opt := { (Opt.init true false 0 [] : Opt Nat) with
                                    sampled := [2, 0], nextX := some 0, told := [(2, .val)] },
                         strat := .clMin, ignoreFailures := true }
    ((cboTellPre ops3 c [(0, .fail)] (fit3 0)).toOption.map (fun c => c.opt.nextX) = some (some 0)) ∧
    ((cboTell ops3 c [(0, .fail)] (fit3 0)).toOption.map (fun c => c.opt.nextX) = some (some 1)) := by
  decide +kernel

end witnesses

end DH.Ask
