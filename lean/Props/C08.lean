import Proofs.AskMembership

/-!
# C08 — No configuration is proposed twice until the space is exhausted

Property theorems only; the model is `Model/Ask.lean`, the lemmas are in `Proofs/Ask.lean`.

Setting of the theorems.  `runOps ops c₀ calls` is **any sequence of calls of the public
ask/tell interface** on the `CBO` layer, in any order: `ask(n)` (any `n`) and `tell(results)` (any
results — numbers, failures, anything else — about any configurations); the search loop
`Search._search` (ask, tell, ask, tell, …) is the special case `run`.  Asking again before any
tell is covered: `CBO._ask` then refreshes the optimizer first (`update_next`, fix of round 2 —
on the pinned tree the same configurations came back).  Everything the surrogate model, the
acquisition function and the random generators decide is in the rounds' environments and is
universally quantified: the candidate lists `Space.rvs` returned, the argmin indices, the
vectors lbfgs/ga ended on (`Pick.free`, arbitrary), the argsorts per kappa.  `c₀` is any freshly
set-up CBO optimizer with `filter_duplicated=True`, the random initial design, any
`n_initial_points`, any surrogate (`dummy` or not), any failure policy (`ignoreFailures`), and a
multi-point strategy among `cl_min, cl_mean, cl_max, qUCB, qUCBd`; the `…_initial` theorems add any
pairwise-distinct list of initial points given by the user (`CBO(initial_points=[…])`: handed out
first, one by one or in batches, alone or completed by random points; fewer, as many or more than
`n_initial_points`).

Contracts of the environment (`OpRT`):
* `FitRT.rt` — for every sampled candidate `c`, transforming it and coming back (clip,
  `inverse_transform`, `deactivate_inactive_dimensions`) gives `c` itself.  This is exact for
  categorical / ordinal / integer dimensions (label, one-hot, identity transformers); it is
  property C09's subject and is re-checked on every run by the correspondence harness (the
  proposal must *be* one of the filtered candidates).
* `OrdersCover` — the argsort of the acquisition values mentions every index of the array it
  was computed on (it is a permutation).

Each proposal carries the history variable `offered`: the candidate list it was selected from
(`[]` for an initial point given by the user: it is not selected from any list).
-/

namespace DH.Ask

variable {α τ : Type} [DecidableEq α]

/-- **C08 (fresh proposals).**  For every sequence of `ask(n)` / `tell(results)` calls (in any
order — in particular several asks without a tell in between), every environment and every C08 strategy: if the `i`-th proposal equals an earlier proposal (of an
earlier batch or of the same batch), then *every* candidate of the list it was selected from had
already been proposed — the space was exhausted as far as candidate sampling could tell. -/
theorem C08_fresh (ops : Ops α τ) (nInit : Int) (dummy ign : Bool) (strat : Strategy)
    (hst : strat.c08) (calls : List (Op α τ))
    (henv : ∀ o ∈ calls, OpRT (fun _ => True) ops o)
    (c : Cbo α) (Z : List (Sel α))
    (hrun : runOps ops (Cbo.start nInit dummy strat ign) calls = .ok (c, Z))
    (i : Nat) (hi : i < Z.length) (hdup : Z[i].x ∈ (Z.take i).map (·.x)) :
    ∀ cand ∈ Z[i].offered, cand ∈ (Z.take i).map (·.x) := by
  have h := (runOps_fresh (start_bnd _ nInit dummy strat ign hst) henv hrun).1
  rcases selsOK_index h i hi with ⟨_, hnot⟩ | ⟨_, himp⟩
  · exact absurd (by simpa using hdup) hnot
  · simpa using himp (by simpa using hdup)

/-- **C08 (fresh proposals, initial points given by the user).**  The same for a search started
with any pairwise-distinct list `init` of initial points (`CBO(initial_points=[…])`, random design
for the rest of the initial phase) and any `n_initial_points`: in every sequence of ask/tell calls
a proposal that equals an earlier proposal **is never one of the given points** (`offered ≠ []`)
— the given points are handed out once, and what is handed out in the initial phase, alone or in
a batch, is recorded so that no later fit selects it again (seeded change C08-9) — and every
candidate of the (non-empty: `Space.rvs` returns `n_points ≥ 1` rows) list it was selected from had
already been proposed. -/
theorem C08_fresh_initial (ops : Ops α τ) (nInit : Int) (dummy ign : Bool) (strat : Strategy)
    (hst : strat.c08) (init : List α) (hinit : init.Nodup) (calls : List (Op α τ))
    (henv : ∀ o ∈ calls, OpRT (fun l => l ≠ []) ops o)
    (c : Cbo α) (Z : List (Sel α))
    (hrun : runOps ops (Cbo.startInit nInit dummy strat ign init) calls = .ok (c, Z))
    (i : Nat) (hi : i < Z.length) (hdup : Z[i].x ∈ (Z.take i).map (·.x)) :
    Z[i].offered ≠ [] ∧ ∀ cand ∈ Z[i].offered, cand ∈ (Z.take i).map (·.x) := by
  have h := (runOps_fresh (startInit_bnd _ nInit dummy strat ign init hst hinit) henv hrun).1
  rcases selsOK_index h i hi with ⟨_, hnot⟩ | ⟨hne, himp⟩
  · exact absurd (by simpa using hdup) hnot
  · exact ⟨hne, by simpa using himp (by simpa using hdup)⟩

/-- … and a given initial point is never a repetition: when it is handed out it has not been
proposed before (whatever the candidate lists are). -/
theorem C08_initial_points_fresh (ops : Ops α τ) (nInit : Int) (dummy ign : Bool) (strat : Strategy)
    (hst : strat.c08) (init : List α) (hinit : init.Nodup) (calls : List (Op α τ))
    (henv : ∀ o ∈ calls, OpRT (fun l => l ≠ []) ops o)
    (c : Cbo α) (Z : List (Sel α))
    (hrun : runOps ops (Cbo.startInit nInit dummy strat ign init) calls = .ok (c, Z))
    (i : Nat) (hi : i < Z.length) (hinitial : Z[i].offered = []) :
    Z[i].x ∉ (Z.take i).map (·.x) := by
  have h := (runOps_fresh (startInit_bnd _ nInit dummy strat ign init hst hinit) henv hrun).1
  rcases selsOK_index h i hi with ⟨_, hnot⟩ | ⟨hne, _⟩
  · simpa using hnot
  · exact absurd hinitial hne

/-- **C08 (recording).**  Every configuration handed out is in `Optimizer.sampled` afterwards,
and `sampled` contains nothing else: the duplicate filter sees exactly the proposals. -/
theorem C08_recorded (ops : Ops α τ) (nInit : Int) (dummy ign : Bool) (strat : Strategy)
    (hst : strat.c08) (calls : List (Op α τ))
    (henv : ∀ o ∈ calls, OpRT (fun _ => True) ops o)
    (c : Cbo α) (Z : List (Sel α))
    (hrun : runOps ops (Cbo.start nInit dummy strat ign) calls = .ok (c, Z)) :
    ∀ x, x ∈ c.opt.sampled ↔ x ∈ Z.map (·.x) := by
  have h := (runOps_fresh (start_bnd _ nInit dummy strat ign hst) henv hrun).2
  intro x
  simpa using h.good.smp x

/-- the same with initial points given by the user: they are recorded like every other proposal -/
theorem C08_recorded_initial (ops : Ops α τ) (nInit : Int) (dummy ign : Bool) (strat : Strategy)
    (hst : strat.c08) (init : List α) (hinit : init.Nodup) (calls : List (Op α τ))
    (henv : ∀ o ∈ calls, OpRT (fun _ => True) ops o)
    (c : Cbo α) (Z : List (Sel α))
    (hrun : runOps ops (Cbo.startInit nInit dummy strat ign init) calls = .ok (c, Z)) :
    ∀ x, x ∈ c.opt.sampled ↔ x ∈ Z.map (·.x) := by
  have h := (runOps_fresh (startInit_bnd _ nInit dummy strat ign init hst hinit) henv hrun).2
  intro x
  simpa using h.good.smp x

/-- **C08 (finite spaces).**  On a space of `N` configurations (`univ`, duplicate-free) whose
candidate lists always cover the space, the first `N` proposals are pairwise distinct — with any
pairwise-distinct list of initial points given by the user handed out first. -/
theorem C08_finite_initial (ops : Ops α τ) (univ : List α) (hnd : univ.Nodup)
    (nInit : Int) (dummy ign : Bool) (strat : Strategy) (hst : strat.c08)
    (init : List α) (hinit : init.Nodup) (calls : List (Op α τ))
    (henv : ∀ o ∈ calls, OpRT (fun l => ∀ u ∈ univ, u ∈ l) ops o)
    (c : Cbo α) (Z : List (Sel α))
    (hrun : runOps ops (Cbo.startInit nInit dummy strat ign init) calls = .ok (c, Z)) :
    ((Z.take univ.length).map (·.x)).Nodup := by
  have h := (runOps_fresh (startInit_bnd _ nInit dummy strat ign init hst hinit) henv hrun).1
  apply nodup_of_not_mem_take
  intro i hi hmem
  simp only [List.length_map, List.length_take] at hi
  have hiZ : i < Z.length := by omega
  have hiN : i < univ.length := by omega
  have hidx := selsOK_index h i hiZ
  simp only [List.nil_append] at hidx
  -- the i-th of the first N proposals and the proposals before it
  have e1 : ((Z.take univ.length).map (·.x))[i]'(by simp; omega) = Z[i].x := by simp
  have e2 : ((Z.take univ.length).map (·.x)).take i = (Z.take i).map (·.x) := by
    rw [← List.map_take, List.take_take, Nat.min_eq_left (Nat.le_of_lt hiN)]
  rw [e1, e2] at hmem
  rcases hidx with ⟨_, hnot⟩ | hidx
  · exact hnot hmem
  · have hsub : ∀ u ∈ univ, u ∈ (Z.take i).map (·.x) :=
      fun u hu => hidx.2 hmem u (hidx.1 u hu)
    have := nodup_length_le_of_subset hnd hsub
    simp only [List.length_map, List.length_take] at this
    omega

/-- **C08 (finite spaces)** without given initial points (the instance `init = []`) -/
theorem C08_finite (ops : Ops α τ) (univ : List α) (hnd : univ.Nodup)
    (nInit : Int) (dummy ign : Bool) (strat : Strategy) (hst : strat.c08)
    (calls : List (Op α τ))
    (henv : ∀ o ∈ calls, OpRT (fun l => ∀ u ∈ univ, u ∈ l) ops o)
    (c : Cbo α) (Z : List (Sel α))
    (hrun : runOps ops (Cbo.start nInit dummy strat ign) calls = .ok (c, Z)) :
    ((Z.take univ.length).map (·.x)).Nodup :=
  C08_finite_initial ops univ hnd nInit dummy ign strat hst [] List.nodup_nil calls henv c Z hrun

/-- **C08 (initial points handed out in a batch).**  `Optimizer.ask(n ≥ 2)` while initial points
(given by the user with `initial_points=[…]`, or pre-computed by a design) are pending hands out
`a` = the next `n` of them and completes the batch with `b` = random points.  If the pending
initial points are pairwise distinct and none of them was proposed before (`H` = everything
proposed so far = `sampled`), then
* the initial points of the batch are new and pairwise distinct;
* the random points are pairwise distinct and differ from everything proposed before **and from
  the initial points of the same batch** — or every candidate drawn had already been proposed;
* afterwards `sampled` holds exactly `H ++ a ++ b` (the initial points are recorded, so the
  candidates of later fits are filtered against them: seeded change C08-9), and the initial
  points still pending are pairwise distinct and not proposed yet.
(This is the step of the invariant behind `C08_fresh_initial` for the initial-points branch.  On
the tree before the wave-3 fix the second item failed: `askInitBatchPre` below.) -/
theorem C08_initial_batch (s : Opt α) (n : Nat) (cands H : List α) (hon : s.filterOn = true)
    (hsmp : ∀ x, x ∈ s.sampled ↔ x ∈ H) (hnd : s.initSamples.Nodup)
    (hnew : ∀ x ∈ s.initSamples, x ∉ H) :
    ∃ a b, ((askInitBatch s n cands).2.map (·.x)) = a ++ b ∧ a = s.initSamples.take n ∧
      (a.Nodup ∧ ∀ x ∈ a, x ∉ H) ∧
      ((∀ c ∈ cands, c ∈ H ++ a) ∨ (b.Nodup ∧ ∀ x ∈ b, x ∉ H ++ a)) ∧
      (∀ x, x ∈ (askInitBatch s n cands).1.sampled ↔ x ∈ H ++ a ++ b) ∧
      ((askInitBatch s n cands).1.initSamples.Nodup ∧
        ∀ x ∈ (askInitBatch s n cands).1.initSamples, x ∉ H ++ a ++ b) := by
  have hk : s.initSamples.take (min s.initSamples.length n) = s.initSamples.take n := by
    rw [List.take_eq_take_iff]; omega
  have hd : s.initSamples.drop (min s.initSamples.length n) = s.initSamples.drop n := by
    by_cases h : s.initSamples.length ≤ n
    · rw [Nat.min_eq_left h, List.drop_eq_nil_of_le (Nat.le_refl _), List.drop_eq_nil_of_le h]
    · rw [Nat.min_eq_right (by omega)]
  have hsplit : s.initSamples = s.initSamples.take n ++ s.initSamples.drop n :=
    (List.take_append_drop n s.initSamples).symm
  have hnd' : (s.initSamples.take n ++ s.initSamples.drop n).Nodup := by rw [← hsplit]; exact hnd
  have hsmp' : ∀ x, x ∈ s.sampled ++ s.initSamples.take n ↔ x ∈ H ++ s.initSamples.take n := by
    intro x; rw [List.mem_append, List.mem_append, hsmp x]
  refine ⟨s.initSamples.take n,
    (filterDup true (s.sampled ++ s.initSamples.take n) cands).take (n - min s.initSamples.length n),
    ?_, rfl, ⟨(List.nodup_append.1 hnd').1, fun x hx => hnew x (List.mem_of_mem_take hx)⟩, ?_, ?_, ?_⟩
  · simp [askInitBatch, hk, hon, List.map_append, Function.comp_def]
  · rcases filterDup_cases_H (l := cands) hsmp' with h | ⟨h1, h2, _⟩
    · exact Or.inl h
    · exact Or.inr ⟨h1.sublist (List.take_sublist _ _), fun x hx => h2 x (List.mem_of_mem_take hx)⟩
  · intro x
    simp only [askInitBatch, hk, hon, List.mem_append, hsmp x]
    tauto
  · simp only [askInitBatch, hd]
    refine ⟨(List.nodup_append.1 hnd').2.1, ?_⟩
    intro x hx hmem
    have hxI : x ∈ s.initSamples := List.mem_of_mem_drop hx
    rcases List.mem_append.1 hmem with hmem | hmem
    · rcases List.mem_append.1 hmem with hmem | hmem
      · exact hnew x hxI hmem
      · exact (List.nodup_append.1 hnd').2.2 x hmem x hx rfl
    · -- a pending point is left only if the whole batch was made of initial points
      have hlen : n < s.initSamples.length := by
        by_contra hle
        rw [List.drop_eq_nil_of_le (by omega)] at hx
        cases hx
      rw [Nat.min_eq_right (by omega), Nat.sub_self, List.take_zero] at hmem
      cases hmem

/-- **C08 (verified checker).**  The executable check the harness runs over the proposals of
the real implementation (each with the candidate list it was selected from) decides exactly
the freshness statement of `C08_fresh`. -/
theorem C08_checker (H : List α) (Z : List (Sel α)) :
    selsOKb H Z = true ↔ SelsOK (fun _ => True) H Z :=
  selsOKb_iff H Z

/-! ### non-vacuity and regression witnesses

A 3-point space `{0,1,2}` (`α = τ = Nat`, identity transforms), `n_initial_points = 1`,
candidate lists that cover the space. -/

section witnesses

def ops3 : Ops Nat Nat := { tr := id, fin := some, accept := fun _ => true }

def fit3 (i : Nat) : Fit Nat Nat := { cands := [0, 1, 2, 1], pick := .idx (fun _ => i) }

def env3 (orders : List (List Nat)) : AskEnv Nat Nat :=
  { cands := [2, 0, 1, 0], copyFit := fit3 0,
    steps := [⟨[0, 1, 2], fit3 0⟩, ⟨[0, 1, 2], fit3 0⟩, ⟨[0, 1, 2], fit3 0⟩],
    orders := fun _ => orders, refresh := fit3 0 }

/-- the contracts are satisfiable -/
example : RoundRT (fun l => ∀ u ∈ [0, 1, 2], u ∈ l) ops3
    ⟨2, env3 [], [(2, .val), (0, .fail)], fit3 0⟩ := by
  refine ⟨⟨by decide, ⟨fun _ _ => rfl, by decide⟩, ?_, ?_, ⟨fun _ _ => rfl, by decide⟩⟩,
    ⟨fun _ _ => rfl, by decide⟩⟩
  · intro st hst
    simp only [env3, List.mem_cons, List.not_mem_nil, or_false] at hst
    rcases hst with rfl | rfl | rfl <;> exact ⟨by decide, fun _ _ => rfl, by decide⟩
  · intro l o ho
    simp [env3] at ho

/-- an argsort given as a function of the array it is computed on covers that array -/
example : OrdersCover ({ env3 [] with orders := fun l => [List.range l.length] } : AskEnv Nat Nat) := by
  intro l o ho i hi
  simp only [List.mem_cons, List.not_mem_nil, or_false] at ho
  subst ho
  exact List.mem_range.2 hi

def proposals (r : Except Err (Cbo Nat × List (Sel Nat))) : List Nat :=
  match r with
  | .ok (_, Z) => Z.map (·.x)
  | .error _ => []

/-- constant liar, batches of 2 then 2: the 3 points come first, the 4th proposal repeats one
because the space is exhausted -/
example : proposals (run ops3 (Cbo.start 1 false .clMin false)
    [⟨2, env3 [], [(2, .val), (0, .val)], fit3 0⟩, ⟨2, env3 [], [(1, .val)], fit3 0⟩]) = [2, 0, 1, 0] := by
  decide +kernel

/-- qUCB after the fix: the batch `[next_x, …]` is made of distinct fresh points -/
example : proposals (run ops3 (Cbo.start 1 false .qLCB false)
    [⟨1, env3 [], [(2, .val)], fit3 0⟩, ⟨2, env3 [[0, 1, 2, 3]], [], fit3 0⟩]) = [2, 0, 1] := by
  decide +kernel

/-- asking twice before any tell (round 2): the second `ask(1)` first refreshes `_next_x`
(`update_next`), so three asks in a row give the three points of the space -/
example : proposals (runOps ops3 (Cbo.start 1 false .clMin false)
    [.ask 1 (env3 []), .tell [(2, .val)] (fit3 0), .ask 1 (env3 []), .ask 1 (env3 []), .ask 2 (env3 [])]) =
    [2, 0, 1, 0, 0] := by
  decide +kernel

/-- a run with two given points on the 3-point space, `n_initial_points = 2`: `ask(3)` hands out the
given points `1, 0` and one random point that differs from them (candidates `[2, 0, 1, 0]`),
then the exhausted space repeats -/
example : proposals (runOps ops3 (Cbo.startInit 2 false .clMin false [1, 0])
    [.ask 3 (env3 []), .tell [(1, .val), (0, .val), (2, .val)] (fit3 0), .ask 1 (env3 [])]) = [1, 0, 2, 0] := by
  decide +kernel

example : ([1, 0] : List Nat).Nodup := by decide

/-- the environment contract of `C08_fresh_initial` (non-empty candidate lists) is satisfiable -/
example : OpRT (fun l : List Nat => l ≠ []) ops3 (.ask 3 (env3 [])) := by
  refine ⟨by decide, ⟨fun _ _ => rfl, by decide⟩, ?_, ?_, ⟨fun _ _ => rfl, by decide⟩⟩
  · intro st hst
    simp only [env3, List.mem_cons, List.not_mem_nil, or_false] at hst
    rcases hst with rfl | rfl | rfl <;> exact ⟨by decide, fun _ _ => rfl, by decide⟩
  · intro l o ho
    simp [env3] at ho

/-- the hypotheses of `C08_initial_batch` are satisfiable: one configuration proposed so far, two
distinct given points pending, `ask(3)` = the two given points and one random point that differs
from them (candidates `[0, 3, 1, 2]`: `0` is a given point of this batch, `3` was proposed) -/
example : (askInitBatch (α := Nat) { (Opt.init true false 3 [0, 1] : Opt Nat) with sampled := [3] }
    3 [0, 3, 1, 2]).2.map (·.x) = [0, 1, 2] := by
  decide +kernel

/-- the same call before the wave-3 fix (`Optimizer.ask` filtered the random points against
`sampled` only): the random point repeats the given point `0` of its own batch -/
example : (askInitBatchPre (α := Nat) { (Opt.init true false 3 [0, 1] : Opt Nat) with sampled := [3] }
    3 [0, 3, 1, 2]).2.map (·.x) = [0, 1, 0] := by
  decide +kernel

/-- seeded change C08-9 in the model's terms: were the given points of a batch not recorded in
`sampled`, the first fit after them could select one of them again; with the recording the
duplicate filter removes them from the candidates (`[0, 1, 2, 3]` filtered against `[0, 1, 2]`) -/
example : filterDup true ((askInitBatch (α := Nat) (Opt.init true false 2 [0, 1]) 3 [0, 1, 2, 3]).1.sampled)
    [0, 1, 2, 3] = [3] := by
  decide +kernel

/-- DESIGN §6-8a on the pinned tree: the qLCB branch took the plain argmin for every kappa and
recorded nothing — `next_x = 0` is drawn again (`[0, 0, 0]` from candidates `[2,0,1,0]` filtered
against `sampled = [2]`, argmin index 0 twice). -/
example : (askQPre (α := Nat) { (Opt.init true false 0 [] : Opt Nat) with sampled := [2], nextX := some 0 }
    3 0 [2, 0, 1, 0] [[0, 1], [0, 1]]).toOption.map (fun p => p.2.map (·.x)) = some [0, 0, 0] := by
  decide +kernel

/-- the same call after the fix -/
example : (askQ (α := Nat) { (Opt.init true false 0 [] : Opt Nat) with sampled := [2], nextX := some 0 }
    3 0 [2, 0, 1, 0] (fun _ => [[0, 1], [0, 1]])).toOption.map (fun p => p.2.map (·.x)) = some [0, 1, 1] := by
  decide +kernel

/-- DESIGN §6-8b on the pinned tree: with `filter_failures="ignore"` a failed result leaves the
optimizer untouched (`cboTellPre`), so the next `ask(1)` returns the same `_next_x` again;
after the fix (`cboTell` → `update_next`) a new point is computed. -/
example :
    let c : Cbo Nat := { opt := { (Opt.init true false 0 [] : Opt Nat) with
                                    sampled := [2, 0], nextX := some 0, told := [(2, .val)] },
                         strat := .clMin, ignoreFailures := true }
    ((cboTellPre ops3 c [(0, .fail)] (fit3 0)).toOption.map (fun c => c.opt.nextX) = some (some 0)) ∧
    ((cboTell ops3 c [(0, .fail)] (fit3 0)).toOption.map (fun c => c.opt.nextX) = some (some 1)) := by
  decide +kernel

end witnesses

end DH.Ask
