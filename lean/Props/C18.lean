import Proofs.Forest

/-!
# C18 — Forest surrogate: mean and uncertainty obey the law of total variance

Property theorems only (model: `Model/Forest.lean`, lemmas: `Proofs/Forest.lean`).

`trees` are the per-tree pairs `(tree.predict(x), impurity[apply(x)])` at one
query point (scikit-learn's fitting is not modelled: the theorems hold for
**every** list of pairs), `minVar` is `min_variance`, and `order`, `o₁ o₂ o₃` are
the orders in which the `n_jobs` threads added their contribution under the lock
(any permutation of the tree indices).  Standard deviations are compared squared:
`StdOut.var`, `DisOut.al`, `DisOut.ep` are the quantities under the square roots.
-/

namespace DH.Forest

/-- **C18 (mean).**  Whichever way it is requested — `predict(X)`,
`predict(X, return_std=True)`, `predict(X, return_std=True, disentangled_std=True)` —
and in whichever order the trees are accumulated, the predicted mean is the
arithmetic mean of the trees' predictions. -/
theorem C18_mean (minVar : Rat) (trees : List TreeOut) (o₁ o₂ o₃ : List Nat) (hn : trees ≠ [])
    (h₁ : OrderOK trees.length o₁) (h₂ : OrderOK trees.length o₂) (h₃ : OrderOK trees.length o₃) :
    ∃ s d, predictMean trees o₁ = some (specMean trees) ∧
      predictStd minVar trees o₂ = some s ∧ s.mean = specMean trees ∧
      predictDis minVar trees o₃ = some d ∧ d.mean = specMean trees := by
  refine ⟨_, _, predictMean_eq trees o₁ hn h₁, predictStd_eq minVar trees o₂ hn h₂, rfl,
    predictDis_eq minVar trees o₃ hn h₃, rfl⟩

/-- **C18 (law of total variance).**  Whenever every floored leaf variance
`max(var_t, min_variance)` is non-negative (in particular whenever `var_t ≥ 0` for
all trees, or `min_variance ≥ 0`), the total predictive variance returned by
`predict(return_std=True)` is the sum of the aleatoric and the epistemic variance
returned by the disentangled prediction; the aleatoric part is the average floored
within-leaf variance and the epistemic part is the variance of the tree means. -/
theorem C18_total (minVar : Rat) (trees : List TreeOut) (o₁ o₂ : List Nat) (hn : trees ≠ [])
    (h₁ : OrderOK trees.length o₁) (h₂ : OrderOK trees.length o₂)
    (hv : ∀ t ∈ trees, 0 ≤ rmax t.2 minVar) :
    ∃ s d, predictStd minVar trees o₁ = some s ∧ predictDis minVar trees o₂ = some d ∧
      s.var = d.al + d.ep ∧ d.al = specAl minVar trees ∧ d.ep = specEp trees := by
  have ha := specAl_nonneg minVar trees hv
  have he := specEp_nonneg trees hn
  refine ⟨_, _, predictStd_eq minVar trees o₁ hn h₁, predictDis_eq minVar trees o₂ hn h₂, ?_,
    clamp0_of_nonneg ha, clamp0_of_nonneg he⟩
  show rmax (specAl minVar trees + specEp trees) 0 = clamp0 (specAl minVar trees) + clamp0 (specEp trees)
  rw [clamp0_of_nonneg ha, clamp0_of_nonneg he, rmax0_of_nonneg (by linarith)]

/-- the two usual ways to satisfy the hypothesis of `C18_total` -/
theorem C18_total_hyp_of_var_nonneg (minVar : Rat) (trees : List TreeOut)
    (h : ∀ t ∈ trees, 0 ≤ t.2) : ∀ t ∈ trees, 0 ≤ rmax t.2 minVar := by
  intro t ht; have := h t ht; unfold rmax; split <;> linarith

theorem C18_total_hyp_of_minVar_nonneg (minVar : Rat) (trees : List TreeOut)
    (h : 0 ≤ minVar) : ∀ t ∈ trees, 0 ≤ rmax t.2 minVar := by
  intro t _; unfold rmax; split <;> linarith

/-- **C18 (non-negativity; the clamps are no-ops).**  All three returned variances are
`≥ 0` for every input (so the standard deviations are defined and non-negative), the
epistemic clamp never fires in exact arithmetic (`mean of squares ≥ square of mean`), and
under the hypothesis of `C18_total` neither do the other two. -/
theorem C18_nonneg (minVar : Rat) (trees : List TreeOut) (o₁ o₂ : List Nat) (hn : trees ≠ [])
    (h₁ : OrderOK trees.length o₁) (h₂ : OrderOK trees.length o₂) :
    ∃ s d, predictStd minVar trees o₁ = some s ∧ predictDis minVar trees o₂ = some d ∧
      0 ≤ s.var ∧ 0 ≤ d.al ∧ 0 ≤ d.ep ∧ d.ep = specEp trees ∧
      ((∀ t ∈ trees, 0 ≤ rmax t.2 minVar) →
        d.al = specAl minVar trees ∧ s.var = specAl minVar trees + specEp trees) := by
  have he := specEp_nonneg trees hn
  refine ⟨_, _, predictStd_eq minVar trees o₁ hn h₁, predictDis_eq minVar trees o₂ hn h₂,
    rmax0_nonneg _, clamp0_nonneg _, clamp0_nonneg _, clamp0_of_nonneg he, ?_⟩
  intro hv
  have ha := specAl_nonneg minVar trees hv
  exact ⟨clamp0_of_nonneg ha, rmax0_of_nonneg (by linarith)⟩

/-- **C18 (independence of the accumulation order, hence of `n_jobs`).** -/
theorem C18_order (minVar : Rat) (trees : List TreeOut) (o o' : List Nat) (hn : trees ≠ [])
    (h : OrderOK trees.length o) (h' : OrderOK trees.length o') :
    predictMean trees o = predictMean trees o' ∧
    predictStd minVar trees o = predictStd minVar trees o' ∧
    predictDis minVar trees o = predictDis minVar trees o' := by
  refine ⟨?_, ?_, ?_⟩
  · rw [predictMean_eq trees o hn h, predictMean_eq trees o' hn h']
  · rw [predictStd_eq minVar trees o hn h, predictStd_eq minVar trees o' hn h']
  · rw [predictDis_eq minVar trees o hn h, predictDis_eq minVar trees o' hn h']

/-! non-vacuity: three trees, one pure leaf (variance 0, floored by `min_variance`), a
negative mean, a non-identity accumulation order -/
example : OrderOK 3 [2, 0, 1] := by unfold OrderOK; decide
example : ([((1 : Rat), (0 : Rat)), (3, 2), (-1, 1/2)] : List TreeOut) ≠ [] := by simp
example : ∀ t ∈ ([((1 : Rat), (0 : Rat)), (3, 2), (-1, 1/2)] : List TreeOut), 0 ≤ rmax t.2 (1/10) :=
  C18_total_hyp_of_minVar_nonneg _ _ (by decide +kernel)
example : predictStd (1/10) [(1, 0), (3, 2), (-1, 1/2)] [2, 0, 1]
    = some ⟨1, 13/15 + 8/3⟩ := by decide +kernel
example : predictDis (1/10) [(1, 0), (3, 2), (-1, 1/2)] [1, 2, 0]
    = some ⟨1, 13/15, 8/3⟩ := by decide +kernel
example : predictMean [(1, 0), (3, 2), (-1, 1/2)] [0, 1, 2] = some 1 := by decide +kernel
/-- without the hypothesis of `C18_total` (negative `min_variance` and a negative leaf
"variance") the decomposition genuinely fails: the hypothesis is needed, not decorative -/
example : predictStd (-5) [(0, -4), (2, -4)] [0, 1] = some ⟨1, 0⟩ ∧
    predictDis (-5) [(0, -4), (2, -4)] [0, 1] = some ⟨1, 0, 1⟩ := by decide +kernel

end DH.Forest
