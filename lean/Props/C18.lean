import Proofs.Forest

/-!
# C18 — Forest surrogate: mean and uncertainty obey the law of total variance

Property theorems only (model: `Model/Forest.lean`, lemmas: `Proofs/Forest.lean`).

`trees` are the per-tree pairs `(tree.predict(x), impurity[apply(x)])` at one
query point (scikit-learn's fitting is not modelled: the theorems hold for
**every** list of pairs), `minVar` is `min_variance`, and `order`, `o₁ o₂ o₃` are
the orders in which the `n_jobs` threads added their contribution under the lock
(any permutation of the tree indices).  Standard deviations are compared squared:
`StdOut.var`, `DisOut.al`, `DisOut.ep` are the quantities under the square roots.
-/

namespace DH.Forest

/-- **C18 (mean).**  Whichever way it is requested — `predict(X)`,
`predict(X, return_std=True)`, `predict(X, return_std=True, disentangled_std=True)` —
and in whichever order the trees are accumulated, the predicted mean is the
arithmetic mean of the trees' predictions. -/
theorem C18_mean (minVar : Rat) (trees : List TreeOut) (o₁ o₂ o₃ : List Nat) (hn : trees ≠ [])
    (h₁ : OrderOK trees.length o₁) (h₂ : OrderOK trees.length o₂) (h₃ : OrderOK trees.length o₃) :
    ∃ s d, predictMean trees o₁ = some (specMean trees) ∧
      predictStd minVar trees o₂ = some s ∧ s.mean = specMean trees ∧
      predictDis minVar trees o₃ = some d ∧ d.mean = specMean trees := by
  refine ⟨_, _, predictMean_eq trees o₁ hn h₁, predictStd_eq minVar trees o₂ hn h₂, rfl,
    predictDis_eq minVar trees o₃ hn h₃, rfl⟩

/-- **C18 (law of total variance).**  Whenever every floored leaf variance
`max(var_t, min_variance)` is non-negative (in particular whenever `var_t ≥ 0` for
all trees, or `min_variance ≥ 0`), the total predictive variance returned by
`predict(return_std=True)` is the sum of the aleatoric and the epistemic variance
returned by the disentangled prediction; the aleatoric part is the average floored
within-leaf variance and the epistemic part is the variance of the tree means. -/
theorem C18_total (minVar : Rat) (trees : List TreeOut) (o₁ o₂ : List Nat) (hn : trees ≠ [])
    (h₁ : OrderOK trees.length o₁) (h₂ : OrderOK trees.length o₂)
    (hv : ∀ t ∈ trees, 0 ≤ rmax t.2 minVar) :
    ∃ s d, predictStd minVar trees o₁ = some s ∧ predictDis minVar trees o₂ = some d ∧
      s.var = d.al + d.ep ∧ d.al = specAl minVar trees ∧ d.ep = specEp trees := by
  have ha := specAl_nonneg minVar trees hv
  have he := specEp_nonneg trees hn
  refine ⟨_, _, predictStd_eq minVar trees o₁ hn h₁, predictDis_eq minVar trees o₂ hn h₂, ?_,
    clamp0_of_nonneg ha, clamp0_of_nonneg he⟩
  show rmax (specAl minVar trees + specEp trees) 0 = clamp0 (specAl minVar trees) + clamp0 (specEp trees)
  rw [clamp0_of_nonneg ha, clamp0_of_nonneg he, rmax0_of_nonneg (by linarith)]

/-- the two usual ways to satisfy the hypothesis of `C18_total` -/
theorem C18_total_hyp_of_var_nonneg (minVar : Rat) (trees : List TreeOut)
    (h : ∀ t ∈ trees, 0 ≤ t.2) : ∀ t ∈ trees, 0 ≤ rmax t.2 minVar := by
  intro t ht; have := h t ht; unfold rmax; split <;> linarith

theorem C18_total_hyp_of_minVar_nonneg (minVar : Rat) (trees : List TreeOut)
    (h : 0 ≤ minVar) : ∀ t ∈ trees, 0 ≤ rmax t.2 minVar := by
  intro t _; unfold rmax; split <;> linarith

/-- **C18 (non-negativity; the clamps are no-ops).**  All three returned variances are
`≥ 0` for every input (so the standard deviations are defined and non-negative), the
epistemic clamp never fires in exact arithmetic (`mean of squares ≥ square of mean`), and
under the hypothesis of `C18_total` neither do the other two. -/
theorem C18_nonneg (minVar : Rat) (trees : List TreeOut) (o₁ o₂ : List Nat) (hn : trees ≠ [])
    (h₁ : OrderOK trees.length o₁) (h₂ : OrderOK trees.length o₂) :
    ∃ s d, predictStd minVar trees o₁ = some s ∧ predictDis minVar trees o₂ = some d ∧
      0 ≤ s.var ∧ 0 ≤ d.al ∧ 0 ≤ d.ep ∧ d.ep = specEp trees ∧
      ((∀ t ∈ trees, 0 ≤ rmax t.2 minVar) →
        d.al = specAl minVar trees ∧ s.var = specAl minVar trees + specEp trees) := by
  have he := specEp_nonneg trees hn
  refine ⟨_, _, predictStd_eq minVar trees o₁ hn h₁, predictDis_eq minVar trees o₂ hn h₂,
    rmax0_nonneg _, clamp0_nonneg _, clamp0_nonneg _, clamp0_of_nonneg he, ?_⟩
  intro hv
  have ha := specAl_nonneg minVar trees hv
  exact ⟨clamp0_of_nonneg ha, rmax0_of_nonneg (by linarith)⟩

/-- **C18 (independence of the accumulation order, hence of `n_jobs`).** -/
theorem C18_order (minVar : Rat) (trees : List TreeOut) (o o' : List Nat) (hn : trees ≠ [])
    (h : OrderOK trees.length o) (h' : OrderOK trees.length o') :
    predictMean trees o = predictMean trees o' ∧
    predictStd minVar trees o = predictStd minVar trees o' ∧
    predictDis minVar trees o = predictDis minVar trees o' := by
  refine ⟨?_, ?_, ?_⟩
  · rw [predictMean_eq trees o hn h, predictMean_eq trees o' hn h']
  · rw [predictStd_eq minVar trees o hn h, predictStd_eq minVar trees o' hn h']
  · rw [predictDis_eq minVar trees o hn h, predictDis_eq minVar trees o' hn h']

/-! non-vacuity: three trees, one pure leaf (variance 0, floored by `min_variance`), a
negative mean, a non-identity accumulation order -/
example : OrderOK 3 [2, 0, 1] := by unfold OrderOK; decide
example : ([((1 : Rat), (0 : Rat)), (3, 2), (-1, 1/2)] : List TreeOut) ≠ [] := by simp
example : ∀ t ∈ ([((1 : Rat), (0 : Rat)), (3, 2), (-1, 1/2)] : List TreeOut), 0 ≤ rmax t.2 (1/10) :=
  C18_total_hyp_of_minVar_nonneg _ _ (by decide +kernel)
example : predictStd (1/10) [(1, 0), (3, 2), (-1, 1/2)] [2, 0, 1]
    = some ⟨1, 13/15 + 8/3⟩ := by decide +kernel
example : predictDis (1/10) [(1, 0), (3, 2), (-1, 1/2)] [1, 2, 0]
    = some ⟨1, 13/15, 8/3⟩ := by decide +kernel
example : predictMean [(1, 0), (3, 2), (-1, 1/2)] [0, 1, 2] = some 1 := by decide +kernel
/-- without the hypothesis of `C18_total` (negative `min_variance` and a negative leaf
"variance") the decomposition genuinely fails: the hypothesis is needed, not decorative -/
example : predictStd (-5) [(0, -4), (2, -4)] [0, 1] = some ⟨1, 0⟩ ∧
    predictDis (-5) [(0, -4), (2, -4)] [0, 1] = some ⟨1, 0, 1⟩ := by decide +kernel

/-! ## Blocks of trees per job, the vectorised batch, the floor, the `d` acquisitions -/

/-- **C18 (any partition of the trees into blocks).**  However `Parallel(n_jobs=…)` hands the trees
to its workers — `blocks` = the tree indices each worker (or joblib batch) handled, in its own
order — and whether a worker adds tree by tree under the lock (the code: the flat fold over
`blocks.flatten`) or reduces its block locally first (`predict…Blocks`), all three forms return
what the sequential `n_jobs = 1` loop returns, **provided every tree is in exactly one block**. -/
theorem C18_blocks (minVar : Rat) (trees : List TreeOut) (blocks : List (List Nat)) (hn : trees ≠ [])
    (hp : PartitionOK trees.length blocks) :
    predictMeanBlocks trees blocks = predictMean trees (List.range trees.length) ∧
    predictStdBlocks minVar trees blocks = predictStd minVar trees (List.range trees.length) ∧
    predictDisBlocks minVar trees blocks = predictDis minVar trees (List.range trees.length) ∧
    predictMean trees blocks.flatten = predictMean trees (List.range trees.length) ∧
    predictStd minVar trees blocks.flatten = predictStd minVar trees (List.range trees.length) ∧
    predictDis minVar trees blocks.flatten = predictDis minVar trees (List.range trees.length) := by
  have hid : OrderOK trees.length (List.range trees.length) := List.Perm.refl _
  have h := C18_order minVar trees blocks.flatten (List.range trees.length) hn hp hid
  rw [predictMeanBlocks_flat, predictStdBlocks_flat, predictDisBlocks_flat]
  exact ⟨h.1, h.2.1, h.2.2, h.1, h.2.1, h.2.2⟩

/-- the hypothesis is needed: 5 trees over 4 jobs in slices of `5 / 4 = 1`, the remainder dropped
(tree 4 in no block) — mean and variance change; a tree in two blocks likewise -/
example : predictStdBlocks 0 [(1, 0), (1, 0), (1, 0), (1, 0), (6, 0)] [[0], [1], [2], [3]]
      = some ⟨4/5, 4/25⟩ ∧
    predictStd 0 [(1, 0), (1, 0), (1, 0), (1, 0), (6, 0)] [0, 1, 2, 3, 4] = some ⟨2, 4⟩ ∧
    predictStdBlocks 0 [(1, 0), (3, 0)] [[0, 1], [1]] = some ⟨7/2, 0⟩ := by decide +kernel
example : PartitionOK 5 [[3, 0], [], [4, 1, 2]] := by unfold PartitionOK OrderOK; decide
example : predictDisBlocks (1/10) [(1, 0), (3, 2), (-1, 1/2)] [[2], [], [0, 1]]
    = some ⟨1, 13/15, 8/3⟩ := by decide +kernel

/-- **C18 (the batch is handled row by row).**  The code is vectorised over the query rows
(`np.zeros((n_outputs, len(X)))` accumulators, element-wise `+=`).  For every batch in which each tree
answers every row (`hlen`), each of the three forms returns one value per row, and the value at row `j`
is exactly the single-point model on column `j` (what the trees say about query `j`): no row is
dropped, duplicated or mixed with another, whatever the batch length and the accumulation order.
All single-point theorems (`C18_mean`, `C18_total`, `C18_nonneg`, `C18_order`) therefore hold row-wise. -/
theorem C18_batch (minVar : Rat) (nrows : Nat) (trees : List TreeRows) (order o' : List Nat)
    (hn : trees ≠ []) (hlen : ∀ t ∈ trees, t.length = nrows)
    (ho : OrderOK trees.length order) (ho' : OrderOK trees.length o') :
    ∃ ms ss ds, predictMeanBatch nrows trees order = some ms ∧
      predictStdBatch minVar nrows trees order = some ss ∧
      predictDisBatch minVar nrows trees order = some ds ∧
      ms.length = nrows ∧ ss.length = nrows ∧ ds.length = nrows ∧
      ∀ j, j < nrows → ms[j]? = predictMean (col j trees) o' ∧
        ss[j]? = predictStd minVar (col j trees) o' ∧ ds[j]? = predictDis minVar (col j trees) o' := by
  obtain ⟨⟨ms, hm, hml⟩, ⟨ss, hs, hsl⟩, ⟨ds, hd, hdl⟩⟩ := batch_lengths minVar nrows trees order hn hlen
  refine ⟨ms, ss, ds, hm, hs, hd, hml, hsl, hdl, ?_⟩
  intro j hj
  have h1 := predictMeanBatch_row nrows trees order o' hn hlen ho ho' j hj
  have h2 := predictStdBatch_row minVar nrows trees order o' hn hlen ho ho' j hj
  have h3 := predictDisBatch_row minVar nrows trees order o' hn hlen ho ho' j hj
  rw [hm] at h1; rw [hs] at h2; rw [hd] at h3
  exact ⟨h1, h2, h3⟩

/-- consequence: the prediction at a query does not depend on the other rows of the batch -/
theorem C18_batch_row_local (minVar : Rat) (n n' : Nat) (trees trees' : List TreeRows) (o o' : List Nat)
    (hn : trees ≠ []) (hlen : ∀ t ∈ trees, t.length = n) (hlen' : ∀ t ∈ trees', t.length = n')
    (hl : trees'.length = trees.length)
    (ho : OrderOK trees.length o) (ho' : OrderOK trees.length o') (j j' : Nat) (hj : j < n) (hj' : j' < n')
    (hcol : col j trees = col j' trees') :
    (predictStdBatch minVar n trees o).bind (·[j]?) = (predictStdBatch minVar n' trees' o').bind (·[j']?) ∧
    (predictDisBatch minVar n trees o).bind (·[j]?) = (predictDisBatch minVar n' trees' o').bind (·[j']?) := by
  have hn' : trees' ≠ [] := by
    intro h; rw [h] at hl; exact hn (List.eq_nil_of_length_eq_zero hl.symm)
  rw [predictStdBatch_row minVar n trees o o hn hlen ho ho j hj,
    predictDisBatch_row minVar n trees o o hn hlen ho ho j hj,
    predictStdBatch_row minVar n' trees' o' o hn' hlen' (hl ▸ ho') (hl ▸ ho) j' hj',
    predictDisBatch_row minVar n' trees' o' o hn' hlen' (hl ▸ ho') (hl ▸ ho) j' hj', hcol]
  exact ⟨rfl, rfl⟩

/-- non-vacuity: 3 trees, 2 query rows, a non-identity order; row 1 is the earlier single-point example -/
example : predictDisBatch (1/10) 2 [[(5, 1), (1, 0)], [(5, 3), (3, 2)], [(2, 0), (-1, 1/2)]] [1, 2, 0]
    = some [⟨4, 41/30, 2⟩, ⟨1, 13/15, 8/3⟩] := by decide +kernel
example : predictStdBatch (1/10) 2 [[(5, 1), (1, 0)], [(5, 3), (3, 2)], [(2, 0), (-1, 1/2)]] [2, 0, 1]
    = some [⟨4, 41/30 + 2⟩, ⟨1, 13/15 + 8/3⟩] := by decide +kernel
example : col 1 [[(5, 1), (1, 0)], [(5, 3), (3, 2)], [(2, 0), (-1, (1:Rat)/2)]]
    = [((1 : Rat), (0 : Rat)), (3, 2), (-1, 1/2)] := by decide +kernel

/-- **C18 (where the `min_variance` floor sits).**  The floor is applied to each tree's leaf variance
*before* averaging (and before `mean_t²` is added).  Hence, for every forest and every `min_variance`:
the aleatoric and the total variance are at least `min_variance`; the aleatoric part is at least the
plain average of the leaf variances and at least the floored average (`max(avg, min_variance)` — the
value a floor applied *after* averaging would give; strictly larger in the example below); it is
monotone in `min_variance`; it equals `min_variance` when no leaf variance exceeds it and the plain
average when none is below it.  The epistemic part does not see the floor at all (`C18_dacq_epistemic`). -/
theorem C18_floor (minVar : Rat) (trees : List TreeOut) (o₁ o₂ : List Nat) (hn : trees ≠ [])
    (h₁ : OrderOK trees.length o₁) (h₂ : OrderOK trees.length o₂) :
    ∃ s d, predictStd minVar trees o₁ = some s ∧ predictDis minVar trees o₂ = some d ∧
      minVar ≤ d.al ∧ minVar ≤ s.var ∧ rmax (rawAl trees) minVar ≤ d.al ∧
      (∀ m', minVar ≤ m' → ∀ d', predictDis m' trees o₂ = some d' → d.al ≤ d'.al ∧ d.ep = d'.ep) ∧
      ((∀ t ∈ trees, t.2 ≤ minVar) → 0 ≤ minVar → d.al = minVar) ∧
      ((∀ t ∈ trees, minVar ≤ t.2) → 0 ≤ minVar → d.al = rawAl trees) := by
  have he := specEp_nonneg trees hn
  have hm := minVar_le_specAl minVar trees hn
  have hr := rawAl_le_specAl minVar trees hn
  have hc : specAl minVar trees ≤ clamp0 (specAl minVar trees) := by unfold clamp0; split <;> linarith
  refine ⟨_, _, predictStd_eq minVar trees o₁ hn h₁, predictDis_eq minVar trees o₂ hn h₂, ?_, ?_, ?_, ?_, ?_, ?_⟩
  · exact le_trans hm hc
  · have := le_rmax_left (specAl minVar trees + specEp trees) 0
    show minVar ≤ rmax (specAl minVar trees + specEp trees) 0
    linarith
  · show rmax (rawAl trees) minVar ≤ clamp0 (specAl minVar trees)
    unfold rmax; split <;> linarith
  · intro m' hm' d' hd'
    rw [predictDis_eq m' trees o₂ hn h₂] at hd'
    cases hd'
    refine ⟨?_, rfl⟩
    show clamp0 (specAl minVar trees) ≤ clamp0 (specAl m' trees)
    have := specAl_mono trees hm'
    unfold clamp0; split <;> split <;> linarith
  · intro hall h0
    show clamp0 (specAl minVar trees) = minVar
    rw [specAl_of_all_le minVar trees hn hall, clamp0_of_nonneg h0]
  · intro hall h0
    show clamp0 (specAl minVar trees) = rawAl trees
    rw [specAl_of_all_ge minVar trees hall]
    apply clamp0_of_nonneg
    rw [← specAl_of_all_ge minVar trees hall]
    linarith

/-- the placement matters: one pure leaf and one leaf of variance 2, floor 1.  The code's aleatoric
variance is `(max 0 1 + max 2 1)/2 = 3/2`; flooring the average would give `max ((0+2)/2) 1 = 1`. -/
example : predictDis 1 [(0, 0), (0, 2)] [0, 1] = some ⟨0, 3/2, 0⟩ ∧ rmax (rawAl [(0, 0), (0, 2)]) 1 = 1 := by
  decide +kernel

/-- **C18 (the `d` acquisitions read the epistemic part only).**  On a surrogate whose `predict` has
the `disentangled_std` parameter (both forests), `LCBd / EId / PId / MESd` are computed from the mean
and the **epistemic** variance: the variance of the tree means — a function of the tree *means* alone:
leaf variances and `min_variance` do not enter (two forests with the same tree means get the same
moments).  The plain variants, and the `d` variants on a surrogate without that parameter, read the
total variance `aleatoric + epistemic`. -/
theorem C18_dacq_epistemic (minVar : Rat) (trees : List TreeOut) (order : List Nat) (hn : trees ≠ [])
    (ho : OrderOK trees.length order) :
    acqMoments true true minVar trees order = some (specMean trees, specEp trees) ∧
    (∀ minVar' trees' order', trees'.map (·.1) = trees.map (·.1) → OrderOK trees'.length order' →
      acqMoments true true minVar' trees' order' = acqMoments true true minVar trees order) := by
  have hmain : ∀ (mv : Rat) (ts : List TreeOut) (o : List Nat), ts ≠ [] → OrderOK ts.length o →
      acqMoments true true mv ts o = some (specMean ts, specEp ts) := by
    intro mv ts o hts hoo
    simp only [acqMoments, Bool.and_self, if_true, predictDis_eq mv ts o hts hoo, Option.map_some]
    rw [clamp0_of_nonneg (specEp_nonneg ts hts)]
  refine ⟨hmain minVar trees order hn ho, ?_⟩
  intro mv' ts' o' hmap ho'
  have hts' : ts' ≠ [] := by
    intro h; rw [h] at hmap; exact hn (List.map_eq_nil_iff.1 hmap.symm)
  have hlen : ts'.length = trees.length := by
    have := congrArg List.length hmap; simpa using this
  rw [hmain mv' ts' o' hts' ho', hmain minVar trees order hn ho]
  have e1 : specMean ts' = specMean trees := by
    unfold specMean; rw [hmap, hlen]
  have e2 : specEp ts' = specEp trees := by
    have hsq : ts'.map (fun t => t.1 * t.1) = trees.map (fun t => t.1 * t.1) := by
      have := congrArg (List.map (fun x : Rat => x * x)) hmap
      simpa [List.map_map, Function.comp_def] using this
    unfold specEp; rw [hsq, hlen, e1]
  rw [e1, e2]

theorem C18_acq_total (minVar : Rat) (trees : List TreeOut) (order : List Nat) (hn : trees ≠ [])
    (ho : OrderOK trees.length order) (hv : ∀ t ∈ trees, 0 ≤ rmax t.2 minVar) (hasDis : Bool) :
    acqMoments false hasDis minVar trees order
      = some (specMean trees, specAl minVar trees + specEp trees) ∧
    acqMoments true false minVar trees order
      = some (specMean trees, specAl minVar trees + specEp trees) := by
  have ha := specAl_nonneg minVar trees hv
  have he := specEp_nonneg trees hn
  have hpos : 0 ≤ specAl minVar trees + specEp trees := by linarith
  constructor <;>
    simp [acqMoments, predictStd_eq minVar trees order hn ho, rmax0_of_nonneg hpos]

/-- the `d` variants never see more uncertainty than the plain ones (same mean, variance smaller by
exactly the aleatoric part), so with a monotone root and `kappa ≥ 0` (or `"inf"`): `LCB ≤ LCBd` -/
theorem C18_lcbd_ge_lcb (root : Rat → Rat) (hroot : ∀ a b, a ≤ b → root a ≤ root b)
    (kappa : Option Rat) (hk : ∀ k, kappa = some k → 0 ≤ k)
    (minVar : Rat) (trees : List TreeOut) (order : List Nat) (hn : trees ≠ [])
    (ho : OrderOK trees.length order) (hv : ∀ t ∈ trees, 0 ≤ rmax t.2 minVar) :
    ∃ p d, acqMoments false true minVar trees order = some p ∧
      acqMoments true true minVar trees order = some d ∧
      p.1 = d.1 ∧ p.2 = d.2 + specAl minVar trees ∧ d.2 ≤ p.2 ∧ lcb root kappa p ≤ lcb root kappa d := by
  have ha := specAl_nonneg minVar trees hv
  refine ⟨_, _, (C18_acq_total minVar trees order hn ho hv true).1,
    (C18_dacq_epistemic minVar trees order hn ho).1, rfl, by simp only []; ring, by simp only []; linarith, ?_⟩
  have hr := hroot (specEp trees) (specAl minVar trees + specEp trees) (by linarith)
  cases kappa with
  | none => simp only [lcb]; linarith
  | some k =>
    have h0 := hk k rfl
    simp only [lcb]
    have := mul_le_mul_of_nonneg_left hr h0
    linarith

/-- non-vacuity: the same three trees; `LCBd` sees `8/3`, `LCB` sees `13/15 + 8/3`; changing the leaf
variances and the floor changes only the latter -/
example : acqMoments true true (1/10) [(1, 0), (3, 2), (-1, 1/2)] [2, 0, 1] = some (1, 8/3) ∧
    acqMoments true true 7 [(1, 5), (3, 0), (-1, 9)] [0, 1, 2] = some (1, 8/3) ∧
    acqMoments false true (1/10) [(1, 0), (3, 2), (-1, 1/2)] [2, 0, 1] = some (1, 13/15 + 8/3) ∧
    acqMoments true false (1/10) [(1, 0), (3, 2), (-1, 1/2)] [2, 0, 1] = some (1, 13/15 + 8/3) := by
  decide +kernel
example : lcb (fun v => v) none ((1 : Rat), (4 : Rat)) = -4 ∧ lcb (fun v => v) (some 2) (1, 4) = -7 := by
  decide +kernel

/-! ## The environment of the call: the ambient joblib context -/

/-- **C18 (every joblib context, every `n_jobs`).**  The three forms pass `require="sharedmem"` to
`joblib.Parallel`.  Whatever context is active in the caller's code — no context, `parallel_config` /
`parallel_backend` with the threading, loky, multiprocessing or sequential backend, with or without an
`n_jobs` of its own — and whatever the forest's `n_jobs` (`none` = unset), joblib runs the per-tree tasks
on a backend that shares the caller's memory, so the accumulators the caller reduces are the ones the
workers filled: each form returns exactly what the context-free model returns.  All theorems above
(`C18_mean`, `C18_total`, `C18_nonneg`, `C18_order`, `C18_blocks`, `C18_floor`) therefore hold in every
environment, and the results do not depend on the environment. -/
theorem C18_env (cpus : Nat) (a : Ambient) (nJobs : Option Int) (minVar : Rat) (trees : List TreeOut)
    (order : List Nat) :
    (resolve cpus codeHints a nJobs).shared = true ∧ (resolve cpus codeHints a nJobs).backend.sharedmem = true ∧
    predictMeanEnv cpus codeHints a nJobs trees order = predictMean trees order ∧
    predictStdEnv cpus codeHints a nJobs minVar trees order = predictStd minVar trees order ∧
    predictDisEnv cpus codeHints a nJobs minVar trees order = predictDis minVar trees order := by
  obtain ⟨h1, h2⟩ := resolve_code_shared cpus a nJobs
  refine ⟨h1, h2, ?_, ?_, ?_⟩
  · simp [predictMeanEnv, predictMean, accMeanEnv, h1]
  · simp [predictStdEnv, predictStd, accStdEnv, h1]
  · simp [predictDisEnv, predictDis, accDisEnv, h1]

/-- consequence: two calls in different contexts, with different `n_jobs` and accumulation orders, agree -/
theorem C18_env_indep (cpus cpus' : Nat) (a a' : Ambient) (n n' : Option Int) (minVar : Rat)
    (trees : List TreeOut) (o o' : List Nat) (hn : trees ≠ []) (h : OrderOK trees.length o)
    (h' : OrderOK trees.length o') :
    predictMeanEnv cpus codeHints a n trees o = predictMeanEnv cpus' codeHints a' n' trees o' ∧
    predictStdEnv cpus codeHints a n minVar trees o = predictStdEnv cpus' codeHints a' n' minVar trees o' ∧
    predictDisEnv cpus codeHints a n minVar trees o = predictDisEnv cpus' codeHints a' n' minVar trees o' := by
  obtain ⟨_, _, e1, e2, e3⟩ := C18_env cpus a n minVar trees o
  obtain ⟨_, _, e1', e2', e3'⟩ := C18_env cpus' a' n' minVar trees o'
  rw [e1, e2, e3, e1', e2', e3']
  exact C18_order minVar trees o o' hn h h'

/-- **`prefer="threads"` is only a hint** (why `require="sharedmem"` is load-bearing): a call that merely
*prefers* threads loses the workers' writes exactly when the caller's context names a process backend
and more than one worker is in effect (`n_jobs` of the call, else of the context, else 1; negative
values counted from the number of CPUs). -/
theorem C18_env_prefer_is_only_a_hint (cpus : Nat) (a : Ambient) (nJobs : Option Int) :
    (resolve cpus ⟨true, false⟩ a nJobs).shared = false ↔
      (a.backend = some .loky ∨ a.backend = some .multiprocessing) ∧
        effJobs cpus (nJobs.getD (a.nJobs.getD 1)) ≠ 1 := by
  rcases a with ⟨_ | b, nj⟩
  · simp [resolve, Backend.sharedmem, Backend.usesThreads]
  · cases b <;> cases nJobs <;> simp [resolve, Backend.sharedmem, Backend.usesThreads]

/-- non-vacuity (16 CPUs): inside `parallel_config(backend="loky")` with `n_jobs = 4` the code's call runs on 4 threads;
inside `parallel_backend("loky", n_jobs=4)` with `n_jobs` unset it runs sequentially in the caller (the
context's `n_jobs` is dropped together with its backend); a threading context's `n_jobs` is honoured; the
same forest asked with a mere preference inside the loky context reduces untouched zeros -/
example : resolve 16 codeHints ⟨some .loky, none⟩ (some 4) = ⟨.threading, 4, false, true⟩ ∧
    resolve 16 codeHints ⟨some .loky, some 4⟩ none = ⟨.threading, 1, true, true⟩ ∧
    resolve 16 codeHints ⟨some .threading, some 4⟩ none = ⟨.threading, 4, false, true⟩ ∧
    resolve 16 codeHints ⟨some .threading, some (-1)⟩ none = ⟨.threading, 16, false, true⟩ ∧
    resolve 16 codeHints ⟨some .threading, some (-1)⟩ (some (-2)) = ⟨.threading, 15, false, true⟩ ∧
    resolve 1 codeHints ⟨some .threading, some (-1)⟩ (some (-2)) = ⟨.threading, 1, true, true⟩ ∧
    resolve 16 codeHints ⟨some .sequential, some 4⟩ (some 2) = ⟨.sequential, 1, true, true⟩ ∧
    resolve 16 codeHints ⟨none, some 2⟩ none = ⟨.threading, 1, true, true⟩ ∧
    resolve 16 ⟨true, false⟩ ⟨none, some 2⟩ none = ⟨.threading, 1, true, true⟩ ∧
    resolve 16 ⟨true, false⟩ ⟨some .loky, none⟩ (some 4) = ⟨.loky, 4, false, false⟩ ∧
    resolve 16 ⟨true, false⟩ ⟨some .multiprocessing, some (-1)⟩ none = ⟨.multiprocessing, 16, false, false⟩ ∧
    resolve 16 ⟨true, false⟩ ⟨some .loky, some 4⟩ (some 1) = ⟨.loky, 1, true, true⟩ := by decide +kernel
example : predictStdEnv 16 codeHints ⟨some .loky, none⟩ (some 4) (1/10) [(1, 0), (3, 2), (-1, 1/2)] [2, 0, 1]
      = some ⟨1, 13/15 + 8/3⟩ ∧
    predictStdEnv 16 ⟨true, false⟩ ⟨some .loky, none⟩ (some 4) (1/10) [(1, 0), (3, 2), (-1, 1/2)] [2, 0, 1]
      = some ⟨0, 0⟩ ∧
    predictDisEnv 16 ⟨true, false⟩ ⟨some .multiprocessing, some 2⟩ none (1/10) [(1, 0), (3, 2), (-1, 1/2)] [0, 1, 2]
      = some ⟨0, 0, 0⟩ ∧
    predictMeanEnv 16 ⟨true, false⟩ ⟨some .loky, none⟩ (some 1) [(1, 0), (3, 2), (-1, 1/2)] [0, 1, 2] = some 1 := by
  decide +kernel

end DH.Forest
