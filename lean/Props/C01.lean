import Proofs.EvaluatorPay
import Proofs.EvaluatorSim
import Proofs.EvaluatorTrace

/-!
# C01 — Evaluator delivers every submitted job exactly once

Property theorems only.  Model: `Model/Evaluator.lean` (the code after
`fix: Evaluator.close() forgets its cancelled tasks …`); helper lemmas: `Proofs/Evaluator*.lean`.

All theorems are about **every** state reachable from a new evaluator by **any** sequence of
`submit / gather ALL / gather BATCH k / close / dump` calls (`Reach`, `Trace`: no bound on the number
of calls or jobs), for **every** completion environment that satisfies the asyncio contract `opOk`
(`EnvOK`: `asyncio.wait` reports duplicate-free subsets of the tasks it was given, whose jobs had got a
worker slot; `ALL_COMPLETED` reports all of them), every run-function `p.f` and both CSV formats.
`delivered` is the history variable "every job ever handed back, and how".
-/

namespace DH.Evaluator

variable {C O : Type}

theorem via_unique {l : List (Nat × Via)} (h : (l.map (·.1)).Nodup) {i : Nat} {a b : Via}
    (ha : (i, a) ∈ l) (hb : (i, b) ∈ l) : a = b := by
  have := eq_of_nodup_map (·.1) h ha hb rfl
  exact (Prod.mk.injEq _ _ _ _ ▸ this).2

/-- **C01 (exactly once).**  At every reachable state the ids ever created (`< nextId`) are
partitioned into the jobs still in flight and the jobs delivered; no job is delivered twice, and
never both by a gather and by close. -/
theorem C01_exactly_once (p : Params C O) {s : Ev C O} (h : Reach p s) :
    (s.delivered.map (·.1)).Nodup ∧ (runningIds s).Nodup ∧
    (∀ i, i < s.nextId ↔ (i ∈ runningIds s ∨ i ∈ s.delivered.map (·.1))) ∧
    (∀ i, i ∈ runningIds s → i ∉ s.delivered.map (·.1)) ∧
    (∀ i, ¬ ((i, Via.gather) ∈ s.delivered ∧ (i, Via.close) ∈ s.delivered)) := by
  obtain ⟨hi, _, _⟩ := reach_good h
  have hnd := List.nodup_append.1 hi.nodup
  have hrun : runningIds s = s.submitted := hi.runSub
  refine ⟨hnd.2.1, hrun ▸ hnd.1, ?_, ?_, ?_⟩
  · intro i
    rw [hrun, ← List.mem_append, hi.part.mem_iff]
    simp
  · intro i hr; exact hi.sub_not_del (hrun ▸ hr)
  · rintro i ⟨h1, h2⟩
    exact absurd (via_unique hnd.2.1 h1 h2) (by decide)

/-- **C01 (never lost / no spurious exception).**  Under the environment contract the only call
that raises is a sized `gather("BATCH", k ≥ 1)` while nothing is in flight (on a fresh evaluator and
after close alike); `submit`, `gather("ALL")`, `close`, `dump` never raise, and the internal errors
(`list.remove` of an absent task, waiting on a task of a closed loop) are unreachable. -/
theorem C01_no_spurious_error (p : Params C O) {s : Ev C O} (h : Reach p s) (op : Op C)
    (hok : opOk s op = true) (e : Err) (he : (step p s op).2 = .error e) :
    ∃ k st ws, op = .gather false k st ws ∧ k ≠ 0 ∧ s.running = [] ∧
      ((e = .noLoop ∧ s.loopOpen = false) ∨ (e = .noJobs ∧ s.loopOpen = true)) := by
  obtain ⟨hi, _, _⟩ := reach_good h
  cases op with
  | submit cfgs => simp [step] at he
  | dump fl =>
    simp only [step] at he
    rcases dump_shape p s fl with hd | ⟨_, hd⟩ <;> rw [hd] at he <;> simp at he
  | close fin =>
    simp only [step] at he
    rcases close_spec (p := p) hi fin hok with ⟨hc, _⟩ | ⟨hc, _⟩ | ⟨s1, js, _, _, _, _, hc⟩ <;>
      rw [hc] at he <;> simp at he
  | gather all k st ws =>
    simp only [step] at he
    rcases gather_spec (p := p) hi all k st ws hok with ⟨hg, _⟩ | ⟨hg, h0, hl⟩ | ⟨hg, h0, hr⟩ |
      ⟨done, s', js, hg, _⟩ <;> rw [hg] at he
    · simp at he
    · have hr : s.running = [] := by
        by_cases hr : s.running = []
        · exact hr
        · rw [hi.loop hr] at hl; simp at hl
      cases all with
      | true => simp [hr] at h0
      | false =>
        simp only [Bool.false_eq_true, if_false] at h0
        simp only [Out.error.injEq] at he
        exact ⟨k, st, ws, rfl, h0, hr, Or.inl ⟨he.symm, hl⟩⟩
    · cases all with
      | true => simp [hr] at h0
      | false =>
        simp only [Bool.false_eq_true, if_false] at h0
        simp only [Out.error.injEq] at he
        have hl : s.loopOpen = true := by
          by_cases hl : s.loopOpen = true
          · exact hl
          · exfalso
            have hl' : s.loopOpen = false := by simpa using hl
            simp [gather, h0, hl'] at hg
        exact ⟨k, st, ws, rfl, h0, hr, Or.inr ⟨he.symm, hl⟩⟩
    · simp at he

/-- **C01 (payload of a gather).**  Every job handed back by a gather was in flight, is recorded
as gather-delivered, is `DONE`, carries the value the run-function returns for its configuration,
and its configuration is the one at its position in the sequence of all configurations ever
submitted (`cs`). -/
theorem C01_payload (p : Params C O) {s : Ev C O} {cs : List C} (h : Trace p s cs) (all : Bool)
    (k : Nat) (st : List Nat) (ws : List (List Nat)) (hok : opOk s (.gather all k st ws) = true)
    (js : List (JobRec C O)) (hjs : (step p s (.gather all k st ws)).2 = .jobs js) :
    (js.map (·.id)).Nodup ∧
    ∀ j ∈ js, j.id ∈ runningIds s ∧ (j.id, Via.gather) ∈ (step p s (.gather all k st ws)).1.delivered ∧
      j.status = .done ∧ j.out = some (p.f j.cfg) ∧ cs[j.id]? = some j.cfg := by
  obtain ⟨hi, _, _⟩ := reach_good h.reach
  have hnext : Trace p (step p s (.gather all k st ws)).1 (cs ++ submittedBy (.gather all k st ws)) :=
    .step _ h hok
  simp only [submittedBy, List.append_nil] at hnext
  simp only [step] at hjs hnext ⊢
  rcases gather_spec (p := p) hi all k st ws hok with ⟨hg, _⟩ | ⟨hg, _⟩ | ⟨hg, _⟩ |
    ⟨done, s', js', hg, _, hnd, _, _, _, hsubm, _, many, _⟩ <;> rw [hg] at hjs hnext ⊢
  · simp only [Out.jobs.injEq] at hjs; subst hjs; simp
  · simp at hjs
  · simp at hjs
  · simp only [Out.jobs.injEq] at hjs; subst hjs
    refine ⟨many.ids ▸ hnd, fun j hj => ?_⟩
    have hjd : j.id ∈ done := many.ids ▸ List.mem_map_of_mem hj
    obtain ⟨hst', hout, hmem⟩ := many.res j hj
    refine ⟨?_, ?_, hst', hout, hnext.cfg_at hmem⟩
    · rw [show runningIds s = s.submitted from hi.runSub]; exact hsubm j.id hjd
    · rw [many.del]; simp [hjd]

/-- **C01 (what close records).**  `close` never raises; afterwards nothing is in flight and the
loop is gone; every job that was in flight is recorded as close-delivered exactly as the property
says: `DONE` with the run-function's value if its task had finished (`i ∈ fin`), `CANCELLED`
otherwise (with `"F_CANCELLED"` as output in the HPO format); its configuration is the submitted one. -/
theorem C01_close_record (p : Params C O) {s : Ev C O} {cs : List C} (h : Trace p s cs)
    (fin : List Nat) (hok : opOk s (.close fin) = true) :
    (step p s (.close fin)).2 = .unit ∧
    (step p s (.close fin)).1.running = [] ∧ (step p s (.close fin)).1.submitted = [] ∧
    (step p s (.close fin)).1.loopOpen = false ∧
    ∀ i ∈ runningIds s, (i, Via.close) ∈ (step p s (.close fin)).1.delivered ∧
      ∃ j ∈ (step p s (.close fin)).1.jobs, j.id = i ∧ cs[i]? = some j.cfg ∧
        (if i ∈ fin then j.status = .done ∧ j.out = some (p.f j.cfg)
         else j.status = .cancelled ∧ j.out = if p.hpo then some p.cancelOut else none) := by
  obtain ⟨hi, hp, _⟩ := reach_good h.reach
  have hnext : Trace p (step p s (.close fin)).1 (cs ++ submittedBy (.close fin)) := .step _ h hok
  simp only [submittedBy, List.append_nil] at hnext
  have hrun : runningIds s = s.submitted := hi.runSub
  simp only [step] at hnext ⊢
  rcases close_spec (p := p) hi fin hok with ⟨hc, hl⟩ | ⟨hc, _, hr⟩ | ⟨s1, js, _, _, _, many, hc⟩ <;>
    rw [hc] at hnext ⊢
  · have hr : s.running = [] := by
      by_cases hr : s.running = []
      · exact hr
      · rw [hi.loop hr] at hl; simp at hl
    have hs : s.submitted = [] := by rw [← hi.runSub, hr]; rfl
    refine ⟨rfl, hr, hs, hl, ?_⟩
    intro i hi'; rw [hrun, hs] at hi'; simp at hi'
  · have hs : s.submitted = [] := by rw [← hi.runSub, hr]; rfl
    refine ⟨rfl, hr, hs, rfl, ?_⟩
    intro i hi'; rw [hrun, hs] at hi'; simp at hi'
  · refine ⟨rfl, rfl, rfl, rfl, ?_⟩
    intro i hi'
    rw [hrun] at hi'
    have hp1 : Pay p s1 := Pay.manyStep hp many
    by_cases hif : i ∈ fin
    · simp only [hif, if_true]
      constructor
      · show (i, Via.close) ∈ s1.delivered ++ _
        rw [many.del]; simp [hif]
      · rw [← many.ids] at hif
        obtain ⟨j, hj, hji⟩ := List.mem_map.1 hif
        obtain ⟨hst, hout, hmem⟩ := many.res j hj
        have hmem' : j ∈ (cancelActive p s1).jobs := by
          simp only [cancelActive, List.mem_map]
          exact ⟨j, hmem, by simp [active, hst]⟩
        exact ⟨j, hmem', hji, hji ▸ hnext.cfg_at hmem', hst, hout⟩
    · simp only [hif, if_false]
      have hs1 : i ∈ s1.submitted := (many.sub i).2 ⟨hi', hif⟩
      have hact : i ∈ activeIds s1 := many.inv.activeIds_perm.mem_iff.2 hs1
      constructor
      · show (i, Via.close) ∈ s1.delivered ++ _
        exact List.mem_append_right _ (List.mem_map.2 ⟨i, hact, rfl⟩)
      · simp only [activeIds, List.mem_map, List.mem_filter] at hact
        obtain ⟨y, ⟨hy, hya⟩, hyi⟩ := hact
        have hmem' : ({ y with status := .cancelled, out := if p.hpo then some p.cancelOut else y.out } :
            JobRec C O) ∈ (cancelActive p s1).jobs := by
          simp only [cancelActive, List.mem_map]
          exact ⟨y, hy, by simp [hya]⟩
        refine ⟨_, hmem', hyi, ?_, rfl, ?_⟩
        · have := hnext.cfg_at hmem'
          simpa [hyi] using this
        · simp [hp1.actOut y hy hya]

/-- **C01 (batch size).**  A gather that returns hands back at least `min(k, running)` jobs
(`k` = everything for `"ALL"`), and an `"ALL"` gather leaves nothing running. -/
theorem C01_batch_size (p : Params C O) {s : Ev C O} (h : Reach p s) (all : Bool) (k : Nat)
    (st : List Nat) (ws : List (List Nat)) (hok : opOk s (.gather all k st ws) = true)
    (js : List (JobRec C O)) (hjs : (step p s (.gather all k st ws)).2 = .jobs js) :
    min (if all then s.running.length else k) s.running.length ≤ js.length ∧
    (all = true → (step p s (.gather all k st ws)).1.running = []) := by
  obtain ⟨hi, _, _⟩ := reach_good h
  simp only [step] at hjs ⊢
  rcases gather_spec (p := p) hi all k st ws hok with ⟨hg, h0⟩ | ⟨hg, _⟩ | ⟨hg, _⟩ |
    ⟨done, s', js', hg, _, _, _, _, _, _, _, many, hlen, hall⟩ <;> rw [hg] at hjs ⊢
  · simp only [Out.jobs.injEq] at hjs; subst hjs
    refine ⟨by simp [h0], fun ha => ?_⟩
    subst ha
    simp only [if_true] at h0
    exact List.length_eq_zero_iff.1 h0
  · simp at hjs
  · simp at hjs
  · simp only [Out.jobs.injEq] at hjs; subst hjs
    have hl : js'.length = done.length := by rw [← many.ids]; simp
    refine ⟨hl ▸ hlen, fun ha => ?_⟩
    have hsub : s'.submitted = [] := by
      apply List.eq_nil_iff_forall_not_mem.2
      intro i hi'
      have := (many.sub i).1 hi'
      exact this.2 (hall ha i this.1)
    have := many.inv.runSub
    rw [hsub] at this
    exact List.map_eq_nil_iff.1 this

/-- **C01 (counters).**  `num_jobs_submitted` is the number of configurations ever submitted,
`num_jobs_gathered` the number of jobs ever delivered (by a gather or by close), and every
submitted job is either in flight or counted as gathered. -/
theorem C01_counts (p : Params C O) {s : Ev C O} {cs : List C} (h : Trace p s cs) :
    numSubmitted s = cs.length ∧ numGathered s = s.delivered.length ∧
    numSubmitted s = s.running.length + numGathered s := by
  obtain ⟨hi, _, hh⟩ := reach_good h.reach
  have h1 : s.jobs.length = cs.length := by rw [← h.cfgs]; simp
  have h2 : s.jobs.length = s.nextId := by
    have := congrArg List.length hi.ids; simpa using this
  have h3 : s.gathered.length = s.delivered.length := by rw [hh.gath]; simp
  have h4 : s.submitted.length + s.delivered.length = s.nextId := by
    have := hi.part.length_eq; simpa using this
  have h5 : s.running.length = s.submitted.length := by rw [← hi.runSub]; simp
  simp only [numSubmitted, numGathered]
  omega

/-- **C01 (dumped once).**  The rows ever written by `dump_jobs_done_to_csv` together with the
jobs still waiting in `jobs_done` are exactly the delivered jobs, each once; a dump writes nothing
(and keeps `jobs_done`) or writes exactly the waiting jobs, in order, and empties `jobs_done`. -/
theorem C01_dump_once (p : Params C O) {s : Ev C O} (h : Reach p s) :
    (s.dumped ++ s.jobsDone).Perm (s.delivered.map (·.1)) ∧ (s.dumped ++ s.jobsDone).Nodup ∧
    ∀ fl l, (step p s (.dump fl)).2 = .rows l →
      (l = [] ∧ (step p s (.dump fl)).1 = s) ∨
      (l.map (·.id) = s.jobsDone ∧ (step p s (.dump fl)).1.jobsDone = [] ∧
        (step p s (.dump fl)).1.dumped = s.dumped ++ s.jobsDone) := by
  obtain ⟨hi, _, hh⟩ := reach_good h
  have hnd : (s.delivered.map (·.1)).Nodup := (List.nodup_append.1 hi.nodup).2.1
  refine ⟨hh.dumpOnce, hh.dumpOnce.nodup_iff.2 hnd, ?_⟩
  intro fl l hl
  simp only [step] at hl ⊢
  rcases dump_shape p s fl with hd | ⟨_, hd⟩ <;> rw [hd] at hl ⊢
  · simp only [Out.rows.injEq] at hl; exact Or.inl ⟨hl.symm, rfl⟩
  · simp only [Out.rows.injEq] at hl
    right
    refine ⟨?_, rfl, rfl⟩
    rw [← hl]
    apply lookupAll_ids hi
    intro i hi'
    apply hi.del_lt
    exact hh.dumpOnce.subset (List.mem_append_right _ hi')

/-- **C01 (no foreign jobs).**  With one evaluator per storage search `gather_other_jobs_done`
finds nothing: every id of the storage is in flight or gathered — `gather` returns a plain list. -/
theorem C01_no_foreign_jobs (p : Params C O) {s : Ev C O} (h : Reach p s) : otherIds s = [] := by
  obtain ⟨hi, _, hh⟩ := reach_good h
  simp only [otherIds, List.filter_eq_nil_iff, List.mem_range, Bool.not_eq_true', Bool.not_eq_false,
    List.contains_eq_mem, decide_eq_true_eq]
  intro i hlt
  rw [hh.gath, hi.part.mem_iff]
  simpa using hlt

/-- **C01 (usable after close).**  After `close` nothing is in flight, and from then on the
evaluator answers every further sequence of `submit / gather / close` calls (any length, any
admissible environment) with exactly the outputs — returned jobs with ids, configurations, outputs,
statuses; errors — of a brand-new evaluator attached to the same storage search (`freshAt`): a
simulation, not merely "does not raise".  (`dump` is excluded: the used evaluator still owes the CSV
the jobs recorded by close; that is `C01_dump_once`.) -/
theorem C01_usable_after_close (p : Params C O) {s : Ev C O} (h : Reach p s) (fin : List Nat)
    (hok : opOk s (.close fin) = true) :
    (step p s (.close fin)).1.running = [] ∧ (step p s (.close fin)).1.submitted = [] ∧
    (step p s (.close fin)).1.loopOpen = false ∧
    ∀ ops, opsOk p (step p s (.close fin)).1 ops = true → (∀ op ∈ ops, isDump op = false) →
      (run p (step p s (.close fin)).1 ops).2 =
        (run p (freshAt (step p s (.close fin)).1.nextId (step p s (.close fin)).1.loopGen) ops).2 := by
  have hr' : Reach p (step p s (.close fin)).1 := .step _ h hok
  obtain ⟨hi, _, _⟩ := reach_good h
  obtain ⟨hi', _, _⟩ := reach_good hr'
  have hclosed : (step p s (.close fin)).1.running = [] ∧ (step p s (.close fin)).1.submitted = [] ∧
      (step p s (.close fin)).1.loopOpen = false := by
    simp only [step]
    rcases close_spec (p := p) hi fin hok with ⟨hc, hl⟩ | ⟨hc, _, hr⟩ | ⟨s1, js, _, _, _, _, hc⟩ <;> rw [hc]
    · have hr : s.running = [] := by
        by_cases hr : s.running = []
        · exact hr
        · rw [hi.loop hr] at hl; simp at hl
      exact ⟨hr, by rw [← hi.runSub, hr]; rfl, hl⟩
    · exact ⟨hr, by rw [← hi.runSub, hr]; rfl, rfl⟩
    · exact ⟨rfl, rfl, rfl⟩
  refine ⟨hclosed.1, hclosed.2.1, hclosed.2.2, fun ops hops hnd => ?_⟩
  generalize (step p s (.close fin)).1 = s' at *
  have hsim : Sim s'.nextId s'.jobs s' (freshAt s'.nextId s'.loopGen) := by
    refine ⟨rfl, hclosed.1, hclosed.2.1, rfl, hclosed.2.2, by simp [freshAt, init], ?_, ?_, Nat.le_refl _⟩
    · intro j hj
      refine ⟨hi'.job_lt hj, ?_⟩
      have := hi'.act j hj
      rw [hclosed.2.1] at this
      simpa using this
    · intro i hi''; rw [hclosed.2.1] at hi''; simp at hi''
  exact sim_run ops hr' hsim hops hnd

/-- **C01 (verified checker).**  The executable checker that the driver runs on the trace observed
on the REAL evaluator (calls, returned job records, exception kinds, the two counters, `jobs_done`,
dumped row ids) decides exactly the property stated over observable traces (`TraceSpec`:
exactly-once, payload identity, batch size, counters, nothing lost at close, only legitimate
refusals — hence usable after close —, each delivered job dumped once). -/
theorem C01_checker [DecidableEq C] [DecidableEq O] (p : Params C O) (t : List (TStep C O)) :
    checkTrace p t = true ↔ TraceSpec p t :=
  checkTraceFrom_iff p t Acc.init

/-- **C01 (the model's traces satisfy the trace property).**  For every call history and every
completion environment satisfying the asyncio contract, what an observer sees of the model's run
satisfies `TraceSpec` — the property over traces is a consequence of the theorems above, and the
checker accepts every behaviour the model can show. -/
theorem C01_model_traces_ok (p : Params C O) (ops : List (Op C)) (hok : opsOk p init ops = true) :
    TraceSpec p (traceOf p init ops) :=
  traceOf_ok ops .init ⟨rfl, rfl, rfl⟩ hok

/-! ## Non-vacuity: a concrete reachable history (HPO format, batches, a close that records one
finished and one cancelled job, reuse after close, held-back and flushed dumps) -/

def pEx : Params Nat Nat :=
  { f := fun c => c + 100, hpo := true, cancelOut := 0, isStr := fun o => o == 0 }

def opsEx : List (Op Nat) :=
  [.submit [7, 8, 9, 10], .gather false 2 [0, 1, 2] [[1], [2, 1]], .dump false, .close [0],
   .submit [11], .gather true 0 [4] [[4]], .dump true]

example : opsOk pEx init opsEx = true := by decide +kernel
example : Reach pEx (run pEx init opsEx).1 := reach_run opsEx .init (by decide +kernel)
example : (run pEx init opsEx).1.delivered =
    [(2, .gather), (1, .gather), (0, .close), (3, .close), (4, .gather)] := by decide +kernel
example : (run pEx init opsEx).2 =
    [.unit, .jobs [⟨2, 9, some 109, .done⟩, ⟨1, 8, some 108, .done⟩],
     .rows [⟨2, 9, some 109, .done⟩, ⟨1, 8, some 108, .done⟩], .unit, .unit,
     .jobs [⟨4, 11, some 111, .done⟩],
     .rows [⟨0, 7, some 107, .done⟩, ⟨3, 10, some 0, .cancelled⟩, ⟨4, 11, some 111, .done⟩]] := by
  decide +kernel
example : checkTrace pEx (traceOf pEx init opsEx) = true := by decide +kernel
/-- the checker rejects a trace in which job 1 is handed back a second time -/
example : checkTrace pEx
    [⟨.submit [7, 8], .unit, 2, 0, []⟩,
     ⟨.gather false 1, .jobs [⟨1, 8, some 108, .done⟩], 2, 1, [⟨1, 8, some 108, .done⟩]⟩,
     ⟨.gather false 1, .jobs [⟨1, 8, some 108, .done⟩], 2, 2,
       [⟨1, 8, some 108, .done⟩, ⟨1, 8, some 108, .done⟩]⟩] = false := by decide +kernel
/-- … and one in which close loses job 0 -/
example : checkTrace pEx
    [⟨.submit [7, 8], .unit, 2, 0, []⟩,
     ⟨.close, .unit, 2, 1, [⟨1, 8, some 0, .cancelled⟩]⟩] = false := by decide +kernel
/-- a sized gather with nothing in flight is the one legitimate refusal (`C01_no_spurious_error`) -/
example : (run pEx init [.gather false 1 [] []]).2 = [.error .noLoop] := by decide +kernel
example : (run pEx init [.submit [1], .gather true 0 [0] [[0]], .gather false 1 [] []]).2.getLast? =
    some (.error .noJobs) := by decide +kernel

/-! ## Regression witnesses: the pinned tree's `close` (`stepPre`) violates the property,
the repaired one does not (DESIGN section 6 item 1; replayed on the real code from `corpus/C01`) -/

/-- pinned tree: `submit 4; gather BATCH 1; close; submit 2; gather BATCH 1` raises
`RuntimeError: Event loop is closed` -/
example : (runWith (stepPre pEx) init
    [.submit [1, 2, 3, 4], .gather false 1 [0, 1] [[0]], .close [], .submit [5, 6],
     .gather false 1 [4, 5] [[4]]]).2.getLast? = some (.error .loopClosed) := by decide +kernel
/-- repaired: the same history hands back job 4 -/
example : (run pEx init
    [.submit [1, 2, 3, 4], .gather false 1 [0, 1] [[0]], .close [], .submit [5, 6],
     .gather false 1 [4, 5] [[4]]]).2.getLast? = some (.jobs [⟨4, 5, some 105, .done⟩]) := by
  decide +kernel
/-- pinned tree: `submit 1; close; gather ALL` raises (`AttributeError` on `self.loop = None`)
because the cancelled task is still counted as running; repaired: returns `[]` -/
example : (runWith (stepPre pEx) init [.submit [1], .close [], .gather true 0 [] []]).2.getLast? =
    some (.error .noLoop) := by decide +kernel
example : (run pEx init [.submit [1], .close [], .gather true 0 [] []]).2.getLast? =
    some (.jobs []) := by decide +kernel
/-- pinned tree: `submit 1; close; submit 1; close` raises in the second close -/
example : (runWith (stepPre pEx) init [.submit [1], .close [], .submit [2], .close []]).2.getLast? =
    some (.error .loopClosed) := by decide +kernel

end DH.Evaluator
