import Proofs.EvaluatorPay
import Proofs.EvaluatorSim
import Proofs.EvaluatorTrace
import Proofs.EvaluatorFacts
import Proofs.EvaluatorMultiThm
import Proofs.EvaluatorMultiFacts
import Proofs.EvaluatorMultiTrace
import Proofs.EvaluatorMultiSearch
import Model.EvaluatorMultiTrace

/-!
# C01 — Evaluator delivers every submitted job exactly once

Property theorems only.  Model: `Model/Evaluator.lean` (the code after
`fix: Evaluator.close() forgets its cancelled tasks …`); helper lemmas: `Proofs/Evaluator*.lean`.

All theorems are about **every** state reachable from a new evaluator by **any** sequence of
`submit / gather ALL / gather BATCH k / close / dump` calls (`Reach`, `Trace`: no bound on the number
of calls or jobs), for **every** completion environment that satisfies the asyncio contract `opOk`
(`EnvOK`: `asyncio.wait` reports duplicate-free subsets of the tasks it was given, whose jobs had got a
worker slot; `ALL_COMPLETED` reports all of them), every run-function `p.f` and both CSV formats.
`delivered` is the history variable "every job ever handed back, and how".
-/

namespace DH.Evaluator

variable {C O : Type}

/-- **C01 (exactly once).**  At every reachable state the ids ever created (`< nextId`) are
partitioned into the jobs still in flight and the jobs delivered; no job is delivered twice, and
never both by a gather and by close. -/
theorem C01_exactly_once (p : Params C O) {s : Ev C O} (h : Reach p s) :
    (s.delivered.map (·.1)).Nodup ∧ (runningIds s).Nodup ∧
    (∀ i, i < s.nextId ↔ (i ∈ runningIds s ∨ i ∈ s.delivered.map (·.1))) ∧
    (∀ i, i ∈ runningIds s → i ∉ s.delivered.map (·.1)) ∧
    (∀ i, ¬ ((i, Via.gather) ∈ s.delivered ∧ (i, Via.close) ∈ s.delivered)) := by
  obtain ⟨hi, _, _⟩ := reach_good h
  have hnd := List.nodup_append.1 hi.nodup
  have hrun : runningIds s = s.submitted := hi.runSub
  refine ⟨hnd.2.1, hrun ▸ hnd.1, ?_, ?_, ?_⟩
  · intro i
    rw [hrun, ← List.mem_append, hi.part.mem_iff]
    simp
  · intro i hr; exact hi.sub_not_del (hrun ▸ hr)
  · rintro i ⟨h1, h2⟩
    exact absurd (via_unique hnd.2.1 h1 h2) (by decide)

/-- **C01 (never lost / no spurious exception).**  Under the environment contract the only call
that raises is a sized `gather("BATCH", k ≥ 1)` while nothing is in flight (on a fresh evaluator and
after close alike); `submit`, `gather("ALL")`, `close`, `dump` never raise, and the internal errors
(`list.remove` of an absent task, waiting on a task of a closed loop) are unreachable. -/
theorem C01_no_spurious_error (p : Params C O) {s : Ev C O} (h : Reach p s) (op : Op C)
    (hok : opOk s op = true) (e : Err) (he : (step p s op).2 = .error e) :
    ∃ k st ws, op = .gather false k st ws ∧ k ≠ 0 ∧ s.running = [] ∧
      ((e = .noLoop ∧ s.loopOpen = false) ∨ (e = .noJobs ∧ s.loopOpen = true)) :=
  fact_no_spurious_error p h op hok e he

/-- **C01 (payload of a gather).**  Every job handed back by a gather was in flight, is recorded
as gather-delivered, is `DONE`, carries the value the run-function returns for its configuration,
and its configuration is the one at its position in the sequence of all configurations ever
submitted (`cs`). -/
theorem C01_payload (p : Params C O) {s : Ev C O} {cs : List C} (h : Trace p s cs) (all : Bool)
    (k : Nat) (st : List Nat) (ws : List (List Nat)) (hok : opOk s (.gather all k st ws) = true)
    (js : List (JobRec C O)) (hjs : (step p s (.gather all k st ws)).2 = .jobs js) :
    (js.map (·.id)).Nodup ∧
    ∀ j ∈ js, j.id ∈ runningIds s ∧ (j.id, Via.gather) ∈ (step p s (.gather all k st ws)).1.delivered ∧
      j.status = .done ∧ j.out = some (p.f j.cfg) ∧ cs[j.id]? = some j.cfg :=
  fact_payload p h all k st ws hok js hjs

/-- **C01 (what close records).**  `close` never raises; afterwards nothing is in flight and the
loop is gone; every job that was in flight is recorded as close-delivered exactly as the property
says: `DONE` with the run-function's value if its task had finished (`i ∈ fin`), `CANCELLED`
otherwise (with `"F_CANCELLED"` as output in the HPO format); its configuration is the submitted one. -/
theorem C01_close_record (p : Params C O) {s : Ev C O} {cs : List C} (h : Trace p s cs)
    (fin : List Nat) (hok : opOk s (.close fin) = true) :
    (step p s (.close fin)).2 = .unit ∧
    (step p s (.close fin)).1.running = [] ∧ (step p s (.close fin)).1.submitted = [] ∧
    (step p s (.close fin)).1.loopOpen = false ∧
    ∀ i ∈ runningIds s, (i, Via.close) ∈ (step p s (.close fin)).1.delivered ∧
      ∃ j ∈ (step p s (.close fin)).1.jobs, j.id = i ∧ cs[i]? = some j.cfg ∧
        (if i ∈ fin then j.status = .done ∧ j.out = some (p.f j.cfg)
         else j.status = .cancelled ∧ j.out = if p.hpo then some p.cancelOut else none) :=
  fact_close_record p h fin hok

/-- **C01 (batch size).**  A gather that returns hands back at least `min(k, running)` jobs
(`k` = everything for `"ALL"`), and an `"ALL"` gather leaves nothing running. -/
theorem C01_batch_size (p : Params C O) {s : Ev C O} (h : Reach p s) (all : Bool) (k : Nat)
    (st : List Nat) (ws : List (List Nat)) (hok : opOk s (.gather all k st ws) = true)
    (js : List (JobRec C O)) (hjs : (step p s (.gather all k st ws)).2 = .jobs js) :
    min (if all then s.running.length else k) s.running.length ≤ js.length ∧
    (all = true → (step p s (.gather all k st ws)).1.running = []) :=
  fact_batch_size p h all k st ws hok js hjs

/-- **C01 (counters).**  `num_jobs_submitted` is the number of configurations ever submitted,
`num_jobs_gathered` the number of jobs ever delivered (by a gather or by close), and every
submitted job is either in flight or counted as gathered. -/
theorem C01_counts (p : Params C O) {s : Ev C O} {cs : List C} (h : Trace p s cs) :
    numSubmitted s = cs.length ∧ numGathered s = s.delivered.length ∧
    numSubmitted s = s.running.length + numGathered s :=
  fact_counts p h

/-- **C01 (dumped once).**  The rows ever written by `dump_jobs_done_to_csv` together with the
jobs still waiting in `jobs_done` are exactly the delivered jobs, each once; a dump writes nothing
(and keeps `jobs_done`) or writes exactly the waiting jobs, in order, and empties `jobs_done`. -/
theorem C01_dump_once (p : Params C O) {s : Ev C O} (h : Reach p s) :
    (s.dumped ++ s.jobsDone).Perm (s.delivered.map (·.1)) ∧ (s.dumped ++ s.jobsDone).Nodup ∧
    ∀ fl l, (step p s (.dump fl)).2 = .rows l →
      (l = [] ∧ (step p s (.dump fl)).1 = s) ∨
      (l.map (·.id) = s.jobsDone ∧ (step p s (.dump fl)).1.jobsDone = [] ∧
        (step p s (.dump fl)).1.dumped = s.dumped ++ s.jobsDone) := by
  obtain ⟨hi, _, hh⟩ := reach_good h
  have hnd : (s.delivered.map (·.1)).Nodup := (List.nodup_append.1 hi.nodup).2.1
  refine ⟨hh.dumpOnce, hh.dumpOnce.nodup_iff.2 hnd, ?_⟩
  intro fl l hl
  simp only [step] at hl ⊢
  rcases dump_shape p s fl with hd | ⟨_, hd⟩ <;> rw [hd] at hl ⊢
  · simp only [Out.rows.injEq] at hl; exact Or.inl ⟨hl.symm, rfl⟩
  · simp only [Out.rows.injEq] at hl
    right
    refine ⟨?_, rfl, rfl⟩
    rw [← hl]
    apply lookupAll_ids hi
    intro i hi'
    apply hi.del_lt
    exact hh.dumpOnce.subset (List.mem_append_right _ hi')

/-- **C01 (no foreign jobs).**  With one evaluator per storage search `gather_other_jobs_done`
finds nothing: every id of the storage is in flight or gathered — `gather` returns a plain list. -/
theorem C01_no_foreign_jobs (p : Params C O) {s : Ev C O} (h : Reach p s) : otherIds s = [] := by
  obtain ⟨hi, _, hh⟩ := reach_good h
  simp only [otherIds, List.filter_eq_nil_iff, List.mem_range, Bool.not_eq_true', Bool.not_eq_false,
    List.contains_eq_mem, decide_eq_true_eq]
  intro i hlt
  rw [hh.gath, hi.part.mem_iff]
  simpa using hlt

/-- **C01 (usable after close).**  After `close` nothing is in flight, and from then on the
evaluator answers every further sequence of `submit / gather / close` calls (any length, any
admissible environment) with exactly the outputs — returned jobs with ids, configurations, outputs,
statuses; errors — of a brand-new evaluator attached to the same storage search (`freshAt`): a
simulation, not merely "does not raise".  (`dump` is excluded: the used evaluator still owes the CSV
the jobs recorded by close; that is `C01_dump_once`.) -/
theorem C01_usable_after_close (p : Params C O) {s : Ev C O} (h : Reach p s) (fin : List Nat)
    (hok : opOk s (.close fin) = true) :
    (step p s (.close fin)).1.running = [] ∧ (step p s (.close fin)).1.submitted = [] ∧
    (step p s (.close fin)).1.loopOpen = false ∧
    ∀ ops, opsOk p (step p s (.close fin)).1 ops = true → (∀ op ∈ ops, isDump op = false) →
      (run p (step p s (.close fin)).1 ops).2 =
        (run p (freshAt (step p s (.close fin)).1.nextId (step p s (.close fin)).1.loopGen) ops).2 := by
  have hr' : Reach p (step p s (.close fin)).1 := .step _ h hok
  obtain ⟨hi, _, _⟩ := reach_good h
  obtain ⟨hi', _, _⟩ := reach_good hr'
  have hclosed : (step p s (.close fin)).1.running = [] ∧ (step p s (.close fin)).1.submitted = [] ∧
      (step p s (.close fin)).1.loopOpen = false := by
    simp only [step]
    rcases close_spec (p := p) hi fin hok with ⟨hc, hl⟩ | ⟨hc, _, hr⟩ | ⟨s1, js, _, _, _, _, hc⟩ <;> rw [hc]
    · have hr : s.running = [] := by
        by_cases hr : s.running = []
        · exact hr
        · rw [hi.loop hr] at hl; simp at hl
      exact ⟨hr, by rw [← hi.runSub, hr]; rfl, hl⟩
    · exact ⟨hr, by rw [← hi.runSub, hr]; rfl, rfl⟩
    · exact ⟨rfl, rfl, rfl⟩
  refine ⟨hclosed.1, hclosed.2.1, hclosed.2.2, fun ops hops hnd => ?_⟩
  generalize (step p s (.close fin)).1 = s' at *
  have hsim : Sim s'.nextId s'.jobs s' (freshAt s'.nextId s'.loopGen) := by
    refine ⟨rfl, hclosed.1, hclosed.2.1, rfl, hclosed.2.2, by simp [freshAt, init], ?_, ?_, Nat.le_refl _⟩
    · intro j hj
      refine ⟨hi'.job_lt hj, ?_⟩
      have := hi'.act j hj
      rw [hclosed.2.1] at this
      simpa using this
    · intro i hi''; rw [hclosed.2.1] at hi''; simp at hi''
  exact sim_run ops hr' hsim hops hnd

/-- **C01 (verified checker).**  The executable checker that the driver runs on the trace observed
on the REAL evaluator (calls, returned job records, exception kinds, the two counters, `jobs_done`,
dumped row ids) decides exactly the property stated over observable traces (`TraceSpec`:
exactly-once, payload identity, batch size, counters, nothing lost at close, only legitimate
refusals — hence usable after close —, each delivered job dumped once). -/
theorem C01_checker [DecidableEq C] [DecidableEq O] (p : Params C O) (t : List (TStep C O)) :
    checkTrace p t = true ↔ TraceSpec p t :=
  checkTraceFrom_iff p t Acc.init

/-- **C01 (the model's traces satisfy the trace property).**  For every call history and every
completion environment satisfying the asyncio contract, what an observer sees of the model's run
satisfies `TraceSpec` — the property over traces is a consequence of the theorems above, and the
checker accepts every behaviour the model can show. -/
theorem C01_model_traces_ok (p : Params C O) (ops : List (Op C)) (hok : opsOk p init ops = true) :
    TraceSpec p (traceOf p init ops) :=
  traceOf_ok ops .init ⟨rfl, rfl, rfl⟩ hok

/-! ## Non-vacuity: a concrete reachable history (HPO format, batches, a close that records one
finished and one cancelled job, reuse after close, held-back and flushed dumps) -/

def pEx : Params Nat Nat :=
  { f := fun c => c + 100, hpo := true, cancelOut := 0, isStr := fun o => o == 0 }

def opsEx : List (Op Nat) :=
  [.submit [7, 8, 9, 10], .gather false 2 [0, 1, 2] [[1], [2, 1]], .dump false, .close [0],
   .submit [11], .gather true 0 [4] [[4]], .dump true]

example : opsOk pEx init opsEx = true := by decide +kernel
example : Reach pEx (run pEx init opsEx).1 := reach_run opsEx .init (by decide +kernel)
example : (run pEx init opsEx).1.delivered =
    [(2, .gather), (1, .gather), (0, .close), (3, .close), (4, .gather)] := by decide +kernel
example : (run pEx init opsEx).2 =
    [.unit, .jobs [⟨2, 9, some 109, .done⟩, ⟨1, 8, some 108, .done⟩],
     .rows [⟨2, 9, some 109, .done⟩, ⟨1, 8, some 108, .done⟩], .unit, .unit,
     .jobs [⟨4, 11, some 111, .done⟩],
     .rows [⟨0, 7, some 107, .done⟩, ⟨3, 10, some 0, .cancelled⟩, ⟨4, 11, some 111, .done⟩]] := by
  decide +kernel
example : checkTrace pEx (traceOf pEx init opsEx) = true := by decide +kernel
/-- the checker rejects a trace in which job 1 is handed back a second time -/
example : checkTrace pEx
    [⟨.submit [7, 8], .unit, 2, 0, []⟩,
     ⟨.gather false 1, .jobs [⟨1, 8, some 108, .done⟩], 2, 1, [⟨1, 8, some 108, .done⟩]⟩,
     ⟨.gather false 1, .jobs [⟨1, 8, some 108, .done⟩], 2, 2,
       [⟨1, 8, some 108, .done⟩, ⟨1, 8, some 108, .done⟩]⟩] = false := by decide +kernel
/-- … and one in which close loses job 0 -/
example : checkTrace pEx
    [⟨.submit [7, 8], .unit, 2, 0, []⟩,
     ⟨.close, .unit, 2, 1, [⟨1, 8, some 0, .cancelled⟩]⟩] = false := by decide +kernel
/-- a sized gather with nothing in flight is the one legitimate refusal (`C01_no_spurious_error`) -/
example : (run pEx init [.gather false 1 [] []]).2 = [.error .noLoop] := by decide +kernel
example : (run pEx init [.submit [1], .gather true 0 [0] [[0]], .gather false 1 [] []]).2.getLast? =
    some (.error .noJobs) := by decide +kernel

/-! ## Regression witnesses: the pinned tree's `close` (`stepPre`) violates the property,
the repaired one does not (DESIGN section 6 item 1; replayed on the real code from `corpus/C01`) -/

/-- pinned tree: `submit 4; gather BATCH 1; close; submit 2; gather BATCH 1` raises
`RuntimeError: Event loop is closed` -/
example : (runWith (stepPre pEx) init
    [.submit [1, 2, 3, 4], .gather false 1 [0, 1] [[0]], .close [], .submit [5, 6],
     .gather false 1 [4, 5] [[4]]]).2.getLast? = some (.error .loopClosed) := by decide +kernel
/-- repaired: the same history hands back job 4 -/
example : (run pEx init
    [.submit [1, 2, 3, 4], .gather false 1 [0, 1] [[0]], .close [], .submit [5, 6],
     .gather false 1 [4, 5] [[4]]]).2.getLast? = some (.jobs [⟨4, 5, some 105, .done⟩]) := by
  decide +kernel
/-- pinned tree: `submit 1; close; gather ALL` raises (`AttributeError` on `self.loop = None`)
because the cancelled task is still counted as running; repaired: returns `[]` -/
example : (runWith (stepPre pEx) init [.submit [1], .close [], .gather true 0 [] []]).2.getLast? =
    some (.error .noLoop) := by decide +kernel
example : (run pEx init [.submit [1], .close [], .gather true 0 [] []]).2.getLast? =
    some (.jobs []) := by decide +kernel
/-- pinned tree: `submit 1; close; submit 1; close` raises in the second close -/
example : (runWith (stepPre pEx) init [.submit [1], .close [], .submit [2], .close []]).2.getLast? =
    some (.error .loopClosed) := by decide +kernel

/-! # Several evaluators attached to ONE storage search (`Model/EvaluatorMulti.lean`)

`MReach p n sys`: `sys` is reachable from a new search with `n` evaluators attached by **any interleaving**
of any number of `submit / gather ALL / gather BATCH k / close / dump / set_maximum_num_jobs_submitted`
calls of any of the evaluators, for every completion environment that satisfies the asyncio contract
(`mOpOk`).  Job ids are the ids of the shared storage search. -/

theorem mOpOk_local {sys : Sys C O} {who : Nat} {me : MEv C O} {op : MOp C} (hme : sys.evs[who]? = some me)
    (h : mOpOk sys who op = true) : mOpOkLocal sys.rows me op = true := by
  unfold mOpOk at h; rw [hme] at h; exact h

/-- **C01 (several evaluators — projection).**  In every reachable system the private state of every
evaluator is, up to the numbering of its jobs (`rho`: its `k`-th job ↦ the storage id), a state of the
single-evaluator model reachable under the single-evaluator contract: whatever the other evaluators do to
the shared storage, an evaluator's own bookkeeping behaves as if it were alone.  All theorems above
(`C01_exactly_once` … `C01_usable_after_close`) therefore hold for the simulating state `s`. -/
theorem C01_multi_projection (p : MParams C O) {n : Nat} {sys : Sys C O} (h : MReach p n sys) {who : Nat}
    {me : MEv C O} (hme : sys.evs[who]? = some me) :
    ∃ s, Reach p.toParams s ∧ Rel sys.rows me s :=
  ((mreach_inv h).ev who me hme).sim

/-- **C01 (several evaluators — exactly once, by the owner).**  Job ids are unique across the evaluators
(`0 … rows.length-1`); every job has exactly one owner and is in `self.jobs` of that evaluator only; for
every evaluator its own jobs are partitioned into the jobs in flight and the jobs it delivered (handed back by
one of ITS gathers or recorded by ITS close) — never lost, never twice, never both, never by another evaluator. -/
theorem C01_multi_exactly_once (p : MParams C O) {n : Nat} {sys : Sys C O} (h : MReach p n sys) :
    sys.rows.map (·.id) = List.range sys.rows.length ∧
    (∀ r ∈ sys.rows, r.owner < n ∧
      ∀ (w : Nat) (mw : MEv C O), sys.evs[w]? = some mw → (r.id ∈ mw.jobs ↔ w = r.owner)) ∧
    ∀ (who : Nat) (me : MEv C O), sys.evs[who]? = some me →
      (∀ g ∈ me.jobs, g < sys.rows.length) ∧
      (me.delivered.map (·.1)).Nodup ∧ (mRunningIds me).Nodup ∧
      (∀ g, g ∈ me.jobs ↔ (g ∈ mRunningIds me ∨ g ∈ me.delivered.map (·.1))) ∧
      (∀ g ∈ mRunningIds me, g ∉ me.delivered.map (·.1)) ∧
      (∀ g, ¬ ((g, Via.gather) ∈ me.delivered ∧ (g, Via.close) ∈ me.delivered)) := by
  have hinv := mreach_inv h
  obtain ⟨h1, h2, h3⟩ := multi_owner hinv
  exact ⟨h1, h2, fun who me hme => ⟨h3 who me hme, multi_exactly_once hinv hme⟩⟩

/-- **C01 (one evaluator = the single-evaluator model).**  With one evaluator attached the numbering is the
identity: the evaluator's tasks, in-flight ids, deliveries and job records ARE those of a reachable state of
`Model/Evaluator.lean`, and no job is ever reported as another evaluator's. -/
theorem C01_multi_single (p : MParams C O) {sys : Sys C O} (h : MReach p 1 sys) {me : MEv C O}
    (hme : sys.evs[0]? = some me) :
    ∃ s, Reach p.toParams s ∧ s.nextId = sys.rows.length ∧ s.jobs = sys.rows.map recOf ∧
      s.running = me.running ∧ s.submitted = me.submitted ∧ s.delivered = me.delivered ∧
      s.loopGen = me.loopGen ∧ s.loopOpen = me.loopOpen ∧ me.reported = [] := by
  have hinv := mreach_inv h
  have hev := hinv.ev 0 me hme
  obtain ⟨s, hs, hr⟩ := hev.sim
  have hjobs := multi_single_jobs hinv hme
  have hid : rho me.jobs sys.rows.length = fun k => k := by
    funext k; rw [hjobs]; exact rho_range _ k
  have hown : ownRows sys.rows me.jobs = sys.rows := by
    unfold ownRows
    apply List.filter_eq_self.2
    intro r hr'
    have := row_id_lt hinv.rows.ids hr'
    rw [hjobs]; simpa using this
  refine ⟨s, hs, by rw [hr.n, hjobs]; simp, ?_, ?_, ?_, ?_, hr.gen, hr.lopen, ?_⟩
  · have := hr.jobs
    rw [hid, hown] at this
    rw [← this]
    conv => lhs; rw [← List.map_id s.jobs]
    rfl
  · have := hr.running
    rw [hid] at this
    rw [← this]
    conv => lhs; rw [← List.map_id s.running]
    rfl
  · have := hr.submitted
    rw [hid] at this
    rw [← this]; simp
  · have := hr.delivered
    rw [hid] at this
    rw [← this]
    conv => lhs; rw [← List.map_id s.delivered]
    rfl
  · apply List.eq_nil_iff_forall_not_mem.2
    intro g hg
    obtain ⟨h1, h2⟩ := hev.hist.repForeign g hg
    rw [hjobs] at h1
    exact h1 (List.mem_range.2 h2)

/-- **C01 (several evaluators — what a gather hands back).**  For a gather of evaluator `who` in any
reachable system, under the environment contract:

* it raises only when it is a sized gather while NOTHING OF ITS OWN is in flight (`noLoop` / `noJobs`);
* every job of the `local` list was in flight at this evaluator (so it is its own), is recorded as
  gather-delivered by it, is `DONE`, carries the run-function's value for its configuration, and that
  configuration is the one stored for this job id when it was submitted (`row.cfg`; rows never change it:
  `C01_multi_frame`), and the record handed back is the job's row after the call; no id twice; at least `min(k, running)` jobs; `ALL` leaves nothing of its own running;
* every job of the `other` list belongs to ANOTHER evaluator, has already been accounted for by its owner
  (its status is terminal — `C01_multi_reported` shows the owner delivered it), was never reported to this
  evaluator before, and is reported with the same configuration, output and status as its owner's record
  (payload identity across evaluators). -/
theorem C01_multi_gather (p : MParams C O) {n : Nat} {sys : Sys C O} (h : MReach p n sys) {who : Nat}
    {me : MEv C O} (hme : sys.evs[who]? = some me) (all : Bool) (k : Nat) (st : List Nat)
    (ws : List (List Nat)) (hok : mOpOk sys who (.gather all k st ws) = true) :
    (∀ e, (mStep p sys who (.gather all k st ws)).2 = .error e →
      all = false ∧ k ≠ 0 ∧ me.running = [] ∧
        ((e = .noLoop ∧ me.loopOpen = false) ∨ (e = .noJobs ∧ me.loopOpen = true))) ∧
    (∀ js others, (mStep p sys who (.gather all k st ws)).2 = .jobs js others →
      ∃ me', (mStep p sys who (.gather all k st ws)).1.evs[who]? = some me' ∧
        (js.map (·.id)).Nodup ∧
        (∀ j ∈ js, j.id ∈ mRunningIds me ∧ (j.id, Via.gather) ∈ me'.delivered ∧ j.status = .done ∧
          j.out = some (p.f j.cfg) ∧ (∃ row ∈ sys.rows, row.id = j.id ∧ row.owner = who ∧ row.cfg = j.cfg) ∧
          ∃ row' ∈ (mStep p sys who (.gather all k st ws)).1.rows, recOf row' = j) ∧
        min (if all then me.running.length else k) me.running.length ≤ js.length ∧
        (all = true → me'.running = []) ∧
        me'.reported = me.reported ++ others.map (·.id) ∧ (others.map (·.id)).Nodup ∧
        (∀ o ∈ others, o.id ∉ me.reported ∧
          ∃ row ∈ (mStep p sys who (.gather all k st ws)).1.rows, row.id = o.id ∧ row.owner ≠ who ∧
            activeRow row = false ∧ o.cfg = row.cfg ∧ o.out = row.out ∧ o.status = row.status)) :=
  multi_gather (mreach_inv h) hme all k st ws (mOpOk_local hme hok)

/-- **C01 (several evaluators — what close records).**  `close` of evaluator `who` never raises; afterwards
nothing of its own is in flight and its loop is gone; every job that was in flight AT THIS EVALUATOR is
recorded as close-delivered by it: `DONE` with the run-function's value if its task had finished
(`g ∈ fin`), `CANCELLED` otherwise (`"F_CANCELLED"` in the HPO format), with the configuration stored at
submission. -/
theorem C01_multi_close_record (p : MParams C O) {n : Nat} {sys : Sys C O} (h : MReach p n sys) {who : Nat}
    {me : MEv C O} (hme : sys.evs[who]? = some me) (fin : List Nat)
    (hok : mOpOk sys who (.close fin) = true) :
    (mStep p sys who (.close fin)).2 = .unit ∧
    ∃ me', (mStep p sys who (.close fin)).1.evs[who]? = some me' ∧
      me'.running = [] ∧ me'.submitted = [] ∧ me'.loopOpen = false ∧
      ∀ g ∈ mRunningIds me, (g, Via.close) ∈ me'.delivered ∧
        ∃ row ∈ (mStep p sys who (.close fin)).1.rows, row.id = g ∧ row.owner = who ∧
          (∃ row0 ∈ sys.rows, row0.id = g ∧ row0.cfg = row.cfg) ∧
          (if g ∈ fin then row.status = .done ∧ row.out = some (p.f row.cfg)
           else row.status = .cancelled ∧ row.out = if p.hpo then some p.cancelOut else none) :=
  multi_close_record (mreach_inv h) hme fin (mOpOk_local hme hok)

/-- **C01 (several evaluators — reports of the others' jobs).**  In every reachable system, for every
evaluator: each job of another evaluator is reported to it at most once; a reported job is not its own, its
owner had already accounted for it (handed it back by a gather or recorded it by close: it is in the owner's
`delivered`, its status is terminal), and the `Job` object built for the report carries the job's stored
configuration and the output its owner saw (payload identity across evaluators). -/
theorem C01_multi_reported (p : MParams C O) {n : Nat} {sys : Sys C O} (h : MReach p n sys) {who : Nat}
    {me : MEv C O} (hme : sys.evs[who]? = some me) :
    me.reported.Nodup ∧ me.foreign.map (·.id) = me.reported ∧
    (∀ o ∈ me.foreign, o.id ∉ me.jobs ∧
      ∃ row ∈ sys.rows, row.id = o.id ∧ row.owner ≠ who ∧ activeRow row = false ∧
        o.cfg = row.cfg ∧ o.out = row.out ∧
        ∃ mw, sys.evs[row.owner]? = some mw ∧ o.id ∈ mw.jobs ∧ ∃ via, (o.id, via) ∈ mw.delivered) := by
  have hinv := mreach_inv h
  have hev := hinv.ev who me hme
  refine ⟨hev.hist.repNodup, hev.hist.foreign, fun o ho => ?_⟩
  have hrep : o.id ∈ me.reported := by rw [← hev.hist.foreign]; exact List.mem_map_of_mem ho
  obtain ⟨hnj, _⟩ := hev.hist.repForeign o.id hrep
  obtain ⟨row, hrow, b1, b2, b3, b4, _⟩ := hev.hist.fobj o ho
  have hlt : row.owner < sys.evs.length := hinv.len ▸ hinv.rows.owner row hrow
  have hmw : sys.evs[row.owner]? = some sys.evs[row.owner] := List.getElem?_eq_getElem hlt
  have hown : o.id ∈ sys.evs[row.owner].jobs := b1 ▸ ((hinv.ev _ _ hmw).own row hrow).1 rfl
  refine ⟨hnj, row, hrow, b1, fun e => hnj (b1 ▸ (hev.own row hrow).1 e), b2, b3, b4, _, hmw, hown, ?_⟩
  obtain ⟨_, _, hpart, _, _⟩ := multi_exactly_once hinv hmw
  rcases (hpart o.id).1 hown with hrun | hdel
  · obtain ⟨r, hr, hact⟩ := multi_running_active hinv hmw hrun
    have : r = row := by
      have h1 := rowOf_of_mem (rows_nodup hinv.rows.ids) hrow
      rw [b1, hr] at h1
      exact Option.some.inj h1
    rw [this, b2] at hact
    exact absurd hact (by simp)
  · obtain ⟨x, hx, hxe⟩ := List.mem_map.1 hdel
    exact ⟨x.2, by rw [← hxe]; exact hx⟩

/-- **C01 (several evaluators — frame).**  A call of evaluator `who` does not change the private state of
any other evaluator, nor any row (status, input, outputs) of a job of another evaluator, nor any row whose
status is terminal; ids, owners and configurations of existing rows are never rewritten (new rows are only
appended). -/
theorem C01_multi_frame (p : MParams C O) {n : Nat} {sys : Sys C O} (h : MReach p n sys) (who : Nat)
    (op : MOp C) (hok : mOpOk sys who op = true) :
    (∀ j, j ≠ who → (mStep p sys who op).1.evs[j]? = sys.evs[j]?) ∧
    (∀ r ∈ sys.rows, r.owner ≠ who → r ∈ (mStep p sys who op).1.rows) ∧
    (∀ r ∈ sys.rows, activeRow r = false → r ∈ (mStep p sys who op).1.rows) ∧
    sys.rows.map (fun r => (r.id, r.owner, r.cfg)) <+:
      (mStep p sys who op).1.rows.map (fun r => (r.id, r.owner, r.cfg)) := by
  have hinv := mreach_inv h
  cases hme : sys.evs[who]? with
  | none => unfold mOpOk at hok; rw [hme] at hok; simp at hok
  | some me =>
    obtain ⟨me', hevs, hstep, _, hnew⟩ := mStep_frame hinv hme op (mOpOk_local hme hok)
    refine ⟨fun j hj => ?_, fun r hr hne => ?_, hstep.frozen, hstep.pre⟩
    · rw [hevs, List.getElem?_set_ne (fun e => hj e.symm)]
    · have hnj : r.id ∉ me'.jobs := by
        intro hin
        rcases hnew _ hin with h1 | h1
        · exact hne (((hinv.ev who me hme).own r hr).2 h1)
        · have := row_id_lt hinv.rows.ids hr; omega
      have := hstep.frame [r.id] (by simpa using hnj)
      have hmem : r ∈ ownRows sys.rows [r.id] := List.mem_filter.2 ⟨hr, by simp⟩
      rw [← this] at hmem
      exact (List.mem_filter.1 hmem).1

/-- **C01 (several evaluators — no spurious exception).**  The only calls that raise are a sized
`gather("BATCH", k ≥ 1)` while nothing of the evaluator's own is in flight, and a `submit` cut by the cap
(`MaximumJobsSpawnReached`, a result of its own: `C01_multi_cap`); the internal errors are unreachable
whatever the other evaluators do. -/
theorem C01_multi_no_spurious_error (p : MParams C O) {n : Nat} {sys : Sys C O} (h : MReach p n sys) {who : Nat}
    {me : MEv C O} (hme : sys.evs[who]? = some me) (op : MOp C) (hok : mOpOk sys who op = true) (e : Err)
    (he : (mStep p sys who op).2 = .error e) :
    ∃ k st ws, op = .gather false k st ws ∧ k ≠ 0 ∧ me.running = [] ∧
      ((e = .noLoop ∧ me.loopOpen = false) ∨ (e = .noJobs ∧ me.loopOpen = true)) := by
  cases op with
  | gather all k st ws =>
    obtain ⟨ha, hk, hr, hc⟩ := (C01_multi_gather p h hme all k st ws hok).1 e he
    subst ha
    exact ⟨k, st, ws, rfl, hk, hr, hc⟩
  | close fin =>
    rw [(C01_multi_close_record p h hme fin hok).1] at he; simp at he
  | submit cfgs =>
    unfold mStep at he; rw [hme] at he
    simp only [mStepLocal, mSubmit] at he
    split at he <;> simp at he
  | dump fl =>
    unfold mStep at he; rw [hme] at he
    simp only [mStepLocal, mDump] at he
    split at he
    · simp at he
    · split at he <;> simp at he
  | setMax k =>
    unfold mStep at he; rw [hme] at he
    simp [mStepLocal] at he

/-- **C01 (several evaluators — the counters).**  As the code defines them: `num_jobs_submitted` is the
number of jobs of the SHARED search minus the offset, `num_jobs_gathered` the evaluator's own deliveries plus
the jobs of other evaluators reported to it, minus the offset; and the evaluator's own jobs are its jobs in
flight plus its deliveries. -/
theorem C01_multi_counts (p : MParams C O) {n : Nat} {sys : Sys C O} (h : MReach p n sys) {who : Nat}
    {me : MEv C O} (hme : sys.evs[who]? = some me) :
    mNumSubmitted sys.rows me = (sys.rows.length : Int) - me.offset ∧
    mNumGathered me = ((me.delivered.length + me.reported.length : Nat) : Int) - me.offset ∧
    me.jobs.length = me.running.length + me.delivered.length := by
  have hinv := mreach_inv h
  have hev := hinv.ev who me hme
  obtain ⟨s, hs, hr⟩ := hev.sim
  obtain ⟨cs, ht⟩ := reach_trace hs
  obtain ⟨c1, c2, c3⟩ := C01_counts p.toParams ht
  refine ⟨rfl, ?_, ?_⟩
  · unfold mNumGathered
    have := hev.hist.gath.length_eq
    simp only [List.length_append, List.length_map] at this
    rw [this]
  · have e1 : me.jobs.length = s.nextId := hr.n.symm
    have e2 : me.running.length = s.running.length := hr.runLen
    have e3 : me.delivered.length = s.delivered.length := by rw [← hr.delivered]; simp
    simp only [numSubmitted, numGathered] at c1 c2 c3
    omega

/-- **C01 (several evaluators — dumped once).**  The rows an evaluator ever wrote together with the jobs
waiting in its `jobs_done` are exactly its own deliveries plus the jobs of other evaluators reported to it,
each once; a dump writes nothing (state unchanged) or exactly `jobs_done`, in order, and empties it. -/
theorem C01_multi_dump_once (p : MParams C O) {n : Nat} {sys : Sys C O} (h : MReach p n sys) {who : Nat}
    {me : MEv C O} (hme : sys.evs[who]? = some me) :
    (me.dumped ++ me.jobsDone).Perm (me.delivered.map (·.1) ++ me.reported) ∧
    (me.dumped ++ me.jobsDone).Nodup ∧
    ∀ fl l, (mStep p sys who (.dump fl)).2 = .rows l →
      (l = [] ∧ (mStep p sys who (.dump fl)).1.rows = sys.rows ∧
        (mStep p sys who (.dump fl)).1.evs[who]? = some me) ∨
      (l.map (·.id) = me.jobsDone ∧ (mStep p sys who (.dump fl)).1.rows = sys.rows ∧
        ∃ me', (mStep p sys who (.dump fl)).1.evs[who]? = some me' ∧ me'.jobsDone = [] ∧
          me'.dumped = me.dumped ++ me.jobsDone) := by
  have hinv := mreach_inv h
  have hev := hinv.ev who me hme
  obtain ⟨hd1, _, hpart, _, _⟩ := multi_exactly_once hinv hme
  have hnd : (me.delivered.map (·.1) ++ me.reported).Nodup := by
    rw [List.nodup_append]
    refine ⟨hd1, hev.hist.repNodup, ?_⟩
    intro a ha b hb hab
    subst hab
    exact (hev.hist.repForeign a hb).1 ((hpart a).2 (Or.inr ha))
  refine ⟨hev.hist.dumpOnce, hev.hist.dumpOnce.nodup_iff.2 hnd, fun fl l hl => ?_⟩
  unfold mStep at hl ⊢
  rw [hme] at hl ⊢
  simp only [mStepLocal, mDump] at hl ⊢
  split at hl
  · rename_i h0
    simp only [MOut.rows.injEq] at hl
    left
    rw [if_pos h0]
    exact ⟨hl.symm, rfl, set_getElem?_self hme⟩
  · rename_i h0
    split at hl
    · rename_i h1
      simp only [MOut.rows.injEq] at hl
      right
      rw [if_neg h0, if_pos h1]
      exact ⟨by rw [← hl]; exact doneRecs_ids hinv hme, rfl, _, set_getElem?_self hme, rfl, rfl⟩
    · rename_i h1
      simp only [MOut.rows.injEq] at hl
      left
      rw [if_neg h0, if_neg h1]
      exact ⟨hl.symm, rfl, set_getElem?_self hme⟩

/-- **C01 (the cap: `set_maximum_num_jobs_submitted` / `MaximumJobsSpawnReached`).**  A submit of `cfgs` by an
evaluator whose cap is `maxSub` creates exactly `mRoom = min(len(cfgs), maxSub − num_jobs_submitted)` jobs
(all of them when `maxSub ≤ 0`; `num_jobs_submitted` = jobs of the shared search − offset, as the code defines
it): the FIRST `mRoom` configurations, in order, with consecutive ids, owned by this evaluator; it returns
normally iff all were created and raises `MaximumJobsSpawnReached` otherwise; the configurations left out are
NOT accounted as submitted (no row, no id, counter unchanged).  `MReach` is closed under these calls, so
exactly-once and the counter identities (`C01_multi_exactly_once`, `C01_multi_counts`) hold after them. -/
theorem C01_multi_cap (p : MParams C O) (sys : Sys C O) {who : Nat} {me : MEv C O}
    (hme : sys.evs[who]? = some me) (cfgs : List C) :
    let m := mRoom sys.rows me cfgs.length
    let r := mStep p sys who (.submit cfgs)
    m ≤ cfgs.length ∧
    r.1.rows.map (·.cfg) = sys.rows.map (·.cfg) ++ cfgs.take m ∧
    r.1.rows.length = sys.rows.length + m ∧
    r.2 = (if m = cfgs.length then .unit else .spawnMax m) ∧
    ∃ me', r.1.evs[who]? = some me' ∧
      me'.jobs = me.jobs ++ List.range' sys.rows.length m ∧
      me'.running.length = me.running.length + m ∧
      mNumSubmitted r.1.rows me' = mNumSubmitted sys.rows me + m ∧ mNumGathered me' = mNumGathered me := by
  intro m r
  have hm : m ≤ cfgs.length := by
    show mRoom sys.rows me cfgs.length ≤ cfgs.length
    unfold mRoom; split <;> omega
  have hse := mSetEventLoop_same me
  have hse2 : (mSetEventLoop me).maxSub = me.maxSub ∧ (mSetEventLoop me).offset = me.offset ∧
      (mSetEventLoop me).running = me.running := by
    unfold mSetEventLoop; split <;> exact ⟨rfl, rfl, rfl⟩
  have hroom : mRoom sys.rows (mSetEventLoop me) cfgs.length = m := by
    show _ = mRoom sys.rows me cfgs.length
    unfold mRoom mNumSubmitted; rw [hse2.1, hse2.2.1]
  obtain ⟨a1, a2, a3, a4, a5, a6, a7⟩ := mCreateTasks_cap who cfgs 0 (sys.rows, mSetEventLoop me)
  simp only [hroom] at a1 a2 a3 a4 a5
  have hr : r = mStep p sys who (.submit cfgs) := rfl
  unfold mStep at hr
  rw [hme] at hr
  simp only [mStepLocal, mSubmit] at hr
  cases hc : mCreateTasks who (sys.rows, mSetEventLoop me) 0 cfgs with
  | mk st' res =>
    rw [hc] at a1 a2 a3 a4 a5 a6 a7 hr
    have hr1 : r.1 = { rows := st'.1, evs := sys.evs.set who st'.2 } := by
      rw [hr]; cases res <;> rfl
    have hr2 : r.2 = (if m = cfgs.length then .unit else .spawnMax m) := by
      rw [hr]
      cases res with
      | none =>
        by_cases hh : m = cfgs.length
        · rw [if_pos hh]
        · rw [if_neg hh] at a3; simp at a3
      | some k =>
        by_cases hh : m = cfgs.length
        · rw [if_pos hh] at a3; simp at a3
        · rw [if_neg hh] at a3 ⊢
          simp only [Nat.zero_add, Option.some.injEq] at a3
          rw [a3]
    refine ⟨hm, by rw [hr1]; exact a1, by rw [hr1]; exact a2, hr2, st'.2, by rw [hr1]; exact set_getElem?_self hme,
      by rw [a4, hse.2], by rw [a5, hse2.2.2], ?_, ?_⟩
    · unfold mNumSubmitted
      rw [hr1, a7, hse2.2.1]
      show ((st'.1.length : Nat) : Int) - _ = _
      rw [a2]; push_cast; omega
    · unfold mNumGathered
      have := (mCreateTasks_same who cfgs 0 (sys.rows, mSetEventLoop me)).1.gathered
      rw [hc] at this
      rw [a7, hse2.2.1, this, hse.1.gathered]

/-- **C01 ↔ C03 (bridge).**  The budget counters of `Model/Search.lean` (`stored`, `running`, `offset`,
`maxSub`) read off an evaluator evolve under `Search.submit` exactly as under `_create_tasks` of this model,
and `Search.submit` reports `MaximumJobsSpawnReached` in exactly the same cases. -/
theorem C01_multi_cap_search (who : Nat) (base : DH.Search.Ev) (cfgs : List C) (rows : List (Row C O))
    (me : MEv C O) :
    (DH.Search.submit (budgetView base rows (mSetEventLoop me)) cfgs.length).1 =
      budgetView base (mSubmit who (rows, me) cfgs).1.1 (mSubmit who (rows, me) cfgs).1.2 ∧
    ((DH.Search.submit (budgetView base rows (mSetEventLoop me)) cfgs.length).2 = true ↔
      ∃ k, (mSubmit who (rows, me) cfgs).2 = .spawnMax k) := by
  have := createTasks_search who base cfgs 0 (rows, mSetEventLoop me)
  rw [this]
  unfold mSubmit
  cases hc : mCreateTasks who (rows, mSetEventLoop me) 0 cfgs with
  | mk st' res => cases res <;> simp

section checker
variable [DecidableEq C] [DecidableEq O]

theorem checkMTraceFrom_iff (p : MParams C O) :
    ∀ (t : List (MTStep C O)) (a : MAcc C O), checkMTraceFrom p a t = true ↔ MTraceSpecFrom p a t
  | [], a => by simp [checkMTraceFrom, MTraceSpecFrom]
  | st :: rest, a => by
    simp only [checkMTraceFrom, MTraceSpecFrom, Bool.and_eq_true, decide_eq_true_eq,
      checkMTraceFrom_iff p rest (mNextAcc a st)]

/-- **C01 (several evaluators — verified checker).**  The executable checker the driver runs on the trace
observed on the REAL evaluators attached to one storage search decides exactly the property stated over
observable traces (`MTraceSpec`: own jobs exactly once and by their owner, payload, batch sizes, close records,
only legitimate refusals, the cap, both counters, `jobs_done` / dumped rows, and for the reports of other
evaluators' jobs: already accounted for by the owner, identical record, at most once, none missed). -/
theorem C01_multi_checker (p : MParams C O) (n : Nat) (t : List (MTStep C O)) :
    checkMTrace p n t = true ↔ MTraceSpec p n t :=
  checkMTraceFrom_iff p t (MAcc.init n)

end checker

/-- **C01 (several evaluators — the model's traces satisfy the trace property).**  For every number of
evaluators, every interleaving of their calls (caps included) and every completion environment satisfying
the contract, what an observer sees of the model's run satisfies `MTraceSpec`: the property over traces is a
consequence of the theorems above, and the checker accepts every behaviour the model can show. -/
theorem C01_multi_model_traces_ok (p : MParams C O) (n : Nat) (ops : List (Nat × MOp C))
    (hok : mOpsOk p (Sys.init n) ops = true) : MTraceSpec p n (mTraceOf p (Sys.init n) ops) :=
  mTraceOf_ok ops (SInv.init p n) (MAccRel.init n) hok

/-! ## Non-vacuity: two evaluators on one search — interleaved submits, a BATCH gather, reports of the other
evaluator's jobs (in string order of the ids), a cap that cuts a batch, a close that cancels a job which is then
reported as CANCELLED, dumps -/

def pM : MParams Nat Nat :=
  { f := fun c => c + 100, hpo := true, cancelOut := 1, isStr := fun o => o == 1, truthy := fun o => o != 0 }

def opsM : List (Nat × MOp Nat) :=
  [(0, .submit [7, 8, 9]), (1, .submit [20, 21]),
   (0, .gather false 2 [0, 1, 2] [[1], [2, 1]]),
   (1, .gather true 0 [3, 4] [[4, 3]]),
   (1, .setMax 2), (1, .submit [30, 31, 32, 33]),
   (0, .close []),
   (1, .gather false 1 [5] [[5]]),
   (0, .dump false), (1, .dump true)]

example : mOpsOk pM (Sys.init 2) opsM = true := by decide +kernel
example : MReach pM 2 (mRun pM (Sys.init 2) opsM).1 := mreach_run opsM .init (by decide +kernel)
example : (mRun pM (Sys.init 2) opsM).2 =
    [.unit, .unit,
     .jobs [⟨2, 9, some 109, .done⟩, ⟨1, 8, some 108, .done⟩] [],
     .jobs [⟨4, 21, some 121, .done⟩, ⟨3, 20, some 120, .done⟩] [⟨1, 8, some 108, .done⟩, ⟨2, 9, some 109, .done⟩],
     .unit, .spawnMax 1, .unit,
     .jobs [⟨5, 30, some 130, .done⟩] [⟨0, 7, some 1, .cancelled⟩],
     .rows [⟨2, 9, some 109, .done⟩, ⟨1, 8, some 108, .done⟩, ⟨0, 7, some 1, .cancelled⟩],
     .rows [⟨4, 21, some 121, .done⟩, ⟨3, 20, some 120, .done⟩, ⟨1, 8, some 108, .done⟩, ⟨2, 9, some 109, .done⟩,
            ⟨5, 30, some 130, .done⟩, ⟨0, 7, some 1, .cancelled⟩]] := by decide +kernel
example : (mRun pM (Sys.init 2) opsM).1.evs.map (fun e => (e.jobs, e.delivered, e.reported)) =
    [([0, 1, 2], [(2, .gather), (1, .gather), (0, .close)], []),
     ([3, 4, 5], [(4, .gather), (3, .gather), (5, .gather)], [1, 2, 0])] := by decide +kernel
/-- the counters as the code defines them (`(num_jobs_submitted, num_jobs_gathered)` after every call) -/
example : (mTraceOf pM (Sys.init 2) opsM).map (fun s => (s.numSubmitted, s.numGathered)) =
    [(3, 0), (5, 0), (5, 2), (5, 4), (1, 0), (2, 0), (6, 3), (2, 2), (6, 3), (2, 2)] := by decide +kernel
example : checkMTrace pM 2 (mTraceOf pM (Sys.init 2) opsM) = true := by decide +kernel
/-- one evaluator (`C01_multi_single`), with a cap -/
example : MReach pM 1 (mRun pM (Sys.init 1)
    [(0, .submit [7, 8]), (0, .setMax 3), (0, .submit [9, 10]), (0, .gather true 0 [0, 1, 2] [[2, 0, 1]]),
     (0, .close [])]).1 := mreach_run _ .init (by decide +kernel)
example : (mRun pM (Sys.init 1)
    [(0, .submit [7, 8]), (0, .setMax 3), (0, .submit [9, 10]), (0, .gather true 0 [0, 1, 2] [[2, 0, 1]]),
     (0, .close [])]).2 =
    [.unit, .unit, .spawnMax 1,
     .jobs [⟨2, 9, some 109, .done⟩, ⟨0, 7, some 107, .done⟩, ⟨1, 8, some 108, .done⟩] [], .unit] := by
  decide +kernel
/-- ids sort as strings in `np.setdiff1d`: `"s.10" < "s.2"` -/
example : sortIds [0, 1, 2, 9, 10, 11, 20] = [0, 1, 10, 11, 2, 20, 9] := by decide +kernel
/-- the checker rejects a trace in which evaluator 1 is told about job 0 BEFORE its owner accounted for it -/
example : checkMTrace pM 2
    [⟨0, .submit [7], .unit, 1, 0, []⟩,
     ⟨1, .gather true 0, .jobs [] [⟨0, 7, some 107, .done⟩], 1, 1, [⟨0, 7, some 107, .done⟩]⟩] = false := by
  decide +kernel
/-- … one in which the report carries another configuration than the owner's record -/
example : checkMTrace pM 2
    [⟨0, .submit [7], .unit, 1, 0, []⟩,
     ⟨0, .gather true 0, .jobs [⟨0, 7, some 107, .done⟩] [], 1, 1, [⟨0, 7, some 107, .done⟩]⟩,
     ⟨1, .gather true 0, .jobs [] [⟨0, 8, some 107, .done⟩], 1, 1, [⟨0, 8, some 107, .done⟩]⟩] = false := by
  decide +kernel
/-- … one in which evaluator 1 hands back a job of evaluator 0 as its own -/
example : checkMTrace pM 2
    [⟨0, .submit [7], .unit, 1, 0, []⟩,
     ⟨1, .gather true 0, .jobs [⟨0, 7, some 107, .done⟩] [], 1, 1, [⟨0, 7, some 107, .done⟩]⟩] = false := by
  decide +kernel
/-- … and one in which a capped submit creates more jobs than the cap allows (counter 2 instead of 1) -/
example : checkMTrace pM 1
    [⟨0, .setMax 1, .unit, 0, 0, []⟩, ⟨0, .submit [7, 8], .spawnMax, 2, 0, []⟩] = false := by decide +kernel
example : checkMTrace pM 1
    [⟨0, .setMax 1, .unit, 0, 0, []⟩, ⟨0, .submit [7, 8], .spawnMax, 1, 0, []⟩] = true := by decide +kernel

end DH.Evaluator
