import Proofs.StopperOrder

/-!
# C16 — early discarding never cuts the best evaluation and respects the step budget

Property theorems only (model: `Model/Stopper.lean`; lemmas: `Proofs/Stopper.lean`,
`Proofs/StopperOrder.lean`).

Setting.  A *system* is a search: any number of jobs, created at any time (`Ev.add`), sharing one
storage; a *schedule* is any list of events; `Ev.step j o` lets job `j` make its next observation
(budgets 1,2,3,…) with an objective `o` chosen by the environment (any number, or a non-`Number`
failure marker), call `record` then `stopped`, and leave its loop when told to stop.
`reach P es` is the system after schedule `es`; every theorem quantifies over all schedules, i.e. over
every interleaving of the jobs' steps and all learning curves.

Objectives.  A numeric objective is an `ERat`: a finite value (exact rational image of the float) or one of
`-inf` / `+inf` (a diverged run reports `-loss = -inf`; both are `numbers.Number`s and legal competitors), in the
order of the floats `-inf < finite < +inf` — `C16_order_total` proves this order linear, so "at least as good as"
and "the top 1/rf" are meaningful for every objective of the model.  `nan` has no order and is outside.  Every
theorem below quantifies over these extended objectives.

Parameter ranges (`RungValid`): `min_steps ≥ 1`, `reduction_factor ≥ 2` (SHA), `interval_steps ≥ 1`
(median); `epsilon ≥ 0`; for the survival of the best under SHA `min_competing = 0` (the default — the
bootstrap rule `num_competing < min_competing ⇒ stop` prunes by design).
-/

namespace DH.Stopper

/-- `epsilon ≥ 0` -/
def EpsNonneg (P : Params) : Prop :=
  match P.kind with
  | .sha _ _ _ _ _ eps => 0 ≤ eps
  | .median _ _ _ eps => 0 ≤ eps
  | _ => True

/-- SHA without the bootstrap rule (`min_competing = 0`, the default) -/
def NoBootstrap (P : Params) : Prop :=
  match P.kind with
  | .sha _ _ _ mc _ _ => mc = 0
  | _ => True

/-! ## the order of the objectives -/

/-- **C16 (objectives are linearly ordered)** — the comparison the stoppers apply to numeric objectives
(finite values and the two infinities) is a linear order that extends the order of the finite values and
has `-inf` at the bottom and `+inf` at the top; `a < b` is "not `b ≤ a`" (true of floats that are not `nan`). -/
theorem C16_order_total :
    (∀ a : ERat, a ≤ a) ∧ (∀ a b c : ERat, a ≤ b → b ≤ c → a ≤ c) ∧
    (∀ a b : ERat, a ≤ b → b ≤ a → a = b) ∧ (∀ a b : ERat, a ≤ b ∨ b ≤ a) ∧
    (∀ a b : ERat, a < b ↔ ¬ b ≤ a) ∧
    (∀ a b : Rat, ERat.fin a ≤ ERat.fin b ↔ a ≤ b) ∧
    (∀ x : ERat, ERat.negInf ≤ x ∧ x ≤ ERat.posInf) ∧
    (∀ a : Rat, ERat.negInf < ERat.fin a ∧ ERat.fin a < ERat.posInf) :=
  ⟨ERat.le_refl', fun _ _ _ => ERat.le_trans', fun _ _ => ERat.le_antisymm', ERat.le_total',
   fun _ _ => not_le.symm, fun _ _ => ERat.fin_le_fin, fun x => ⟨ERat.negInf_le x, ERat.le_posInf x⟩,
   fun a => ⟨ERat.negInf_lt_fin a, ERat.fin_lt_posInf a⟩⟩

example : ERat.negInf < ERat.fin (-3) ∧ ERat.fin 5 < ERat.posInf ∧ ¬ ERat.posInf ≤ ERat.fin 1000000 ∧
    ERat.fin (1/8) < ERat.fin (1/4) := by decide +kernel

/-- **C16 (the repaired median rule always has a threshold)** — whenever there is at least one competitor the
threshold of the median rule is defined (`np.median`, or the lower middle value when the mean of the two middle
values `-inf`, `+inf` is `nan`), it is one that no competitor-dominating objective falls below, and it is
`np.median` whenever that is a number.  (Before the fix the threshold was `nan` for middle values `-inf`, `+inf`
and *every* evaluation judged there, the best one included, was stopped: see the witness examples below.) -/
theorem C16_median_threshold (l : List ERat) (h : l ≠ []) :
    ∃ m, medianThreshold (sortAsc l) = some m ∧ (∀ q, (∀ x ∈ l, x ≤ q) → m ≤ q) ∧
      (∀ m', medianSorted (sortAsc l) = some m' → m = m') := by
  have hne : sortAsc l ≠ [] := by
    intro e
    have := length_sortAsc l
    rw [e] at this
    exact h (List.length_eq_zero_iff.1 this.symm)
  obtain ⟨m, hm⟩ := medianThreshold_isSome hne
  refine ⟨m, hm, fun q hq => medianThreshold_le hm (fun x hx => hq x (mem_sortAsc.1 hx)), ?_⟩
  intro m' hm'
  simp only [medianThreshold, hm'] at hm
  exact (Option.some.inj hm).symm

/-- non-vacuity: the middle values `-inf`, `+inf` have no mean, the threshold is then the lower one -/
example : medianSorted (sortAsc [.posInf, .negInf]) = none ∧
    medianThreshold (sortAsc [.posInf, .negInf]) = some .negInf ∧
    medianThreshold (sortAsc [.posInf, 3, 1, .negInf]) = some 2 := by decide +kernel

/-! ## the step budget -/

/-- **C16 (budget, failures)** — every stopper (idle, constant, successive halving, median), any
parameters with `interval_steps ≠ 0`, *any* system state: the job's `stopped()` returns `True`
(it does not raise, it does not return `False`) when the objective it just recorded is a failure marker,
and when this observation is the `max_steps`-th or a later one. -/
theorem C16_budget (P : Params) (hiv : IntervalOK P) (s : Sys) (j : Nat) (jr : JobRec) (o : Obj)
    (hj : s[j]? = some jr) (hl : jr.halted = false)
    (h : (∃ t, o = .fail t) ∨ P.maxSteps ≤ jr.js.budgets.length + 1) :
    (protoStep P s (.step j o)).2 = some (.ok true) := by
  rw [protoStep_eq P s j jr o hj hl]
  simp only [Option.some.injEq]
  have hlists := observeRec_lists P jr (jr.js.budgets.length + 1) o
  have hnoerr := observeRec_noerr hiv jr (jr.js.budgets.length + 1) o
  unfold jobStep
  rcases hobs : observeRec P jr (jr.js.budgets.length + 1) o with ⟨jr1, e⟩
  rw [hobs] at hlists hnoerr
  simp only at hlists hnoerr
  subst hnoerr
  have ho1 : jr1.js.objs.getLast? = some o := by rw [hlists.1]; simp
  have hb1 : jr1.js.budgets.getLast? = some (jr.js.budgets.length + 1) := by rw [hlists.2]; simp
  obtain ⟨jr2, hbase, _⟩ := baseStop_spec P jr1 o (jr.js.budgets.length + 1) ho1 hb1
  have hres : baseResult P o (jr.js.budgets.length + 1) = true := by
    rcases h with ⟨t, rfl⟩ | h
    · rfl
    · cases o with
      | fail t => rfl
      | num q => simp [baseResult, h]
  simp only [hbase, hres]

/-- `RungValid` includes `interval_steps ≠ 0` -/
theorem IntervalOK_of_RungValid {P : Params} (hv : RungValid P) : IntervalOK P := by
  cases hk : P.kind with
  | median ms mc iv eps => simp only [RungValid, hk] at hv; simp only [IntervalOK, hk]; omega
  | sha ms rf mesr mc mfc eps => simp [IntervalOK, hk]
  | idle => simp [IntervalOK, hk]
  | const st => simp [IntervalOK, hk]

/-- **C16 (no exception under the protocol)** — successive halving and median stopping, parameters in range,
every schedule, every running job, every objective: `record` then `stopped()` returns a Boolean (at a decision
budget the job's own objective is among the competitors, so `a[-k]` / the median are defined). -/
theorem C16_no_exception (P : Params) (hv : RungValid P) (es : List Ev) (j : Nat) (jr : JobRec) (o : Obj)
    (hj : (reach P es)[j]? = some jr) (hl : jr.halted = false) :
    ∃ b, (protoStep P (reach P es) (.step j o)).2 = some (.ok b) := by
  have hlive := (reach_inv hv es j jr hj).1 hl
  have hlen : jr.js.budgets.length = jr.js.objs.length := by rw [hlive.budgets]; simp
  cases o with
  | fail t => exact ⟨true, C16_budget P (IntervalOK_of_RungValid hv) _ j jr _ hj hl (Or.inl ⟨t, rfl⟩)⟩
  | num q =>
    by_cases hmax : P.maxSteps ≤ jr.js.objs.length + 1
    · exact ⟨true, C16_budget P (IntervalOK_of_RungValid hv) _ j jr _ hj hl (Or.inr (by rw [hlen]; exact hmax))⟩
    · rw [protoStep_eq P _ j jr _ hj hl]
      obtain ⟨jr2, hrung, _, hown, hstep⟩ := jobStep_num hv (reach P es) j jr q hlive (by omega)
      rw [hstep]
      simp only [Option.some.injEq]
      have hlt : j < (reach P es).length := getElem?_lt hj
      have hmem : decTest P jr.js.rung (jr.js.objs.length + 1) = true →
          q ∈ competitors ((reach P es).set j jr2) jr.js.rung := fun ht =>
        mem_competitors.2 ⟨j, jr2, List.getElem?_set_self hlt, hown ht⟩
      cases hk : P.kind with
      | idle => simp [RungValid, hk] at hv
      | const st => simp [RungValid, hk] at hv
      | sha ms rf mesr mc mfc eps =>
        simp only [RungValid, hk] at hv
        simp only [decide', hk, shaDecide, hrung]
        by_cases h1 : ((jr.js.objs.length + 1 : Nat) : Int) < shaHB ms rf mesr jr.js.rung
        · exact ⟨false, by simp only [h1, if_true]⟩
        · have ht : decTest P jr.js.rung (jr.js.objs.length + 1) = true := by
            simp only [decTest, hk, decide_eq_true_eq]; omega
          simp only [h1, if_false]
          split
          · exact ⟨false, rfl⟩
          · split
            · exact ⟨true, rfl⟩
            · have hrf : rf ≠ 0 := by omega
              simp only [hrf, if_false]
              set comp := sortAsc (competitors ((reach P es).set j jr2) jr.js.rung) with hcomp_def
              have hlen' : 1 ≤ comp.length := by
                rw [hcomp_def, length_sortAsc]
                exact List.length_pos_of_mem (hmem ht)
              have hk1 : 1 ≤ (if comp.length / rf = 0 then 1 else comp.length / rf) := by
                split
                · exact Nat.le_refl 1
                · exact Nat.pos_of_ne_zero ‹_›
              have hk2 : (if comp.length / rf = 0 then 1 else comp.length / rf) ≤ comp.length := by
                split
                · exact hlen'
                · exact Nat.div_le_self _ _
              obtain ⟨top, htop⟩ := negIdx_isSome hk1 hk2
              rw [htop]
              simp only
              split
              · exact ⟨false, rfl⟩
              · exact ⟨true, rfl⟩
      | median ms mc iv eps =>
        simp only [RungValid, hk] at hv
        simp only [decide', hk, medianDecide, hrung]
        rcases hm : medianIsHalting ms iv (jr.js.objs.length + 1) with _ | _ | _
        · exfalso
          have hiv : iv ≠ 0 := by omega
          unfold medianIsHalting at hm
          by_cases h : jr.js.objs.length + 1 < ms <;> simp [h, hiv] at hm
        · exact ⟨false, rfl⟩
        · simp only
          split
          · exact ⟨false, rfl⟩
          · split
            · exact ⟨true, rfl⟩
            · split
              · exact ⟨false, rfl⟩
              · exact ⟨true, rfl⟩

/-! ## evaluations are compared at the same budget -/

/-- **C16 (alignment — the key invariant)** — successive halving and median stopping, every schedule:
whatever a job has stored under `_completed_rung_r` is the objective that job observed at the `r`-th
decision budget (`(min_steps−1) + rf^(mesr+r)`, resp. `min_steps + r·interval_steps`), or — successive
halving rewrites the rungs of a failed evaluation — the failure marker the job observed last. -/
theorem C16_aligned (P : Params) (hv : RungValid P) (es : List Ev) (j : Nat) (jr : JobRec)
    (hj : (reach P es)[j]? = some jr) (r : Nat) (v : MVal) (h : mget (.rung r) jr.md = some v) :
    ∃ o, v = .obj o ∧
      (jr.js.objs[decBudget P r - 1]? = some o ∨
        ((∃ t, o = .fail t) ∧ jr.js.objs.getLast? = some o)) :=
  (reach_inv hv es j jr hj).2 r v h

/-- a running job has observed budgets `1..n` and its rung counter counts the decision budgets passed -/
theorem C16_rung_counts (P : Params) (hv : RungValid P) (es : List Ev) (j : Nat) (jr : JobRec)
    (hj : (reach P es)[j]? = some jr) (hl : jr.halted = false) :
    jr.js.budgets = List.range' 1 jr.js.objs.length ∧
    (∀ r, r < jr.js.rung ↔ decBudget P r ≤ jr.js.objs.length) := by
  have L := (reach_inv hv es j jr hj).1 hl
  refine ⟨L.budgets, fun r => ⟨L.below r, fun h => ?_⟩⟩
  rcases Nat.lt_or_ge r jr.js.rung with h1 | h1
  · exact h1
  · have := dec_mono hv h1
    have := L.above
    omega

/-- **C16 (the compared value is the raw objective)** — `transform_objective` is the identity (the "maximum so
far" replacement is not active): (1) by definition of the model, validated against the code on every run through
`RunningJob.objective` / `stopper.observations`; (2) after `record(b, o)` the stopper's `objective`, `step` and
`observations` show exactly `o`, `b` and the two histories extended by them; (3) at the `n+1`-th observation of a
running job the decision rule of `stopped()` is applied to exactly the number `q` just recorded and the budget
`n+1`, and at a decision budget the rung entry the competitors will read is that same `q` — not a function of
the objectives observed at earlier budgets. -/
theorem C16_objective_is_raw :
    (∀ js o, transformObjective js o = o) ∧
    (∀ (P : Params) (jr : JobRec) (b : Nat) (o : Obj),
      (observeRec P jr b o).1.js.objective = some o ∧ (observeRec P jr b o).1.js.step = some b ∧
      (observeRec P jr b o).1.js.observations = (jr.js.budgets ++ [b], jr.js.objs ++ [o])) ∧
    (∀ (P : Params), RungValid P → ∀ (es : List Ev) (j : Nat) (jr : JobRec) (q : ERat),
      (reach P es)[j]? = some jr → jr.halted = false → jr.js.objs.length + 1 < P.maxSteps →
      ∃ jr2, (protoStep P (reach P es) (.step j (.num q))).2 =
          some (decide' .fixed P ((reach P es).set j jr2) jr2 (jr.js.objs.length + 1) q).2 ∧
        jr2.js.rung = jr.js.rung ∧
        (decTest P jr.js.rung (jr.js.objs.length + 1) = true →
          jr.js.objs.length + 1 = decBudget P jr.js.rung ∧
          mget (.rung jr.js.rung) jr2.md = some (.obj (.num q)))) := by
  refine ⟨fun _ _ => rfl, ?_, ?_⟩
  · intro P jr b o
    obtain ⟨h1, h2⟩ := observeRec_lists P jr b o
    simp [JS.objective, JS.step, JS.observations, h1, h2]
  · intro P hv es j jr q hj hl hmax
    have hlive := (reach_inv hv es j jr hj).1 hl
    obtain ⟨jr2, hrung, _, hown, hstep⟩ := jobStep_num hv (reach P es) j jr q hlive hmax
    refine ⟨jr2, ?_, hrung, fun ht => ⟨(decTest_iff hv hlive.below hlive.above).1 ht, hown ht⟩⟩
    rw [protoStep_eq P _ j jr _ hj hl, hstep]

/-! ## the best evaluation survives -/

/-- **C16 (best survives)** — successive halving with `min_competing = 0` and median stopping with every
`min_competing`, every schedule, every job `j` still running: if the objective `q` it observes now, at
budget `n+1 < max_steps`, is at least as good as the objective every other job observed at that same
budget, then `stopped()` returns `False`. -/
theorem C16_best_survives (P : Params) (hv : RungValid P) (heps : EpsNonneg P) (hnb : NoBootstrap P)
    (es : List Ev) (j : Nat) (jr : JobRec) (q : ERat)
    (hj : (reach P es)[j]? = some jr) (hl : jr.halted = false)
    (hmax : jr.js.objs.length + 1 < P.maxSteps)
    (hbest : ∀ (j' : Nat) (jr' : JobRec), j' ≠ j → (reach P es)[j']? = some jr' →
      ∀ q', jr'.js.objs[jr.js.objs.length]? = some (.num q') → q' ≤ q) :
    (protoStep P (reach P es) (.step j (.num q))).2 = some (.ok false) := by
  have hinv : ∀ (i : Nat) (x : JobRec), (reach P es)[i]? = some x → JInv P x := reach_inv hv es
  have hlive := (hinv j jr hj).1 hl
  rw [protoStep_eq P _ j jr _ hj hl]
  obtain ⟨jr2, hrung, _, hown, hstep⟩ := jobStep_num hv (reach P es) j jr q hlive hmax
  rw [hstep]
  simp only [Option.some.injEq]
  -- at a decision budget every competitor is ≤ q, and q itself is among them
  have hcomp : decTest P jr.js.rung (jr.js.objs.length + 1) = true →
      q ∈ competitors ((reach P es).set j jr2) jr2.js.rung ∧
      ∀ q' ∈ competitors ((reach P es).set j jr2) jr2.js.rung, q' ≤ q := fun ht =>
    competitors_le hv hinv hj ((decTest_iff hv hlive.below hlive.above).1 ht) hrung (hown ht) hbest
  cases hk : P.kind with
  | idle => simp [RungValid, hk] at hv
  | const st => simp [RungValid, hk] at hv
  | sha ms rf mesr mc mfc eps =>
    simp only [RungValid, hk] at hv
    simp only [EpsNonneg, hk] at heps
    simp only [NoBootstrap, hk] at hnb
    subst hnb
    simp only [decide', hk, shaDecide, hrung]
    by_cases h1 : (jr.js.objs.length : Int) + 1 < shaHB ms rf mesr jr.js.rung
    · simp [h1]
    · have ht : decTest P jr.js.rung (jr.js.objs.length + 1) = true := by
        simp only [decTest, hk, decide_eq_true_eq]; omega
      obtain ⟨hmem, hle⟩ := hcomp ht
      rw [hrung] at hmem hle
      have h1' : ¬ ((jr.js.objs.length + 1 : Nat) : Int) < shaHB ms rf mesr jr.js.rung := by omega
      simp only [h1', if_false]
      split
      · rfl
      · have hrf : rf ≠ 0 := by omega
        simp only [Nat.not_lt_zero, if_false, hrf]
        set comp := sortAsc (competitors ((reach P es).set j jr2) jr.js.rung) with hcomp_def
        have hlen : 1 ≤ comp.length := by
          rw [hcomp_def, length_sortAsc]
          exact List.length_pos_of_mem hmem
        have hk1 : 1 ≤ (if comp.length / rf = 0 then 1 else comp.length / rf) := by
          split
          · exact Nat.le_refl 1
          · exact Nat.pos_of_ne_zero ‹_›
        have hk2 : (if comp.length / rf = 0 then 1 else comp.length / rf) ≤ comp.length := by
          split
          · exact hlen
          · exact Nat.div_le_self _ _
        obtain ⟨top, htop⟩ := negIdx_isSome hk1 hk2
        rw [htop]
        have : top ≤ q := hle top (mem_sortAsc.1 (negIdx_mem htop))
        have : top ≤ q.addFin eps := ERat.le_addFin heps this
        simp [this]
  | median ms mc iv eps =>
    simp only [RungValid, hk] at hv
    simp only [EpsNonneg, hk] at heps
    simp only [decide', hk, medianDecide, hrung]
    rcases hm : medianIsHalting ms iv (jr.js.objs.length + 1) with _ | _ | _
    · exfalso
      have hiv : iv ≠ 0 := by omega
      unfold medianIsHalting at hm
      by_cases h : jr.js.objs.length + 1 < ms <;> simp [h, hiv] at hm
    · rfl
    · have ht : decTest P jr.js.rung (jr.js.objs.length + 1) = true := by simp [decTest, hk, hm]
      obtain ⟨hmem, hle⟩ := hcomp ht
      rw [hrung] at hmem hle
      simp only
      split
      · rfl
      · set comp := sortAsc (competitors ((reach P es).set j jr2) jr.js.rung) with hcomp_def
        have hne : comp ≠ [] := by
          intro e
          have : q ∈ comp := mem_sortAsc.2 hmem
          rw [e] at this; cases this
        obtain ⟨med, hmed⟩ := medianThreshold_isSome hne
        rw [hmed]
        have : med ≤ q := medianThreshold_le hmed (fun x hx => hle x (mem_sortAsc.1 hx))
        have : med ≤ q.addFin eps := ERat.le_addFin heps this
        simp [this]

/-! ## successive halving prunes only outside the top `1/reduction_factor` -/

/-- **C16 (SHA top-k)** — successive halving with `min_competing = 0`, every schedule, a running job `j`
observing the number `q` at budget `n+1 < max_steps`: if `stopped()` returns `True` then `n+1` is the
decision budget of the job's rung `r`, and among the `m` numbers stored under `_completed_rung_r` (each of
them observed at that same budget, by `C16_aligned`) at least `max 1 ⌊m / rf⌋` are strictly greater than
`q + epsilon` — the evaluation is outside the top `1/rf`. -/
theorem C16_sha_topk (P : Params) (hv : RungValid P) (ms rf mesr mfc : Nat) (eps : Rat)
    (hk : P.kind = .sha ms rf mesr 0 mfc eps)
    (es : List Ev) (j : Nat) (jr : JobRec) (q : ERat)
    (hj : (reach P es)[j]? = some jr) (hl : jr.halted = false)
    (hmax : jr.js.objs.length + 1 < P.maxSteps)
    (hstop : (protoStep P (reach P es) (.step j (.num q))).2 = some (.ok true)) :
    jr.js.objs.length + 1 = decBudget P jr.js.rung ∧
    let comp := competitors (protoStep P (reach P es) (.step j (.num q))).1 jr.js.rung
    max 1 (comp.length / rf) ≤ comp.countP (fun v => decide (q.addFin eps < v)) := by
  have hinv : ∀ (i : Nat) (x : JobRec), (reach P es)[i]? = some x → JInv P x := reach_inv hv es
  have hlive := (hinv j jr hj).1 hl
  rw [protoStep_eq P _ j jr _ hj hl] at hstop ⊢
  obtain ⟨jr2, hrung, _, hown, hstep⟩ := jobStep_num hv (reach P es) j jr q hlive hmax
  rw [hstep] at hstop ⊢
  simp only [Option.some.injEq] at hstop
  have hmd := (decide_spec P ((reach P es).set j jr2) jr2 (jr.js.objs.length + 1) q).1
  -- the competitor list after the step is the one `stop` looked at
  have hsame : competitors ((reach P es).set j
        (haltIf (decide' .fixed P ((reach P es).set j jr2) jr2 (jr.js.objs.length + 1) q).1
          (decide' .fixed P ((reach P es).set j jr2) jr2 (jr.js.objs.length + 1) q).2)) jr.js.rung =
      competitors ((reach P es).set j jr2) jr.js.rung := by
    apply competitors_set_congr
    rw [← hmd]
    unfold haltIf
    split <;> rfl
  simp only [hsame]
  have hv' := hv
  simp only [RungValid, hk] at hv'
  simp only [decide', hk, shaDecide, hrung] at hstop
  by_cases h1 : (jr.js.objs.length : Int) + 1 < shaHB ms rf mesr jr.js.rung
  · simp [h1] at hstop
  · have ht : decTest P jr.js.rung (jr.js.objs.length + 1) = true := by
      simp only [decTest, hk, decide_eq_true_eq]; omega
    refine ⟨(decTest_iff hv hlive.below hlive.above).1 ht, ?_⟩
    have h1' : ¬ ((jr.js.objs.length + 1 : Nat) : Int) < shaHB ms rf mesr jr.js.rung := by omega
    simp only [h1', if_false] at hstop
    split at hstop
    · simp at hstop
    · have hrf : rf ≠ 0 := by omega
      simp only [Nat.not_lt_zero, if_false, hrf] at hstop
      set comp := competitors ((reach P es).set j jr2) jr.js.rung with hcomp_def
      split at hstop
      · simp at hstop
      · rename_i top htop
        split at hstop
        · simp at hstop
        · rename_i hnot
          have hlt : q.addFin eps < top := lt_of_not_ge hnot
          have hcount := topk_count (sortAsc_sorted comp) htop hlt
          rw [(sortAsc_perm comp).countP_eq] at hcount
          rw [length_sortAsc] at hcount
          have : max 1 (comp.length / rf) = if comp.length / rf = 0 then 1 else comp.length / rf := by
            by_cases h0 : comp.length / rf = 0
            · rw [if_pos h0, h0]; rfl
            · rw [if_neg h0]; exact Nat.max_eq_right (Nat.pos_of_ne_zero h0)
          rw [this]; exact hcount

/-! ## the verified checker run on the real traces -/

theorem outsideTop_iff (rf : Nat) (l : List ERat) (q : ERat) : outsideTop rf l q = true ↔ OutsideTop rf l q := by
  simp only [outsideTop, OutsideTop, decide_eq_true_eq]

theorem evOK_iff (P : Params) (pre : List TEv) (e : TEv) : evOK P pre e = true ↔ EvSpec P pre e := by
  constructor
  · intro h
    simp only [evOK, Bool.and_eq_true, decide_eq_true_eq] at h
    obtain ⟨⟨h1, h2⟩, h3⟩ := h
    refine ⟨h1, h2, ?_, ?_⟩
    · intro hb hs hlt q hq
      rw [hq] at h3
      simp only [hs, hlt, and_self, if_true, Bool.and_eq_true, decide_eq_true_eq] at h3
      have := h3.1 hb
      simpa [List.any_eq_true] using this
    · intro rf hrf hs hlt q hq
      rw [hq] at h3
      simp only [hs, hlt, and_self, if_true, Bool.and_eq_true, decide_eq_true_eq, hrf, Bool.or_eq_true,
        outsideTop_iff] at h3
      exact h3.2
  · intro h
    simp only [evOK, Bool.and_eq_true, decide_eq_true_eq]
    refine ⟨⟨h.budget, h.failure⟩, ?_⟩
    cases ho : e.obj with
    | fail t => rfl
    | num q =>
      by_cases hs : e.stop = true
      · by_cases hlt : e.step < P.maxSteps
        · have hbest : P.bestApplies = true → ((othersAt pre e.job e.step).any fun v => decide (q < v)) = true := by
            intro hb
            obtain ⟨v, hv, hq⟩ := h.best hb hs hlt q ho
            simp only [List.any_eq_true, decide_eq_true_eq]
            exact ⟨v, hv, hq⟩
          cases hrf : P.topkRf with
          | none =>
            simp only [hs, hlt, and_self, if_true, Bool.and_eq_true, decide_eq_true_eq, and_true]
            exact hbest
          | some rf =>
            have := h.topk rf hrf hs hlt q ho
            simp only [hs, hlt, and_self, if_true, Bool.and_eq_true, decide_eq_true_eq, Bool.or_eq_true, outsideTop_iff]
            exact ⟨hbest, this⟩
        · simp [hs, hlt]
      · simp [hs]

theorem checkFrom_iff (P : Params) : ∀ (rest pre : List TEv),
    checkFrom P pre rest = true ↔ ∀ p e q, rest = p ++ e :: q → EvSpec P (pre ++ p) e := by
  intro rest
  induction rest with
  | nil =>
    intro pre
    simp only [checkFrom, true_iff]
    intro p e q h
    cases p <;> simp at h
  | cons x rest ih =>
    intro pre
    simp only [checkFrom, Bool.and_eq_true, evOK_iff, ih]
    constructor
    · rintro ⟨h0, h1⟩ p e q h
      cases p with
      | nil =>
        simp only [List.nil_append, List.cons.injEq] at h
        obtain ⟨rfl, _⟩ := h
        simpa using h0
      | cons y p =>
        simp only [List.cons_append, List.cons.injEq] at h
        obtain ⟨rfl, h⟩ := h
        have := h1 p e q h
        simpa [List.append_assoc] using this
    · intro h
      refine ⟨by simpa using h [] x rest rfl, ?_⟩
      intro p e q hq
      have := h (x :: p) e q (by simp [hq])
      simpa [List.append_assoc] using this

/-- **C16 (verified trace checker)** — the checker the driver runs on the traces of the real stoppers decides
exactly the clauses budget / failure / best-survives / sha-topk of the property, stated over the trace alone. -/
theorem C16_checker (P : Params) (t : List TEv) : checkStopTrace P t = true ↔ TraceSpec P t := by
  unfold checkStopTrace TraceSpec
  rw [checkFrom_iff]
  constructor
  · intro h pre e post ht; simpa using h pre e post ht
  · intro h p e q ht; simpa using h p e q ht

/-! ## non-vacuity, and the pre-fix witness -/

/-- the witness of DESIGN §6-11 on the model of the **pre-fix** median rule (`legacy = true`):
`min_competing = 2`; job 0 observes 0, 1, 2 (its rung 0 ends up holding 2); job 1 then observes 1 at
budget 1 — better than job 0's 0 at that budget — and is told to stop. -/
def witnessP : Params := ⟨4, .median 1 2 1 0⟩
def witnessEs : List Ev := [.add, .add, .step 0 (.num 0), .step 0 (.num 1), .step 0 (.num 2), .step 1 (.num 1)]

example : (protoRunGen .preRung witnessP [] witnessEs).2.getLast? = some (some (.ok true)) := by decide +kernel
/-- … the repaired rule keeps it (regression example), as `C16_best_survives` says it must -/
example : (protoRun witnessP [] witnessEs).2.getLast? = some (some (.ok false)) := by decide +kernel
/-- the pre-fix witness as a trace: rejected by the verified checker; the repaired behaviour: accepted -/
example : checkStopTrace witnessP [⟨0, 1, .num 0, false⟩, ⟨0, 2, .num 1, false⟩, ⟨0, 3, .num 2, false⟩, ⟨1, 1, .num 1, true⟩] = false := by
  decide +kernel
example : checkStopTrace witnessP [⟨0, 1, .num 0, false⟩, ⟨0, 2, .num 1, false⟩, ⟨0, 3, .num 2, false⟩, ⟨1, 1, .num 1, false⟩] = true := by
  decide +kernel
example : RungValid witnessP ∧ EpsNonneg witnessP ∧ NoBootstrap witnessP := by
  simp [RungValid, EpsNonneg, NoBootstrap, witnessP]

/-- hypotheses of `C16_best_survives` / `C16_sha_topk` are satisfiable: three jobs under SHA(rf = 2);
the third, worst at budget 1, is pruned there; the second, best at budget 1, was not -/
def shaP : Params := ⟨9, .sha 1 2 0 0 0 0⟩
def shaEs : List Ev := [.add, .add, .add, .step 0 (.num 2), .step 1 (.num 3), .step 2 (.num 1)]
example : (protoRun shaP [] shaEs).2 = [none, none, none, some (.ok false), some (.ok false), some (.ok true)] := by
  decide +kernel
example : competitors (reach shaP shaEs) 0 = [2, 3, 1] := by decide +kernel
example : (protoStep shaP [] (.step 0 (.num 1))).2 = none := by decide +kernel
/-- the witness of the `nan`-median defect on the model of the code **before** that fix (`Variant.preNan`):
`min_competing = 0`; job 0 diverged (`-inf` at budget 1), job 1 then reports `+inf` at budget 1 — the best value
there — and is told to stop, because `np.median([-inf, inf])` is `nan`. -/
def nanP : Params := ⟨4, .median 1 0 1 0⟩
def nanEs : List Ev := [.add, .add, .step 0 (.num .negInf), .step 1 (.num .posInf)]
example : (protoRunGen .preNan nanP [] nanEs).2.getLast? = some (some (.ok true)) := by decide +kernel
/-- … the repaired rule keeps it (regression example), as `C16_best_survives` says it must -/
example : (protoRun nanP [] nanEs).2.getLast? = some (some (.ok false)) := by decide +kernel
example : checkStopTrace nanP [⟨0, 1, .num .negInf, false⟩, ⟨1, 1, .num .posInf, true⟩] = false := by decide +kernel
example : RungValid nanP ∧ EpsNonneg nanP ∧ NoBootstrap nanP := by simp [RungValid, EpsNonneg, NoBootstrap, nanP]

/-- infinite objectives are competitors like any other (SHA, rf = 2): with `[20, -inf, -inf]` recorded at
budget 1 the value 6 is in the top 2 of 4 and continues; a lone diverged evaluation (`-inf`) is the best of
one and continues; a `-inf` that is not in the top half is pruned -/
example : (protoRun shaP [] [.add, .add, .add, .add, .step 0 (.num 20), .step 1 (.num .negInf),
      .step 2 (.num .negInf), .step 3 (.num 6)]).2.drop 4 =
    [some (.ok false), some (.ok true), some (.ok true), some (.ok false)] := by decide +kernel
example : (protoRun shaP [] [.add, .step 0 (.num .negInf)]).2 = [none, some (.ok false)] := by decide +kernel
/-- the verified checker judges traces with infinite objectives in the same order -/
example : checkStopTrace shaP [⟨0, 1, .num 20, false⟩, ⟨1, 1, .num .negInf, true⟩, ⟨2, 1, .num .negInf, true⟩,
    ⟨3, 1, .num 6, true⟩] = false := by decide +kernel
example : checkStopTrace shaP [⟨0, 1, .num .negInf, true⟩] = false := by decide +kernel
/-- budget: at `max_steps = 2` the second observation stops an idle stopper -/
example : (protoRun ⟨2, .idle⟩ [] [.add, .step 0 (.num 1), .step 0 (.num 5), .step 0 (.num 7)]).2 =
    [none, some (.ok false), some (.ok true), none] := by decide +kernel

end DH.Stopper
