import Proofs.RefineDone
import Proofs.StatusModel
import Proofs.SharedStorage
import Proofs.SharedComplete
import Proofs.StopFlag
import Proofs.MultiSearch

/-!
# C14 — Timeouts cancel cooperatively and every job ends in a terminal status

Property theorems only (model: `Model/Timeout.lean`, lemmas: `Proofs/Timeout.lean`).

`runOps (init W hpo specs) ops` is the evaluator after an arbitrary sequence of operations
(`timeout`, `submit`, `gather`, `close`, `settle`, `search`; `reach W hpo specs ops`), each with an arbitrary environment
(which finished jobs `asyncio.wait` reported, in which order); `specs` are arbitrary cooperative
run-functions (any number of sleeps, any poll interval, any tie-breaking).  A job that has been
reported by a gather has `pc = .gathered`; `armed` is the deadline that was in effect when it
acquired its worker (`none` = no timeout was set), `start` that instant.
-/

namespace DH.Timeout

/-- **C14 (status only moves forward).**  In every reachable state the sequence of status writes
of every job is `READY, RUNNING, DONE` or `READY, RUNNING, CANCELLING, CANCELLED` or a prefix of
one of them, or `READY[, RUNNING], CANCELLED` (through `close()` only), and the current status is
the last one written. -/
theorem C14_monotone (W : Nat) (hpo : Bool) (specs : List Spec) (ops : List Op) :
    ∀ j ∈ (reach W hpo specs ops).jobs, Allowed j.log ∧ j.log.getLast? = some j.status :=
  fun j hj => allowed_of_inv (reachable_inv' W hpo specs ops j hj)

/-- **C14 (…for every interleaving).**  The same for a single job under *any* sequence of its
transitions (acquire / TimeoutError / return / gather / close, in any order, with any arguments):
the guards of the control flow alone keep the status sequence inside the allowed set. -/
theorem C14_monotone_any_interleaving (sp : Spec) (ts : List JT) :
    Allowed (ts.foldl jApply ({ spec := sp } : Job)).log :=
  (allowed_of_inv (inv_foldl ts _ (inv_fresh sp))).1

/-- **C14 (finished before expiry ⇒ DONE).**  A gathered job whose run-function's natural end
`start + m·p` lies strictly before the deadline is DONE, never read CANCELLING, returned at its
natural end, and its value is kept. -/
theorem C14_done_before_deadline (W : Nat) (hpo : Bool) (specs : List Spec) (ops : List Op)
    (j : Job) (hj : j ∈ (reach W hpo specs ops).jobs) (hp : j.pc = .gathered)
    (c : Nat) (ha : j.armed = some c) (hb : j.start + j.spec.m * j.spec.p < c) :
    j.status = .done ∧ j.log = [.ready, .running, .done] ∧ j.saw = false ∧
    j.ret = j.start + j.spec.m * j.spec.p ∧ j.output = .val j.spec.val := by
  obtain ⟨hc, ho, ht, hf⟩ := gathered_cases W hpo specs ops j hj hp
  rw [ha] at ht hf
  obtain ⟨r1, r2⟩ := runFn_before c j.spec j.start hb
  rw [r1] at ht
  have hret : j.ret = j.start + j.spec.m * j.spec.p := (Prod.mk.inj ht).1
  have hsaw : j.saw = false := (Prod.mk.inj ht).2
  have hfired : j.fired = false := by rw [hf, hret]; rw [r1] at r2; exact r2
  rcases hc with ⟨a, b, _⟩ | ⟨_, _, x⟩
  · exact ⟨b, a, hsaw, hret, ho⟩
  · rw [hfired] at x; simp at x

/-- **C14 (no timeout in effect ⇒ DONE).**  A gathered job that acquired its worker while no
timeout was set is DONE and never read CANCELLING — whatever happened in earlier calls. -/
theorem C14_done_without_timeout (W : Nat) (hpo : Bool) (specs : List Spec) (ops : List Op)
    (j : Job) (hj : j ∈ (reach W hpo specs ops).jobs) (hp : j.pc = .gathered)
    (ha : j.armed = none) :
    j.status = .done ∧ j.log = [.ready, .running, .done] ∧ j.saw = false ∧
    j.output = .val j.spec.val := by
  obtain ⟨hc, ho, ht, hf⟩ := gathered_cases W hpo specs ops j hj hp
  rw [ha] at ht hf
  have hfired : j.fired = false := by rw [hf]; rfl
  have hsaw : j.saw = false := by
    have := (runFn_spec none j.spec j.start).2.2.1
    cases hs : j.saw with
    | false => rfl
    | true =>
      have e : (runFn none j.spec j.start).2 = true := by rw [← ht]; exact hs
      have := this e
      simp [sees] at this
  rcases hc with ⟨a, b, _⟩ | ⟨_, _, x⟩
  · exact ⟨b, a, hsaw, ho⟩
  · rw [hfired] at x; simp at x

/-- **C14 (still running at expiry ⇒ observes CANCELLING, value kept, CANCELLED).**  A gathered
job that acquired its worker no later than the deadline and whose natural end lies strictly after
it read CANCELLING, returned between the deadline and one poll interval after it (no later than
its natural end), is CANCELLED, went through CANCELLING, and the value it returned is kept. -/
theorem C14_cancelled_at_deadline (W : Nat) (hpo : Bool) (specs : List Spec) (ops : List Op)
    (j : Job) (hj : j ∈ (reach W hpo specs ops).jobs) (hp : j.pc = .gathered)
    (c : Nat) (ha : j.armed = some c) (hs : j.start ≤ c) (hb : c < j.start + j.spec.m * j.spec.p) :
    j.saw = true ∧ j.status = .cancelled ∧ j.log = [.ready, .running, .cancelling, .cancelled] ∧
    j.output = .val j.spec.val ∧ c ≤ j.ret ∧ j.ret ≤ c + j.spec.p ∧
    j.ret ≤ j.start + j.spec.m * j.spec.p := by
  obtain ⟨hc, ho, ht, hf⟩ := gathered_cases W hpo specs ops j hj hp
  rw [ha] at ht hf
  obtain ⟨r1, r2, r3, r4, r5⟩ := runFn_after c j.spec j.start hs hb
  have hret : j.ret = (runFn (some c) j.spec j.start).1 := (Prod.mk.inj ht).1
  have hsaw : j.saw = (runFn (some c) j.spec j.start).2 := (Prod.mk.inj ht).2
  have hfired : j.fired = true := by rw [hf, hret]; exact r2
  rcases hc with ⟨_, _, x⟩ | ⟨a, b, _⟩
  · rw [hfired] at x; simp at x
  · exact ⟨by rw [hsaw]; exact r1, b, a, ho, by rw [hret]; exact r3, by rw [hret]; exact r4,
      by rw [hret]; exact r5⟩

/-- **C14 (queued at expiry).**  A gathered job that acquired its worker strictly after the deadline
is CANCELLED (through CANCELLING) and its value is kept. -/
theorem C14_cancelled_after_deadline (W : Nat) (hpo : Bool) (specs : List Spec) (ops : List Op)
    (j : Job) (hj : j ∈ (reach W hpo specs ops).jobs) (hp : j.pc = .gathered)
    (c : Nat) (ha : j.armed = some c) (hs : c < j.start) :
    j.status = .cancelled ∧ j.log = [.ready, .running, .cancelling, .cancelled] ∧
    j.output = .val j.spec.val := by
  obtain ⟨hc, ho, ht, hf⟩ := gathered_cases W hpo specs ops j hj hp
  rw [ha] at ht hf
  have hret : j.ret = (runFn (some c) j.spec j.start).1 := (Prod.mk.inj ht).1
  have hfired : j.fired = true := by rw [hf, hret]; exact runFn_late c j.spec j.start hs
  rcases hc with ⟨_, _, x⟩ | ⟨a, b, _⟩
  · rw [hfired] at x; simp at x
  · exact ⟨b, a, ho⟩

/-- **C14 (the returned value is kept, the status is terminal).**  Every job reported by a gather
carries the value its run-function returned and is DONE or CANCELLED. -/
theorem C14_value_kept (W : Nat) (hpo : Bool) (specs : List Spec) (ops : List Op)
    (j : Job) (hj : j ∈ (reach W hpo specs ops).jobs) (hp : j.pc = .gathered) :
    j.output = .val j.spec.val ∧ (j.status = .done ∨ j.status = .cancelled) := by
  obtain ⟨hc, ho, _, _⟩ := gathered_cases W hpo specs ops j hj hp
  refine ⟨ho, ?_⟩
  rcases hc with ⟨_, b, _⟩ | ⟨_, b, _⟩
  · exact Or.inl b
  · exact Or.inr b

/-! ### completeness: sequences of `search()` calls on one search object -/

/-- **C14 (completeness).**  After `search()` returns — whatever the earlier calls on the same
object were (budget, strict, timeout, expired or not), for every number of workers, every set of
run-functions and every order in which finished jobs were reported — every job that was ever
submitted (ids `0 … jobs.length-1`) appears in the results exactly once (`results` has no duplicate
and contains exactly the submitted ids), was reported by a gather (never by `close()`), and has a
terminal status; nothing is left running. -/
theorem C14_complete (W : Nat) (specs : List Spec) (hist : List SCall)
    (hh : ∀ st ∈ (runSearches (init W true specs) hist).2, SettledStop st)
    (c : Call) (reps : List (List Nat)) (drainRep : List Nat)
    (hs : SettledStop (search (runSearches (init W true specs) hist).1 c reps drainRep).2) :
    let s' := (search (runSearches (init W true specs) hist).1 c reps drainRep).1
    s'.running = [] ∧ s'.results.Nodup ∧ (∀ i : Nat, i < s'.jobs.length ↔ i ∈ s'.results) ∧
    ∀ (i : Nat) (j : Job), s'.jobs[i]? = some j →
      (j.pc = .gathered ∨ j.pc = .closedOut) ∧ (j.status = .done ∨ j.status = .cancelled) := by
  intro s'
  obtain ⟨hr, hi⟩ := runSearches_rep hist (init W true specs) (rep_init W true specs)
    (allInv_init W true specs) hh
  obtain ⟨r1, r2⟩ := rep_search _ c reps drainRep hr hs
  have hi' := allInv_search _ c reps drainRep hi
  obtain ⟨c1, c2, c3⟩ := complete_of_rep r1 r2 hi'
  exact ⟨r2, c1, c2, c3⟩

/-! ### the search returns -/

/-- **C14 (the search returns).**  For every number of workers `W ≥ 1`, every family of cooperative
run-functions, every history of `search()` calls that returned and every environment, the next
`search()` call never blocks: no wait inside it is left without a running evaluation to wait for and
the drain loop always makes progress (`hang` is impossible), and it never raises "No jobs pending"
(`noJobs`).  With a schedule that respects the contract of `asyncio.wait` and is long enough
(`badEnv` / `envExhausted` excluded) it therefore returns — by budget, cap or timeout.  Together with
`C14_returns_steps` (each wait ends exactly at the instant the awaited evaluation returns; nothing is
submitted after an expired clock reading) this is "the search returns once the running evaluations
have returned". -/
theorem C14_returns (W : Nat) (hW : 1 ≤ W) (specs : List Spec) (hist : List SCall)
    (hh : ∀ st ∈ (runSearches (init W true specs) hist).2, SettledStop st)
    (c : Call) (reps : List (List Nat)) (drainRep : List Nat) :
    let r := search (runSearches (init W true specs) hist).1 c reps drainRep
    r.2 ≠ .hang ∧ r.2 ≠ .noJobs ∧
    (r.2 ≠ .badEnv → r.2 ≠ .envExhausted → SettledStop r.2) := by
  intro r
  have hidle := runSearches_idle hist (init W true specs) (idle_init W hW specs) hh
  obtain ⟨h1, h2, _⟩ := search_live _ c reps drainRep hidle
  refine ⟨h1, h2, ?_⟩
  intro h3 h4
  unfold SettledStop
  cases hr : r.2 <;> simp_all [r]

/-- **C14 (how the search returns: the steps).**
(a) the loop submits nothing after the first clock reading at or past the deadline;
(b) a wait never blocks while an evaluation is running: whenever some job is RUNNING/CANCELLING the
    next event is the return of the one that returns first, and the clock moves to exactly that
    instant (never past it). -/
theorem C14_returns_steps :
    -- (a)
    (∀ (strict : Bool) (target : Int) (s : Ev) (nAsk : Nat) (rep : List Nat) (rest : List (List Nat)),
      (target < 0 ∨ numEvals strict s < target) →
      (submitCap (askStep s) nAsk).2 = false →
      (gather (submitCap (askStep s) nAsk).1 false 1 rep).2 = none →
      expired (gather (submitCap (askStep s) nAsk).1 false 1 rep).1 = true →
      loop strict target s nAsk (rep :: rest) =
        ((gather (submitCap (askStep s) nAsk).1 false 1 rep).1, .timeout)) ∧
    -- (b)
    (∀ (s : Ev) (i : Nat) (j : Job), s.jobs[i]? = some j → (j.pc = .waiting ∨ j.pc = .cancelling) →
      ∃ s' k r, stepReturn s = some s' ∧ nextReturn s.jobs 0 none = some (k, r) ∧ r ≤ j.ret ∧
        s'.now = max s.now r) := by
  refine ⟨?_, ?_⟩
  · intro strict target s nAsk rep rest hc hsub hg hexp
    rw [loop]
    simp only [hc, if_true, hsub, Bool.false_eq_true, if_false, hg, hexp]
  · intro s i j hj hp
    obtain ⟨k, r, hn, hr⟩ := nextReturn_some s.jobs 0 none i j hj hp
    have hstep : ∃ s', stepReturn s = some s' ∧ s'.now = max s.now r := by
      unfold stepReturn; rw [hn]; exact ⟨_, rfl, rfl⟩
    obtain ⟨s', h1, h2⟩ := hstep
    exact ⟨s', k, r, h1, hn, hr, h2⟩

end DH.Timeout

namespace DH.Refine
open DH

/-- **C14 (the budget theorem of C03 holds in the timeline model).**  In the per-job model, after any
history of returned `search()` calls, a call with `max_evals = n ≥ 0` that ends by its budget (its
own timeout, if any, did not stop it) creates `e` jobs with `n ≤ e < n + W` (`e = n` when strict),
nothing is left running, every job ever created is in the results exactly once, and — when the call
has no timeout — every job it created is DONE, never read CANCELLING and keeps its value, whatever the
earlier calls' timeouts did.  The counts are obtained by transporting `C03`'s counters-level theorem
along the simulation `C03_abstracts_C14`; the statuses from the invariant that jobs of a call acquire
their worker under that call's deadline (`search_armed`).
(For a call *with* a timeout that ends by budget, "all DONE" additionally needs the clock at the end
of the drain to be before the deadline and the invariant `ret ≤ now` for finished jobs; not proved.) -/
theorem C14_budget_transfer (W : Nat) (hW : 1 ≤ W) (specs : List Timeout.Spec) (hist : List Timeout.SCall)
    (hp : TimeoutsPos hist)
    (hh : ∀ st ∈ (Timeout.runSearches (Timeout.init W true specs) hist).2, Timeout.SettledStop st)
    (c : Timeout.Call) (reps : List (List Nat)) (drainRep : List Nat)
    (hpos : ∀ tt, c.timeout = some tt → 0 < tt) (hn : 0 ≤ c.maxEvals)
    (hend : (Timeout.search (Timeout.runSearches (Timeout.init W true specs) hist).1 c reps drainRep).2 = .budget ∨
            (Timeout.search (Timeout.runSearches (Timeout.init W true specs) hist).1 c reps drainRep).2 = .cap) :
    let t := (Timeout.runSearches (Timeout.init W true specs) hist).1
    let t' := (Timeout.search t c reps drainRep).1
    let e := t'.jobs.length - t.jobs.length
    c.maxEvals ≤ (e : Int) ∧ (e : Int) < c.maxEvals + W ∧ (c.strict = true → (e : Int) = c.maxEvals) ∧
    t'.running = [] ∧ t'.results.Nodup ∧ (∀ i : Nat, i < t'.jobs.length ↔ i ∈ t'.results) ∧
    (c.timeout = none → ∀ (i : Nat) (j : Timeout.Job), t'.jobs[i]? = some j → t.jobs.length ≤ i →
      j.status = .done ∧ j.log = [.ready, .running, .done] ∧ j.saw = false ∧ j.output = .val j.spec.val) := by
  intro t t' e
  have hs : Timeout.SettledStop (Timeout.search t c reps drainRep).2 := by
    rcases hend with h | h
    · exact Or.inl h
    · exact Or.inr (Or.inl h)
  obtain ⟨b1, b2, _⟩ := runSearches_sim hist _ _ (sim_init W specs) (Timeout.rep_init W true specs) hp hh
  obtain ⟨a1, _, a3⟩ := search_sim t _ c reps drainRep b1 b2 hpos hs
  obtain ⟨hq, hw⟩ := induced_quiet W hW specs hist hp hh
  have bs := Search.searchCall_budget _ (callOf c) (inducedCall t c reps) (by rw [hw]; exact hW) hq
    (by simpa [callOf] using hn) (badTimeout_callOf c hpos)
  have hendS : (Search.searchCall {} (Search.runCalls {} (Search.init W)
      (inducedHist (Timeout.init W true specs) hist)).1 (callOf c) (inducedCall t c reps)).2.stop = .budget ∨
      (Search.searchCall {} (Search.runCalls {} (Search.init W)
      (inducedHist (Timeout.init W true specs) hist)).1 (callOf c) (inducedCall t c reps)).2.stop = .cap := by
    rw [a1]
    rcases hend with h | h <;> rw [h] <;> simp [convStop]
  have h1 := bs.lower hendS
  have h2 := bs.upper
  have h3 := bs.strict
  rw [a3] at h1 h2 h3
  rw [hw] at h2
  obtain ⟨r1, r2⟩ := Timeout.rep_search t c reps drainRep b2 hs
  have hinv : Timeout.AllInv t.jobs := by
    have := Timeout.runSearches_rep hist _ (Timeout.rep_init W true specs) (Timeout.allInv_init W true specs) hh
    exact this.2
  have hinv' := Timeout.allInv_search t c reps drainRep hinv
  obtain ⟨c1, c2, c3⟩ := Timeout.complete_of_rep r1 r2 hinv'
  refine ⟨by simpa [callOf] using h1, by simpa [callOf] using h2,
    fun hst => by simpa [callOf] using h3 (by simpa [callOf] using hst) hendS, r2, c1, c2, ?_⟩
  intro hnone i j hj hi
  have harm := search_armed t c reps drainRep b2 hs i j hj hi
  have hdl : (prepT t c).deadline = none := by
    unfold prepT Timeout.setTimeout; rw [hnone]; split <;> rfl
  rw [hdl] at harm
  have hp := (c3 i j hj).1
  have hg : j.pc = .gathered := by
    rcases hp with e | e
    · exact e
    · exact absurd e harm.2
  have ha : j.armed = none := by
    rcases harm.1 with e | e | e
    · exact e
    · rw [hg] at e; simp at e
    · rw [hg] at e; simp at e
  exact Timeout.done_of_armed_none (hinv' j (List.mem_of_getElem? hj)) hg ha

end DH.Refine

namespace DH.Timeout

/-- **C14 (verified checker).**  The executable checker that the harness runs on the
implementation's own status-write logs, start / return ticks and result table decides exactly the
specification `LogSpec`: status only moves forward (non-empty prefix of `READY,RUNNING,DONE` or
`READY,RUNNING,CANCELLING,CANCELLED`, or `READY[,RUNNING],CANCELLED`), nothing reported twice, only
submitted jobs reported, (when the scenario is complete) every submitted job reported, reported
statuses terminal, and for every gathered job away from a tie: started after the deadline ⇒
CANCELLED via CANCELLING (CANCELLING read if the status is read again), running at the deadline ⇒
the same and CANCELLING read (if the evaluator's loop ran between the deadline and its return),
finished before the deadline / no timeout ⇒ DONE and never read
CANCELLING; value kept. -/
theorem C14_checker (o : Obs) : checkStatusLog o = true ↔ LogSpec o :=
  checkStatusLog_iff o

/-- **C14 (the model satisfies what the checker decides).**  The observation of the model after any
history of returned `search()` calls and a further returned call satisfies `LogSpec`, hence passes
`checkStatusLog` — the specification evaluated on the real logs is the one the model theorems are
about. -/
theorem C14_model_passes_checker (W : Nat) (specs : List Spec) (hist : List SCall)
    (hh : ∀ st ∈ (runSearches (init W true specs) hist).2, SettledStop st)
    (c : Call) (reps : List (List Nat)) (drainRep : List Nat)
    (hs : SettledStop (search (runSearches (init W true specs) hist).1 c reps drainRep).2) :
    checkStatusLog (obsOf (search (runSearches (init W true specs) hist).1 c reps drainRep).1 true) = true :=
  (C14_checker _).mpr (model_logSpec W specs hist hh c reps drainRep hs)

/-! ### non-vacuity: concrete schedules -/

/-- 5 jobs on 2 workers, evaluator timeout 3: job 0 finishes before the deadline, job 1 is running at
the deadline, job 2 (queued first) ends exactly at the deadline, jobs 3 and 4 acquire their worker at /
after the deadline (job 3 never sleeps, job 4 polls every 2 ticks) -/
def specsA : List Spec := [⟨2, 1, false, 0⟩, ⟨5, 1, false, 1⟩, ⟨1, 1, false, 2⟩, ⟨0, 1, false, 3⟩, ⟨4, 2, false, 4⟩]
def opsA : List Op := [.timeout (some 3), .submit 5, .gather true 0 [2, 3, 0, 1, 4], .close []]

open Status in
example : (reach 2 false specsA opsA).jobs.map (fun j => (j.status, j.start, j.ret, j.saw, j.pc)) =
    [(done, 0, 2, false, .gathered), (cancelled, 0, 3, true, .gathered), (cancelled, 2, 3, true, .gathered),
     (cancelled, 3, 3, false, .gathered), (cancelled, 3, 5, true, .gathered)] := by decide +kernel
example : (reach 2 false specsA opsA).results = [2, 3, 0, 1, 4] ∧ (reach 2 false specsA opsA).now = 5 := by
  decide +kernel
/-- the same tie (job 2 ends exactly at the deadline) won by the job: DONE -/
example : ((reach 2 false [⟨2, 1, false, 0⟩, ⟨5, 1, false, 1⟩, ⟨1, 1, true, 2⟩] [.timeout (some 3), .submit 3,
    .gather true 0 [0, 1, 2]]).jobs.map (·.status)) = [.done, .cancelled, .done] := by decide +kernel
/-- `close()` with jobs in flight: queued → CANCELLED, RUNNING → CANCELLED, CANCELLING stays
CANCELLING and is not reported (`Pc.aborted`; outside the property, see notes/C14.md) -/
example : ((reach 1 false [⟨3, 1, false, 0⟩, ⟨1, 1, false, 1⟩] [.submit 2, .gather false 0 [], .settle,
    .close []]).jobs.map (fun j => (j.log, j.pc))) =
    [([.ready, .running, .cancelled], .closedOut), ([.ready, .cancelled], .closedOut)] := by decide +kernel
example : ((reach 2 false [⟨3, 1, false, 0⟩, ⟨3, 5, false, 1⟩] [.timeout (some 2), .submit 2,
    .gather false 1 [0], .close []]).jobs.map (fun j => (j.log, j.pc))) =
    [([.ready, .running, .cancelling, .cancelled], .gathered),
     ([.ready, .running, .cancelling], .aborted)] := by decide +kernel

/-- regression (defect 3c): a timeout-only call that expires, then a plain call: the jobs of the
second call acquire their worker with no deadline and are DONE -/
def hist3c : List SCall := [⟨{ timeout := some 2 }, [[0]], []⟩]
example : (runSearches (init 1 true [⟨5, 1, false, 0⟩, ⟨1, 1, false, 1⟩, ⟨1, 1, false, 2⟩]) hist3c).2 = [.timeout] := by
  decide +kernel
example :
    let r := search (runSearches (init 1 true [⟨5, 1, false, 0⟩, ⟨1, 1, false, 1⟩, ⟨1, 1, false, 2⟩]) hist3c).1
      { maxEvals := 2 } [[1], [2]] []
    r.2 = .budget ∧ r.1.jobs.map (fun j => (j.status, j.armed)) =
      [(.cancelled, some 2), (.done, none), (.done, none)] ∧ r.1.results = [0, 1, 2] := by
  decide +kernel

/-- the checker on scenario A (all five jobs gathered) and on two corrupted observations: a job that
started after the deadline reported DONE; a status sequence that goes CANCELLING → DONE -/
example : checkStatusLog (obsOf (reach 2 false specsA opsA) true) = true := by decide +kernel
def badLate : JobObs :=
  { log := [.ready, .running, .done], start := 4, ret := 6, natEnd := 6, deadline := some 3, saw := false,
    pollsAgain := true, loopRan := true, tie := false, gathered := true, valueKept := true }
def badOrder : JobObs :=
  { log := [.ready, .running, .cancelling, .done], start := 0, ret := 1, natEnd := 1, deadline := none,
    saw := false, pollsAgain := true, loopRan := true, tie := false, gathered := false, valueKept := true }
example : checkStatusLog { jobs := [badLate], results := [0], complete := true } = false := by decide +kernel
example : checkStatusLog { jobs := [badOrder], results := [], complete := false } = false := by decide +kernel

end DH.Timeout

/-! ### several evaluators attached to one storage and one `search_id` (`Model/SharedStorage.lean`)

`wrun (winit Ws hpo specs) hist`: `Ws.length` evaluator objects (evaluator `k` with `Ws[k]` workers) created on one
empty storage, after an arbitrary history `hist` of pairs (evaluator, act): any operation of `Model/Timeout.lean`
(`timeout`, `submit`, `gather`, `close`, `settle`, `search`), `gather_other_jobs_done()`, the real `gather(...)`
(local part, then the finished jobs of the other evaluators) and the real `search(...)` built on it — each with an
arbitrary environment.  `jobs` of the world is the shared storage: `Job.log` records every status write to it, whoever
made it. -/

namespace DH.Timeout

/-- **C14 (status only moves forward, also across evaluators).**  In every state reached by any history of operations
of any number of evaluators attached to one storage — a second evaluator continuing the search of a first one whose
timeout left CANCELLED jobs, evaluators taking turns, in any order and with any environment — the sequence of status
writes of every job of the storage is `READY, RUNNING, DONE` or `READY, RUNNING, CANCELLING, CANCELLED` or a prefix,
or `READY[, RUNNING], CANCELLED` (close), and the status in the storage is the last one written: no evaluator ever
moves a status backwards (`CANCELLED → DONE`). -/
theorem C14_shared_monotone (Ws : List Nat) (hpo : Bool) (specs : List Spec) (hist : List (Nat × Act)) :
    ∀ j ∈ (wrun (winit Ws hpo specs) hist).jobs, Allowed j.log ∧ j.log.getLast? = some j.status :=
  fun j hj => allowed_of_inv (allInv_wrun hist _ (allInv_winit Ws hpo specs) j hj)

/-- **C14 (a terminal status is final).**  Once a job has been reported (gathered, or recorded by `close()`), its
status is DONE or CANCELLED and its record in the storage — status, history of writes, output — is never touched again,
whatever any evaluator attached to the storage does afterwards (`more`): the second search reports for it exactly
what the first one left. -/
theorem C14_shared_terminal_final (Ws : List Nat) (hpo : Bool) (specs : List Spec)
    (hist more : List (Nat × Act)) (i : Nat) (j : Job)
    (hj : (wrun (winit Ws hpo specs) hist).jobs[i]? = some j)
    (hp : j.pc = .gathered ∨ j.pc = .closedOut) :
    (j.status = .done ∨ j.status = .cancelled) ∧
    (wrun (wrun (winit Ws hpo specs) hist) more).jobs[i]? = some j := by
  have hi := allInv_wrun hist _ (allInv_winit Ws hpo specs)
  refine ⟨terminal_of_reported (hi j (List.mem_of_getElem? hj)) hp, ?_⟩
  refine wrun_keeps _ hi more i j hj ?_
  rcases hp with h | h
  · exact Or.inl h
  · exact Or.inr (Or.inl h)

/-- **C14 (`gather_other_jobs_done` only reads the statuses).**  In every reachable world, when an evaluator (any
private state `l`) collects the jobs of the others, the storage is left exactly as it was — the `RUNNING → DONE`
promotion never applies to a job whose output is stored — and its `jobs_done` grows by exactly the jobs it neither has
in flight nor had gathered and whose output is stored, each once. -/
theorem C14_other_gather_readonly (Ws : List Nat) (hpo : Bool) (specs : List Spec) (hist : List (Nat × Act))
    (l : Local) (orep : List Nat) (s' : Ev)
    (h : gatherOther (view (wrun (winit Ws hpo specs) hist) l) orep = some s') :
    let w := wrun (winit Ws hpo specs) hist
    s'.jobs = w.jobs ∧ s'.results = l.results ++ orep ∧ orep.Nodup ∧
    ∀ i, i ∈ orep ↔ (i ∉ l.running ∧ i ∉ l.results ∧ ∃ j, w.jobs[i]? = some j ∧ collectable w.hpo j = true) := by
  intro w
  have hi : AllInv (view w l).jobs := allInv_wrun hist _ (allInv_winit Ws hpo specs)
  obtain ⟨a, b, _, _⟩ := gatherOther_jobs hi h
  obtain ⟨c, d, _⟩ := gatherOther_spec h
  exact ⟨a, b, c, fun i => (d i).trans (mem_otherIds (view w l) i)⟩

/-- **C14 (one evaluator alone).**  After any history of returned `search()` calls of a single evaluator, the real
`search()` (which looks for jobs of other evaluators after every gather) is the `search` of the theorems above: nothing
is ever collected from the storage, so `C14_complete`, `C14_returns`, … are statements about it. -/
theorem C14_shared_single (W : Nat) (specs : List Spec) (hist : List SCall)
    (hh : ∀ st ∈ (runSearches (init W true specs) hist).2, SettledStop st)
    (c : Call) (reps : List (List Nat)) (drainRep : List Nat) :
    searchO (runSearches (init W true specs) hist).1 c (reps.map (fun r => (r, []))) (drainRep, []) =
      search (runSearches (init W true specs) hist).1 c reps drainRep :=
  searchO_nil (runSearches_rep hist _ (rep_init W true specs) (allInv_init W true specs) hh).1 c reps drainRep

/-- **C14 (completeness when a search is continued by other evaluators).**  Any number of evaluators on one storage
(HPO jobs), any history of `search()` calls that returned, made by them in any order (`wsearches`: budget, strict,
timeout, expired or not, any workers, run-functions, reports, values — 0 included): when a further `search()` of any
of them returns, nothing is left running, its results hold every job that was ever submitted to the storage — its own
and those of every other evaluator — exactly once (`Nodup`, exactly the ids `0 … jobs.length-1`), and every job of the
storage is reported with status DONE or CANCELLED.  (Whether the call returns at all — `hang` inside a wait — is
proved for one evaluator, `C14_returns`; here it is a hypothesis.) -/
theorem C14_shared_complete (Ws : List Nat) (specs : List Spec) (hist : List WCall)
    (hh : ∀ st ∈ (wsearches (winit Ws true specs) hist).2, SettledStop st)
    (k : Nat) (l : Local) (hk : (wsearches (winit Ws true specs) hist).1.evs[k]? = some l)
    (c : Call) (reps : List (List Nat × List Nat)) (drainRep : List Nat × List Nat)
    (hs : SettledStop (searchO (view (wsearches (winit Ws true specs) hist).1 l) c reps drainRep).2) :
    let s' := (searchO (view (wsearches (winit Ws true specs) hist).1 l) c reps drainRep).1
    s'.running = [] ∧ s'.results.Nodup ∧ (∀ i : Nat, i < s'.jobs.length ↔ i ∈ s'.results) ∧
    ∀ (i : Nat) (j : Job), s'.jobs[i]? = some j →
      (j.pc = .gathered ∨ j.pc = .closedOut) ∧ (j.status = .done ∨ j.status = .cancelled) := by
  intro s'
  have hq := wsearches_quiet hist _ (quiet_winit Ws specs) hh
  exact (quiet_searchO hq hk c reps drainRep hs).2

/-- **C14 (verified checker of multi-evaluator histories).**  The executable checker that the harness runs on the
status-write log of the shared storage and on every table returned by every evaluator decides exactly `SharedSpec`:
every job's writes only moved forward; every table holds each job that was in the storage when it was returned exactly
once, with a terminal status, classified as the property says, value kept (`LogSpec`); and the status a table reports
for a job is the one the job actually reached (the last one written). -/
theorem C14_shared_checker (o : SharedObs) : checkShared o = true ↔ SharedSpec o :=
  checkShared_iff o

/-! non-vacuity: evaluator 0 (2 workers) runs `search(timeout=2)`: job 0 DONE before the expiry, jobs 1 and 2 running
at it (CANCELLED, values kept); evaluator 1 (1 worker) continues with `search(max_evals=1)`: its gather collects
jobs 0, 1, 2 from the storage -/
def specsS : List Spec := [⟨1, 1, false, 1⟩, ⟨5, 1, false, 2⟩, ⟨3, 1, false, 3⟩, ⟨1, 1, false, 4⟩]
def histS : List (Nat × Act) :=
  [(0, .searchO { timeout := some 2 } [([0], []), ([1, 2], [])] ([], [])),
   (1, .searchO { maxEvals := 1 } [([3], [0, 1, 2])] ([], []))]

open Status in
example : (wrun (winit [2, 1] true specsS) histS).jobs.map (fun j => (j.log, j.pc)) =
    [([ready, running, done], .gathered), ([ready, running, cancelling, cancelled], .gathered),
     ([ready, running, cancelling, cancelled], .gathered), ([ready, running, done], .gathered)] := by decide +kernel
example : (wrun (winit [2, 1] true specsS) histS).evs.map (fun l => (l.results, l.running)) =
    [([0, 1, 2], []), ([3, 0, 1, 2], [])] := by decide +kernel
/-- the second evaluator's gather found exactly the three jobs of the first one -/
example : otherIds (view (wrun (winit [2, 1] true specsS) (histS.take 1)) { W := 1 }) = [0, 1, 2] := by
  decide +kernel
/-- the same history as `wsearches`: both calls return (timeout, budget); the second table is complete -/
def histW : List WCall :=
  [⟨0, { timeout := some 2 }, [([0], []), ([1, 2], [])], ([], [])⟩]
example : (wsearches (winit [2, 1] true specsS) histW).2 = [.timeout] := by decide +kernel
example : (searchO (view (wsearches (winit [2, 1] true specsS) histW).1 { W := 1 }) { maxEvals := 1 }
    [([3], [0, 1, 2])] ([], [])).2 = .budget := by decide +kernel
/-- what `gather_other_jobs_done` must not do: `CANCELLED → DONE` is not an allowed sequence of writes, and an
observation with such a log, or with a table reporting DONE for a job that reached CANCELLED, is rejected -/
example : monotoneB [.ready, .running, .cancelling, .cancelled, .done] = false := by decide +kernel
def okJob (lg : List Status) (dl : Option Nat) (ret natEnd : Nat) (saw : Bool) : JobObs :=
  { log := lg, start := 0, ret := ret, natEnd := natEnd, deadline := dl, saw := saw, pollsAgain := true,
    loopRan := true, tie := false, gathered := true, valueKept := true }
def jobsOk : List JobObs := [okJob logDone (some 3) 1 1 false, okJob logCancelled (some 3) 4 5 true]
def jobsBack : List JobObs := [okJob logDone (some 3) 1 1 false, okJob (logCancelled ++ [.done]) (some 3) 4 5 true]
def tabA : TableObs := { nJobs := 2, rows := [(0, .done), (1, .cancelled)] }
def tabB : TableObs := { nJobs := 2, rows := [(1, .cancelled), (0, .done)] }
def tabBad : TableObs := { nJobs := 2, rows := [(1, .done), (0, .done)] }
example : checkShared { jobs := jobsOk, tables := [tabA, tabB] } = true := by decide +kernel
example : checkShared { jobs := jobsOk, tables := [tabA, tabBad] } = false := by decide +kernel
example : checkShared { jobs := jobsBack, tables := [tabA, tabBad] } = false := by decide +kernel

end DH.Timeout

/-! ### the `stopped` flag of `Search._search`: time budget, callbacks, `max_evals` (`Model/StopFlag.lean`)

`searchF s c reps drainRep views` is the real `search()` on an evaluator created with `callbacks=[…]`: `views` holds, per
iteration of the loop, what `_search` sees of each callback (`none`: no attribute `search_stopped`; `some b`: its
value) — an arbitrary environment: logger / progress-bar callbacks, `SearchEarlyStopping` before and after it fires, a
user's own callback.  The stop reason `.timeout` of `searchF` stands for "the flag was raised". -/

namespace DH.Timeout

/-- **C14 (the `stopped` flag is only ever raised).**  (a) The two tests at the end of an iteration never lower the
flag: once true it stays true, an expired time budget raises it whatever the callbacks say, and so does a callback that
asks for the stop.  (b) In every `search()` call, with any callbacks: every iteration starts with the flag down, leaves
it at `before ∨ expired ∨ fired`, the next iteration reads exactly that value and exists only if it is `false` — after
the first raise nothing is asked, submitted or gathered any more. -/
theorem C14_stop_flag_monotone :
    (∀ (e : Bool) (v : CbView), raiseFlag true e v = true) ∧
    (∀ (st : Bool) (v : CbView), raiseFlag st true v = true) ∧
    (∀ (st e : Bool) (v : CbView), fires v = true → raiseFlag st e v = true) ∧
    (∀ (s : Ev) (c : Call) (reps : List (List Nat × List Nat)) (views : List CbView),
      (∀ st ∈ searchFlags s c reps views,
        st.before = false ∧ st.after = (st.before || st.expired || st.fired)) ∧
      (∀ (i : Nat) (a b : FlagStep), (searchFlags s c reps views)[i]? = some a →
        (searchFlags s c reps views)[i + 1]? = some b → a.after = false ∧ b.before = a.after)) := by
  refine ⟨raiseFlag_of_stopped, raiseFlag_of_expired, fun st e v h => raiseFlag_of_fires st e h, ?_⟩
  intro s c reps views
  obtain ⟨h1, h2, _⟩ := flagsF_spec c.strict (targetF (prepF s c) c) reps (prepF s c) false (prepF s c).W views
  exact ⟨h1, h2⟩

/-- **C14 (an expired time budget stops the search whatever the callbacks say).**  If the gather of an iteration ends
at or after the deadline, the loop returns right there — no further ask / submit / gather, the evaluator is left exactly
as that gather left it — for every view of the callbacks (an early-stopping callback that has not fired included) and
every later environment. -/
theorem C14_expiry_stops_despite_callbacks (strict : Bool) (target : Int) (s : Ev) (nAsk : Nat)
    (rep : List Nat × List Nat) (rest : List (List Nat × List Nat)) (views : List CbView)
    (hc : target < 0 ∨ numEvals strict s < target)
    (hsub : (submitCap (askStep s) nAsk).2 = false)
    (hg : (gatherO (submitCap (askStep s) nAsk).1 false 1 rep.1 rep.2).2 = none)
    (hexp : expired (gatherO (submitCap (askStep s) nAsk).1 false 1 rep.1 rep.2).1 = true) :
    loopF strict target s false nAsk (rep :: rest) views =
      ((gatherO (submitCap (askStep s) nAsk).1 false 1 rep.1 rep.2).1, .timeout) := by
  rw [loopF]
  simp only [hc, and_self, if_true, hsub, Bool.false_eq_true, if_false, hg, hexp]
  rw [raiseFlag_of_expired, loopF_stopped]

/-- **C14 (callbacks that do not ask for the stop change nothing).**  After any history of returned `search()` calls of
one evaluator, a `search()` call during which no callback fires (logger, progress bar, early stopping that has not
triggered) is the `search` of `C14_complete` / `C14_returns` / `C14_returns_steps`: it returns by budget, cap or timeout
exactly as without callbacks. -/
theorem C14_callbacks_silent (W : Nat) (specs : List Spec) (hist : List SCall)
    (hh : ∀ st ∈ (runSearches (init W true specs) hist).2, SettledStop st)
    (c : Call) (reps : List (List Nat)) (drainRep : List Nat) (views : List CbView)
    (hv : ∀ v ∈ views, fires v = false) :
    searchF (runSearches (init W true specs) hist).1 c (reps.map (fun r => (r, []))) (drainRep, []) views =
      search (runSearches (init W true specs) hist).1 c reps drainRep := by
  rw [searchF_silent _ _ _ _ _ hv]
  exact C14_shared_single W specs hist hh c reps drainRep

/-- **C14 (status only moves forward / completeness, with callbacks).**  Any number of evaluators with callbacks on one
storage, any history of returned `search()` calls with any callback views (firing or not, at any iteration): every
job's writes are an allowed forward sequence; and when a further `search()` returns (by budget, cap, time budget or a
callback's request) nothing is running and its results hold every job ever submitted exactly once, DONE or CANCELLED. -/
theorem C14_callbacks_complete (Ws : List Nat) (specs : List Spec) (hist : List WCallF)
    (hh : ∀ st ∈ (wsearchesF (winit Ws true specs) hist).2, SettledStop st)
    (k : Nat) (l : Local) (hk : (wsearchesF (winit Ws true specs) hist).1.evs[k]? = some l)
    (c : Call) (reps : List (List Nat × List Nat)) (drainRep : List Nat × List Nat) (views : List CbView) :
    let r := searchF (view (wsearchesF (winit Ws true specs) hist).1 l) c reps drainRep views
    (∀ j ∈ r.1.jobs, Allowed j.log ∧ j.log.getLast? = some j.status) ∧
    (SettledStop r.2 →
      r.1.running = [] ∧ r.1.results.Nodup ∧ (∀ i : Nat, i < r.1.jobs.length ↔ i ∈ r.1.results) ∧
      ∀ (i : Nat) (j : Job), r.1.jobs[i]? = some j →
        (j.pc = .gathered ∨ j.pc = .closedOut) ∧ (j.status = .done ∨ j.status = .cancelled)) := by
  intro r
  refine ⟨?_, ?_⟩
  · intro j hj
    have hi := wsearchesF_allInv hist _ (allInv_winit Ws true specs)
    exact allowed_of_inv (pres_searchF pres_allInv _ c reps drainRep views hi j hj)
  · intro hs
    have hq := wsearchesF_quiet hist _ (quiet_winit Ws specs) hh
    exact (quiet_searchF hq hk c reps drainRep views hs).2

/-! non-vacuity: one worker, `search(timeout=2)`, evaluations of one tick, an early-stopping callback that never fires
(`some false` at every iteration): the second gather ends at the deadline, the flag is raised by the time budget and the
loop returns with two jobs — the view `some false` does not take the expiry back -/
def specsF : List Spec := [⟨1, 1, false, 1⟩, ⟨1, 1, false, 2⟩, ⟨1, 1, false, 3⟩, ⟨1, 1, false, 4⟩]
def repsF : List (List Nat × List Nat) := [([0], []), ([1], []), ([2], []), ([3], [])]

example : (searchF (init 1 true specsF) { timeout := some 2 } repsF ([], []) [[some false], [some false], [some false]]).2
    = .timeout := by decide +kernel
example : (searchF (init 1 true specsF) { timeout := some 2 } repsF ([], []) [[some false], [some false], [some false]]).1.results
    = [0, 1] := by decide +kernel
example : searchFlags (init 1 true specsF) { timeout := some 2 } repsF [[some false], [some false], [some false]] =
    [⟨false, false, false, false⟩, ⟨false, true, false, true⟩] := by decide +kernel
/-- a callback without the attribute and one that fires at the first iteration, long before the deadline: one job, DONE -/
example : (searchF (init 1 true specsF) { timeout := some 9 } repsF ([], []) [[none, some true]]).1.jobs.map (·.status)
    = [.done] := by decide +kernel
example : searchFlags (init 1 true specsF) { timeout := some 9 } repsF [[none, some true]] =
    [⟨false, false, true, true⟩] := by decide +kernel
/-- hypotheses of `C14_expiry_stops_despite_callbacks` at the second iteration of the first scenario -/
example :
    let s := (gatherO (submitCap (askStep (prepF (init 1 true specsF) { timeout := some 2 })) 1).1 false 1 [0] []).1
    numEvals false s < 9 ∧ (submitCap (askStep s) 1).2 = false ∧
    (gatherO (submitCap (askStep s) 1).1 false 1 [1] []).2 = none ∧
    expired (gatherO (submitCap (askStep s) 1).1 false 1 [1] []).1 = true := by decide +kernel
/-- what the flag logic must not be: *assigning* the callback's value would lower a raised flag -/
example : raiseFlag true false [some false] = true ∧ raiseFlag false true [some false] = true := by decide

/-! ## Several searches recorded in one storage object (`Model/MultiSearch.lean`)

`MemoryStorage` holds any number of searches; evaluators created with the same `storage=` and no `search_id` open a
search each, and the job indices of those searches overlap (`"0.0"`, `"1.0"`, …).  `Store` = the searches of one storage
object with the clock they share; the job `"s.i"` is keyed by the pair `(s, i)` (`Store.job st s i`); `srun st hist` =
any history of operations `(search, evaluator, act)` of any evaluators of any searches, in the order in which they are
made. -/

/-- **C14 (the searches of one storage are isolated).**  Whatever the evaluators of the OTHER searches of the storage do
(any operations, any environment, timeouts expiring, `close()`), search `s'` is left exactly as it was: the record of
every job `"s'.i"` — status, history of status writes, output — and the private state of its evaluators.  A call on
search `s` never writes a row of a search `s' ≠ s`: a DONE job of one search cannot become CANCELLED through the timeout
of another, a running job cannot observe the status of another search's job. -/
theorem C14_search_isolation (st : Store) (hist : List (Nat × Nat × Act)) (s' : Nat)
    (h : ∀ x ∈ hist, x.1 ≠ s') :
    (srun st hist).searches[s']? = st.searches[s']? ∧ ∀ i, (srun st hist).job s' i = st.job s' i :=
  ⟨srun_other hist st s' h, fun i => job_of_searches_eq (srun_other hist st s' h) i⟩

/-- **C14 (status only moves forward, jobs identified by their full id).**  Any number of searches in one storage, any
number of evaluators on each, any history of any of their operations in any order: the status writes of every job
`(s, i)` form an allowed forward sequence and its status in the storage is the last one written. -/
theorem C14_multi_monotone (cfg : List (List Nat × Bool × List Spec)) (hist : List (Nat × Nat × Act))
    (s i : Nat) (j : Job) (hj : (srun (sinit cfg) hist).job s i = some j) :
    Allowed j.log ∧ j.log.getLast? = some j.status := by
  obtain ⟨w, hw, hjw⟩ := mem_jobs_of_job hj
  exact allowed_of_inv (storeInv_srun hist _ (storeInv_sinit cfg) w hw j hjw)

/-- **C14 (a terminal status is final, across the searches of a storage).**  Once job `(s, i)` has been reported
(gathered, or recorded by `close()`), it is DONE or CANCELLED and its record is never touched again by any later
operation of any evaluator of ANY search of the storage (`more`). -/
theorem C14_multi_terminal_final (cfg : List (List Nat × Bool × List Spec)) (hist more : List (Nat × Nat × Act))
    (s i : Nat) (j : Job) (hj : (srun (sinit cfg) hist).job s i = some j)
    (hp : j.pc = .gathered ∨ j.pc = .closedOut) :
    (j.status = .done ∨ j.status = .cancelled) ∧ (srun (srun (sinit cfg) hist) more).job s i = some j := by
  have hi := storeInv_srun hist _ (storeInv_sinit cfg)
  obtain ⟨w, hw, hjw⟩ := mem_jobs_of_job hj
  refine ⟨terminal_of_reported (hi w hw j hjw) hp, ?_⟩
  refine srun_keeps more _ hi s i j hj ?_
  rcases hp with h | h
  · exact Or.inl h
  · exact Or.inr (Or.inl h)

/-! non-vacuity: two searches in one storage, one evaluator (1 worker) each.  Search 0 runs `search(max_evals=1)`: job
`0.0` DONE at tick 1.  Search 1 then runs `search(timeout=2)`: its job `1.0` (5 sleeps) is running at the expiry, reads
CANCELLING and is CANCELLED at tick 3.  Search 0 runs `search(max_evals=1)` once more at tick 3: job `0.1` DONE.  Job `0.0`
is DONE all along (the pinned-tree regression of the seeded class: the status slot of `"0.0"` is not the one of `"1.0"`). -/
def cfgM : List (List Nat × Bool × List Spec) :=
  [([1], true, [⟨1, 1, false, 1⟩, ⟨1, 1, false, 2⟩]), ([1], true, [⟨5, 1, false, 7⟩])]
def histM : List (Nat × Nat × Act) :=
  [(0, 0, .searchO { maxEvals := 1 } [([0], [])] ([], [])),
   (1, 0, .searchO { timeout := some 2 } [([0], [])] ([], [])),
   (0, 0, .searchO { maxEvals := 1 } [([1], [])] ([], []))]

open Status in
example : (srun (sinit cfgM) histM).searches.map (fun w => w.jobs.map (fun j => (j.log, j.pc, j.start, j.ret))) =
    [[([ready, running, done], .gathered, 0, 1), ([ready, running, done], .gathered, 3, 4)],
     [([ready, running, cancelling, cancelled], .gathered, 1, 3)]] := by decide +kernel
example : (srun (sinit cfgM) histM).now = 4 := by decide +kernel
/-- after the first call job `0.0` is reported DONE (hypotheses of `C14_multi_terminal_final`), and the second call acts on
another search (hypothesis of `C14_search_isolation`) -/
example : ((srun (sinit cfgM) (histM.take 1)).job 0 0).map (fun j => (j.status, j.pc)) = some (.done, .gathered) := by
  decide +kernel
example : ∀ x ∈ (histM.drop 1).take 1, x.1 ≠ 0 := by decide
example : ((srun (sinit cfgM) histM).job 0 0).map (·.status) = some .done ∧
    ((srun (sinit cfgM) histM).job 1 0).map (·.status) = some .cancelled := by decide +kernel

end DH.Timeout
