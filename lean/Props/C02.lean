import Proofs.AskMembership
import Proofs.RegEvo

/-!
# C02 — Every proposed configuration is a member of the declared search space

Property theorems only.  Models: `Model/Membership.lean` (the declared space `Decl`, membership
`memSpace`, `check_x_in_space`, the clip / `inverse_transform` /
`deactivate_inactive_dimensions` tail of `Optimizer._tell`) and `Model/Ask.lean` (every path of
`Optimizer.ask`, `tell`, `copy`, `update_next`, the CBO layer, the search loop `run`).
Lemmas: `Proofs/Membership.lean`, `Proofs/Ask.lean`.

Environment (universally quantified): the candidate lists returned by `Space.rvs`, the argmin
indices / argsorts / multinomial draws, the vectors the acquisition optimiser ends on
(`Pick.free t`, **arbitrary**: no assumption that `t` lies inside the transformed bounds), the
told results, and the numerics `log`, `pow`, ConfigSpace's float rounding (`NumEnv`, arbitrary
functions).  Contracts:

* `OpOK`: every candidate offered by `Space.rvs` is a member (contract of `Dimension.rvs` /
  ConfigSpace sampling — property C10 and L3 of this check look at the real thing);
* a `free` optimiser output is only used on spaces without numeric-ordinal "identity"
  dimensions — the only surrogate with gradients (GP) normalises every dimension
  (`C02_free_admissible`); on the sampling path the row is the transform of a candidate
  (`tr_tok`: proved admissible).
-/

namespace DH.Mem

open DH.Ask

/-- **C02 (membership).**  For every declared problem, every freshly set-up optimizer (any
`n_initial_points`, duplicate filter on or off, dummy or real surrogate, **any** multi-point
strategy — `cl_min/cl_mean/cl_max/topk/boltzmann/qUCB/qUCBd` —, any failure policy) whose
pre-computed initial points are members, every sequence of `ask(n)` / `tell(results)` calls (in
any order, any results), and every environment in which the sampled candidates are members: every
configuration returned by every `ask` is a member of the declared space (kind and inclusive
bounds, declared choices, canonical value for inactive hyperparameters, no forbidden clause). -/
theorem C02_member (ne : NumEnv) (d : Decl) (hw : d.wfAll = true) (c₀ : Cbo Config)
    (hfresh : Fresh c₀) (hinit : ∀ x ∈ c₀.opt.initSamples, memSpace d x = true)
    (calls : List (Op Config (List Slice)))
    (henv : ∀ o ∈ calls, OpOK (fun x => memSpace d x = true) (Tok ne d) o)
    (c : Cbo Config) (Z : List (Sel Config))
    (hrun : runOps (memOps ne d) c₀ calls = .ok (c, Z)) :
    ∀ z ∈ Z, memSpace d z.x = true := by
  have hi : PInv (fun x => memSpace d x = true) c₀.opt :=
    ⟨hinit, (by intro x hx; rw [hfresh.1] at hx; cases hx),
      (by intro l hl; rw [hfresh.2.1] at hl; cases hl),
      (by intro n st X hX; rw [hfresh.2.2] at hX; cases hX)⟩
  exact (runOps_P (memOps_ok ne d hw) hi henv hrun).2

/-- **C02 (accepted back).**  A member of the declared space passes `check_x_in_space`, the test
`Optimizer.tell` applies to what it is told. -/
theorem C02_accepted_back (d : Decl) (x : Config) (hw : d.wf = true) (h : memSpace d x = true) :
    checkXInSpace d x = true :=
  mem_accept d x hw h

/-- … hence telling back any batch of proposals passes the membership check of `tell`. -/
theorem C02_tell_accepts (ne : NumEnv) (d : Decl) (hw : d.wf = true) (s : Opt Config)
    (xs : List (Config × Obj)) (e : Fit Config (List Slice))
    (h : ∀ p ∈ xs, memSpace d p.1 = true) :
    tell (memOps ne d) s xs e = tellCore (memOps ne d) s xs e := by
  unfold tell
  rw [if_pos]
  rw [List.all_eq_true]
  intro p hp
  exact mem_accept d p.1 hw (h p hp)

/-- **C02 (next point).**  Whatever vector `t` the acquisition optimiser returns — inside the
transformed bounds or not, for arbitrary `log`/`pow` —, clip → `inverse_transform` →
`deactivate_inactive_dimensions` yields a member of the declared space (or raises). -/
theorem C02_inverse_member (ne : NumEnv) (d : Decl) (t : List Slice) (y : Config)
    (hw : d.wf = true) (htok : Tok ne d t) (h : fin ne d t = some y) : memSpace d y = true :=
  fin_mem hw htok h

/-- every transformed row is admissible when no dimension uses the "identity" transformer on a
choice list — in particular on every space a GP surrogate (the only one with gradients, hence
the only one whose acquisition is optimised by lbfgs) works on: it normalises all dimensions -/
theorem C02_free_admissible (ne : NumEnv) (d : Decl) (hn : d.noIdentityCat = true)
    (t : List Slice) : Tok ne d t :=
  tok_of_noIdentity hn t

/-- **C02 (initial designs).**  On an unconstrained space every point produced by an initial
point generator (`set_transformer("normalize")`, a point of the unit cube, `inverse_transform`)
is a member. -/
theorem C02_initial_design (ne : NumEnv) (d : Decl) (ts : List Slice) (x : Config)
    (hw : d.wf = true) (hu : d.unconstrained = true)
    (h : invAll ne (normalizedHps d.hps) ts = some x) : memSpace d x = true :=
  design_mem hw hu h

/-- **C02 (numeric sequences, "identity" transformer).**  For an ordinal hyperparameter whose
sequence is numeric — all `int`, all `float`, **or mixing ints and floats** (the legal short-hand
`[1, 2.5, 4.5, 8]`) — the value a tree surrogate's optimizer hands out after
`transform → clip → inverse_transform` of a declared value is again a declared value: the typed
choice itself on a homogeneous sequence (`Identity(type_func=int)` / `Identity()`), a float equal
to a declared number on a mixed one (`1.0` for the declared `1`; never a truncated `2` for `2.5`).
Holds for every dimension kind and transformer (`h.wfTr`: the identity transformer is only put
on numeric sequences). -/
theorem C02_sequence_roundtrip_member (ne : NumEnv) (h : Hp) (hw : h.wf = true) (hwt : h.wfTr = true)
    (v w : Val) (hm : memDim h.dim v = true)
    (hinv : invDim ne h (clipSlice (tBounds ne h) (trDim ne h v)) = some w) :
    memDim h.dim w = true :=
  invDim_mem hw (trDim_tok hwt hm).2 hinv

/-- **C02 (every call succeeds — totality of the model).**  The model returns an error output
exactly where the code raises (`Err`: `badN`, `emptySample`, `badIndex`, `envShort`, `finRaises`,
`notInSpace`, `noModel`; the table in `Proofs/AskTotal.lean` says which statement raises each).
For every declared problem, every optimizer with `n_initial_points ≥ 1` satisfying the bookkeeping
invariant `TInv` (any freshly set-up one: `C02_total_fresh`), every multi-point strategy and every
sequence of ask/tell calls, **no call returns an error output**, under the environment contract
`OpTotal`:
* `ask(n)` has `n ≥ 1`; `Space.rvs` returns non-empty lists of members;
* argmin / argsort / multinomial indices are positions of the array they were computed on, one
  fit per constant-liar step, one argsort per kappa, `n + 100` multinomial draws (`OrdTotal`);
* what is told are members (then `check_x_in_space` accepts them: `C02_accepted_back`);
* `hrt` / `FitTotal.free`: transforming a member and coming back, and inverting the row lbfgs ends
  on, does not raise.  `C02_roundtrip_total` reduces `hrt` to the *exact* round trip of
  `inverse_transform ∘ transform` (property C09) — the deactivation step provably does not raise
  on a member (`deactivate_member`).
What is *not* covered: exceptions inside scikit-learn / NumPy / ConfigSpace sampling (the
surrogate fit, the acquisition function) — those are environment here and are exercised by the
oracle on the real code. -/
theorem C02_total (ne : NumEnv) (d : Decl) (hw : d.wf = true)
    (hrt : ∀ c, memSpace d c = true → ∃ x, fin ne d (tr ne d c) = some x)
    (c₀ : Cbo Config) (h0 : TInv c₀.opt) (calls : List (Op Config (List Slice)))
    (henv : ∀ o ∈ calls, OpTotal (fun x => memSpace d x = true) (memOps ne d) c₀.strat o) :
    ∃ c Z, runOps (memOps ne d) c₀ calls = .ok (c, Z) :=
  runOps_total ⟨hrt, fun x hx => mem_accept d x hw hx⟩ calls c₀ h0 henv

/-- a freshly set-up optimizer with `n_initial_points ≥ 1` satisfies the invariant of `C02_total` -/
theorem C02_total_fresh (filterOn dummy : Bool) (nInit : Int) (init : List Config) (h : 1 ≤ nInit) :
    TInv (Opt.init filterOn dummy nInit init) :=
  start_TInv filterOn dummy nInit init h

/-- the round-trip contract of `C02_total` follows from the exact round trip of the transformers
(C09) when ConfigSpace's rounding leaves the member's floats alone: `deactivate_inactive_dimensions`
does not raise on a member (in particular not because of the placeholder of an inactive
hyperparameter — defect 2f) -/
theorem C02_roundtrip_total (ne : NumEnv) (d : Decl) (c : Config) (hc : memSpace d c = true)
    (hr : RndFix ne c)
    (hexact : invAll ne d.hps (if d.allCat then tr ne d c else clipAll ne d.hps (tr ne d c)) = some c) :
    fin ne d (tr ne d c) = some c := by
  unfold fin
  simp only [hexact]
  exact deactivate_member hc hr

/-- **C02 (RandomSearch, RegularizedEvolution, `Space.rvs` with a ConfigSpace).**  A
configuration sampled by ConfigSpace holds values for its active hyperparameters only; completing
it with the canonical inactive values gives a member of the declared space, provided the sample
honours ConfigSpace's contract for the *completed* configuration `x`: values are present exactly
for the hyperparameters active in `x`, they are members of their dimensions, and no forbidden
clause holds. -/
theorem C02_fill_inactive (d : Decl) (s : List (Option Val)) (x : Config)
    (hx : fillInactive d.hps s = some x)
    (hs : sampleOK d.hps s (activeList d x) = true)
    (hf : d.forbs.any (forbHolds d.hps x (activeList d x)) = false) :
    memSpace d x = true := by
  unfold memSpace
  simp only [Bool.and_eq_true, Bool.not_eq_true']
  exact ⟨fillInactive_memAll hx hs, hf⟩

/-- **C02 (RegularizedEvolution).**  For every declared problem, every population whose
configurations have member values, every sequence of `ask(n)` / `tell(results)` calls (what is
told has member values — in a search these are earlier proposals) and every outcome of the seeded
choices — which members of the population are sampled, which active hyperparameter is mutated,
the value `hp.rvs()` draws (a member of that hyperparameter's dimension), the raw ConfigSpace
samples of the random phase and of the fallback branch (`RegEvo.SampleOK`: values exactly for the
active hyperparameters, members of their dimensions, no forbidden clause — the contract of
`C02_fill_inactive`; the model completes them itself) — every proposed configuration is a member
of the declared space: the mutated child is re-validated by ConfigSpace (`deactivateE`: children
(de)activated by the conditions, placeholders for the inactive ones, forbidden mutations
re-drawn), a sample is completed with the canonical inactive values. -/
theorem C02_regevo_member (ne : NumEnv) (d : Decl) (hw : d.wf = true) (st : RegEvo.St)
    (hpop : ∀ p ∈ st.pop, dimsAll d.hps p.1 = true) (calls : List RegEvo.Op)
    (henv : ∀ o ∈ calls, RegEvo.OpOK d o) (st' : RegEvo.St) (Z : List Config)
    (hrun : RegEvo.run ne d st calls = .ok (st', Z)) : ∀ x ∈ Z, memSpace d x = true :=
  RegEvo.run_mem hw hpop henv hrun

/-- **C02 (RegularizedEvolution, the fallback branch).**  On a space whose forbidden clauses leave
a parent no allowed single-hyperparameter mutation (all 100 trials end on a `ForbiddenValueError`:
`mutate … = .ok none`), the call still succeeds and the child is the *completion* of the fresh
ConfigSpace sample (one entry per hyperparameter, `SampleOK`): it has a value for **every**
hyperparameter — the canonical inactive value where the sample had none — and is a member of the
declared space (declared kinds, bounds / choices, canonical inactive values, no forbidden clause).
The branch taken does not matter for what is handed out (random phase, validated mutation,
fallback: `C02_regevo_member`). -/
theorem C02_regevo_fallback_member (ne : NumEnv) (d : Decl) (hw : d.wf = true) (st : RegEvo.St)
    (e : RegEvo.ChildEnv) (parent p0 : Config)
    (hpar : RegEvo.parentOf st e.idxs = some parent) (hp0 : deactivateCS ne d parent = .ok p0)
    (hexh : RegEvo.mutate ne d parent (activeList d p0) 100 e.attempts = .ok none)
    (hlen : e.fresh.length = d.hps.length) (hs : RegEvo.SampleOK d e.fresh) :
    ∃ y, RegEvo.child ne d st e = .ok y ∧ fillInactive d.hps e.fresh = some y ∧
      y.length = d.hps.length ∧ memSpace d y = true :=
  RegEvo.child_fallback hw hpar hp0 hexh hlen hs

/-! ### non-vacuity and regression witnesses -/

section witnesses

/-- `a ∈ {x,y,w}`, ordinal `m ∈ (1,2,4)`, `b ∈ 1..10` active iff `a == "x"`, real
`c ∈ [3e-5, 7000]` log-uniform; forbidden `b == 1 ∧ m == 2`; tree surrogate transformers -/
def d1 : Decl :=
  { hps := [{ name := "a", dim := .cat [.str "x", .str "y", .str "w"], tr := .label, cond := none },
            { name := "m", dim := .cat [.int 1, .int 2, .int 4], tr := .identity, cond := none },
            { name := "b", dim := .int 1 10 .uniform, tr := .identity, cond := some (.cmp 0 .eq (.str "x")) },
            { name := "c", dim := .real (3 / 100000) 7000 .logUniform, tr := .identity, cond := none }],
    forbs := [.and (.eq 2 (.int 1)) (.eq 1 (.int 2))] }

/-- numerics standing in for log10 / 10** / rounding (the theorems hold for any) -/
def ne1 : NumEnv := { lg := fun x => x, pw := fun t => t + 1 / 1000000000000, rnd := fun x => x }

example : d1.wfAll = true := by decide +kernel

-- members: inactive `b` carries its lower bound — and then `b == 1 ∧ m == 2` does not apply
example : memSpace d1 [.str "y", .int 2, .int 1, .real 7000] = true := by decide +kernel
example : memSpace d1 [.str "x", .int 4, .int 7, .real (1 / 2)] = true := by decide +kernel
-- non-members: kind, bound, choice, inactive value, forbidden clause
example : memSpace d1 [.str "x", .int 4, .real 7, .real (1 / 2)] = false := by decide +kernel
example : memSpace d1 [.str "x", .int 4, .int 11, .real (1 / 2)] = false := by decide +kernel
example : memSpace d1 [.str "q", .int 4, .int 1, .real (1 / 2)] = false := by decide +kernel
example : memSpace d1 [.str "y", .int 4, .int 7, .real (1 / 2)] = false := by decide +kernel
example : memSpace d1 [.str "x", .int 2, .int 1, .real (1 / 2)] = false := by decide +kernel

/-- DESIGN §6-2b: with a `pow` that overshoots by 1e-12 the un-clipped inverse transform of the
upper bound would be `7000.000000000001 ∉ [3e-5, 7000]`; the (fixed) model clips: `fin` of a
row far outside every bound is a member -/
example : fin ne1 d1 [[17], [9 / 2], [1000], [7000]] = some [.str "w", .int 4, .int 1, .real 7000] := by
  decide +kernel
example : memDim (.real (3 / 100000) 7000 .logUniform) (.real (ne1.pw 7000)) = false := by
  decide +kernel

/-- DESIGN §6-2a: the transformed coordinate of a category (`0.0` for `"x"`) is not a member -/
example : memDim (.cat [.str "x", .str "y", .str "w"]) (.real 0) = false := by decide +kernel

/-- a numeric sequence mixing ints and floats, `mult ∈ (1, 2.5, 4.5, 8)`, tree surrogate
("identity" transformer): `Space.rvs` hands out the declared objects (`1`, `2.5`), the model phase
hands the values back as floats — `1.0` is the declared `1`.  What `int(2.5)` gives (`2`), a
float that is not declared (`2.0`) and `True` are not members (seeded change C02-8: the
transformer chosen by looking at the first category only truncates `2.5` to `2`). -/
def dMix : Decl :=
  { hps := [{ name := "mult", dim := .cat [.int 1, .real (5 / 2), .real (9 / 2), .int 8], tr := .identity,
              cond := none }],
    forbs := [] }

example : dMix.wfAll = true := by decide +kernel
example : memSpace dMix [.int 1] = true := by decide +kernel
example : memSpace dMix [.real 1] = true := by decide +kernel
example : memSpace dMix [.real (5 / 2)] = true := by decide +kernel
example : memSpace dMix [.int 2] = false := by decide +kernel
example : memSpace dMix [.real 2] = false := by decide +kernel
example : memSpace dMix [.bool true] = false := by decide +kernel
example : checkXInSpace dMix [.real 1] = true := by decide +kernel
-- the model's inverse step hands the float itself back, as the code does
example : fin ne1 dMix [[5 / 2]] = some [.real (5 / 2)] := by decide +kernel
example : fin ne1 dMix [[1]] = some [.real 1] := by decide +kernel
-- the hypotheses of `C02_sequence_roundtrip_member` are satisfiable on the mixed sequence
example : (dMix.hps.all fun h => h.wf && h.wfTr) = true := by decide +kernel
-- on a homogeneous sequence the declared kind is the sequence's kind
example : memDim (.cat [.int 1, .int 2, .int 4]) (.real 2) = false := by decide +kernel
example : memDim (.cat [.real 1, .real 2]) (.int 2) = false := by decide +kernel

/-- a categorical whose choices have different types (`["sqrt", 1, 0.5]`): the declared objects
are the members — the string `"1"` (what a conversion of the choices to a common NumPy type
hands out: seeded change C02-11) is not -/
example : memDim (.cat [.str "sqrt", .int 1, .real (1 / 2)]) (.int 1) = true := by decide +kernel
example : memDim (.cat [.str "sqrt", .int 1, .real (1 / 2)]) (.str "1") = false := by decide +kernel
example : memDim (.cat [.str "sqrt", .int 1, .real (1 / 2)]) (.real 1) = false := by decide +kernel

/-- a parent whose active value is falsy in Python: `lr` is active iff `use_default == False`.
`deactivate_inactive_dimensions` keeps the active `False` (it is a value, not a missing entry);
replacing it by the first choice `True` while `lr` keeps its value is not a member (seeded change
C02-12: `x_dict.get(name) or bounds[0]`) -/
def dFalsy : Decl :=
  { hps := [{ name := "use_default", dim := .cat [.bool true, .bool false], tr := .label, cond := none },
            { name := "lr", dim := .int 1 10 .uniform, tr := .identity, cond := some (.cmp 0 .eq (.bool false)) }],
    forbs := [] }

example : dFalsy.wfAll = true := by decide +kernel
example : deactivate ne1 dFalsy [.bool false, .int 7] = some [.bool false, .int 7] := by decide +kernel
example : memSpace dFalsy [.bool false, .int 7] = true := by decide +kernel
example : memSpace dFalsy [.bool true, .int 7] = false := by decide +kernel
example : deactivate ne1 dFalsy [.bool true, .int 7] = some [.bool true, .int 1] := by decide +kernel

/-- a ConfigSpace sample without `b` (inactive) is completed with `b = 1` -/
example : fillInactive d1.hps [some (.str "y"), some (.int 2), none, some (.real 1)] =
    some [.str "y", .int 2, .int 1, .real 1] := by decide +kernel
example : sampleOK d1.hps [some (.str "y"), some (.int 2), none, some (.real 1)]
    (activeList d1 [.str "y", .int 2, .int 1, .real 1]) = true := by decide +kernel

/-- the fixed `deactivate_inactive_dimensions`: placeholder `b = 1` of an inactive `b` does not
trigger `b == 1 ∧ m == 2`; an active `b = 1` with `m = 2` raises -/
example : deactivate ne1 d1 [.str "y", .int 2, .int 7, .real 1] = some [.str "y", .int 2, .int 1, .real 1] := by
  decide +kernel
example : deactivate ne1 d1 [.str "x", .int 2, .int 1, .real 1] = none := by decide +kernel

/-- a whole run on `d1` (constant liar, then a lbfgs-style free output far outside the bounds):
the hypotheses of `C02_member` are satisfiable and the run is not an error -/
def cands1 : List Config :=
  [[.str "y", .int 2, .int 1, .real 1], [.str "x", .int 4, .int 3, .real 2],
   [.str "w", .int 1, .int 1, .real 3], [.str "x", .int 1, .int 9, .real 4]]

def fitIdx (i : Nat) : Fit Config (List Slice) := { cands := cands1, pick := .idx (fun _ => i) }

def round1 : Round Config (List Slice) :=
  { n := 2,
    askEnv := { cands := cands1, copyFit := fitIdx 0, steps := [⟨cands1, fitIdx 1⟩, ⟨cands1, fitIdx 0⟩],
                orders := fun _ => [], refresh := fitIdx 0 },
    results := [([.str "y", .int 2, .int 1, .real 1], .val), ([.str "x", .int 4, .int 3, .real 2], .fail)],
    tellEnv := { cands := cands1, pick := .free [[5], [9 / 2], [100], [-3]] (fun _ => 2) } }

example : ∀ c ∈ cands1, memSpace d1 c = true := by decide +kernel

example : (run (memOps ne1 d1) (Cbo.start 1 false .clMin false) [round1, round1]).toOption.map
    (fun p => p.2.map (·.x)) =
    some [[.str "y", .int 2, .int 1, .real 1], [.str "x", .int 4, .int 3, .real 2],
          [.str "w", .int 1, .int 1, .real (3000000000001 / 1000000000000)],
          [.str "x", .int 1, .int 9, .real (4000000000001 / 1000000000000)]] := by
  decide +kernel

/-- RegularizedEvolution on `d1`: the parent `(x, 4, b=7)` is mutated on `a`; `a := "y"`
deactivates `b` (placeholder 1), and with `m := 2` afterwards the clause `b == 1 ∧ m == 2` does not
apply to the placeholder; a mutation onto the forbidden `(x, 2, b=1)` is re-drawn -/
def stR : RegEvo.St :=
  { popSize := 2, sampleSize := 1,
    pop := [([.str "x", .int 4, .int 7, .real 1], 1), ([.str "x", .int 2, .int 3, .real 2], 2)] }

example : (RegEvo.run ne1 d1 stR
    [.ask 2 [] [⟨[0], [⟨"a", .str "y"⟩], []⟩,
                ⟨[1, 0], [⟨"b", .int 1⟩, ⟨"m", .int 4⟩], []⟩]]).toOption.map (·.2) =
    some [[.str "y", .int 4, .int 1, .real 1], [.str "x", .int 4, .int 3, .real 2]] := by
  decide +kernel

/-- a **tightly forbidden** space: two integers `a, b ∈ 0..99` forced equal (`a < b` and `a > b`
are both forbidden: 99 % of the box) and a float `c ∈ [0.5, 2]` active iff `a == 0`.  From the
parent `(5, 5)` a single mutation is allowed only if it re-draws the same value: here all 100
trials are forbidden, the fallback branch takes the fresh ConfigSpace sample `{a: 21, b: 21}`
(`c` inactive: absent) and hands out its completion `(21, 21, c = 0.5)`.  The uncompleted sample
(no entry for `c`: seeded change C02-14, which completed only inside the trial loop) is not a
member. -/
def dTied : Decl :=
  { hps := [{ name := "a", dim := .int 0 99 .uniform, tr := .identity, cond := none },
            { name := "b", dim := .int 0 99 .uniform, tr := .identity, cond := none },
            { name := "c", dim := .real (1 / 2) 2 .uniform, tr := .identity, cond := some (.cmp 0 .eq (.int 0)) }],
    forbs := [.rel 0 1 .lt, .rel 0 1 .gt] }

def stTied : RegEvo.St :=
  { popSize := 2, sampleSize := 1,
    pop := [([.int 5, .int 5, .real (1 / 2)], 1), ([.int 70, .int 70, .real (1 / 2)], 2)] }

def eTied : RegEvo.ChildEnv :=
  { idxs := [0],
    attempts := (List.range 100).map (fun (k : Nat) => ⟨if k % 2 = 0 then "a" else "b", .int (6 + ((k % 90 : Nat) : Int))⟩),
    fresh := [some (.int 21), some (.int 21), none] }

example : dTied.wf = true := by decide +kernel
example : RegEvo.parentOf stTied eTied.idxs = some [.int 5, .int 5, .real (1 / 2)] := by decide +kernel
example : deactivateCS ne1 dTied [.int 5, .int 5, .real (1 / 2)] = .ok [.int 5, .int 5, .real (1 / 2)] := by
  decide +kernel
-- the hypotheses of `C02_regevo_fallback_member`: every one of the 100 trials is forbidden …
example : RegEvo.mutate ne1 dTied [.int 5, .int 5, .real (1 / 2)]
    (activeList dTied [.int 5, .int 5, .real (1 / 2)]) 100 eTied.attempts = .ok none := by decide +kernel
-- … and the fresh sample honours ConfigSpace's contract
example : RegEvo.SampleOK dTied eTied.fresh := by
  intro x hx
  have : x = [.int 21, .int 21, .real (1 / 2)] := by
    have h : fillInactive dTied.hps eTied.fresh = some [.int 21, .int 21, .real (1 / 2)] := by decide +kernel
    rw [h] at hx
    exact (Option.some.inj hx).symm
  subst this
  exact ⟨by decide +kernel, by decide +kernel⟩
-- the child handed out is the completed sample, a member
example : RegEvo.child ne1 dTied stTied eTied = .ok [.int 21, .int 21, .real (1 / 2)] := by decide +kernel
example : memSpace dTied [.int 21, .int 21, .real (1 / 2)] = true := by decide +kernel
-- the uncompleted sample is not (no value for `c`), nor is a value of the wrong kind, nor a
-- configuration off the diagonal
example : memSpace dTied [.int 21, .int 21] = false := by decide +kernel
example : memSpace dTied [.int 21, .int 21, .str "<missing c>"] = false := by decide +kernel
example : memSpace dTied [.int 21, .real 21, .real (1 / 2)] = false := by decide +kernel
example : memSpace dTied [.int 21, .int 22, .real (1 / 2)] = false := by decide +kernel
-- with `c` active (`a == 0`) mutating `c` is always allowed: the fallback is not reached
example : RegEvo.mutate ne1 dTied [.int 0, .int 0, .real 1]
    (activeList dTied [.int 0, .int 0, .real 1]) 100 [⟨"b", .int 3⟩, ⟨"c", .real (3 / 2)⟩] =
    .ok (some [.int 0, .int 0, .real (3 / 2)]) := by decide +kernel

/-- the environment contract of `C02_total` is satisfiable (an `ask(2)` with constant liar) -/
def envT : AskEnv Config (List Slice) :=
  { cands := cands1, copyFit := fitIdx 0, steps := [⟨cands1, fitIdx 0⟩, ⟨cands1, fitIdx 0⟩],
    orders := fun _ => [], refresh := fitIdx 0 }

example : OpTotal (fun x => memSpace d1 x = true) (memOps ne1 d1) .clMin (.ask 2 envT) := by
  have hfit : FitTotal (fun x => memSpace d1 x = true) (memOps ne1 d1) (fitIdx 0) :=
    { ne := by decide, mem := by decide +kernel,
      pick := fun l hl => by
        cases l with
        | nil => exact absurd rfl hl
        | cons a t => simp,
      free := fun t fb h => by simp [fitIdx] at h }
  refine ⟨by decide, by decide, hfit, hfit, ⟨by decide, ?_⟩, ⟨?_, ?_, ?_⟩⟩
  · intro st hst
    simp only [envT, List.mem_cons, List.not_mem_nil, or_false] at hst
    rcases hst with rfl | rfl <;> exact hfit
  · intro h; cases h
  · intro h; cases h
  · intro h; simp [Strategy.isQ] at h

end witnesses

end DH.Mem
