import Proofs.Failures
import Props.C04

/-!
# C06 — failed evaluations are contained: recorded as failures, never fatal

Property theorems only.  Model: `Model/Failures.lean` (`CBO._tell`, `Optimizer._tell`,
`_filter_failures`, `RegularizedEvolution._tell`) and the `_on_done` / writer parts of
`Model/Dump.lean`; helper lemmas: `Proofs/Failures.lean`.

A history is a list of told batches `(objectives, scaled)`: `objectives` are the objectives of
the jobs of one `tell` as `_on_done` left them, `scaled` is what the numerical code
(`objective_scaler`, scalarisation) made of the non-failed entries at that moment — environment,
universally quantified.  "Raising" is an error output of the model.
-/

namespace DH.Failures
open DH.Dump

/-- `_on_done` applied to every objective of a history -/
def afterDone (h : List (List Val × List Rat)) : List (List Val × List Rat) :=
  h.map (fun b => (b.1.map onDoneObjective, b.2))

theorem afterDone_noNonFin (h : List (List Val × List Rat)) :
    ∀ b ∈ afterDone h, ∀ o ∈ b.1, noNonFin o = true := by
  intro b hb o ho
  simp only [afterDone, List.mem_map] at hb
  obtain ⟨b0, _, rfl⟩ := hb
  simp only [List.mem_map] at ho
  obtain ⟨o0, _, rfl⟩ := ho
  exact onDone_noNonFin o0

/-- **C06 (no non-finite value reaches the optimizer).**  Whatever the run-function returned
(any value tree: number, ±inf, NaN, tuple containing them, `'F…'`, dict forms), what `CBO._tell`
hands to `Optimizer.tell` for it after `_on_done` is a finite number, a tuple of finite numbers,
or the failure marker — for every policy. -/
theorem C06_no_nonfinite (p : Policy) (out o : Val) (md : Dict) (y : Y)
    (_hstd : standardizeOutput out = .ok (o, md))
    (hy : cboTellOne p (onDoneObjective o) = .ok (some y)) : y.isFinite = true :=
  cboTellOne_finite p _ y (onDone_noNonFin o) hy

/-- **C06 (what reaches the surrogate).**  For every history of raw objectives (anything at all),
every policy, every `max_failures`, every initial `n_initial_points` and every environment: the
tell pipeline ends normally, or `CBO._tell` rejects a malformed objective (`""`, `None`), or the
environment broke its contract, or `ExhaustedFailures` is raised — and then the history has at
least `max_failures` entries.  In particular `est.fit` never receives a NaN/inf, never the `"F"`
marker, and never a ragged array: those error outputs are unreachable. -/
theorem C06_surrogate_input (p : Policy) (mf : Nat) (n0 : Int) (h : List (List Val × List Rat)) :
    (∃ r, runTells p mf ⟨n0, []⟩ (afterDone h) = .ok r) ∨
    (∃ e, runTells p mf ⟨n0, []⟩ (afterDone h) = .error (.inl e)) ∨
    runTells p mf ⟨n0, []⟩ (afterDone h) = .error (.inr .envContract) ∨
    (runTells p mf ⟨n0, []⟩ (afterDone h) = .error (.inr .exhausted) ∧ mf ≤ histLen (afterDone h)) := by
  have := runTells_cases p mf (afterDone h) ⟨n0, []⟩ ⟨rfl, by intro _ y hy; simp at hy⟩
    (afterDone_noNonFin h)
  simpa using this

theorem C06_never_nonfinite_to_fit (p : Policy) (mf : Nat) (n0 : Int) (h : List (List Val × List Rat)) :
    runTells p mf ⟨n0, []⟩ (afterDone h) ≠ .error (.inr .nonFiniteToSurrogate) ∧
    runTells p mf ⟨n0, []⟩ (afterDone h) ≠ .error (.inr .markerToSurrogate) ∧
    runTells p mf ⟨n0, []⟩ (afterDone h) ≠ .error (.inr .ragged) := by
  rcases C06_surrogate_input p mf n0 h with ⟨r, hr⟩ | ⟨e, hr⟩ | hr | ⟨hr, _⟩ <;> rw [hr] <;> simp

/-- a raw objective of the supported forms whose failure labels start with `F` -/
def RawOK : Val → Prop
  | .num _ => True
  | .nonfin _ => True
  | .str s => firstIsF s = true
  | .list l => ∀ v ∈ l, (∃ q, v = Val.num q) ∨ (∃ k, v = Val.nonfin k)
  | _ => False

theorem firstIsF_F : firstIsF "F" = true := by decide

theorem onDone_WF (o : Val) (h : RawOK o) : WFObj (onDoneObjective o) := by
  cases o with
  | num q => trivial
  | nonfin k => exact firstIsF_F
  | str s => exact h
  | list l =>
    unfold onDoneObjective
    by_cases hany : l.any isNonFinite = true
    · simp only [hany, if_true]; exact firstIsF_F
    · simp only [hany]
      intro v hv
      rcases h v hv with hq | ⟨k, rfl⟩
      · exact hq
      · exfalso; apply hany; rw [List.any_eq_true]; exact ⟨_, hv, rfl⟩
  | none => exact absurd h (by simp [RawOK])
  | dict d => exact absurd h (by simp [RawOK])

/-- **C06 (totality).**  For every history of supported objectives — any pattern and position
of failures, failures only included, any failure kind (`'F…'`, NaN, ±inf, NaN inside a tuple),
any policy — with fewer than `max_failures` results, no step of the model raises: the run ends
normally unless the environment breaks its contract. -/
theorem C06_total (p : Policy) (mf : Nat) (n0 : Int) (h : List (List Val × List Rat))
    (hraw : ∀ b ∈ h, ∀ o ∈ b.1, RawOK o) (hlen : histLen (afterDone h) < mf) :
    (∃ r, runTells p mf ⟨n0, []⟩ (afterDone h) = .ok r) ∨
    runTells p mf ⟨n0, []⟩ (afterDone h) = .error (.inr .envContract) := by
  have hwf : ∀ b ∈ afterDone h, ∀ o ∈ b.1, WFObj o := by
    intro b hb o ho
    simp only [afterDone, List.mem_map] at hb
    obtain ⟨b0, hb0, rfl⟩ := hb
    simp only [List.mem_map] at ho
    obtain ⟨o0, ho0, rfl⟩ := ho
    exact onDone_WF o0 (hraw b0 hb0 o0 ho0)
  rcases C06_surrogate_input p mf n0 h with hr | ⟨e, hr⟩ | hr | ⟨_, hm⟩
  · exact Or.inl hr
  · exact absurd hr (runTells_no_tellErr p mf _ _ hwf e)
  · exact Or.inr hr
  · omega

/-- **C06 (`ExhaustedFailures` is unreachable from a search).**  With `n_initial_points ≥ 1`
(a `CBO` with `n_initial_points = 0` and no checkpoint cannot even ask its first point) no
history whatsoever — in particular `max_failures` or more consecutive failures, with or without
earlier successes — makes the tell pipeline raise `ExhaustedFailures`: a fit needs
`_n_initial_points ≤ 0`, i.e. at least one non-failed result, and then `_filter_failures` has
something to impute from.  (The real `search()` does not catch `ExhaustedFailures`; it never
has to: after `max_failures` failures it simply keeps sampling at random — observed, see notes.) -/
theorem C06_never_exhausted (p : Policy) (mf : Nat) (n0 : Int) (hn0 : 1 ≤ n0)
    (h : List (List Val × List Rat)) :
    runTells p mf ⟨n0, []⟩ h ≠ .error (.inr .exhausted) :=
  runTells_not_exhausted p mf n0 hn0 h ⟨n0, []⟩ (by simp [NInitInv, countOk])

/-- **C06 (totality, any length).**  Hence for `n_initial_points ≥ 1` the length restriction of
`C06_total` is not needed: every history of supported objectives, of any length and for any
`max_failures`, runs to the end. -/
theorem C06_total_any_length (p : Policy) (mf : Nat) (n0 : Int) (hn0 : 1 ≤ n0)
    (h : List (List Val × List Rat)) (hraw : ∀ b ∈ h, ∀ o ∈ b.1, RawOK o) :
    (∃ r, runTells p mf ⟨n0, []⟩ (afterDone h) = .ok r) ∨
    runTells p mf ⟨n0, []⟩ (afterDone h) = .error (.inr .envContract) := by
  have hwf : ∀ b ∈ afterDone h, ∀ o ∈ b.1, WFObj o := by
    intro b hb o ho
    simp only [afterDone, List.mem_map] at hb
    obtain ⟨b0, hb0, rfl⟩ := hb
    simp only [List.mem_map] at ho
    obtain ⟨o0, ho0, rfl⟩ := ho
    exact onDone_WF o0 (hraw b0 hb0 o0 ho0)
  rcases C06_surrogate_input p mf n0 h with hr | ⟨e, hr⟩ | hr | ⟨hr, _⟩
  · exact Or.inl hr
  · exact absurd hr (runTells_no_tellErr p mf _ _ hwf e)
  · exact Or.inr hr
  · exact absurd hr (C06_never_exhausted p mf n0 hn0 _)

/-- **C06 (exactly when `ExhaustedFailures` is raised).**  The complementary case, reachable
only on an optimizer that fits from the start (`_n_initial_points ≤ 0`: `Optimizer.tell` used
directly, or a checkpoint loaded with `fit_surrogate`): a first batch consisting of `k` failures
with an imputing policy raises `ExhaustedFailures` iff `k ≥ max_failures`; below that the fit
receives `k` zeros. -/
theorem C06_exhausted_exact (p : Policy) (hp : p ≠ .ignore) (mf : Nat) (n0 : Int) (hn0 : n0 ≤ 0)
    (o : Val) (r : List Val) (hfail : ∀ x ∈ o :: r, ∃ s, x = Val.str s ∧ firstIsF s = true) :
    searchTell p mf ⟨n0, []⟩ (o :: r) [] =
      if mf ≤ (o :: r).length then .error (.inr .exhausted)
      else .ok (⟨n0, (o :: r).map (fun _ => Y.fail)⟩, some ((o :: r).map (fun _ => (0 : Rat)))) := by
  have hc := cboTell_all_fail p hp (o :: r) hfail
  have hc' : cboTell p (o :: r) = .ok (Y.fail :: r.map (fun _ => Y.fail)) := by simpa using hc
  rw [searchTell_unfold p mf ⟨n0, []⟩ (o :: r) [] Y.fail (r.map (fun _ => Y.fail)) hc']
  have hrep : (Y.fail :: r.map (fun _ => Y.fail)) = List.replicate (r.length + 1) Y.fail := by
    simp [List.replicate_succ, List.map_const']
  have hcount : countOk (Y.fail :: r.map (fun _ => Y.fail)) = 0 := by
    rw [hrep]; simp [countOk, isOk]
  simp only [hcount, List.nil_append]
  have hle : n0 - ((0 : Nat) : Int) ≤ 0 := by omega
  simp only [hle, if_true]
  have hfin : (List.replicate (r.length + 1) Y.fail).all Y.isFinite = true := by simp [Y.isFinite]
  have hfit : fitInput p mf (Y.fail :: r.map (fun _ => Y.fail)) [] =
      if mf ≤ r.length + 1 then .error .exhausted
      else .ok (List.replicate (r.length + 1) (0 : Rat)) := by
    rw [hrep]
    unfold fitInput
    simp only [hfin, Bool.not_true, Bool.false_eq_true, if_false, mergeScaled_all_fail]
    have hgood : (List.replicate (r.length + 1) (none : Option (List Rat))).filterMap id = [] := by simp
    cases p with
    | ignore => exact absurd rfl hp
    | mean =>
      simp only [filterFailures, hgood, List.isEmpty_nil, if_true, List.length_replicate]
      by_cases hm : mf ≤ r.length + 1
      · simp [hm]
      · have : ¬ (r.length + 1 ≥ mf) := by omega
        simp only [this, hm, if_false, List.map_replicate]
        have : optMap scalarOf (List.replicate (r.length + 1) (some [(0 : Rat)])) = some (List.replicate (r.length + 1) 0) := by
          induction r.length + 1 with
          | zero => rfl
          | succ n ih => simp [List.replicate_succ, optMap, scalarOf, ih]
        simp [this]
    | max =>
      simp only [filterFailures, hgood, List.isEmpty_nil, if_true, List.length_replicate]
      by_cases hm : mf ≤ r.length + 1
      · simp [hm]
      · have : ¬ (r.length + 1 ≥ mf) := by omega
        simp only [this, hm, if_false, List.map_replicate]
        have : optMap scalarOf (List.replicate (r.length + 1) (some [(0 : Rat)])) = some (List.replicate (r.length + 1) 0) := by
          induction r.length + 1 with
          | zero => rfl
          | succ n ih => simp [List.replicate_succ, optMap, scalarOf, ih]
        simp [this]
  rw [hfit]
  by_cases hm : mf ≤ r.length + 1
  · simp [hm]
  · simp [hm, List.replicate_succ, List.map_const']

/-- **C06 (label non-interference).**  Two histories that differ only in the text after the
leading `F` of failure labels produce the same optimizer state and the same fit inputs (hence the
same proposals: the optimizer sees nothing else), for every policy. -/
theorem C06_label_independent (p : Policy) (mf : Nat) (st : Opt)
    (h1 h2 : List (List Val × List Rat)) (h : HistEq h1 h2) :
    runTells p mf st h1 = runTells p mf st h2 :=
  runTells_label p mf h1 h2 st h

/-- the same for one call of `CBO._tell` -/
theorem C06_label_independent_tell (p : Policy) (o o' : List Val) (h : LabelEqL o o') :
    cboTell p o = cboTell p o' :=
  cboTell_label p o o' h

/-- … and for the population of `RegularizedEvolution` (failures never enter it) -/
theorem C06_regevo (cap : Nat) (a b : List (Nat × Val)) (h : ItemsEq a b) :
    regevoTell cap [] a = regevoTell cap [] b ∧ ∀ e ∈ regevoTell cap [] a, isStr e.2 = false :=
  ⟨regevoTell_label cap a b [] h, regevoTell_no_str cap a [] (by simp)⟩

/-- **C06 (failures do not count toward `n_initial_points`).** -/
theorem C06_failures_do_not_count (p : Policy) (mf : Nat) (st : Opt) (ys : List Y) (sc : List Rat)
    (hall : ∀ y ∈ ys, y = Y.fail) (hpos : 0 < st.nInit) :
    optTell p mf st ys sc = .ok (⟨st.nInit, st.yi ++ ys⟩, none) := by
  have : countOk ys = 0 := by
    unfold countOk
    rw [List.length_eq_zero_iff, List.filter_eq_nil_iff]
    intro y hy; rw [hall y hy]; simp [isOk]
  have hn : ¬ st.nInit ≤ 0 := by omega
  simp [optTell, this, hn]

/-- **C06 (recorded).**  A failed evaluation — a label starting with `F`, a NaN/±inf, a
tuple/list containing one — is, after `_on_done`, a string starting with `F`, and the line of its
job shows that string in every objective column of the table (shared with C04). -/
theorem C06_recorded (n : Option Nat) (j : JobRec) (o : Val)
    (hfail : (∃ s, o = Val.str s ∧ firstIsF s = true) ∨ (∃ k, o = Val.nonfin k) ∨
             (∃ l, o = Val.list l ∧ l.any isNonFinite = true))
    (hj : j.objective = onDoneObjective o) :
    ∃ s, firstIsF s = true ∧ j.objective = Val.str s ∧
      ∀ c ∈ objColsOf n, specCell n j c = some (Val.str s) := by
  have : ∃ s, firstIsF s = true ∧ onDoneObjective o = Val.str s := by
    rcases hfail with ⟨s, rfl, hs⟩ | ⟨k, rfl⟩ | ⟨l, rfl, hl⟩
    · exact ⟨s, hs, rfl⟩
    · exact ⟨"F", firstIsF_F, rfl⟩
    · exact ⟨"F", firstIsF_F, by simp [onDoneObjective, hl]⟩
  obtain ⟨s, hs, he⟩ := this
  exact ⟨s, hs, hj.trans he, C04_failure_verbatim n j s (hj.trans he)⟩

/-- **C06 (imputation per objective, fix 3).**  With several objectives (all non-failed entries of
length `m`), `_filter_failures` with policy mean / max returns only `m`-vectors: the
constant-liar `ask` no longer builds a ragged array. -/
theorem C06_filter_per_objective (p : Policy) (hp : p ≠ .ignore) (mf m : Nat)
    (yi : List (Option (List Rat))) (hm : ∀ v, some v ∈ yi → v.length = m)
    (hne : yi.filterMap id ≠ []) :
    ∃ zs, filterFailures p mf yi = .ok zs ∧ ∀ z ∈ zs, ∃ v, z = some v ∧ v.length = m := by
  have hgood : ∀ v ∈ yi.filterMap id, v.length = m := by
    intro v hv
    simp only [List.mem_filterMap, id] at hv
    obtain ⟨y, hy, rfl⟩ := hv
    exact hm v hy
  have he : (yi.filterMap id).isEmpty = false := by
    cases hh : yi.filterMap id with
    | nil => exact absurd hh hne
    | cons a l => rfl
  have hs := sameLength_of_length m _ hgood
  cases p with
  | ignore => exact absurd rfl hp
  | mean =>
    refine ⟨_, by simp only [filterFailures, he, hs]; rfl, ?_⟩
    intro z hz
    simp only [List.mem_map] at hz
    obtain ⟨y, hy, rfl⟩ := hz
    cases y with
    | none => exact ⟨_, rfl, by simp [meanCols, sumCols_length m _ hne hgood]⟩
    | some v => exact ⟨v, rfl, hm v hy⟩
  | max =>
    refine ⟨_, by simp only [filterFailures, he, hs]; rfl, ?_⟩
    intro z hz
    simp only [List.mem_map] at hz
    obtain ⟨y, hy, rfl⟩ := hz
    cases y with
    | none => exact ⟨_, rfl, by simp [maxCols_length m _ hne hgood]⟩
    | some v => exact ⟨v, rfl, hm v hy⟩

/-! ### the text of a failure label: every string with a leading `F` -/

/-- **C06 (any label starting with `F` is the marker).**  Whatever follows the leading `F` — nothing,
no underscore, spaces, punctuation, any unicode, any length — `CBO._tell` treats the objective
exactly like `"F"`: it is told to the optimizer as the marker under the imputing policies and left
out only under `ignore`; it is never silently dropped for its text. -/
theorem C06_any_F_label_is_the_marker (p : Policy) (s : String) (hs : firstIsF s = true) :
    cboTellOne p (.str s) = .ok (failOut p) ∧ (p ≠ .ignore → cboTellOne p (.str s) = .ok (some Y.fail)) := by
  have h : cboTellOne p (.str s) = .ok (failOut p) := by
    simp [cboTellOne, firstIsF_ne_empty s hs, hs]
  refine ⟨h, fun hp => ?_⟩
  rw [h]; simp [failOut, hp]

example : firstIsF "FAILED" = true ∧ firstIsF "Fail: out of memory" = true ∧ firstIsF "F-timeout" = true ∧
    firstIsF "F" = true ∧ firstIsF "F é✓" = true := by decide

/-- labels without an underscore, with spaces, punctuation, unicode, `F` alone: same history -/
example : HistEq
    [([.str "FAILED", .num 1], [3]), ([.str "Fail: out of memory"], [3]), ([.num 2, .str "F"], [3, 4])]
    [([.str "F_x", .num 1], [3]), ([.str "F-timeout"], [3]), ([.num 2, .str "F é✓ "], [3, 4])] := by
  refine ⟨⟨Or.inr ⟨_, _, rfl, rfl, by decide, by decide⟩, Or.inl rfl, trivial⟩, rfl,
          ⟨Or.inr ⟨_, _, rfl, rfl, by decide, by decide⟩, trivial⟩, rfl,
          ⟨Or.inl rfl, Or.inr ⟨_, _, rfl, rfl, by decide, by decide⟩, trivial⟩, rfl, trivial⟩

/-- `'FAILED'` is told as the marker under an imputing policy (a test for exactly `F` / `F_<reason>`
would drop it: the witness the relabelling oracle looks for on the real code), dropped under `ignore` -/
example : (match cboTell .max [.str "FAILED", .num 1] with | .ok ys => some ys | .error _ => none) =
    some [Y.fail, Y.val (.fin (-1))] := by decide +kernel
example : (match cboTell .ignore [.str "FAILED", .num 1] with | .ok ys => some ys | .error _ => none) =
    some [Y.val (.fin (-1))] := by decide +kernel

/-! ### two evaluators on one storage -/

/-- **C06 (the storage holds the rewritten objective).**  What `_on_done` writes to the storage is
what it leaves in the local job — the objective after the non-finite rewrite — and contains no
non-finite number, whatever the run-function returned. -/
theorem C06_stored_is_marked (o : Val) :
    (onDoneStore o).stored = (onDoneStore o).job ∧ noNonFin (onDoneStore o).stored = true :=
  ⟨rfl, onDone_noNonFin o⟩

/-- **C06 (another search on the same storage is told the same thing).**  For every objective that
is not dict-valued: the job rebuilt by `gather_other_jobs_done` of another evaluator carries exactly
the objective the first evaluator's own search was told (nothing at all when it was `None`), so what
`CBO._tell` of the second search hands to its optimizer is finite or the marker, for every policy. -/
theorem C06_other_search_no_nonfinite (p : Policy) (o o2 : Val) (y : Y) (hnd : NotDict o)
    (hview : otherObjective (onDoneStore o).stored = .ok (some o2))
    (hy : cboTellOne p o2 = .ok (some y)) :
    o2 = (onDoneStore o).job ∧ y.isFinite = true := by
  have hn : o ≠ Val.none := by
    intro h; subst h; rw [otherObjective_stored_none] at hview; simp at hview
  have h1 := otherObjective_stored o hnd hn
  rw [h1] at hview
  have h2 : onDoneObjective o = o2 := by simpa using hview
  subst h2
  exact ⟨rfl, cboTellOne_finite p _ y (onDone_noNonFin o) hy⟩

/-- the history the second search is told: per `tell`, its own results after `_on_done` followed
by the results of the other evaluator read back from the storage -/
def secondHistory : List (List Val × List Val × List Rat) → Except StdErr (List (List Val × List Rat))
  | [] => .ok []
  | (loc, oth, sc) :: r =>
    match otherView (oth.map (fun o => (onDoneStore o).stored)) with
    | .error e => .error e
    | .ok v =>
      match secondHistory r with
      | .error e => .error e
      | .ok hr => .ok ((loc.map onDoneObjective ++ v, sc) :: hr)

theorem RawOK_notDict (o : Val) (h : RawOK o) : NotDict o ∧ o ≠ Val.none := by
  cases o <;> simp_all [RawOK, NotDict]

theorem secondHistory_raw :
    ∀ (h : List (List Val × List Val × List Rat)), (∀ b ∈ h, ∀ o ∈ b.2.1, RawOK o) →
      secondHistory h = .ok (afterDone (h.map (fun b => (b.1 ++ b.2.1, b.2.2))))
  | [], _ => rfl
  | (loc, oth, sc) :: r, hr => by
    have ih := secondHistory_raw r (fun b hb => hr b (by simp [hb]))
    have hv := otherView_raw oth (fun o ho => RawOK_notDict o (hr (loc, oth, sc) (by simp) o ho))
    simp only [secondHistory, hv, ih, afterDone, List.map_cons, List.map_append]

/-- **C06 (two searches on one storage: totality).**  A search attached to a storage another
evaluator reports to — any interleaving of its own results and of the other evaluator's, any
failure kind on either side (`'F…'`, NaN, ±inf, a non-finite value inside a tuple), any policy,
any length: the history read through the storage is the history after `_on_done`, and the tell
pipeline of the second search runs to the end (unless the numerical environment breaks its
contract); in particular no NaN/inf and no marker reaches its surrogate. -/
theorem C06_two_searches_total (p : Policy) (mf : Nat) (n0 : Int) (hn0 : 1 ≤ n0)
    (h : List (List Val × List Val × List Rat))
    (hloc : ∀ b ∈ h, ∀ o ∈ b.1, RawOK o) (hoth : ∀ b ∈ h, ∀ o ∈ b.2.1, RawOK o) :
    ∃ h2, secondHistory h = .ok h2 ∧
      ((∃ r, runTells p mf ⟨n0, []⟩ h2 = .ok r) ∨ runTells p mf ⟨n0, []⟩ h2 = .error (.inr .envContract)) := by
  refine ⟨_, secondHistory_raw h hoth, ?_⟩
  apply C06_total_any_length p mf n0 hn0
  intro b hb o ho
  simp only [List.mem_map] at hb
  obtain ⟨b0, hb0, rfl⟩ := hb
  simp only [List.mem_append] at ho
  rcases ho with ho | ho
  · exact hloc b0 hb0 o ho
  · exact hoth b0 hb0 o ho

/-- non-vacuity: the first evaluator reports `nan`, `(1, -inf)`, `'FAILED'` and a success; the
second search has one success of its own -/
def shared0 : List (List Val × List Val × List Rat) :=
  [([], [.nonfin .nan, .list [.num 1, .nonfin .negInf]], []),
   ([.list [.num 2, .num 3]], [.str "FAILED", .list [.num 1, .num 1]], [4, 5])]

example : (match secondHistory shared0 with | .ok h2 => some (h2.map (·.1)) | .error _ => none) =
    some [[.str "F", .str "F"], [.list [.num 2, .num 3], .str "FAILED", .list [.num 1, .num 1]]] := by
  decide +kernel

example : (match secondHistory shared0 with
    | .ok h2 => (match runTells .max 100 ⟨1, []⟩ h2 with | .ok r => some r.2 | .error _ => none)
    | .error _ => none) = some [[5, 5, 4, 5, 5]] := by
  decide +kernel

/-- the hypotheses of `C06_two_searches_total` hold for `shared0` -/
example : (∀ b ∈ shared0, ∀ o ∈ b.1, RawOK o) ∧ (∀ b ∈ shared0, ∀ o ∈ b.2.1, RawOK o) := by
  refine ⟨?_, ?_⟩ <;> intro b hb o ho <;>
    simp only [shared0, List.mem_cons, List.mem_nil_iff, or_false] at hb <;>
    rcases hb with rfl | rfl <;> simp at ho
  · subst ho; intro v hv; simp at hv; rcases hv with rfl | rfl <;> exact Or.inl ⟨_, rfl⟩
  · rcases ho with rfl | rfl
    · trivial
    · intro v hv; simp at hv; rcases hv with rfl | rfl
      · exact Or.inl ⟨_, rfl⟩
      · exact Or.inr ⟨_, rfl⟩
  · rcases ho with rfl | rfl
    · show firstIsF "FAILED" = true; decide
    · intro v hv; simp at hv; rcases hv with rfl | rfl <;> exact Or.inl ⟨_, rfl⟩

/-- the hypotheses of `C06_other_search_no_nonfinite` are satisfiable: a `nan` reported by the first
evaluator is read back as `"F"` and told as the marker -/
example : NotDict (.nonfin .nan) ∧ otherObjective (onDoneStore (.nonfin .nan)).stored = .ok (some (.str "F")) ∧
    cboTellOne .max (.str "F") = .ok (some Y.fail) := by
  refine ⟨trivial, rfl, ?_⟩
  exact (C06_any_F_label_is_the_marker .max "F" (by decide)).2 (by decide)

/-- the other order of the two blocks of `_on_done` ("persist first, then post-process"): the
storage keeps the raw `nan`, the second search's pipeline hands it to the surrogate -/
example : (onDoneStoreEarly (.nonfin .nan)).stored = .nonfin .nan ∧
    (match runTells .max 100 ⟨1, []⟩ [([(onDoneStoreEarly (.nonfin .nan)).stored, .num 1], [1])] with
      | .ok _ => none | .error e => some e) = some (.inr .nonFiniteToSurrogate) := by
  decide +kernel

/-! ### progress after failures: the ask cache -/

/-- **C06 (the search moves on after a batch of failures).**  In any sequence of `CBO.ask` /
`CBO.tell` — any results, any policy, in particular batches in which every result is an ignored
failure, so that nothing is told to the optimizer — the proposals are those of an optimizer that
has no cache at all (`specCache`): a batch of several points is the one the optimizer computes at
that ask, a single point is the one computed by the last tell (or refreshed by the ask); no ask
ever returns a batch cached by an earlier ask, so the configurations of a failed batch are not
handed out again from the cache. -/
theorem C06_ask_never_cached {κ β : Type} [DecidableEq κ] (next0 : β) (ops : List (CacheOp κ β)) :
    runCache (AskCache.init next0) ops = (specCache false next0 ops).map (fun f => (f, false)) :=
  runCache_spec ops (AskCache.init next0) (by intro _; rfl)

/-- batches are numbered by the moment they are computed: after the all-ignored batch (nothing told)
and after two asks in a row, the batch / the single point is a new one -/
example : runCache (κ := Nat) (β := Nat) (AskCache.init 0)
    [.ask false 2 10 11, .tell .ignore [.str "F_x", onDoneObjective (.nonfin .nan)] 20, .ask false 2 30 31,
     .ask false 2 40 41, .tell .max [.num 1, .str "FAILED"] 50, .ask true 1 60 61, .ask true 1 70 71] =
    [(10, false), (30, false), (40, false), (50, false), (71, false)] := by
  decide +kernel

/-- the optimizer alone (no `update_next` / `tell` between two asks of the same size — as when
`update_next` kept the cache): the second batch is the cached one -/
example : (optAsk (κ := Nat) (β := Nat) (optAsk (AskCache.init 0) false 2 10).1 false 2 12).2 = (10, true) := by
  decide +kernel

/-! ### non-vacuity and regression witnesses -/

/-- a history with a failure first, a NaN inside a tuple, and successes -/
def hist0 : List (List Val × List Rat) :=
  [([.str "F_timeout"], []), ([.list [.num 1, .nonfin .nan]], []),
   ([.list [.num 1, .num 2]], [5]), ([.list [.num 3, .num 1], .str "F_x"], [5, 7])]

example : ∀ b ∈ hist0, ∀ o ∈ b.1, RawOK o := by
  intro b hb o ho
  simp only [hist0, List.mem_cons, List.mem_nil_iff, or_false] at hb
  rcases hb with rfl | rfl | rfl | rfl <;> simp at ho
  · subst ho; show firstIsF "F_timeout" = true; decide
  · subst ho; intro v hv; simp at hv; rcases hv with rfl | rfl
    · exact Or.inl ⟨_, rfl⟩
    · exact Or.inr ⟨_, rfl⟩
  · subst ho; intro v hv; simp at hv; rcases hv with rfl | rfl <;> exact Or.inl ⟨_, rfl⟩
  · rcases ho with rfl | rfl
    · intro v hv; simp at hv; rcases hv with rfl | rfl <;> exact Or.inl ⟨_, rfl⟩
    · show firstIsF "F_x" = true; decide

example : histLen (afterDone hist0) < 100 := by decide

/-- the run of `hist0` with policy max (`filter_failures="min"`), one initial point: two fits,
the failures imputed with the max of the scaled successes -/
example : (match runTells .max 100 ⟨1, []⟩ (afterDone hist0) with
    | .ok r => some (r.1.nInit, r.2) | .error _ => none) = some (-1, [[5, 5, 5], [7, 7, 5, 7, 7]]) := by
  decide +kernel

/-- before fix 2 the tuple `(1, nan)` was not rewritten: the model of the pipeline without
`_on_done` reports the non-finite value on its way to the surrogate -/
example : (match runTells .max 100 ⟨1, []⟩ hist0 with
    | .ok _ => none | .error e => some e) = some (.inr .nonFiniteToSurrogate) := by
  decide +kernel

example : HistEq hist0
    [([.str "F"], []), ([.list [.num 1, .nonfin .nan]], []),
     ([.list [.num 1, .num 2]], [5]), ([.list [.num 3, .num 1], .str "F_other_label"], [5, 7])] := by
  refine ⟨⟨Or.inr ⟨_, _, rfl, rfl, by decide, by decide⟩, trivial⟩, rfl,
          ⟨Or.inl rfl, trivial⟩, rfl, ⟨Or.inl rfl, trivial⟩, rfl,
          ⟨Or.inl rfl, Or.inr ⟨_, _, rfl, rfl, by decide, by decide⟩, trivial⟩, rfl, trivial⟩

/-- fix 3: two objectives, one failure — per-objective mean; the old code produced a scalar
among 2-vectors (NumPy then raises "inhomogeneous shape") -/
example : (match filterFailures .mean 100 [some [1, 2], none, some [3, 6]] with
    | .ok z => some z | .error _ => none) = some [some [1, 2], some [2, 4], some [3, 6]] := by decide +kernel
example : (match filterFailuresOld .mean 100 [some [1, 2], none, some [3, 6]] with
    | .ok z => some z | .error _ => none) = some [some [1, 2], some [3], some [3, 6]] := by decide +kernel

example : regevoTell 2 [] [(0, .num 1), (1, .str "F"), (2, .num 5), (3, .num 2)] = [(2, .num 5), (3, .num 2)] := by
  decide +kernel

end DH.Failures
