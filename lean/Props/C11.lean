import Proofs.Pareto

/-!
# C11 — Non-dominated set and Pareto front are exact

Property theorems only (helper lemmas are in `Proofs/Pareto.lean`, the model in
`Model/Pareto.lean`).  `order` is whatever `np.argsort(y.sum(axis=1))` returned:
the theorems hold for **every** list that mentions exactly the valid indices, so
they are independent of tie-breaking and of floating-point sums.
-/

namespace DH.Pareto

/-- what `argsort` is assumed to return: every valid index, nothing else
(any permutation of `range n` qualifies; duplicates would too) -/
def OrderOK (n : Nat) (order : List Nat) : Prop :=
  (∀ i, i < n → i ∈ order) ∧ (∀ i ∈ order, i < n)

/-- **C11 (index form).**  For every finite list of objective vectors and every
order, the indices returned by `non_dominated_set(y, return_mask=False)` are an
exact Pareto-optimal selection. -/
theorem C11_nds (pts : List Vec) (order : List Nat) (h : OrderOK pts.length order) :
    NdsSpec pts (ndsIdx pts order) :=
  ndsIdx_spec pts order h.1 h.2

/-- **C11 (mask form agrees with index form).** -/
theorem C11_mask (pts : List Vec) (order : List Nat) :
    (ndsMask pts order).length = pts.length ∧
    ∀ i, i < pts.length → ((ndsMask pts order).getD i false = true ↔ i ∈ ndsIdx pts order) :=
  ⟨ndsMask_length pts order, ndsMask_getD pts order⟩

/-- **C11 in the property's words (1):** no selected point is dominated by any point of the set. -/
theorem C11_no_selected_dominated (pts : List Vec) (order : List Nat)
    (h : OrderOK pts.length order) (i : Nat) (hi : i ∈ ndsIdx pts order) (p : Vec)
    (hp : pts[i]? = some p) (q : Vec) (hq : q ∈ pts) : dominates q p = false :=
  (C11_nds pts order h).no_selected_dominated i hi p hp q hq

/-- **(2):** every point of the set (in particular every unselected one) is dominated by or
equal to a selected point. -/
theorem C11_unselected_dominated_or_equal (pts : List Vec) (order : List Nat)
    (h : OrderOK pts.length order) (k : Nat) (x : Vec) (hx : pts[k]? = some x) :
    ∃ j ∈ ndsIdx pts order, ∃ r, pts[j]? = some r ∧ (dominates r x = true ∨ r = x) :=
  (C11_nds pts order h).unselected_dominated_or_equal k x hx

/-- **(3):** of several identical optimal points exactly one is selected. -/
theorem C11_identical_once (pts : List Vec) (order : List Nat) (h : OrderOK pts.length order)
    (x : Vec) (hx : x ∈ pts) (hopt : ∀ q ∈ pts, dominates q x = false) :
    ∃ j ∈ ndsIdx pts order, pts[j]? = some x ∧
      ∀ j' ∈ ndsIdx pts order, pts[j']? = some x → j' = j :=
  (C11_nds pts order h).optimal_selected_once x hx hopt

/-- **C11 (verified checker).**  The executable checker used by the correspondence
harness on the implementation's own outputs decides exactly the specification. -/
theorem C11_checker (pts : List Vec) (sel : List Nat) :
    checkSel pts sel = true ↔ NdsSpec pts sel :=
  checkSel_iff pts sel

/-! non-vacuity: a concrete set with ties, a duplicate optimal point and weak dominance -/
example : OrderOK 4 [2, 0, 3, 1] := by
  constructor
  · intro i hi; have : i = 0 ∨ i = 1 ∨ i = 2 ∨ i = 3 := by omega
    rcases this with rfl | rfl | rfl | rfl <;> simp
  · intro i hi; simp at hi; omega
example : ndsIdx [[1, 2], [2, 1], [1, 2], [2, 2]] [2, 0, 3, 1] = [2, 1] := by decide +kernel
example : checkSel [[1, 2], [2, 1], [1, 2], [2, 2]] [2, 1] = true := by decide +kernel
example : checkSel [[1, 2], [2, 1], [1, 2], [2, 2]] [0, 2, 1] = false := by decide +kernel

end DH.Pareto
