import Proofs.Pareto
import Proofs.ParetoRanked
import Proofs.ParetoLoop
import Proofs.ParetoFront
import Proofs.ParetoColumn

/-!
# C11 — Non-dominated set and Pareto front are exact

Property theorems only (helper lemmas are in `Proofs/Pareto.lean`, the model in
`Model/Pareto.lean`).  `order` is whatever `np.argsort(y.sum(axis=1))` returned:
the theorems hold for **every** list that mentions exactly the valid indices, so
they are independent of tie-breaking and of floating-point sums.
-/

namespace DH.Pareto

/-- what `argsort` is assumed to return: every valid index, nothing else
(any permutation of `range n` qualifies; duplicates would too) -/
def OrderOK (n : Nat) (order : List Nat) : Prop :=
  (∀ i, i < n → i ∈ order) ∧ (∀ i ∈ order, i < n)

/-- **C11 (index form).**  For every finite list of objective vectors and every
order, the indices returned by `non_dominated_set(y, return_mask=False)` are an
exact Pareto-optimal selection. -/
theorem C11_nds (pts : List Vec) (order : List Nat) (h : OrderOK pts.length order) :
    NdsSpec pts (ndsIdx pts order) :=
  ndsIdx_spec pts order h.1 h.2

/-- **C11 (the literal loop).**  The `while idx < len(costs)` loop transcribed with its index
arithmetic (`mask[idx] = True`, `costs = costs[mask]`, `idx = sum(mask[:idx]) + 1`) computes
exactly the `sweep` the other theorems are about; `len(costs)` iterations always suffice. -/
theorem C11_loop_refines (costs : List Row) :
    loopIdx costs.length costs 0 = sweep wdRow [] costs := by
  simpa using loopIdx_eq_sweep costs.length [] costs (Nat.le_refl _)

/-- **C11 (index form, literal loop).** -/
theorem C11_nds_literal (pts : List Vec) (order : List Nat) (h : OrderOK pts.length order) :
    NdsSpec pts ((loopIdx (permuteBy pts order).length (permuteBy pts order) 0).map (·.1)) := by
  rw [C11_loop_refines]; exact C11_nds pts order h

/-- **C11 (mask form agrees with index form).** -/
theorem C11_mask (pts : List Vec) (order : List Nat) :
    (ndsMask pts order).length = pts.length ∧
    ∀ i, i < pts.length → ((ndsMask pts order).getD i false = true ↔ i ∈ ndsIdx pts order) :=
  ⟨ndsMask_length pts order, ndsMask_getD pts order⟩

/-- **C11 in the property's words (1):** no selected point is dominated by any point of the set. -/
theorem C11_no_selected_dominated (pts : List Vec) (order : List Nat)
    (h : OrderOK pts.length order) (i : Nat) (hi : i ∈ ndsIdx pts order) (p : Vec)
    (hp : pts[i]? = some p) (q : Vec) (hq : q ∈ pts) : dominates q p = false :=
  (C11_nds pts order h).no_selected_dominated i hi p hp q hq

/-- **(2):** every point of the set (in particular every unselected one) is dominated by or
equal to a selected point. -/
theorem C11_unselected_dominated_or_equal (pts : List Vec) (order : List Nat)
    (h : OrderOK pts.length order) (k : Nat) (x : Vec) (hx : pts[k]? = some x) :
    ∃ j ∈ ndsIdx pts order, ∃ r, pts[j]? = some r ∧ (dominates r x = true ∨ r = x) :=
  (C11_nds pts order h).unselected_dominated_or_equal k x hx

/-- **(3):** of several identical optimal points exactly one is selected. -/
theorem C11_identical_once (pts : List Vec) (order : List Nat) (h : OrderOK pts.length order)
    (x : Vec) (hx : x ∈ pts) (hopt : ∀ q ∈ pts, dominates q x = false) :
    ∃ j ∈ ndsIdx pts order, pts[j]? = some x ∧
      ∀ j' ∈ ndsIdx pts order, pts[j']? = some x → j' = j :=
  (C11_nds pts order h).optimal_selected_once x hx hopt

/-- **C11 (verified checker).**  The executable checker used by the correspondence
harness on the implementation's own outputs decides exactly the specification. -/
theorem C11_checker (pts : List Vec) (sel : List Nat) :
    checkSel pts sel = true ↔ NdsSpec pts sel :=
  checkSel_iff pts sel

/-- **C11 (`is_pareto_efficient`).**  The incremental test used by callbacks answers true exactly
when no already recorded vector weakly dominates the new one — so a vector that is dominated by, or
equal to, a recorded one is never reported efficient. -/
theorem C11_is_pareto_efficient (new : Vec) (objs : List Vec) :
    (isParetoEfficient new objs = true ↔ ∀ r ∈ objs, wdVec r new = false) ∧
    (isParetoEfficient new objs = true → ∀ r ∈ objs, dominates r new = false ∧ r ≠ new) := by
  refine ⟨isParetoEfficient_iff new objs, fun h r hr => ?_⟩
  have hw := (isParetoEfficient_iff new objs).1 h r hr
  constructor
  · simp [dominates, hw]
  · intro e; subst e; rw [wdVec_refl] at hw; exact absurd hw (by simp)

/-- **C11 (`pareto_front(sort=True)`).**  The sorted front lists exactly the indices of the
unsorted front, in lexicographic order of their objective vectors. -/
theorem C11_front_sorted (pts : List Vec) (order : List Nat) (h : OrderOK pts.length order) :
    (frontSortedIdx pts order).Perm (ndsIdx pts order) ∧
    ((((ndsIdx pts order).filterMap (fun i => (pts[i]?).map (fun v => (i, v)))).mergeSort
      (fun a b => lexLe a.2 b.2)).Pairwise (fun a b => lexLe a.2 b.2 = true)) :=
  frontSortedIdx_spec pts order (C11_nds pts order h).valid

/-! ### ranked peeling (`non_dominated_set_ranked`) — `ord` is what `argsort` does to the
remaining rows in each round; `OrdOK` = it neither loses nor invents a row. -/

/-- **C11 (ranked, refinement).**  The peeling loop returns exactly the first `req` indices
of the concatenation of the successive fronts (`fronts` is the specification: front `k+1` is
the non-dominated set of what remains once fronts `1..k` are removed): the result is a union
of complete fronts plus a prefix of the next one. -/
theorem C11_ranked_fronts (ord : List Row → List Row) (hord : OrdOK ord) (pts : List Vec)
    (req : Nat) :
    rankedIdx ord pts req = ((fronts ord pts.length (rowsOf pts)).flatten).take req := by
  have := peel_eq_fronts hord req pts.length [] (rowsOf pts) (Nat.zero_le _)
    (by rw [rowsOf_length]; exact Nat.le_refl _)
  simpa [rankedIdx] using this

/-- **C11 (ranked, count).**  Exactly `min req n` points are returned. -/
theorem C11_ranked_count (ord : List Row → List Row) (hord : OrdOK ord) (pts : List Vec)
    (req : Nat) : (rankedIdx ord pts req).length = min req pts.length := by
  rw [C11_ranked_fronts ord hord, List.length_take,
    (fronts_perm hord pts.length (rowsOf pts) (by rw [rowsOf_length]; exact Nat.le_refl _)).length_eq]
  simp [rowsOf_length]

/-- **C11 (ranked, well-formed).**  Valid, pairwise distinct indices. -/
theorem C11_ranked_wf (ord : List Row → List Row) (hord : OrdOK ord) (pts : List Vec)
    (req : Nat) : (rankedIdx ord pts req).Nodup ∧ ∀ i ∈ rankedIdx ord pts req, i < pts.length := by
  have hp := fronts_perm hord pts.length (rowsOf pts) (by rw [rowsOf_length]; exact Nat.le_refl _)
  rw [rowsOf_idx] at hp
  rw [C11_ranked_fronts ord hord]
  constructor
  · exact List.Nodup.sublist (List.take_sublist _ _) (hp.nodup_iff.2 List.nodup_range)
  · intro i hi
    exact List.mem_range.1 (hp.mem_iff.1 (List.mem_of_mem_take hi))

/-- **C11 (ranked, front by front).**  A point is never chosen before a point that strictly
dominates it: if `i` is chosen and `pts[j]` dominates `pts[i]`, then `j` is chosen too. -/
theorem C11_ranked_closed (ord : List Row → List Row) (hord : OrdOK ord) (pts : List Vec)
    (req : Nat) (i : Nat) (hi : i ∈ rankedIdx ord pts req) (j : Nat) (v w : Vec)
    (hv : pts[i]? = some v) (hw : pts[j]? = some w) (hdom : dominates w v = true) :
    j ∈ rankedIdx ord pts req := by
  rw [C11_ranked_fronts ord hord] at hi ⊢
  exact fronts_closed hord pts.length (rowsOf pts) (by rw [rowsOf_length]; exact Nat.le_refl _)
    (rowsOf_nodup pts) req i hi j v w (mem_rowsOf.2 hv) (mem_rowsOf.2 hw) hdom

/-- **C11 (ranked, first front).**  The first front of the specification is an exact
Pareto-optimal selection of the whole set, i.e. `fronts` really peels Pareto fronts. -/
theorem C11_first_front (ord : List Row → List Row) (hord : OrdOK ord) (pts : List Vec) :
    NdsSpec pts (ndsRows ord (rowsOf pts)) := by
  have h := sweep_nil_spec wdRow wdRow_pre (ord (rowsOf pts))
  have hrows : ∀ r, r ∈ ord (rowsOf pts) ↔ r ∈ permuteBy pts (List.range pts.length) := by
    intro r
    rw [hord, mem_permuteBy]
    constructor
    · intro hr
      have := mem_rowsOf.1 (show (r.1, r.2) ∈ rowsOf pts from hr)
      exact ⟨List.mem_range.2 (List.getElem?_eq_some_iff.1 this).1, this⟩
    · rintro ⟨_, hr⟩; exact mem_rowsOf.2 hr
  exact ndsSpec_of_rows pts (List.range pts.length) (fun i hi => List.mem_range.2 hi)
    (fun i hi => List.mem_range.1 hi) _ h.1
    (fun x hx => h.2.1 x ((hrows x).2 hx)) (fun r hr => (hrows r).1 (h.2.2 r hr))

/-! ### the `pareto_efficient` column of a results table — which columns are objectives, which rows
take part, where the flags go -/

/-- **C11 (objective columns).**  Of the columns the evaluator writes — `p:<hyperparameter name>`,
`objective`, `objective_<i>`, `job_id`, `job_status`, `m:<metadata key>`, `pareto_efficient` — the step
selects exactly `objective` / `objective_<i>`, whatever strings the user chose as hyperparameter names and
metadata keys (a key such as `objective_0_std` gives the column `m:objective_0_std`, which is not selected). -/
theorem C11_objective_columns (k : ColKind) : isObjectiveName k.render = k.isObjective :=
  isObjectiveName_render k

/-- **C11 (objective cells).**  Hence the vector read from a row consists of the cells under the objective
columns only, in column order, and a column is written iff there are at least two objectives. -/
theorem C11_objective_cells (kinds : List ColKind) (rows : List (List Cell)) (order : List Nat) :
    (∀ row, project (kinds.map ColKind.render) row = projectKinds kinds row) ∧
    (paretoColumn (kinds.map ColKind.render) rows order = .noColumn ↔
      (kinds.filter ColKind.isObjective).length ≤ 1) := by
  refine ⟨project_render kinds, ?_⟩
  unfold paretoColumn
  rw [filter_render]
  split
  · simp [*]
  · rename_i hgt
    constructor
    · intro h; simp only at h; split at h <;> cases h
    · intro h; exact absurd h hgt

/-- **C11 (`pareto_efficient` column).**  Whenever the step writes a column: it has one flag per row; a
failed row (first objective cell is a failure marker) is never flagged; and the flags of the successful
rows, read in row order, are exactly the mask form of `non_dominated_set` on their negated objective vectors
(objective columns only) — so, by `C11_nds`/`C11_mask`, exactly a Pareto-optimal selection under
maximisation of the objectives. -/
theorem C11_column (kinds : List ColKind) (rows : List (List Cell)) (order : List Nat)
    (flags : List Bool) (h : paretoColumn (kinds.map ColKind.render) rows order = .column flags) :
    let objs := rows.map (projectKinds kinds)
    let oks := objs.map rowOk
    ∃ vecs, negVecs (objs.filter rowOk) = some vecs ∧ flags.length = rows.length ∧
      (∀ i : Nat, oks[i]? = some false → flags[i]? = some false) ∧
      gather oks flags = ndsMask vecs order ∧
      (OrderOK vecs.length order → NdsSpec vecs (ndsIdx vecs order) ∧
        ∀ i, i < vecs.length → ((gather oks flags).getD i false = true ↔ i ∈ ndsIdx vecs order)) := by
  intro objs oks
  have hp : rows.map (project (kinds.map ColKind.render)) = objs :=
    List.map_congr_left (fun r _ => project_render kinds r)
  obtain ⟨vecs, hv, hl, hf, hg⟩ := paretoColumn_spec _ rows order flags h
  simp only [hp] at hv hf hg
  refine ⟨vecs, hv, hl, hf, hg, fun hord => ⟨C11_nds vecs order hord, fun i hi => ?_⟩⟩
  rw [hg]; exact (C11_mask vecs order).2 i hi

/-! non-vacuity: a concrete set with ties, a duplicate optimal point and weak dominance -/
example : OrderOK 4 [2, 0, 3, 1] := by
  constructor
  · intro i hi; have : i = 0 ∨ i = 1 ∨ i = 2 ∨ i = 3 := by omega
    rcases this with rfl | rfl | rfl | rfl <;> simp
  · intro i hi; simp at hi; omega
example : ndsIdx [[1, 2], [2, 1], [1, 2], [2, 2]] [2, 0, 3, 1] = [2, 1] := by decide +kernel
example : checkSel [[1, 2], [2, 1], [1, 2], [2, 2]] [2, 1] = true := by decide +kernel
example : checkSel [[1, 2], [2, 1], [1, 2], [2, 2]] [0, 2, 1] = false := by decide +kernel

-- (`frontSortedIdx` uses `List.mergeSort`, defined by well-founded recursion, which the kernel does not
-- unfold: its concrete values are exercised by the driver on every run instead of by `decide`.)
example : isParetoEfficient [1, 2] [[2, 1], [1, 3]] = true ∧ isParetoEfficient [1, 2] [[1, 2]] = false := by
  decide +kernel
example : OrdOK (fun l => l.reverse) := fun l r => List.mem_reverse
example : rankedIdx (fun l => l.reverse) [[1, 2], [2, 1], [1, 2], [2, 2], [3, 3]] 3 = [1, 2, 0] := by
  decide +kernel
example : fronts (fun l => l.reverse) 5 (rowsOf [[1, 2], [2, 1], [1, 2], [2, 2], [3, 3]])
    = [[1, 2], [0], [3], [4]] := by decide +kernel


/-! non-vacuity for the column: hyperparameter `objective_1` (column `p:objective_1`) and metadata key
`objective_0` (column `m:objective_0`) next to the objectives; row 1 failed; rows 0 and 3 are the maxima. -/
example : paretoColumn
    ([ColKind.param (objPrefix ++ ['_', '1']), .objectiveI 0, .objectiveI 1, .jobId,
      .metadata (objPrefix ++ ['_', '0'])].map ColKind.render)
    [[.num 9, .num 1, .num 2, .num 0, .num 0], [.num 0, .fail, .fail, .num 1, .txt],
     [.num 0, .num 1, .num 1, .num 2, .num 7], [.num 0, .num 2, .num 0, .num 3, .num 0]] [2, 0, 1]
    = .column [true, false, false, true] := by decide +kernel
example : (ColKind.metadata (objPrefix ++ ['_', '0', '_', 's', 't', 'd'])).render
    = ['m', ':', 'o', 'b', 'j', 'e', 'c', 't', 'i', 'v', 'e', '_', '0', '_', 's', 't', 'd'] := by decide +kernel
example : (ColKind.objectiveI 12).render = ['o', 'b', 'j', 'e', 'c', 't', 'i', 'v', 'e', '_', '1', '2'] := by
  decide +kernel

end DH.Pareto
