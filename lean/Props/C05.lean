import Proofs.DirectionPrior

/-!
# C05 — Searches maximise the objective(s)

Property theorems only (model: `Model/Direction.lean`; lemmas: `Proofs/Direction*.lean`).

Vocabulary.  `objs` / `scores` are what the run-function returned (larger is better); `told`
is what `CBO._tell` hands to the minimising optimizer (`cboTellY`: negated); `T` are the
targets the surrogate is fitted on (`singleTargets` / `mooTargets`: objective scaler, utopia
point, scalarisation); `cands[k]` is the index of the told point the `k`-th sampled candidate
coincides with ("the history has observed every candidate").  The surrogate is a parameter:
`Exploit T cands k` is its contract — it returns the fitted target at every candidate
(interpolation), the acquisition is exploitation-only (`kappa = 0`), and `k` is the arg-min
the optimizer proposes.  `quantile-uniform` is not computed by the model: it enters as
`Scaler.given scaled` (any scaled history) under the contracts stated in the `_env` theorems.

The model is the code AFTER the fix of `MoScalarFunction.scalarize` (utopia point subtracted);
the `example`s at the end replay the pre-fix behaviour (`mooTargetsPre`) on the failing input.
-/

namespace DH.Direction

open List (Forall₂)

/-- contract of the unmodelled surrogate and of the exploitation-only acquisition -/
def Exploit (T : Vec) (cands : List Nat) (k : Nat) : Prop :=
  ∃ mu sd : Vec, interpolate T cands = some mu ∧ sd.length = mu.length ∧
    chooseNext (acqLCB 0 mu sd) = some k

/-- the proposed candidate `cands[k]` has a score that no other candidate exceeds -/
def ChosenIsBest (score : Vec) (cands : List Nat) (k : Nat) : Prop :=
  ∃ c sc, cands[k]? = some c ∧ score[c]? = some sc ∧
    ∀ c' ∈ cands, ∀ s', score[c']? = some s' → s' ≤ sc

/-- the targets are strictly decreasing in the score -/
def StrictAnti (score T : Vec) : Prop :=
  ∀ (i j : Nat) (a b ta tb : Rat), score[i]? = some a → score[j]? = some b → T[i]? = some ta →
    T[j]? = some tb → a < b → tb < ta

theorem chosen_of_strictAnti {score T : Vec} {cands : List Nat} {k : Nat}
    (hlen : score.length = T.length) (hanti : StrictAnti score T) (hex : Exploit T cands k) :
    ChosenIsBest score cands k := by
  obtain ⟨mu, sd, hint, hsd, hk⟩ := hex
  rw [acqLCB_zero mu sd hsd] at hk
  exact chosen_max_of_anti score T cands mu hanti hlen hint k hk

/-! ## direction of the hand-over -/

/-- **C05 (names).**  Every user-facing (maximisation) name is mapped to its minimisation
counterpart and everything else is passed through. -/
theorem C05_names :
    mapAcq "UCB" = "LCB" ∧ mapAcq "UCBd" = "LCBd" ∧ mapAcq "EI" = "EI" ∧ mapAcq "PI" = "PI" ∧
    mapMultiPoint "cl_max" = "cl_min" ∧ mapMultiPoint "cl_min" = "cl_max" ∧
    mapMultiPoint "cl_mean" = "cl_mean" ∧ mapMultiPoint "qUCB" = "qLCB" ∧
    mapMultiPoint "qUCBd" = "qLCBd" ∧ mapMultiPoint "topk" = "topk" ∧
    mapFilterFailures "min" = "max" ∧ mapFilterFailures "mean" = "mean" ∧
    mapFilterFailures "ignore" = "ignore" := by decide

/-- **C05 (negation).**  Numeric objectives — scalar or tuple — reach the optimizer negated, for
every setting of `filter_failures`; a failure string never turns into a number. -/
theorem C05_tell_negates (ignore : Bool) :
    (∀ r : Rat, cboTellY ignore (.num r) = .told (.scal (-r))) ∧
    (∀ (cells : List Cell) (v : Vec), cellsAllNum cells = some v →
      cboTellY ignore (.tup cells) = .told (.vec (negV v))) ∧
    (∀ s : String, (∀ r, cboTellY ignore (.str s) ≠ .told (.scal r)) ∧
      (∀ v, cboTellY ignore (.str s) ≠ .told (.vec v))) := by
  refine ⟨fun r => rfl, ?_, ?_⟩
  · intro cells v h
    simp only [cboTellY, h, negV]
  · intro s
    constructor <;> intro r <;> simp only [cboTellY] <;> split <;> (try split) <;> (try split) <;> simp

/-- the constant-liar lie and the failure replacement follow the same negation: the internal
`max` (what `"min"`, resp. `cl_min`, is mapped to) of negated values is the negated minimum -/
theorem C05_internal_max_is_objective_min (a : Rat) (l : Vec) :
    (l.map (fun x => -x)).foldl rmax (-a) = -(l.foldl rmin a) := by
  induction l generalizing a with
  | nil => rfl
  | cons x xs ih =>
    simp only [List.map_cons, List.foldl_cons]
    have : rmax (-a) (-x) = -(rmin a x) := by
      unfold rmax rmin
      by_cases h : x ≤ a
      · have : -a ≤ -x := by linarith
        simp [h, this]
      · have : ¬ -a ≤ -x := by intro h'; apply h; linarith
        simp [h, this]
    rw [this]; exact ih _

/-! ## single objective -/

/-- **C05 (single objective).**  Objective scaler identity or minmax: with every candidate
observed, an interpolating surrogate and an exploitation-only acquisition, the proposed
candidate has the largest objective. -/
theorem C05_single (sc : Scaler) (hsc : sc = .identity ∨ sc = .minmax) (objs T : Vec)
    (hT : singleTargets sc (objs.map (fun o => -o)) = some T)
    (cands : List Nat) (k : Nat) (hex : Exploit T cands k) : ChosenIsBest objs cands k := by
  rcases singleTargets_form sc hsc _ T hT with rfl | ⟨s, o, hs, rfl⟩
  · -- no targets at all: there is nothing to interpolate, `Exploit` is impossible with candidates
    obtain ⟨mu, sd, hint, hsd, hk⟩ := hex
    rw [acqLCB_zero mu sd hsd] at hk
    obtain ⟨m, hm, _⟩ := chooseNext_spec hk
    obtain ⟨c, _, hc⟩ := interpolate_getElem? hint k m hm
    simp at hc
  · apply chosen_of_strictAnti (by simp) _ hex
    intro i j a b ta tb hi hj hti htj hab
    simp only [List.getElem?_map, hi, hj, Option.map_some, Option.some.injEq] at hti htj
    subst hti htj
    nlinarith

/-- **C05 (single objective, any order-preserving scaler — `quantile-uniform`).**  The same for
every scaled history that preserves the strict order of the told values. -/
theorem C05_single_env (objs T : Vec) (hlen : objs.length = T.length)
    (hmono : ∀ (i j : Nat) (a b ta tb : Rat), objs[i]? = some a → objs[j]? = some b →
      T[i]? = some ta → T[j]? = some tb → -b < -a → tb < ta)
    (cands : List Nat) (k : Nat) (hex : Exploit T cands k) : ChosenIsBest objs cands k := by
  apply chosen_of_strictAnti hlen _ hex
  intro i j a b ta tb hi hj hti htj hab
  exact hmono i j a b ta tb hi hj hti htj (by linarith)

/-! ## multi-objective, affinely aligned objectives: every strategy -/

/-- **C05 (multi-objective, aligned; rays).**  For **every** scalarisation strategy and weights
`w ≥ 0`, `w ≠ 0`: if the scaled history consists of rows `a + tᵢ·d` with a common direction
`d > 0` (which is what offsets and positive scales of a common score give, see
`C05_moo_aligned`), the fitted targets are strictly increasing in `tᵢ`. -/
theorem C05_moo_aligned_rays (s : Strategy) (w : Vec) (hw : ∀ x ∈ w, 0 ≤ x) (hw0 : ∃ x ∈ w, 0 < x)
    (ad : List (Rat × Rat)) (hd : ∀ p ∈ ad, 0 < p.2) (ts T : Vec)
    (hT : mooTargets (.given (ts.map (ray ad))) s w (ts.map (ray ad)) = some T) :
    ∀ (i j : Nat) (ti tj a b : Rat), ts[i]? = some ti → ts[j]? = some tj → T[i]? = some a →
      T[j]? = some b → ti < tj → a < b := by
  rw [mooTargets_eq] at hT
  simp only [applyScaler, if_true, Option.bind_some] at hT
  intro i j ti tj a b hi hj ha hb hlt
  exact targets_rays_strictMono s w ad hd hw hw0 ts T hT i j ti tj a b hi hj ha hb hlt

/-- **C05 (multi-objective, aligned).**  Objectives that are offsets and positive scales of a
common score (`objective_c = λ_c · score + k_c`, `λ_c > 0` — any signs of the values), objective
scaler identity or minmax, **every** strategy (Linear, Chebyshev, AugChebyshev, PBI, Quadratic,
any parameter), weights `w ≥ 0`, `w ≠ 0`: the proposed candidate has the largest score. -/
theorem C05_moo_aligned (sc : Scaler) (hsc : sc = .identity ∨ sc = .minmax) (s : Strategy) (w : Vec)
    (hw : ∀ x ∈ w, 0 ≤ x) (hw0 : ∃ x ∈ w, 0 < x) (cols : List (Rat × Rat))
    (hcols : ∀ p ∈ cols, 0 < p.1) (scores T : Vec)
    (hT : mooTargets sc s w (scores.map (fun x => negV (alignedObj cols x))) = some T)
    (cands : List Nat) (k : Nat) (hex : Exploit T cands k) : ChosenIsBest scores cands k := by
  have htold : scores.map (fun x => negV (alignedObj cols x))
      = (scores.map (fun x => -x)).map (ray (alignedAD cols)) := by
    rw [List.map_map]; apply List.map_congr_left; intro x _; exact told_aligned_ray cols x
  rw [htold, mooTargets_eq] at hT
  -- the scaled history is again a family of rays with a positive direction
  have key : ∃ ad : List (Rat × Rat), (∀ p ∈ ad, 0 < p.2) ∧
      targetsOf s w ((scores.map (fun x => -x)).map (ray ad)) = some T := by
    rcases hsc with rfl | rfl
    · exact ⟨alignedAD cols, alignedAD_pos cols hcols, by simpa [applyScaler, scaleIdentity] using hT⟩
    · simp only [applyScaler] at hT
      cases hsm : scaleMinMax ((scores.map (fun x => -x)).map (ray (alignedAD cols))) with
      | none => rw [hsm] at hT; simp at hT
      | some scaled =>
        obtain ⟨sc', off, hpos, rfl⟩ := scaleMinMax_affine hsm
        refine ⟨affRay sc' off (alignedAD cols),
          affRay_dir_pos sc' off _ hpos (alignedAD_pos cols hcols), ?_⟩
        simp only [hsm, Option.bind_some] at hT
        rw [List.map_map] at hT
        have e : (affRow sc' off ∘ ray (alignedAD cols)) = ray (affRay sc' off (alignedAD cols)) := by
          funext t; exact affRow_ray sc' off _ t
        rw [e] at hT; exact hT
  obtain ⟨ad, hd, hT'⟩ := key
  have hlenT : scores.length = T.length := by
    unfold targetsOf at hT'
    cases hu : colMin ((scores.map (fun x => -x)).map (ray ad)) with
    | none => rw [hu] at hT'; simp at hT'
    | some u => simp only [hu] at hT'; have := mapOpt_length hT'; simpa using this.symm
  apply chosen_of_strictAnti hlenT _ hex
  intro i j a b ta tb hi hj hti htj hab
  exact targets_rays_strictMono s w ad hd hw hw0 _ T hT' j i (-b) (-a) tb ta
    (by simp [hj]) (by simp [hi]) htj hti (by linarith)

/-! ## multi-objective, Pareto-monotonicity: Linear, Chebyshev, AugChebyshev -/

/-- **C05 (Pareto-monotone, scalarisation level).**  For Linear, Chebyshev and AugChebyshev
(any `alpha`), weights `w ≥ 0`: above the utopia point, `y ≤ y'` componentwise implies
`s(y) ≤ s(y')` (internal minimisation: a vector that is at least as good in every objective
never gets a worse value). -/
theorem C05_moo_monotone (s : Strategy) (hs : s.monotone = true) (w u y y' : Vec)
    (hw : ∀ x ∈ w, 0 ≤ x) (hu : Forall₂ (· ≤ ·) u y) (hy : Forall₂ (· ≤ ·) y y') (a b : Rat)
    (ha : scalarize s w u y = some a) (hb : scalarize s w u y' = some b) : a ≤ b :=
  scalarize_mono s hs hw hu hy ha hb

/-- **C05 (Pareto-monotone, whole pipeline).**  With objective scaler identity or minmax, or any
row-monotone scaled history (`quantile-uniform`: every column mapped by a monotone function), and
one of the three monotone strategies: a told point that is at least as good in every objective
(`told_i ≤ told_j` componentwise, i.e. `objs_i ≥ objs_j`) gets a target that is at most as large. -/
theorem C05_moo_monotone_targets (sc : Scaler) (s : Strategy) (hs : s.monotone = true) (w : Vec)
    (hw : ∀ x ∈ w, 0 ≤ x) (told scaled : List Vec) (T : Vec)
    (hsc : applyScaler sc told = some scaled)
    (hmono : (sc = .identity ∨ sc = .minmax) ∨ RowMono told scaled)
    (hT : mooTargets sc s w told = some T)
    (i j : Nat) (ri rj : Vec) (a b : Rat) (hi : told[i]? = some ri) (hj : told[j]? = some rj)
    (ha : T[i]? = some a) (hb : T[j]? = some b) (hle : Forall₂ (· ≤ ·) ri rj) : a ≤ b := by
  have hrm : RowMono told scaled := by
    rcases hmono with (rfl | rfl) | h
    · simp only [applyScaler, scaleIdentity, Option.some.injEq] at hsc; subst hsc
      exact rowMono_identity told
    · exact rowMono_minmax hsc
    · exact h
  rw [mooTargets_eq, hsc] at hT
  simp only [Option.bind_some] at hT
  -- the scaled rows i and j exist because the targets do
  have hlen : T.length = scaled.length := by
    unfold targetsOf at hT
    cases hu : colMin scaled with
    | none => simp [hu] at hT
    | some u => simp only [hu] at hT; exact mapOpt_length hT
  have hsi : i < scaled.length := by
    rcases Nat.lt_or_ge i T.length with h | h
    · omega
    · rw [List.getElem?_eq_none h] at ha; simp at ha
  have hsj : j < scaled.length := by
    rcases Nat.lt_or_ge j T.length with h | h
    · omega
    · rw [List.getElem?_eq_none h] at hb; simp at hb
  exact targets_mono s hs w hw scaled T hT i j scaled[i] scaled[j] a b (by simp [hsi]) (by simp [hsj])
    ha hb (hrm i j ri rj scaled[i] scaled[j] hi hj (by simp [hsi]) (by simp [hsj]) hle)

/-- consequence for the proposal: a candidate that is at least as good as the proposed one in
every objective can only tie with it -/
theorem C05_moo_monotone_choice (sc : Scaler) (s : Strategy) (hs : s.monotone = true) (w : Vec)
    (hw : ∀ x ∈ w, 0 ≤ x) (told scaled : List Vec) (T : Vec)
    (hsc : applyScaler sc told = some scaled)
    (hmono : (sc = .identity ∨ sc = .minmax) ∨ RowMono told scaled)
    (hT : mooTargets sc s w told = some T) (cands : List Nat) (k : Nat) (hex : Exploit T cands k) :
    ∃ c rc tc, cands[k]? = some c ∧ told[c]? = some rc ∧ T[c]? = some tc ∧
      ∀ c' ∈ cands, ∀ rc' tc', told[c']? = some rc' → T[c']? = some tc' →
        Forall₂ (· ≤ ·) rc' rc → tc' = tc := by
  obtain ⟨mu, sd, hint, hsd, hk⟩ := hex
  rw [acqLCB_zero mu sd hsd] at hk
  obtain ⟨m, hm, hmin⟩ := chooseNext_spec hk
  obtain ⟨c, hc, hTc⟩ := interpolate_getElem? hint k m hm
  have hlenT : T.length = told.length := by
    rw [mooTargets_eq, hsc] at hT
    simp only [Option.bind_some] at hT
    unfold targetsOf at hT
    cases hu : colMin scaled with
    | none => simp [hu] at hT
    | some u =>
      simp only [hu] at hT
      have h1 := mapOpt_length hT
      have h2 : scaled.length = told.length := by
        cases sc with
        | identity => simp only [applyScaler, scaleIdentity, Option.some.injEq] at hsc; rw [hsc]
        | minmax =>
          obtain ⟨_, _, _, rfl⟩ := scaleMinMax_affine hsc
          simp
        | given g =>
          simp only [applyScaler] at hsc
          split at hsc
          · rename_i h; simp only [Option.some.injEq] at hsc; subst hsc; exact h
          · simp at hsc
      omega
  have hct : c < told.length := by
    rcases Nat.lt_or_ge c T.length with h | h
    · omega
    · rw [List.getElem?_eq_none h] at hTc; simp at hTc
  refine ⟨c, told[c], m, hc, by simp [hct], hTc, ?_⟩
  intro c' hc' rc' tc' hr' ht' hle
  have h1 := C05_moo_monotone_targets sc s hs w hw told scaled T hsc hmono hT c' c rc' told[c] tc' m
    hr' (by simp [hct]) ht' hTc hle
  rcases List.mem_iff_getElem?.1 hc' with ⟨k', hk'⟩
  obtain ⟨v', hf, hv'⟩ := mapOpt_getElem? hint k' c' hk'
  rw [ht'] at hf
  simp only [Option.some.injEq] at hf; subst hf
  exact le_antisymm h1 (hmin _ (List.mem_of_getElem? hv'))

/-- **C05 (the proposal is never beaten in every objective).**  Monotone strategy, weights
`w ≥ 0`, `w ≠ 0`, scaler identity / minmax (or any scaled history that keeps strict row order):
no candidate is strictly better than the proposed one in every objective (`told` is negated, so
"better" is "smaller in every column"). -/
theorem C05_moo_not_beaten (sc : Scaler) (s : Strategy) (hs : s.monotone = true) (w : Vec)
    (hw : ∀ x ∈ w, 0 ≤ x) (hw0 : ∃ x ∈ w, 0 < x) (told scaled : List Vec) (T : Vec)
    (hsc : applyScaler sc told = some scaled)
    (hmono : (sc = .identity ∨ sc = .minmax) ∨ RowStrictMono told scaled)
    (hT : mooTargets sc s w told = some T) (cands : List Nat) (k : Nat) (hex : Exploit T cands k) :
    ∃ c rc, cands[k]? = some c ∧ told[c]? = some rc ∧
      ∀ c' ∈ cands, ∀ rc', told[c']? = some rc' → ¬ Forall₂ (· < ·) rc' rc := by
  have hrm : RowStrictMono told scaled := by
    rcases hmono with (rfl | rfl) | h
    · simp only [applyScaler, scaleIdentity, Option.some.injEq] at hsc; subst hsc
      exact rowStrictMono_identity told
    · exact rowStrictMono_minmax hsc
    · exact h
  obtain ⟨mu, sd, hint, hsd, hk⟩ := hex
  rw [acqLCB_zero mu sd hsd] at hk
  obtain ⟨m, hm, hmin⟩ := chooseNext_spec hk
  obtain ⟨c, hc, hTc⟩ := interpolate_getElem? hint k m hm
  rw [mooTargets_eq, hsc] at hT
  simp only [Option.bind_some] at hT
  have hlenT : T.length = scaled.length := by
    unfold targetsOf at hT
    cases hu : colMin scaled with
    | none => simp [hu] at hT
    | some u => simp only [hu] at hT; exact mapOpt_length hT
  have hlenS : scaled.length = told.length := by
    cases sc with
    | identity => simp only [applyScaler, scaleIdentity, Option.some.injEq] at hsc; rw [hsc]
    | minmax => obtain ⟨_, _, _, rfl⟩ := scaleMinMax_affine hsc; simp
    | given g =>
      simp only [applyScaler] at hsc
      split at hsc
      · rename_i h; simp only [Option.some.injEq] at hsc; subst hsc; exact h
      · simp at hsc
  have hct : c < T.length := by
    rcases Nat.lt_or_ge c T.length with h | h
    · exact h
    · rw [List.getElem?_eq_none h] at hTc; simp at hTc
  refine ⟨c, told[c]'(by omega), hc, by simp, ?_⟩
  intro c' hc' rc' hr' hlt
  rcases List.mem_iff_getElem?.1 hc' with ⟨k', hk'⟩
  obtain ⟨v', hf, hv'⟩ := mapOpt_getElem? hint k' c' hk'
  have hc't : c' < T.length := by
    rcases Nat.lt_or_ge c' T.length with h | h
    · exact h
    · rw [List.getElem?_eq_none h] at hf; simp at hf
  have hs1 : scaled[c']? = some (scaled[c']'(by omega)) := by simp
  have hs2 : scaled[c]? = some (scaled[c]'(by omega)) := by simp
  have hstrict := hrm c' c rc' (told[c]'(by omega)) _ _ hr' (by simp) hs1 hs2 hlt
  have := targets_strict_mono s hs w hw hw0 scaled T hT c' c _ _ v' m hs1 hs2 hf hTc hstrict
  have hmin' := hmin v' (List.mem_of_getElem? hv')
  linarith

/-- **PBI and Quadratic are not Pareto-monotone — by design.**  With `w = (½,½)`, utopia point
`0`: `z = (1,1)` scores 2 under both, while `z' = (9/10, 0)`, which is componentwise smaller
(better in both objectives), scores `27/5` (PBI, penalty 5) resp. `891/200` (Quadratic, α = 10).
For these two strategies the claim of the property is `C05_moo_aligned`. -/
theorem C05_moo_monotone_false_for_pbi_quadratic :
    Forall₂ (· ≤ ·) ([9/10, 0] : Vec) [1, 1] ∧ Forall₂ (· ≤ ·) ([0, 0] : Vec) [9/10, 0] ∧
    scalarize (.pbi 5) [1/2, 1/2] [0, 0] [1, 1] = some 2 ∧
    scalarize (.pbi 5) [1/2, 1/2] [0, 0] [9/10, 0] = some (27/5) ∧
    scalarize (.quadratic 10) [1/2, 1/2] [0, 0] [1, 1] = some 2 ∧
    scalarize (.quadratic 10) [1/2, 1/2] [0, 0] [9/10, 0] = some (891/200) := by
  refine ⟨?_, ?_, ?_, ?_, ?_, ?_⟩
  · exact Forall₂.cons (by decide +kernel) (Forall₂.cons (by decide +kernel) Forall₂.nil)
  · exact Forall₂.cons (by decide +kernel) (Forall₂.cons (by decide +kernel) Forall₂.nil)
  all_goals decide +kernel

/-! ## invariance under a constant shift and a positive rescaling of the objectives -/

/-- **C05 (shift).**  Identity scaler: adding a constant vector `c` to every told row (i.e.
subtracting it from every objective vector; `c` is arbitrary) leaves every fitted target, hence
the proposal, unchanged — for every strategy and every history.  Single objective: the targets
move by the constant and the proposal is unchanged. -/
theorem C05_shift (s : Strategy) (w c : Vec) (told : List Vec) (h : ∀ r ∈ told, r.length = c.length) :
    mooTargets .identity s w (told.map (fun r => vadd r c)) = mooTargets .identity s w told := by
  rw [mooTargets_eq, mooTargets_eq]
  simp only [applyScaler, scaleIdentity, Option.bind_some]
  exact targetsOf_vadd s w c told h

theorem C05_shift_single (told : Vec) (c : Rat) (cands : List Nat) :
    (do let T ← singleTargets .identity (told.map (· + c)); let mu ← interpolate T cands; chooseNext mu)
      = (do let T ← singleTargets .identity told; let mu ← interpolate T cands; chooseNext mu) := by
  have e : ∀ l : Vec, singleTargets .identity l = some l := by
    intro l
    simp only [singleTargets, applyScaler, scaleIdentity, Option.map_some]
    have := flatten_map_singleton (fun y => y) l
    simpa using this
  rw [e, e]
  simp only [Option.bind_eq_bind, Option.bind_some]
  rw [interpolate_map (· + c)]
  cases interpolate told cands with
  | none => rfl
  | some mu =>
    simp only [Option.map_some, Option.bind_some]
    exact chooseNext_map (f := (· + c)) (by intro a b; constructor <;> intro h <;> linarith) mu

/-- **C05 (scale).**  Identity scaler: multiplying every objective by `λ > 0` multiplies every
target by `λ` (by `λ²` for Quadratic), and the proposal is unchanged — for every strategy and
every history. -/
theorem C05_scale (s : Strategy) (w : Vec) (told : List Vec) (lam : Rat) (hl : 0 < lam)
    (cands : List Nat) :
    mooTargets .identity s w (told.map (smul lam))
        = (mooTargets .identity s w told).map (List.map (fun k => deg s lam * k)) ∧
    (do let T ← mooTargets .identity s w (told.map (smul lam)); let mu ← interpolate T cands; chooseNext mu)
      = (do let T ← mooTargets .identity s w told; let mu ← interpolate T cands; chooseNext mu) := by
  have h1 : mooTargets .identity s w (told.map (smul lam))
        = (mooTargets .identity s w told).map (List.map (fun k => deg s lam * k)) := by
    rw [mooTargets_eq, mooTargets_eq]
    simp only [applyScaler, scaleIdentity, Option.bind_some]
    exact targetsOf_smul s w told hl
  refine ⟨h1, ?_⟩
  rw [h1]
  cases mooTargets .identity s w told with
  | none => rfl
  | some T =>
    simp only [Option.map_some, Option.bind_eq_bind, Option.bind_some]
    rw [interpolate_map]
    cases interpolate T cands with
    | none => rfl
    | some mu =>
      simp only [Option.map_some, Option.bind_some]
      have hp := deg_pos s hl
      exact chooseNext_map (f := fun k => deg s lam * k)
        (by intro a b; constructor <;> intro h <;> nlinarith) mu

theorem C05_scale_single (told : Vec) (lam : Rat) (hl : 0 < lam) (cands : List Nat) :
    (do let T ← singleTargets .identity (told.map (lam * ·)); let mu ← interpolate T cands; chooseNext mu)
      = (do let T ← singleTargets .identity told; let mu ← interpolate T cands; chooseNext mu) := by
  have e : ∀ l : Vec, singleTargets .identity l = some l := by
    intro l
    simp only [singleTargets, applyScaler, scaleIdentity, Option.map_some]
    have := flatten_map_singleton (fun y => y) l
    simpa using this
  rw [e, e]
  simp only [Option.bind_eq_bind, Option.bind_some]
  rw [interpolate_map (lam * ·)]
  cases interpolate told cands with
  | none => rfl
  | some mu =>
    simp only [Option.map_some, Option.bind_some]
    exact chooseNext_map (f := (lam * ·)) (by intro a b; constructor <;> intro h <;> nlinarith) mu

/-- **C05 (shift, minmax scaler).**  The min-max scaled history — hence every target and the
proposal — is unchanged when a constant vector is added to every row. -/
theorem C05_shift_minmax (s : Strategy) (w c : Vec) (told : List Vec) (h : ∀ r ∈ told, r.length = c.length) :
    mooTargets .minmax s w (told.map (fun r => vadd r c)) = mooTargets .minmax s w told := by
  rw [mooTargets_eq, mooTargets_eq]
  simp only [applyScaler, scaleMinMax_vadd c told h]

theorem C05_shift_single_minmax (told : Vec) (c : Rat) :
    singleTargets .minmax (told.map (· + c)) = singleTargets .minmax told := by
  simp only [singleTargets, applyScaler]
  have e : (told.map (· + c)).map (fun y => [y]) = (told.map (fun y => [y])).map (fun r => vadd r [c]) := by
    simp only [List.map_map]; apply List.map_congr_left; intro y _; simp [vadd]
  rw [e, scaleMinMax_vadd [c] _ (by intro r hr; rcases List.mem_map.1 hr with ⟨y, _, rfl⟩; rfl)]

/-- **C05 (scale, minmax scaler) — the exact condition.**  scikit-learn's `MinMaxScaler` computes
`data_range = max − min` per column, replaces every range `< 10·eps` (an ABSOLUTE threshold,
`_handle_zeros_in_scale`) by 1, and returns `X·(1/range) + (0 − min/range)`.  Hence, for `λ > 0`:
if every column is constant (range 0: mapped to 0 in both runs) or has a range that is `≥ 10·eps`
both before and after the rescaling, the scaled history — so every target and the proposal — is
unchanged. -/
theorem C05_scale_minmax (s : Strategy) (w : Vec) (told : List Vec) (n : Nat)
    (hn : ∀ r ∈ told, r.length = n) (lam : Rat) (hl : 0 < lam)
    (hst : ∀ mn mx, colMin told = some mn → colMax told = some mx → RangesOK lam mn mx) :
    mooTargets .minmax s w (told.map (smul lam)) = mooTargets .minmax s w told := by
  rw [mooTargets_eq, mooTargets_eq]
  simp only [applyScaler, scaleMinMax_smul_ok hl told n hn hst]

/-- **Outside that condition the statement is false of the code (and of the model).**  Two
observations `A = (0, 15·2⁻⁵²)`, `B = (3/5, 0)` (internal values), Chebyshev, weights `(3/10, 7/10)`:
the second column's range `15·2⁻⁵²` is above the threshold `10·2⁻⁵²`, after multiplying the
objectives by `λ = 1/2` it is below, the column is no longer stretched to `[0,1]`, and the arg-min
moves from `B` to `A`.  This concerns objectives whose whole observed spread in one component is
below `2.3e-15` in absolute value; larger-is-better is unaffected (every column stays monotone, so
`C05_moo_aligned`, `C05_moo_monotone*`, `C05_moo_not_beaten` hold for the rescaled history as for
any other) — recorded as a limit of the invariance clause, not as a finding. -/
theorem C05_scale_minmax_false_across_threshold :
    (mooTargets .minmax .chebyshev [3/10, 7/10] [[0, 15/4503599627370496], [3/5, 0]]).bind chooseNext = some 1 ∧
    (mooTargets .minmax .chebyshev [3/10, 7/10]
      ([[0, 15/4503599627370496], [3/5, 0]].map (smul (1/2)))).bind chooseNext = some 0 := by
  decide +kernel

/-! ## failed evaluations -/

/-- **C05 (failures are never preferred).**  CBO's `filter_failures ∈ {"min", "mean"}` (mapped
to the optimizer's `"max"` / `"mean"` because the objectives are negated): in the targets the
surrogate is fitted on, successes keep their value and every failed configuration gets a value
that is at least the value of some successful observation — so the smallest target, i.e. what
an exploitation-only acquisition proposes, is always attained at a successful configuration. -/
theorem C05_failures_not_preferred (userMode : String) (hu : userMode = "min" ∨ userMode = "mean")
    (mf : Nat) (yi out : List (Option Rat)) (hsucc : ∃ r, some r ∈ yi)
    (h : filterFailures (mapFilterFailures userMode) mf yi = .ok out) :
    out.length = yi.length ∧
    ∀ (i : Nat) (v : Rat), yi[i]? = some none → out[i]? = some (some v) →
      ∃ (j : Nat) (r : Rat), yi[j]? = some (some r) ∧ out[j]? = some (some r) ∧ r ≤ v := by
  have hm : mapFilterFailures userMode = "max" ∨ mapFilterFailures userMode = "mean" := by
    rcases hu with rfl | rfl
    · left; decide
    · right; decide
  obtain ⟨hlen, hall⟩ := filterFailures_imputed _ hm mf yi out hsucc h
  refine ⟨hlen, ?_⟩
  intro i v hnone hout
  obtain ⟨v', r, hv', hr, hle⟩ := (hall i).2 hnone
  rw [hv'] at hout
  simp only [Option.some.injEq] at hout; subst hout
  rcases List.mem_iff_getElem?.1 hr with ⟨j, hj⟩
  exact ⟨j, r, hj, (hall j).1 r hj, hle⟩

/-- **C05 (the proposal with failed evaluations).**  Policies `"min"` / `"mean"`, successes whose
targets are strictly decreasing in the score (what `C05_single` / `C05_moo_aligned` establish for
the successful rows), every candidate observed, exploitation-only acquisition.  Then the proposal's
target is below every successful candidate's target; if the proposal was evaluated successfully it
has the largest score among the successful candidates; and if it is a failed configuration, then a
successful observation ties with it — with two successes of different score among the
candidates that is impossible, so the proposal is a best SUCCESSFUL candidate. -/
theorem C05_failures_choice (userMode : String) (hu : userMode = "min" ∨ userMode = "mean") (mf : Nat)
    (score : Vec) (yi out : List (Option Rat)) (T : Vec) (hsucc : ∃ r, some r ∈ yi)
    (hanti : ∀ (i j : Nat) (a b ti tj : Rat), score[i]? = some a → score[j]? = some b →
      yi[i]? = some (some ti) → yi[j]? = some (some tj) → a < b → tj < ti)
    (h : filterFailures (mapFilterFailures userMode) mf yi = .ok out) (hT : mapOpt id out = some T)
    (cands : List Nat) (k : Nat) (hex : Exploit T cands k) :
    ∃ c tc, cands[k]? = some c ∧ T[c]? = some tc ∧
      (∀ c' ∈ cands, ∀ r', yi[c']? = some (some r') → tc ≤ r') ∧
      (∀ r, yi[c]? = some (some r) → ∀ c' ∈ cands, ∀ (r' a b : Rat), yi[c']? = some (some r') →
        score[c]? = some a → score[c']? = some b → b ≤ a) ∧
      (yi[c]? = some none → ∃ (j : Nat) (r : Rat), yi[j]? = some (some r) ∧ r ≤ tc ∧ (j ∈ cands → r = tc)) := by
  obtain ⟨hlen, hfail⟩ := C05_failures_not_preferred userMode hu mf yi out hsucc h
  have hm : mapFilterFailures userMode = "max" ∨ mapFilterFailures userMode = "mean" := by
    rcases hu with rfl | rfl
    · left; decide
    · right; decide
  obtain ⟨_, hall⟩ := filterFailures_imputed _ hm mf yi out hsucc h
  obtain ⟨mu, sd, hint, hsd, hk⟩ := hex
  rw [acqLCB_zero mu sd hsd] at hk
  obtain ⟨m, hm', hmin⟩ := chooseNext_spec hk
  obtain ⟨c, hc, hTc⟩ := interpolate_getElem? hint k m hm'
  -- T[i] = v  ↔  out[i] = some v
  have hTout : ∀ (i : Nat) (v : Rat), out[i]? = some (some v) → T[i]? = some v := by
    intro i v hv
    obtain ⟨y, hy1, hy2⟩ := mapOpt_getElem? hT i (some v) hv
    simp only [id] at hy1; cases hy1; exact hy2
  have hle : ∀ c' ∈ cands, ∀ r', yi[c']? = some (some r') → m ≤ r' := by
    intro c' hc' r' hr'
    rcases List.mem_iff_getElem?.1 hc' with ⟨k', hk'⟩
    obtain ⟨v', hf, hv'⟩ := mapOpt_getElem? hint k' c' hk'
    have := hTout c' r' ((hall c').1 r' hr')
    rw [this] at hf; simp only [Option.some.injEq] at hf; subst hf
    exact hmin _ (List.mem_of_getElem? hv')
  refine ⟨c, m, hc, hTc, hle, ?_, ?_⟩
  · intro r hr c' hc' r' a b hr' ha hb
    by_contra hcon
    have hlt : a < b := not_le.mp hcon
    have h1 := hanti c c' a b r r' ha hb hr hr' hlt
    have h2 : T[c]? = some r := hTout c r ((hall c).1 r hr)
    rw [hTc] at h2; simp only [Option.some.injEq] at h2; subst h2
    have := hle c' hc' r' hr'
    linarith
  · intro hnone
    have hcl : c < out.length := by
      rw [hlen]
      rcases Nat.lt_or_ge c yi.length with hh | hh
      · exact hh
      · rw [List.getElem?_eq_none hh] at hnone; simp at hnone
    obtain ⟨v, r, hv, hr, hrv⟩ := (hall c).2 hnone
    have : T[c]? = some v := hTout c v hv
    rw [hTc] at this; simp only [Option.some.injEq] at this; subst this
    rcases List.mem_iff_getElem?.1 hr with ⟨j, hj⟩
    exact ⟨j, r, hj, hrv, fun hjc => le_antisymm hrv (hle j hjc r hj)⟩

/-! ## several fits on a growing history -/

/-- **C05 (no state survives between fits).**  When a history is told in batches and the surrogate
is refitted after every batch, the targets of the `k`-th fit are `fit` of the concatenation of the
first `k+1` batches — for `fit = fitTargets …`: objective scaler, utopia point and failure imputation
are functions of the full told history of that moment only.  In particular they do not depend on
how the history was cut into batches, nor on what earlier fits computed (a utopia point frozen at
the first fit — `fitsStaleUtopia` — is not this function, see the witness below). -/
theorem C05_history_independent_of_earlier_fits {α : Type} (fit : List (Option Vec) → α)
    (batches : List (List (Option Vec))) (k : Nat) (hk : k < batches.length) :
    (fitsOf fit batches)[k]? = some (fit ((batches.take (k + 1)).flatten)) := by
  have := fitsFrom_getElem? fit batches [] k hk
  simpa [fitsOf] using this

theorem C05_history_independent_of_batching (single : Bool) (sc : Scaler) (s : Strategy) (w : Vec)
    (userMode : String) (mf : Nat) (bs bs' : List (List (Option Vec)))
    (hne : bs ≠ []) (hne' : bs' ≠ []) (hflat : bs.flatten = bs'.flatten) :
    (fitsOf (fun told => fitTargets single sc s w userMode mf told) bs).getLast?
      = (fitsOf (fun told => fitTargets single sc s w userMode mf told) bs').getLast? := by
  have key : ∀ (l : List (List (Option Vec))), l ≠ [] →
      (fitsOf (fun told => fitTargets single sc s w userMode mf told) l).getLast?
        = some (fitTargets single sc s w userMode mf l.flatten) := by
    intro l hl
    have hlen : (fitsOf (fun told => fitTargets single sc s w userMode mf told) l).length = l.length := by
      simp [fitsOf, fitsFrom_length]
    have hpos : 0 < l.length := List.length_pos_of_ne_nil hl
    rw [List.getLast?_eq_getElem?, hlen,
      C05_history_independent_of_earlier_fits _ l (l.length - 1) (by omega)]
    have : l.length - 1 + 1 = l.length := by omega
    rw [this, List.take_length]
  rw [key bs hne, key bs' hne', hflat]

/-! ## verified checker, bounds penalty -/

/-- **C05 (verified checker).**  The executable `checkChoice`, which the harness evaluates on every
real `CBO.ask` proposal made with all candidates observed, decides exactly: the proposal is a
candidate, was evaluated successfully, and no successful candidate has a larger score. -/
theorem C05_checker (score : Vec) (succ : List Bool) (cands : List Nat) (chosen : Nat) :
    checkChoice score succ cands chosen = true ↔ ChoiceSpec score succ cands chosen :=
  checkChoice_iff score succ cands chosen

/-- the conclusion of the maximality theorems is what the checker accepts (no failures) -/
theorem C05_checker_accepts_theorems (score : Vec) (cands : List Nat) (k : Nat)
    (h : ChosenIsBest score cands k) :
    ∃ c, cands[k]? = some c ∧ checkChoice score (List.replicate score.length true) cands c = true := by
  obtain ⟨c, sc, hc, hsc, hbest⟩ := h
  refine ⟨c, hc, (C05_checker _ _ _ _).2 ⟨List.mem_of_getElem? hc, ?_, sc, hsc, ?_⟩⟩
  · have hlt : c < score.length := by
      rcases Nat.lt_or_ge c score.length with hh | hh
      · exact hh
      · rw [List.getElem?_eq_none hh] at hsc; simp at hsc
    simp [hlt]
  · intro c' hc' hs'
    have hlt : c' < score.length := by
      rcases Nat.lt_or_ge c' score.length with hh | hh
      · exact hh
      · simp [Nat.not_lt.mpr hh] at hs'
    exact ⟨score[c'], by simp [hlt], hbest c' hc' _ (by simp [hlt])⟩

/-- **C05 (`moo_lower_bounds` keeps the direction).**  The penalty for leaving the region of
interest is added after scaling to every component; a row that is at least as good in every
(scaled) objective is at least as good after the penalty, so the Pareto-monotonicity results carry
over to the penalised history. -/
theorem C05_bounds_penalty_monotone (ub r r' : Vec) (h : Forall₂ (· ≤ ·) r r') :
    Forall₂ (· ≤ ·) (penalise ub r) (penalise ub r') :=
  penalise_mono ub h

/-! ## one-shot batches (`topk`, `boltzmann`) and the sampling prior of `update_prior=True`

`Optimizer._tell` caches the candidates `xs` that reached the acquisition (after `_filter_duplicated`) together with the
acquisition values computed on them; `ask(n, "topk")` returns `[xs[i] for i in np.argsort(values)[:n]]` and
`ask(n, "boltzmann")` starts with `xs[np.argmax(-values)]`.  What `np.argsort` does with equal values is an environment
choice under the contract `ArgsortOK`.  The harness sends the positions behind every real batch to `isNSmallestB`, once
with the observed acquisition values (L2) and once with the negated scores (L3). -/

/-- **C05 (verified checker for batches).** -/
theorem C05_nsmallest_checker (values : Vec) (idx : List Nat) (n : Nat) :
    isNSmallestB values idx n = true ↔ IsNSmallest values idx n := isNSmallestB_iff values idx n

/-- **C05 (one-shot batch `topk`).**  With every candidate observed, an interpolating surrogate, an exploitation-only
acquisition and fitted targets strictly decreasing in a score: for every admissible `np.argsort`, the positions selected
by `topk` are `n` positions of smallest acquisition value, THE CANDIDATES AT THOSE POSITIONS OF THE SAME LIST `xs` are
`n` candidates of largest score (all of them when fewer than `n` reached the acquisition), and indexing `xs` cannot fail. -/
theorem C05_topk_batch (score T values sc : Vec) (xs order : List Nat) (n : Nat) (hanti : StrictAnti score T)
    (hint : interpolate T xs = some values) (hsc : interpolate score xs = some sc)
    (hord : ArgsortOK values order) :
    IsNSmallest values (topkIdx order n) n ∧
    IsNSmallest (sc.map (fun s => -s)) (topkIdx order n) n ∧
    (batchOf xs (topkIdx order n)).isSome = true := by
  have h := topkIdx_isNSmallest hord n
  refine ⟨h, nsmallest_by_score score T xs values sc _ n hanti hint hsc h, ?_⟩
  apply batchOf_isSome
  intro i hi
  have := h.2.2.1 i hi
  rwa [mapOpt_length hint] at this

/-- **C05 (first member of a `boltzmann` batch).**  `np.argmax(-values)` is the arg-min of the acquisition: under the
same contract the first configuration of the batch is a candidate of largest score. -/
theorem C05_boltzmann_first (score T values : Vec) (xs : List Nat) (k : Nat)
    (hlen : score.length = T.length) (hanti : StrictAnti score T)
    (hint : interpolate T xs = some values) (hk : boltzmannFirst values = some k) :
    IsNSmallest values [k] 1 ∧ ChosenIsBest score xs k := by
  refine ⟨boltzmannFirst_isNSmallest hk, ?_⟩
  rw [boltzmannFirst_eq] at hk
  exact chosen_max_of_anti score T xs values hanti hlen hint k hk

/-- **C05 (verified checker for the prior update).**  `checkPriorSel` decides: the selection is not empty and every
observation left out has a strictly larger fitted target (a strictly smaller objective) than every selected one. -/
theorem C05_prior_checker (y : Vec) (sel : List Bool) : checkPriorSel y sel = true ↔ PriorSelSpec y sel :=
  checkPriorSel_iff y sel

/-- **C05 (`update_prior`: the model's selection points the right way).**  For every history of fitted targets and every
quantile for which `np.quantile` is defined, `y <= np.quantile(y, q)` satisfies that specification. -/
theorem C05_prior_model_direction (q : Rat) (y : Vec) (m : List Bool) (h : priorMask q y = some m) :
    checkPriorSel y m = true := (checkPriorSel_iff y m).mpr (priorMask_spec h)

/-- **C05 (`update_prior=True`: which observations the sampling prior is re-fitted on).**  `CBO(update_prior_quantile = p)`
hands `q = 1 - p` to the optimizer, which re-fits the prior of every real hyperparameter on the told points whose fitted
target is `<= np.quantile(targets, q)`.  With fitted targets strictly decreasing in pairwise distinct scores
(`C05_single`, `C05_moo_aligned` give that) the selected observations are (a) upward closed in the score, (b) contain the
observation of largest score, (c) exactly `⌊(n-1)(1-p)⌋ + 1` many: the selection is the top fraction BY OBJECTIVE. -/
theorem C05_prior_selection (score T : Vec) (p : Rat) (m : List Bool) (hlen : score.length = T.length)
    (hanti : StrictAnti score T) (hnd : score.Nodup) (hm : priorMask (cboPriorQuantile p) T = some m) :
    (∀ (i j : Nat) (a b : Rat), score[i]? = some a → score[j]? = some b → a < b → m[i]? = some true → m[j]? = some true) ∧
    (∀ (i : Nat) (a : Rat), score[i]? = some a → (∀ b ∈ score, b ≤ a) → m[i]? = some true) ∧
    m.count true = (((T.length : Rat) - 1) * (1 - p)).floor.toNat + 1 :=
  priorMask_by_score score T (cboPriorQuantile p) m hlen hanti hnd hm

/-! ## non-vacuity and regression witnesses

History of four candidates with scores `0,1,2,3`, two objectives `score + 100` and
`2·score + 5` (all positive — the failing input of the pinned tree), weights `(½,½)`. -/

def exScores : Vec := [0, 1, 2, 3]
def exCols : List (Rat × Rat) := [(1, 100), (2, 5)]
def exTold : List Vec := exScores.map (fun x => negV (alignedObj exCols x))

example : exTold = [[-100, -5], [-101, -7], [-102, -9], [-103, -11]] := by decide +kernel
example : ∀ p ∈ exCols, 0 < p.1 := by decide +kernel
example : cboTellY false (.tup [.num 100, .num 5]) = .told (.vec [-100, -5]) := by decide +kernel
example : cboTellY false (.str "F_timeout") = .told .fail ∧ cboTellY true (.str "F") = .skipped := by
  decide +kernel

/-- after the fix: Chebyshev targets decrease with the score; the best candidate (index 3) is proposed -/
example : mooTargets .identity .chebyshev [1/2, 1/2] exTold = some [3, 2, 1, 0] := by decide +kernel
example : Exploit [3, 2, 1, 0] [0, 1, 2, 3] 3 :=
  ⟨[3, 2, 1, 0], [0, 0, 0, 0], by decide +kernel, rfl, by decide +kernel⟩
example : ChosenIsBest exScores [0, 1, 2, 3] 3 :=
  C05_moo_aligned .identity (Or.inl rfl) .chebyshev [1/2, 1/2] (by decide +kernel) ⟨1/2, by decide +kernel⟩
    exCols (by decide +kernel) exScores [3, 2, 1, 0] (by decide +kernel) [0, 1, 2, 3] 3
    ⟨[3, 2, 1, 0], [0, 0, 0, 0], by decide +kernel, rfl, by decide +kernel⟩
/-- **before the fix** (`mooTargetsPre`: utopia point ignored, `|y|`): Chebyshev, AugChebyshev and
Quadratic targets INCREASE with the score on this input, so the arg-min proposes the WORST
candidate (index 0) — the defect the check re-finds on the pinned tree -/
example : mooTargetsPre .identity .chebyshev [1/2, 1/2] exTold = some [50, 101/2, 51, 103/2] ∧
    chooseNext [50, 101/2, 51, 103/2] = some 0 := by decide +kernel
example : (mooTargetsPre .identity (.augChebyshev (1/1000)) [1/2, 1/2] exTold).bind chooseNext = some 0 ∧
    (mooTargetsPre .identity (.quadratic 10) [1/2, 1/2]
      (exScores.map (fun x => negV (alignedObj [(1, 100), (1, 100)] x)))).bind chooseNext = some 0 := by
  decide +kernel
/-- and the pre-fix choice changed under a constant shift of the objectives (−200 on both) -/
example : (mooTargetsPre .identity .chebyshev [1/2, 1/2]
      (exTold.map (fun r => vadd r [200, 200]))).bind chooseNext = some 3 := by decide +kernel
/-- every strategy and both modelled scalers propose index 3 after the fix -/
example : ∀ sc ∈ [Scaler.identity, Scaler.minmax],
    ∀ s ∈ [Strategy.linear, .chebyshev, .augChebyshev (1/1000), .pbi 5, .quadratic 10],
      (mooTargets sc s [1/2, 1/2] exTold).bind chooseNext = some 3 := by decide +kernel
example : singleTargets .minmax [-100, -101, -103] = some [1, 2/3, 0] := by decide +kernel
/-- the hypotheses of `C05_moo_not_beaten` / `C05_moo_monotone_choice` are satisfiable -/
example : ∃ c rc, ([0, 1, 2, 3] : List Nat)[3]? = some c ∧ exTold[c]? = some rc ∧
    ∀ c' ∈ ([0, 1, 2, 3] : List Nat), ∀ rc', exTold[c']? = some rc' → ¬ Forall₂ (· < ·) rc' rc :=
  C05_moo_not_beaten .identity .chebyshev rfl [1/2, 1/2] (by decide +kernel) ⟨1/2, by decide +kernel⟩
    exTold exTold [3, 2, 1, 0] rfl (Or.inl (Or.inl rfl)) (by decide +kernel) [0, 1, 2, 3] 3
    ⟨[3, 2, 1, 0], [0, 0, 0, 0], by decide +kernel, rfl, by decide +kernel⟩
example : ChosenIsBest [5, 7, 6] [0, 1, 2, 1] 1 :=
  C05_single .minmax (Or.inr rfl) [5, 7, 6] [1, 0, 1/2] (by decide +kernel) [0, 1, 2, 1] 1
    ⟨[1, 0, 1/2, 0], [0, 0, 0, 0], by decide +kernel, rfl, by decide +kernel⟩
example : Strategy.monotone (.augChebyshev (1/1000)) = true := rfl
/-- a history with a failure: successes `-3, -1` (objectives 3, 1), `"min"` imputes the worst value -/
example : filterFailures (mapFilterFailures "min") 100 [some (-3), none, some (-1)] = .ok [some (-3), some (-1), some (-1)] ∧
    filterFailures (mapFilterFailures "mean") 100 [some (-3), none, some (-1)] = .ok [some (-3), some (-2), some (-1)] := by
  decide +kernel
example : fitTargets false .identity .chebyshev [1/2, 1/2] "min" 100
    [some [-100, -5], none, some [-102, -9], some [-103, -11]] = .ok [3, 3, 1, 0] := by decide +kernel
/-- if the name map were dropped (`"min"` reaching the optimizer unmapped) the failure string would
reach the estimator: the model flags it -/
example : filterFailures "min" 100 [some (-3), none] = .ok [some (-3), none] := by decide +kernel
example : RowMono exTold exTold := rowMono_identity _
example : ∀ r ∈ exTold, r.length = ([200, 200] : Vec).length := by decide +kernel
example : colMin exTold = some [-103, -11] ∧ colMax exTold = some [-100, -5] ∧
    RangesOK 3 [-103, -11] [-100, -5] := by
  refine ⟨by decide +kernel, by decide +kernel, ?_⟩
  exact Forall₂.cons (Or.inr (by decide +kernel)) (Forall₂.cons (Or.inr (by decide +kernel)) Forall₂.nil)
/-- a constant second objective: allowed by `RangesOK`, scaled to 0 before and after -/
example : RangesOK (1/1000) [-3, 7] [-1, 7] ∧
    mooTargets .minmax .chebyshev [1/2, 1/2] ([[-3, 7], [-1, 7], [-2, 7]].map (smul (1/1000)))
      = mooTargets .minmax .chebyshev [1/2, 1/2] [[-3, 7], [-1, 7], [-2, 7]] := by
  refine ⟨Forall₂.cons (Or.inr (by decide +kernel)) (Forall₂.cons (Or.inl (by decide +kernel)) Forall₂.nil), by decide +kernel⟩
/-- growing history: the second fit re-estimates the utopia point (targets `[3,2,1,0]`), a utopia
point frozen at the first fit gives the two better observations the largest targets instead -/
example : fitsOf (fun told => fitTargets false .identity .chebyshev [1/2, 1/2] "min" 100 told)
      [[some [-100, -5], some [-101, -7]], [some [-102, -9], some [-103, -11]]]
      = [.ok [1, 0], .ok [3, 2, 1, 0]] ∧
    fitsStaleUtopia .chebyshev [1/2, 1/2] [[[-100, -5], [-101, -7]], [[-102, -9], [-103, -11]]]
      = [some [1, 0], some [1, 0, 1, 2]] := by decide +kernel
example : checkChoice [5, 7, 6] [true, false, true] [0, 1, 2, 1] 2 = true ∧
    checkChoice [5, 7, 6] [true, false, true] [0, 1, 2, 1] 1 = false ∧
    checkChoice [5, 7, 6] [true, true, true] [0, 1, 2, 1] 2 = false := by decide +kernel
example : penalise [0, 0] [-1, 2] = [3, 6] := by decide +kernel
example : mooTargets .minmax (.pbi 5) [1/2, 1/2] (exTold.map (smul 3))
    = mooTargets .minmax (.pbi 5) [1/2, 1/2] exTold := by decide +kernel

/-! one-shot batches: scores `[5, 7, 6, 1]`, candidate 3 was asked before and is filtered out, the candidates that reached
the acquisition are `xs = [2, 0, 1]`; `topk` with `n = 2` returns the candidates of score 7 and 6.  Indexing the UNFILTERED
sample with the same positions (what a cache bound before `_filter_duplicated` does) returns the worst candidate. -/
example : interpolate [-5, -7, -6, -1] [2, 0, 1] = some [-6, -5, -7] ∧ interpolate [5, 7, 6, 1] [2, 0, 1] = some [6, 5, 7] := by
  decide +kernel
example : StrictAnti [5, 7, 6, 1] [-5, -7, -6, -1] := by
  intro i j a b ta tb hi hj hti htj hab
  have hi' : i < 4 := by
    rcases Nat.lt_or_ge i 4 with h | h
    · exact h
    · rw [List.getElem?_eq_none (by simpa using h)] at hi; cases hi
  have hj' : j < 4 := by
    rcases Nat.lt_or_ge j 4 with h | h
    · exact h
    · rw [List.getElem?_eq_none (by simpa using h)] at hj; cases hj
  have e : ∀ (k : Nat) (x t : Rat), k < 4 → ([5, 7, 6, 1] : Vec)[k]? = some x → ([-5, -7, -6, -1] : Vec)[k]? = some t → t = -x := by
    intro k x t hk hx ht
    have : k = 0 ∨ k = 1 ∨ k = 2 ∨ k = 3 := by omega
    rcases this with rfl | rfl | rfl | rfl <;> simp at hx ht <;> subst hx <;> subst ht <;> norm_num
  rw [e i a ta hi' hi hti, e j b tb hj' hj htj]
  linarith
example : ArgsortOK [-6, -5, -7] [2, 0, 1] := by
  refine ⟨by decide, ?_⟩
  simp only [List.pairwise_cons, List.mem_cons, List.not_mem_nil, or_false, List.Pairwise.nil, and_true]
  refine ⟨?_, ?_, ?_⟩
  · intro j hj a b ha hb
    rcases hj with rfl | rfl <;> simp at ha hb <;> subst ha <;> subst hb <;> norm_num
  · intro j hj a b ha hb
    subst hj; simp at ha hb; subst ha; subst hb; norm_num
  · intro j hj; exact absurd hj (by simp)
example : batchOf [2, 0, 1] (topkIdx [2, 0, 1] 2) = some [1, 2] ∧
    isNSmallestB [-6, -5, -7] (topkIdx [2, 0, 1] 2) 2 = true ∧
    isNSmallestB ([6, 5, 7].map (fun s => -s)) (topkIdx [2, 0, 1] 2) 2 = true := by decide +kernel
example : batchOf [3, 3, 1, 2, 0, 2, 1] (topkIdx [2, 0, 1] 2) = some [1, 3] ∧
    isNSmallestB ([1, 1, 7, 6, 5, 6, 7].map (fun s => -s)) (topkIdx [2, 0, 1] 2) 2 = false := by decide +kernel
example : boltzmannFirst [-6, -5, -7] = some 2 ∧ chooseNext [-6, -5, -7] = some 2 := by decide +kernel
example : isNSmallestB [1, 0, 1, 0] [1, 3] 2 = true ∧ isNSmallestB [1, 0, 1, 0] [0, 1] 2 = false ∧
    isNSmallestB [1, 0] [1, 0, 1] 5 = false ∧ isNSmallestB [1, 0] [1, 0] 5 = true := by decide +kernel

/-! `update_prior`: 11 observations, `update_prior_quantile = 1/10`: everything but the worst observation is kept (10 =
`⌊10 · 9/10⌋ + 1`); the reversed comparison (`y >= quantile`) keeps the two WORST and is rejected by the checker. -/
example : cboPriorQuantile (1/10) = 9/10 := by decide +kernel
example : quantileLin [-3, -1, -2, -5, -4, 0, -9, -8, -7, -6, -10] (9/10) = some (-1) ∧
    priorMask (cboPriorQuantile (1/10)) [-3, -1, -2, -5, -4, 0, -9, -8, -7, -6, -10]
      = some [true, true, true, true, true, false, true, true, true, true, true] := by decide +kernel
example : quantileLin [4, 1, 3, 2] (1/2) = some (5/2) ∧ quantileLin [4, 1, 3, 2] 1 = some 4 ∧ quantileLin [4, 1, 3, 2] 0 = some 1 ∧
    quantileLin [] (1/2) = none ∧ quantileLin [1] (3/2) = none := by decide +kernel
example : priorPoints (9/10) ["a", "b", "c", "d"] [-3, -1, -2, -5] = some ["a", "c", "d"] := by decide +kernel
example : checkPriorSel [-3, -1, -2, -5, -4, 0, -9, -8, -7, -6, -10]
      [true, true, true, true, true, false, true, true, true, true, true] = true ∧
    checkPriorSel [-3, -1, -2, -5, -4, 0, -9, -8, -7, -6, -10]
      [false, true, false, false, false, true, false, false, false, false, false] = false ∧
    checkPriorSel [1, 2] [false, false] = false := by decide +kernel
example : ([5, 7, 6, 1] : Vec).Nodup := by decide +kernel
example : priorMask (cboPriorQuantile (1/2)) [-5, -7, -6, -1] = some [false, true, true, false] := by decide +kernel

end DH.Direction
