import Proofs.Refine

/-!
# C03 — `search(max_evals)` budget is honoured and accumulates over repeated calls

Property theorems only (model: `Model/Search.lean`, lemmas: `Proofs/Search.lean`).

`searchCall {} s c env` is one `Search.search(max_evals, timeout, max_evals_strict)` call of the
repaired code on the evaluator state `s`, `env` the schedule (per loop iteration: how many
finished jobs `gather("BATCH", 1)` reported and whether `time_left <= 0` was read afterwards).
`runCalls {} (init W) hist` is an arbitrary earlier history of calls on the same search object.

The theorems hold for **every** history (any length, any mix of plain / strict / timeout calls,
expired or not), every `W ≥ 1` and every schedule; a schedule outside the contract of
`asyncio.wait` (`g = 0` or `g > W`) or shorter than the run makes the model answer
`badEnv` / `envExhausted` instead of `budget` / `cap`, and `C03_returns` shows that a valid,
long-enough schedule whose clock does not expire always ends in `budget` / `cap`.
-/

namespace DH.Search

/-- the evaluator state after an arbitrary history of calls on a fresh search object -/
def after (W : Nat) (hist : List (Call × List Step)) : Ev := (runCalls {} (init W) hist).1

/-- the results of those calls -/
def outsOf (W : Nat) (hist : List (Call × List Step)) : List Out := (runCalls {} (init W) hist).2

/-- every earlier call returned (by budget, cap or timeout) or raised the argument error -/
def AllSettled (W : Nat) (hist : List (Call × List Step)) : Prop := ∀ o ∈ outsOf W hist, Settled o

/-- **C03 (budget).**  Whatever the earlier calls were, a call with `max_evals = n ≥ 0` that
ends because of its evaluation budget (its own timeout, if any, did not expire) performs `e`
new evaluations with `n ≤ e < n + W`, exactly `n` when strict, and returns a table with one row
for every evaluation of all calls so far. -/
theorem C03_budget (W : Nat) (hW : 1 ≤ W) (hist : List (Call × List Step))
    (hh : AllSettled W hist) (c : Call) (env : List Step) (hn : 0 ≤ c.maxEvals)
    (hend : (searchCall {} (after W hist) c env).2.stop = .budget ∨
            (searchCall {} (after W hist) c env).2.stop = .cap) :
    let r := searchCall {} (after W hist) c env
    c.maxEvals ≤ (r.2.evals : Int) ∧ (r.2.evals : Int) < c.maxEvals + W ∧
    (c.strict = true → (r.2.evals : Int) = c.maxEvals) ∧
    r.2.table = (if totalEvals (outsOf W hist) + r.2.evals = 0 then none
                 else some (totalEvals (outsOf W hist) + r.2.evals)) := by
  intro r
  obtain ⟨hq, hw, hrows⟩ := runCalls_settled hist (init W) hW (init_quiet W) hh
  have hW' : 1 ≤ (after W hist).W := by unfold after; rw [hw]; exact hW
  have hbt : badTimeout c = false := by
    cases hb : badTimeout c with
    | false => rfl
    | true =>
      have : r.2.stop = .badTimeout := by
        simp only [r, searchCall_def, hb, if_true, mkOut]
      rcases hend with h | h <;> rw [this] at h <;> simp at h
  have b := searchCall_budget (after W hist) c env hW' hq hn hbt
  have hs : Settled r.2 := by rcases hend with h | h <;> simp [Settled, r, h]
  have cs := searchCall_settled (after W hist) c env hW' hq hs
  have hwW : (after W hist).W = W := hw
  refine ⟨b.lower hend, by have := b.upper; rw [hwW] at this; exact this,
    fun hst => b.strict hst hend, ?_⟩
  have ht := cs.table (by rcases hend with h | h <;> rw [h] <;> simp)
  have hr := cs.rows
  have hrows' : (after W hist).rows = totalEvals (outsOf W hist) := by
    unfold after outsOf; rw [hrows]; simp [init]
  rw [ht, hr, hrows']

/-- **C03 (the upper bound needs no assumption on the clock).**  Also a call whose timeout
expires performs fewer than `n + W` evaluations (at most `n` when strict). -/
theorem C03_upper_always (W : Nat) (hW : 1 ≤ W) (hist : List (Call × List Step))
    (hh : AllSettled W hist) (c : Call) (env : List Step) (hn : 0 ≤ c.maxEvals)
    (hto : ∀ t, c.timeout = some t → 0 < t) :
    let r := searchCall {} (after W hist) c env
    (r.2.evals : Int) < c.maxEvals + W ∧ (c.strict = true → (r.2.evals : Int) ≤ c.maxEvals) := by
  intro r
  obtain ⟨hq, hw, _⟩ := runCalls_settled hist (init W) hW (init_quiet W) hh
  have hW' : 1 ≤ (after W hist).W := by unfold after; rw [hw]; exact hW
  have hbt : badTimeout c = false := by
    unfold badTimeout
    cases h : c.timeout with
    | none => rfl
    | some t => have := hto t h; simp; omega
  have b := searchCall_budget (after W hist) c env hW' hq hn hbt
  have hwW : (after W hist).W = W := hw
  exact ⟨by have := b.upper; rw [hwW] at this; exact this, b.strictUpper⟩

/-- **C03 (the call returns).**  With a schedule that respects the contract of
`asyncio.wait` (`1 ≤ g ≤ W`), is at least `n` iterations long and on which the call's own
timeout does not expire (or no timeout is passed), the call ends by its budget — so the
hypothesis of `C03_budget` is satisfiable for every history, `W`, `n` and mode. -/
theorem C03_returns (W : Nat) (hW : 1 ≤ W) (hist : List (Call × List Step))
    (hh : AllSettled W hist) (c : Call) (env : List Step) (hn : 0 ≤ c.maxEvals)
    (hto : ∀ t, c.timeout = some t → 0 < t)
    (hok : EnvOK W env) (hexp : c.timeout = none ∨ NoExpiry env)
    (hlen : c.maxEvals ≤ (env.length : Int)) :
    (searchCall {} (after W hist) c env).2.stop = .budget ∨
    (searchCall {} (after W hist) c env).2.stop = .cap := by
  obtain ⟨hq, hw, _⟩ := runCalls_settled hist (init W) hW (init_quiet W) hh
  have hW' : 1 ≤ (after W hist).W := by unfold after; rw [hw]; exact hW
  have hwW : (after W hist).W = W := hw
  have hbt : badTimeout c = false := by
    unfold badTimeout
    cases h : c.timeout with
    | none => rfl
    | some t => have := hto t h; simp; omega
  exact searchCall_returns (after W hist) c env hW' hq hn hbt (by rw [hwW]; exact hok) hexp hlen

/-- **C03 (independence of how earlier calls ended — timeout).**  A call stops because of the
clock only if it was itself given a timeout and the clock was read expired during this call:
an expired deadline of an earlier call has no effect (defect 3c repaired). -/
theorem C03_timeout_needs_argument (W : Nat) (hW : 1 ≤ W) (hist : List (Call × List Step))
    (hh : AllSettled W hist) (c : Call) (env : List Step) (hn : 0 ≤ c.maxEvals)
    (hstop : (searchCall {} (after W hist) c env).2.stop = .timeout) :
    c.timeout.isSome = true ∧ ∃ st ∈ env, st.expired = true := by
  obtain ⟨hq, hw, _⟩ := runCalls_settled hist (init W) hW (init_quiet W) hh
  have hW' : 1 ≤ (after W hist).W := by unfold after; rw [hw]; exact hW
  have hbt : badTimeout c = false := by
    cases hb : badTimeout c with
    | false => rfl
    | true =>
      have : (searchCall {} (after W hist) c env).2.stop = .badTimeout := by
        simp only [searchCall_def, hb, if_true, mkOut]
      rw [this] at hstop; simp at hstop
  exact (searchCall_budget (after W hist) c env hW' hq hn hbt).timeout hstop

/-- **C03 (accumulation).**  After any history of settled calls (budget, strict, timeout —
expired or not — in any order) the evaluator is quiescent and the table has exactly one row per
evaluation ever performed. -/
theorem C03_table_accumulates (W : Nat) (hW : 1 ≤ W) (hist : List (Call × List Step))
    (hh : AllSettled W hist) :
    (after W hist).running = 0 ∧ (after W hist).stored = (after W hist).gathered ∧
    (after W hist).pending = 0 ∧ (after W hist).rows = totalEvals (outsOf W hist) := by
  obtain ⟨hq, _, hrows⟩ := runCalls_settled hist (init W) hW (init_quiet W) hh
  refine ⟨hq.running, hq.stored, hq.pending, ?_⟩
  unfold after outsOf; rw [hrows]; simp [init]

end DH.Search

namespace DH.Refine
open DH

/-- **C03 (the counters model is an abstraction of the per-job timeline model of C14).**
`absEv` projects a timeline state (jobs with program counters, clocks, semaphores, result list) onto
the counters of `Model/Search.lean`; `Sim t c` says `c` is that projection up to the history variable
`asks` (`sim_iff_abs`).  For every number of workers, every family of run-functions, every history of
`search()` calls of the timeline model that returned (any mix of budgets, strict budgets, timeouts,
expired or not, any reports, any ask delays) and every further call that returns: the counters model,
started from `init W` and fed the *induced* history and schedule (per gather: how many jobs were
reported, whether the clock had passed the deadline), is in the projected state before the call,
ends with the same stop reason, in the projected final state, having counted exactly the jobs the
timeline model created.  (`loop_sim`, `search_sim`, `runSearches_sim` are the steps.) -/
theorem C03_abstracts_C14 (W : Nat) (specs : List Timeout.Spec) (hist : List Timeout.SCall)
    (hp : TimeoutsPos hist)
    (hh : ∀ st ∈ (Timeout.runSearches (Timeout.init W true specs) hist).2, Timeout.SettledStop st)
    (c : Timeout.Call) (reps : List (List Nat)) (drainRep : List Nat)
    (hpos : ∀ tt, c.timeout = some tt → 0 < tt)
    (hs : Timeout.SettledStop
      (Timeout.search (Timeout.runSearches (Timeout.init W true specs) hist).1 c reps drainRep).2) :
    let t := (Timeout.runSearches (Timeout.init W true specs) hist).1
    let cs := (Search.runCalls {} (Search.init W) (inducedHist (Timeout.init W true specs) hist)).1
    let r := Search.searchCall {} cs (callOf c) (inducedCall t c reps)
    { cs with asks := [] } = absEv t ∧
    r.2.stop = convStop (Timeout.search t c reps drainRep).2 ∧
    { r.1 with asks := [] } = absEv (Timeout.search t c reps drainRep).1 ∧
    r.2.evals = (Timeout.search t c reps drainRep).1.jobs.length - t.jobs.length := by
  intro t cs r
  obtain ⟨b1, b2, _⟩ := runSearches_sim hist _ _ (sim_init W specs) (Timeout.rep_init W true specs) hp hh
  obtain ⟨a1, a2, a3⟩ := search_sim t cs c reps drainRep b1 b2 hpos hs
  exact ⟨sim_iff_abs.mp b1, a1, sim_iff_abs.mp a2, a3⟩

end DH.Refine

namespace DH.Search

/-! ### non-vacuity: concrete histories (W = 3) that satisfy the hypotheses -/

/-- schedule with `k` iterations, one finished job per gather, clock never expired -/
def ones (k : Nat) : List Step := List.replicate k { g := 1, expired := false }

/-- a history mixing all kinds of call: plain 2; timeout-only that expires at the second gather;
strict 5; strict 4 that hits the cap in the middle of a batch; timeout+budget that does not
expire -/
def hist1 : List (Call × List Step) :=
  [ ({ maxEvals := 2 }, [⟨2, false⟩, ⟨1, false⟩]),
    ({ maxEvals := -1, timeout := some 1 }, [⟨1, false⟩, ⟨3, true⟩]),
    ({ maxEvals := 5, strict := true }, ones 5),
    ({ maxEvals := 4, strict := true }, [⟨2, false⟩]),
    ({ maxEvals := 2, timeout := some 4 }, ones 2) ]

theorem outs_hist1 : outsOf 3 hist1 =
    [ ⟨.budget, 3, some 3, [3]⟩, ⟨.timeout, 4, some 7, [3, 1]⟩, ⟨.budget, 5, some 12, [3, 1, 1]⟩,
      ⟨.cap, 4, some 16, [3, 2]⟩, ⟨.budget, 4, some 20, [3, 1]⟩ ] := by decide +kernel

example : AllSettled 3 hist1 := by
  intro o ho
  rw [outs_hist1] at ho
  simp only [List.mem_cons, List.not_mem_nil, or_false] at ho
  rcases ho with rfl | rfl | rfl | rfl | rfl <;> simp [Settled]
example : EnvOK 3 (ones 5) := by
  intro st h; simp [ones] at h; obtain ⟨_, rfl⟩ := h; exact ⟨by decide, by decide⟩
example : NoExpiry (ones 5) := by
  intro st h; simp [ones] at h; obtain ⟨_, rfl⟩ := h; rfl
/-- after `hist1`, a third strict call and a plain call both get their full budget -/
example : (runCalls {} (after 3 hist1)
    [({ maxEvals := 5, strict := true }, ones 5), ({ maxEvals := 1 }, ones 1)]).2.map
      (fun o => (o.stop, o.evals, o.table, o.asks)) =
    [(.budget, 5, some 25, [3, 1, 1]), (.budget, 3, some 28, [3])] := by decide +kernel

/-! ### regression witnesses: the pinned code (each repair switched off) breaks the bound -/

/-- 3a — `_num_jobs_offset` computed from the already-offset count: the third strict call
performs no evaluation -/
example : (runCalls { absOffset := false } (init 1)
    [({ maxEvals := 3, strict := true }, ones 3), ({ maxEvals := 3, strict := true }, ones 3),
     ({ maxEvals := 3, strict := true }, ones 3)]).2.map (·.evals) = [3, 3, 0] := by decide +kernel
example : (runCalls {} (init 1)
    [({ maxEvals := 3, strict := true }, ones 3), ({ maxEvals := 3, strict := true }, ones 3),
     ({ maxEvals := 3, strict := true }, ones 3)]).2.map (·.evals) = [3, 3, 3] := by decide +kernel

/-- 3b — the cap is never cleared: a plain call after a strict call performs no evaluation -/
example : (runCalls { resetCap := false } (init 1)
    [({ maxEvals := 3, strict := true }, ones 3), ({ maxEvals := 3 }, ones 3)]).2.map
      (fun o => (o.stop, o.evals)) = [(.budget, 3), (.cap, 0)] := by decide +kernel
example : (runCalls {} (init 1)
    [({ maxEvals := 3, strict := true }, ones 3), ({ maxEvals := 3 }, ones 3)]).2.map
      (fun o => (o.stop, o.evals)) = [(.budget, 3), (.budget, 3)] := by decide +kernel

/-- 3c — the timeout is never cleared: a plain call (no timeout) after an expired timeout stops
"by timeout" after its first batch: 1 evaluation instead of 5 -/
example : (runCalls { clearTimeout := false } (init 1)
    [({ maxEvals := -1, timeout := some 1 }, [⟨1, true⟩]), ({ maxEvals := 5 }, [⟨1, true⟩])]).2.map
      (fun o => (o.stop, o.evals)) = [(.timeout, 1), (.timeout, 1)] := by decide +kernel
example : (runCalls {} (init 1)
    [({ maxEvals := -1, timeout := some 1 }, [⟨1, true⟩]),
     ({ maxEvals := 5 }, List.replicate 5 ⟨1, true⟩)]).2.map
      (fun o => (o.stop, o.evals)) = [(.timeout, 1), (.budget, 5)] := by decide +kernel

end DH.Search
