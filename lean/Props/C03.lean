import Proofs.Refine
import Proofs.SearchObjects

/-!
# C03 — `search(max_evals)` budget is honoured and accumulates over repeated calls

Property theorems only (model: `Model/Search.lean`, lemmas: `Proofs/Search.lean`).

`searchCall {} s c env` is one `Search.search(max_evals, timeout, max_evals_strict)` call of the
repaired code on the evaluator state `s`, `env` the schedule (per loop iteration: how many
finished jobs `gather("BATCH", 1)` reported and whether `time_left <= 0` was read afterwards).
`runCalls {} (init W) hist` is an arbitrary earlier history of calls on the same search object.

The theorems hold for **every** history (any length, any mix of plain / strict / timeout calls,
expired or not), every `W ≥ 1` and every schedule; a schedule outside the contract of
`asyncio.wait` (`g = 0` or `g > W`) or shorter than the run makes the model answer
`badEnv` / `envExhausted` instead of `budget` / `cap`, and `C03_returns` shows that a valid,
long-enough schedule whose clock does not expire always ends in `budget` / `cap`.

Last section (model: `Model/SearchObjects.lean`, lemmas: `Proofs/SearchObjects.lean`): histories
with **several search objects** constructed on the same evaluator at any time (all up-front, or
each when the previous one is done; same or different log directories, absolute or relative) and
**changes of the working directory** between or during the calls; the results files, the dump state
of the evaluator and `Search.__init__` are inside the model.
-/

namespace DH.Search

/-- the evaluator state after an arbitrary history of calls on a fresh search object -/
def after (W : Nat) (hist : List (Call × List Step)) : Ev := (runCalls {} (init W) hist).1

/-- the results of those calls -/
def outsOf (W : Nat) (hist : List (Call × List Step)) : List Out := (runCalls {} (init W) hist).2

/-- every earlier call returned (by budget, cap or timeout) or raised the argument error -/
def AllSettled (W : Nat) (hist : List (Call × List Step)) : Prop := ∀ o ∈ outsOf W hist, Settled o

/-- **C03 (budget).**  Whatever the earlier calls were, a call with `max_evals = n ≥ 0` that
ends because of its evaluation budget (its own timeout, if any, did not expire) performs `e`
new evaluations with `n ≤ e < n + W`, exactly `n` when strict, and returns a table with one row
for every evaluation of all calls so far. -/
theorem C03_budget (W : Nat) (hW : 1 ≤ W) (hist : List (Call × List Step))
    (hh : AllSettled W hist) (c : Call) (env : List Step) (hn : 0 ≤ c.maxEvals)
    (hend : (searchCall {} (after W hist) c env).2.stop = .budget ∨
            (searchCall {} (after W hist) c env).2.stop = .cap) :
    let r := searchCall {} (after W hist) c env
    c.maxEvals ≤ (r.2.evals : Int) ∧ (r.2.evals : Int) < c.maxEvals + W ∧
    (c.strict = true → (r.2.evals : Int) = c.maxEvals) ∧
    r.2.table = (if totalEvals (outsOf W hist) + r.2.evals = 0 then none
                 else some (totalEvals (outsOf W hist) + r.2.evals)) := by
  intro r
  obtain ⟨hq, hw, hrows⟩ := runCalls_settled hist (init W) hW (init_quiet W) hh
  have hW' : 1 ≤ (after W hist).W := by unfold after; rw [hw]; exact hW
  have hbt : badTimeout c = false := by
    cases hb : badTimeout c with
    | false => rfl
    | true =>
      have : r.2.stop = .badTimeout := by
        simp only [r, searchCall_def, hb, if_true, mkOut]
      rcases hend with h | h <;> rw [this] at h <;> simp at h
  have b := searchCall_budget (after W hist) c env hW' hq hn hbt
  have hs : Settled r.2 := by rcases hend with h | h <;> simp [Settled, r, h]
  have cs := searchCall_settled (after W hist) c env hW' hq hs
  have hwW : (after W hist).W = W := hw
  refine ⟨b.lower hend, by have := b.upper; rw [hwW] at this; exact this,
    fun hst => b.strict hst hend, ?_⟩
  have ht := cs.table (by rcases hend with h | h <;> rw [h] <;> simp)
  have hr := cs.rows
  have hrows' : (after W hist).rows = totalEvals (outsOf W hist) := by
    unfold after outsOf; rw [hrows]; simp [init]
  rw [ht, hr, hrows']

/-- **C03 (the upper bound needs no assumption on the clock).**  Also a call whose timeout
expires performs fewer than `n + W` evaluations (at most `n` when strict). -/
theorem C03_upper_always (W : Nat) (hW : 1 ≤ W) (hist : List (Call × List Step))
    (hh : AllSettled W hist) (c : Call) (env : List Step) (hn : 0 ≤ c.maxEvals)
    (hto : ∀ t, c.timeout = some t → 0 < t) :
    let r := searchCall {} (after W hist) c env
    (r.2.evals : Int) < c.maxEvals + W ∧ (c.strict = true → (r.2.evals : Int) ≤ c.maxEvals) := by
  intro r
  obtain ⟨hq, hw, _⟩ := runCalls_settled hist (init W) hW (init_quiet W) hh
  have hW' : 1 ≤ (after W hist).W := by unfold after; rw [hw]; exact hW
  have hbt : badTimeout c = false := by
    unfold badTimeout
    cases h : c.timeout with
    | none => rfl
    | some t => have := hto t h; simp; omega
  have b := searchCall_budget (after W hist) c env hW' hq hn hbt
  have hwW : (after W hist).W = W := hw
  exact ⟨by have := b.upper; rw [hwW] at this; exact this, b.strictUpper⟩

/-- **C03 (the call returns).**  With a schedule that respects the contract of
`asyncio.wait` (`1 ≤ g ≤ W`), is at least `n` iterations long and on which the call's own
timeout does not expire (or no timeout is passed), the call ends by its budget — so the
hypothesis of `C03_budget` is satisfiable for every history, `W`, `n` and mode. -/
theorem C03_returns (W : Nat) (hW : 1 ≤ W) (hist : List (Call × List Step))
    (hh : AllSettled W hist) (c : Call) (env : List Step) (hn : 0 ≤ c.maxEvals)
    (hto : ∀ t, c.timeout = some t → 0 < t)
    (hok : EnvOK W env) (hexp : c.timeout = none ∨ NoExpiry env)
    (hlen : c.maxEvals ≤ (env.length : Int)) :
    (searchCall {} (after W hist) c env).2.stop = .budget ∨
    (searchCall {} (after W hist) c env).2.stop = .cap := by
  obtain ⟨hq, hw, _⟩ := runCalls_settled hist (init W) hW (init_quiet W) hh
  have hW' : 1 ≤ (after W hist).W := by unfold after; rw [hw]; exact hW
  have hwW : (after W hist).W = W := hw
  have hbt : badTimeout c = false := by
    unfold badTimeout
    cases h : c.timeout with
    | none => rfl
    | some t => have := hto t h; simp; omega
  exact searchCall_returns (after W hist) c env hW' hq hn hbt (by rw [hwW]; exact hok) hexp hlen

/-- **C03 (independence of how earlier calls ended — timeout).**  A call stops because of the
clock only if it was itself given a timeout and the clock was read expired during this call:
an expired deadline of an earlier call has no effect (defect 3c repaired). -/
theorem C03_timeout_needs_argument (W : Nat) (hW : 1 ≤ W) (hist : List (Call × List Step))
    (hh : AllSettled W hist) (c : Call) (env : List Step) (hn : 0 ≤ c.maxEvals)
    (hstop : (searchCall {} (after W hist) c env).2.stop = .timeout) :
    c.timeout.isSome = true ∧ ∃ st ∈ env, st.expired = true := by
  obtain ⟨hq, hw, _⟩ := runCalls_settled hist (init W) hW (init_quiet W) hh
  have hW' : 1 ≤ (after W hist).W := by unfold after; rw [hw]; exact hW
  have hbt : badTimeout c = false := by
    cases hb : badTimeout c with
    | false => rfl
    | true =>
      have : (searchCall {} (after W hist) c env).2.stop = .badTimeout := by
        simp only [searchCall_def, hb, if_true, mkOut]
      rw [this] at hstop; simp at hstop
  exact (searchCall_budget (after W hist) c env hW' hq hn hbt).timeout hstop

/-- **C03 (accumulation).**  After any history of settled calls (budget, strict, timeout —
expired or not — in any order) the evaluator is quiescent and the table has exactly one row per
evaluation ever performed. -/
theorem C03_table_accumulates (W : Nat) (hW : 1 ≤ W) (hist : List (Call × List Step))
    (hh : AllSettled W hist) :
    (after W hist).running = 0 ∧ (after W hist).stored = (after W hist).gathered ∧
    (after W hist).pending = 0 ∧ (after W hist).rows = totalEvals (outsOf W hist) := by
  obtain ⟨hq, _, hrows⟩ := runCalls_settled hist (init W) hW (init_quiet W) hh
  refine ⟨hq.running, hq.stored, hq.pending, ?_⟩
  unfold after outsOf; rw [hrows]; simp [init]

end DH.Search

namespace DH.Refine
open DH

/-- **C03 (the counters model is an abstraction of the per-job timeline model of C14).**
`absEv` projects a timeline state (jobs with program counters, clocks, semaphores, result list) onto
the counters of `Model/Search.lean`; `Sim t c` says `c` is that projection up to the history variable
`asks` (`sim_iff_abs`).  For every number of workers, every family of run-functions, every history of
`search()` calls of the timeline model that returned (any mix of budgets, strict budgets, timeouts,
expired or not, any reports, any ask delays) and every further call that returns: the counters model,
started from `init W` and fed the *induced* history and schedule (per gather: how many jobs were
reported, whether the clock had passed the deadline), is in the projected state before the call,
ends with the same stop reason, in the projected final state, having counted exactly the jobs the
timeline model created.  (`loop_sim`, `search_sim`, `runSearches_sim` are the steps.) -/
theorem C03_abstracts_C14 (W : Nat) (specs : List Timeout.Spec) (hist : List Timeout.SCall)
    (hp : TimeoutsPos hist)
    (hh : ∀ st ∈ (Timeout.runSearches (Timeout.init W true specs) hist).2, Timeout.SettledStop st)
    (c : Timeout.Call) (reps : List (List Nat)) (drainRep : List Nat)
    (hpos : ∀ tt, c.timeout = some tt → 0 < tt)
    (hs : Timeout.SettledStop
      (Timeout.search (Timeout.runSearches (Timeout.init W true specs) hist).1 c reps drainRep).2) :
    let t := (Timeout.runSearches (Timeout.init W true specs) hist).1
    let cs := (Search.runCalls {} (Search.init W) (inducedHist (Timeout.init W true specs) hist)).1
    let r := Search.searchCall {} cs (callOf c) (inducedCall t c reps)
    { cs with asks := [] } = absEv t ∧
    r.2.stop = convStop (Timeout.search t c reps drainRep).2 ∧
    { r.1 with asks := [] } = absEv (Timeout.search t c reps drainRep).1 ∧
    r.2.evals = (Timeout.search t c reps drainRep).1.jobs.length - t.jobs.length := by
  intro t cs r
  obtain ⟨b1, b2, _⟩ := runSearches_sim hist _ _ (sim_init W specs) (Timeout.rep_init W true specs) hp hh
  obtain ⟨a1, a2, a3⟩ := search_sim t cs c reps drainRep b1 b2 hpos hs
  exact ⟨sim_iff_abs.mp b1, a1, sim_iff_abs.mp a2, a3⟩

end DH.Refine

namespace DH.Search

/-! ### non-vacuity: concrete histories (W = 3) that satisfy the hypotheses -/

/-- schedule with `k` iterations, one finished job per gather, clock never expired -/
def ones (k : Nat) : List Step := List.replicate k { g := 1, expired := false }

/-- a history mixing all kinds of call: plain 2; timeout-only that expires at the second gather;
strict 5; strict 4 that hits the cap in the middle of a batch; timeout+budget that does not
expire -/
def hist1 : List (Call × List Step) :=
  [ ({ maxEvals := 2 }, [⟨2, false⟩, ⟨1, false⟩]),
    ({ maxEvals := -1, timeout := some 1 }, [⟨1, false⟩, ⟨3, true⟩]),
    ({ maxEvals := 5, strict := true }, ones 5),
    ({ maxEvals := 4, strict := true }, [⟨2, false⟩]),
    ({ maxEvals := 2, timeout := some 4 }, ones 2) ]

theorem outs_hist1 : outsOf 3 hist1 =
    [ ⟨.budget, 3, some 3, [3]⟩, ⟨.timeout, 4, some 7, [3, 1]⟩, ⟨.budget, 5, some 12, [3, 1, 1]⟩,
      ⟨.cap, 4, some 16, [3, 2]⟩, ⟨.budget, 4, some 20, [3, 1]⟩ ] := by decide +kernel

example : AllSettled 3 hist1 := by
  intro o ho
  rw [outs_hist1] at ho
  simp only [List.mem_cons, List.not_mem_nil, or_false] at ho
  rcases ho with rfl | rfl | rfl | rfl | rfl <;> simp [Settled]
example : EnvOK 3 (ones 5) := by
  intro st h; simp [ones] at h; obtain ⟨_, rfl⟩ := h; exact ⟨by decide, by decide⟩
example : NoExpiry (ones 5) := by
  intro st h; simp [ones] at h; obtain ⟨_, rfl⟩ := h; rfl
/-- after `hist1`, a third strict call and a plain call both get their full budget -/
example : (runCalls {} (after 3 hist1)
    [({ maxEvals := 5, strict := true }, ones 5), ({ maxEvals := 1 }, ones 1)]).2.map
      (fun o => (o.stop, o.evals, o.table, o.asks)) =
    [(.budget, 5, some 25, [3, 1, 1]), (.budget, 3, some 28, [3])] := by decide +kernel

/-! ### regression witnesses: the pinned code (each repair switched off) breaks the bound -/

/-- 3a — `_num_jobs_offset` computed from the already-offset count: the third strict call
performs no evaluation -/
example : (runCalls { absOffset := false } (init 1)
    [({ maxEvals := 3, strict := true }, ones 3), ({ maxEvals := 3, strict := true }, ones 3),
     ({ maxEvals := 3, strict := true }, ones 3)]).2.map (·.evals) = [3, 3, 0] := by decide +kernel
example : (runCalls {} (init 1)
    [({ maxEvals := 3, strict := true }, ones 3), ({ maxEvals := 3, strict := true }, ones 3),
     ({ maxEvals := 3, strict := true }, ones 3)]).2.map (·.evals) = [3, 3, 3] := by decide +kernel

/-- 3b — the cap is never cleared: a plain call after a strict call performs no evaluation -/
example : (runCalls { resetCap := false } (init 1)
    [({ maxEvals := 3, strict := true }, ones 3), ({ maxEvals := 3 }, ones 3)]).2.map
      (fun o => (o.stop, o.evals)) = [(.budget, 3), (.cap, 0)] := by decide +kernel
example : (runCalls {} (init 1)
    [({ maxEvals := 3, strict := true }, ones 3), ({ maxEvals := 3 }, ones 3)]).2.map
      (fun o => (o.stop, o.evals)) = [(.budget, 3), (.budget, 3)] := by decide +kernel

/-- 3c — the timeout is never cleared: a plain call (no timeout) after an expired timeout stops
"by timeout" after its first batch: 1 evaluation instead of 5 -/
example : (runCalls { clearTimeout := false } (init 1)
    [({ maxEvals := -1, timeout := some 1 }, [⟨1, true⟩]), ({ maxEvals := 5 }, [⟨1, true⟩])]).2.map
      (fun o => (o.stop, o.evals)) = [(.timeout, 1), (.timeout, 1)] := by decide +kernel
example : (runCalls {} (init 1)
    [({ maxEvals := -1, timeout := some 1 }, [⟨1, true⟩]),
     ({ maxEvals := 5 }, List.replicate 5 ⟨1, true⟩)]).2.map
      (fun o => (o.stop, o.evals)) = [(.timeout, 1), (.budget, 5)] := by decide +kernel

end DH.Search

namespace DH.SearchObjects
open DH.Search

/-! ### several search objects on one evaluator, results files, working directory

`runOps {} (initW W fs0 cwd0) ops` is an arbitrary history of events on one evaluator with `W`
workers in a process started in directory `cwd0` with the results files `fs0` already there:
`new ld` (a search object is constructed on the evaluator with `log_dir = ld`, absolute or
relative — `rel []` is the default `"."`; the objects are numbered in the order of construction),
`chdir p` (the process changes its working directory between two calls), `call o c env cwdAfter`
(a `search()` call on search object number `o`; a run-function may have left the process in another
directory).  History variables of an object: `own` = the evaluations performed by the calls on it
(`C03_own_counts_object_calls`), `valid` = it is not over: a directory holds the results of one
search at a time — an object is over as soon as another one is constructed or called in its
directory (`Obj.overBy`); objects with different directories may use the evaluator in any order,
also in turns. -/

/-- **C03 (the table of a search object holds the evaluations of all ITS calls).**  Whatever
happened before on the evaluator — any number of other search objects, constructed earlier, later
or all up-front, used one after the other or in turns, in the same log directory (the results file
found there is renamed away by the constructor) or in others, given as absolute or relative paths,
any changes of the working directory between or during the calls, any results files that existed
beforehand, any mix of plain / strict / timeout calls on any of the objects — a call that returns,
made on a search object that is not over, hands back a table which is well formed (its first line is the header line: the
column names are the declared ones) and has exactly one row per evaluation performed by the calls
on this object so far, this call included (`None` when there is none yet). -/
theorem C03_table_per_search_object (W : Nat) (hW : 1 ≤ W) (fs0 : FS) (cwd0 : Path) (ops : List Op)
    (hh : AllSettledW (runOps {} (initW W fs0 cwd0) ops).2)
    (o : Nat) (c : Call) (env : List Step) (cwdAfter : Option Path) :
    let w := (runOps {} (initW W fs0 cwd0) ops).1
    ∀ ob, w.objs o = some ob → ob.valid = true →
    ∀ ow, (stepW {} w (.call o c env cwdAfter)).2 = some ow → returned ow.out = true →
      ow.table = (if ob.own + ow.out.evals = 0 then none
                  else some { rows := ob.own + ow.out.evals, wellFormed := true }) ∧
      (stepW {} w (.call o c env cwdAfter)).1.objs o =
        some { ob with own := ob.own + ow.out.evals } := by
  intro w ob hob hv ow how hret
  have hi : Inv W w := runOps_inv W hW ops _ (initW_inv W fs0 cwd0) hh
  have hs : ∀ ow', (stepW {} w (.call o c env cwdAfter)).2 = some ow' → Settled ow'.out := by
    intro ow' h'
    rw [how] at h'
    simp only [Option.some.injEq] at h'
    subst h'
    exact returned_settled hret
  obtain ⟨_, h2⟩ := call_inv W hW w hi o c env cwdAfter hs
  obtain ⟨a, b⟩ := h2 ob hob ow how
  exact ⟨b hv hret, a⟩

/-- **C03 (the history variable `own` is what it is called).**  Whatever the events, the `own` of a
search object grows by exactly the evaluations of the calls made on it, and its directory stays the
one resolved at its construction. -/
theorem C03_own_counts_object_calls (cfg : Cfg) (w : World) (o : Nat) (ob : Obj) (ops : List Op)
    (h : w.objs o = some ob) (hlt : o < w.nobj) :
    ∃ ob', (runOps cfg w ops).1.objs o = some ob' ∧ ob'.dir = ob.dir ∧
      ob'.own = ob.own + sumEvalsOn o ops (runOps cfg w ops).2 :=
  runOps_own cfg o ops w ob h hlt

/-- **C03 (the budget of a call does not depend on which search object makes it).**  After any
history of constructions, directory changes and calls on the evaluator, a call with
`max_evals = n ≥ 0` on any of its search objects that ends by its evaluation budget performs `e`
new evaluations with `n ≤ e < n + W`, exactly `n` when strict. -/
theorem C03_budget_any_object (W : Nat) (hW : 1 ≤ W) (fs0 : FS) (cwd0 : Path) (ops : List Op)
    (hh : AllSettledW (runOps {} (initW W fs0 cwd0) ops).2)
    (o : Nat) (c : Call) (env : List Step) (cwdAfter : Option Path) (hn : 0 ≤ c.maxEvals) :
    let w := (runOps {} (initW W fs0 cwd0) ops).1
    ∀ ow, (stepW {} w (.call o c env cwdAfter)).2 = some ow →
      (ow.out.stop = .budget ∨ ow.out.stop = .cap) →
      c.maxEvals ≤ (ow.out.evals : Int) ∧ (ow.out.evals : Int) < c.maxEvals + W ∧
      (c.strict = true → (ow.out.evals : Int) = c.maxEvals) := by
  intro w ow how hend
  obtain ⟨hq, hw, _⟩ : Inv W w := runOps_inv W hW ops _ (initW_inv W fs0 cwd0) hh
  cases hob : w.objs o with
  | none => simp [stepW, hob] at how
  | some ob =>
    simp only [stepW, hob, Option.some.injEq] at how
    have hout : ow.out = (searchCall {} w.ev c env).2 := by
      rw [← how, (searchCallD_proj {} {} ob.dir w.ev _ c env).1]
    rw [hout] at hend ⊢
    have hbt : badTimeout c = false := by
      cases hb : badTimeout c with
      | false => rfl
      | true =>
        have : (searchCall {} w.ev c env).2.stop = .badTimeout := by
          simp only [searchCall_def, hb, if_true, mkOut]
        rcases hend with h | h <;> rw [this] at h <;> simp at h
    have b := searchCall_budget w.ev c env (by omega) hq hn hbt
    exact ⟨b.lower hend, by have := b.upper; rw [hw] at this; exact this,
      fun hst => b.strict hst hend⟩

/-- **C03 (a call reads the working directory nowhere).**  The log directory was resolved when the
search object was constructed: what a call returns and what it writes do not depend on the working
directory of the process at the time of the call (every run checks this against the code with
relative log directories and `os.chdir` between the calls and inside the run-function). -/
theorem C03_call_ignores_cwd (cfg : Cfg) (w : World) (q : Path) (o : Nat) (c : Call) (env : List Step)
    (cwdAfter : Option Path) :
    (stepW cfg { w with cwd := q } (.call o c env cwdAfter)).2 =
      (stepW cfg w (.call o c env cwdAfter)).2 ∧
    (stepW cfg { w with cwd := q } (.call o c env cwdAfter)).1.fs =
      (stepW cfg w (.call o c env cwdAfter)).1.fs := by
  cases h : w.objs o <;> simp [stepW, h]

/-! ### non-vacuity: a history (W = 3, started in directory `[0]`) with five search objects -/

/-- objects 0 and 1 are constructed up-front (default `log_dir` = `"."` in `[0]`, and the absolute
directory `[5]`).  Object 0: plain 2, `chdir`, strict 5 during which a run-function leaves the
process in `[2]`.  Object 1 (constructed before object 0 ran): `max_evals = 0` (returns `None`), a
timeout that expires.  Object 2 with the default `log_dir` again (now `[2]`): strict 4 that hits the
cap mid-batch; then object 1 again (in turns).  Object 3 in the absolute directory of object 0
(whose file is renamed away: object 0 is over), `chdir`; object 4 with a relative `log_dir`: invalid
timeout, timeout + budget; then object 3, then object 2 again (strict 2: the cap is hit in the
first batch). -/
def ops1 : List Op :=
  [ .new (.rel []), .new (.abs [5]),
    .call 0 { maxEvals := 2 } [⟨2, false⟩, ⟨1, false⟩] none,
    .chdir [1],
    .call 0 { maxEvals := 5, strict := true } (ones 5) (some [2]),
    .call 1 { maxEvals := 0 } [] none,
    .call 1 { maxEvals := -1, timeout := some 1 } [⟨1, false⟩, ⟨3, true⟩] none,
    .new (.rel []),
    .call 2 { maxEvals := 4, strict := true } [⟨2, false⟩] none,
    .call 1 { maxEvals := 1 } (ones 1) none,
    .new (.abs [0]),
    .chdir [0, 7],
    .new (.rel [7]),
    .call 4 { maxEvals := 1, timeout := some 0 } [] none,
    .call 4 { maxEvals := 2, timeout := some 4 } (ones 2) none,
    .call 3 { maxEvals := 1 } (ones 1) none,
    .call 2 { maxEvals := 2, strict := true } (ones 2) none ]

def view (o : Option OutW) : Option (Stop × Nat × Option Table) :=
  o.map (fun x => (x.out.stop, x.out.evals, x.table))

theorem outs_ops1 : (runOps {} (initW 3 fsEmpty [0]) ops1).2.map view =
    [ none, none, some (.budget, 3, some ⟨3, true⟩), none, some (.budget, 5, some ⟨8, true⟩),
      some (.budget, 0, none), some (.timeout, 4, some ⟨4, true⟩),
      none, some (.cap, 4, some ⟨4, true⟩), some (.budget, 3, some ⟨7, true⟩),
      none, none, none, some (.badTimeout, 0, none), some (.budget, 4, some ⟨4, true⟩),
      some (.budget, 3, some ⟨3, true⟩), some (.cap, 2, some ⟨6, true⟩) ] := by decide +kernel

example : AllSettledW (runOps {} (initW 3 fsEmpty [0]) ops1).2 := by
  have h := outs_ops1
  intro o ho ow hw
  subst hw
  have hm : view (some ow) ∈ (runOps {} (initW 3 fsEmpty [0]) ops1).2.map view :=
    List.mem_map_of_mem ho
  rw [h] at hm
  simp only [view, Option.map_some, List.mem_cons, List.not_mem_nil, or_false, reduceCtorEq,
    Option.some.injEq, Prod.mk.injEq, false_or] at hm
  unfold Settled
  rcases hm with h | h | h | h | h | h | h | h | h | h <;> simp [h.1]

def w1 : World := (runOps {} (initW 3 fsEmpty [0]) ops1).1

/-- the objects at the end: object 0 is over (object 3 was constructed in its directory), the others
are not; the files: `[0]` holds the 3 rows of object 3 (the 8 rows of object 0 were renamed away) -/
example : w1.cwd = [0, 7] ∧ w1.nobj = 5 ∧
    w1.objs 0 = some ⟨[0], 8, false⟩ ∧ w1.objs 1 = some ⟨[5], 7, true⟩ ∧
    w1.objs 2 = some ⟨[2], 6, true⟩ ∧ w1.objs 3 = some ⟨[0], 3, true⟩ ∧
    w1.objs 4 = some ⟨[0, 7, 7], 4, true⟩ ∧
    w1.fs [0] = some ⟨true, 3⟩ ∧ w1.fs [5] = some ⟨true, 7⟩ ∧ w1.fs [2] = some ⟨true, 6⟩ ∧
    w1.fs [0, 7] = none ∧ w1.fs [0, 7, 7] = some ⟨true, 4⟩ ∧ w1.ev.rows = 28 := by
  decide +kernel

/-! ### regression witnesses: the code with one or both repairs of the dump state switched off -/

/-- the pinned code (one dump state for all the files, not reset by `Search.__init__`): every search
object after the first one that dumped gets a results file without header line: one row short, data
values as column names -/
example : (runOps { initResets := false, perFile := false } (initW 3 fsEmpty [0]) ops1).2.map view =
    [ none, none, some (.budget, 3, some ⟨3, true⟩), none, some (.budget, 5, some ⟨8, true⟩),
      some (.budget, 0, none), some (.timeout, 4, some ⟨3, false⟩),
      none, some (.cap, 4, some ⟨3, false⟩), some (.budget, 3, some ⟨6, false⟩),
      none, none, none, some (.badTimeout, 0, none), some (.budget, 4, some ⟨3, false⟩),
      some (.budget, 3, some ⟨2, false⟩), some (.cap, 2, some ⟨5, false⟩) ] := by decide +kernel

/-- the code of /repo before the repair found by this check (`Search.__init__` resets the one dump
state there is): object 1, constructed up-front, BEFORE object 0 dumped its results, gets the
header-less file (4 evaluations: 3 rows, wrong column names; later 7 evaluations: 6 rows), and so
does object 3 (constructed before object 4 ran) -/
example : (runOps { perFile := false } (initW 3 fsEmpty [0]) ops1).2.map view =
    [ none, none, some (.budget, 3, some ⟨3, true⟩), none, some (.budget, 5, some ⟨8, true⟩),
      some (.budget, 0, none), some (.timeout, 4, some ⟨3, false⟩),
      none, some (.cap, 4, some ⟨4, true⟩), some (.budget, 3, some ⟨6, false⟩),
      none, none, none, some (.badTimeout, 0, none), some (.budget, 4, some ⟨4, true⟩),
      some (.budget, 3, some ⟨2, false⟩), some (.cap, 2, some ⟨6, true⟩) ] := by decide +kernel

/-- the dump state per file but not reset by `Search.__init__`: a search object constructed in a
directory the evaluator dumped to before (same directory, one after the other) gets the header-less
file -/
example : (runOps { initResets := false } (initW 1 fsEmpty [0])
    [ .new (.abs [1]), .call 0 { maxEvals := 2 } (ones 2) none,
      .new (.abs [1]), .call 1 { maxEvals := 3 } (ones 3) none ]).2.map view =
    [ none, some (.budget, 2, some ⟨2, true⟩), none, some (.budget, 3, some ⟨2, false⟩) ] := by
  decide +kernel
example : (runOps {} (initW 1 fsEmpty [0])
    [ .new (.abs [1]), .call 0 { maxEvals := 2 } (ones 2) none,
      .new (.abs [1]), .call 1 { maxEvals := 3 } (ones 3) none ]).2.map view =
    [ none, some (.budget, 2, some ⟨2, true⟩), none, some (.budget, 3, some ⟨3, true⟩) ] := by
  decide +kernel

end DH.SearchObjects
