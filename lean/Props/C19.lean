import Proofs.AggregateCheck
import Proofs.AggregateObject
import Proofs.AggregateArray

/-!
# C19 — Ensemble aggregators implement weighted mixtures consistently

Property theorems only (model: `Model/Aggregate.lean`, lemmas: `Proofs/Aggregate*.lean`).
One *cell* (`MeanAggregator`, `MixedNormalAggregator`) or one *row of class probabilities*
(`MixedCategoricalAggregator`, `ModeAggregator`) of the stacked predictions at a time; arrays of
any shape are handled cell by cell by the code (`axis=0` reductions), so the statements hold for
every array shape.  Members: any number (lists of any length), weights: any rationals where not
restricted, masks: any pattern (`none` cells / rows).  Scales are returned squared (variances).
-/

namespace DH.Aggregate

/-- **uniform weights = no weights.**  Any common non-zero weight `k` for the `n` members gives
exactly what `weights=None` gives, for every output of the four aggregators (`u`: the per-row
uncertainty statistic of `MixedCategoricalAggregator`, confidence or entropy). -/
theorem C19_uniform_eq_none (n : Nat) (k : Rat) (hk : k ≠ 0) :
    (∀ ys, meanAgg (weightsOf (some (List.replicate n k)) n) ys = meanAgg (weightsOf none n) ys) ∧
    (∀ locs scales, mixedNormal (weightsOf (some (List.replicate n k)) n) locs scales =
        mixedNormal (weightsOf none n) locs scales) ∧
    (∀ u c rows, catAgg u c (weightsOf (some (List.replicate n k)) n) rows = catAgg u c (weightsOf none n) rows) ∧
    (∀ c rows, modeAgg c (weightsOf (some (List.replicate n k)) n) rows = modeAgg c (weightsOf none n) rows) := by
  simp only [weightsOf, replicate_eq_map_one n k]
  exact ⟨fun ys => meanAgg_scale k hk _ ys, fun l s => mixedNormal_scale k hk _ l s,
    fun u c rows => catAgg_scale u c k hk _ rows, fun c rows => modeAgg_scale c k hk _ rows⟩

/-- more generally the outputs only depend on the weights up to a common non-zero factor
(normalised or not: `TopKSelector` returns `[1.0]*k`, `GreedySelector` returns counts/total) -/
theorem C19_weight_scale_invariant (k : Rat) (hk : k ≠ 0) (ws : List Rat) :
    (∀ ys, meanAgg (ws.map (k * ·)) ys = meanAgg ws ys) ∧
    (∀ locs scales, mixedNormal (ws.map (k * ·)) locs scales = mixedNormal ws locs scales) ∧
    (∀ u c rows, catAgg u c (ws.map (k * ·)) rows = catAgg u c ws rows) ∧
    (∀ c rows, modeAgg c (ws.map (k * ·)) rows = modeAgg c ws rows) :=
  ⟨fun ys => meanAgg_scale k hk ws ys, fun l s => mixedNormal_scale k hk ws l s,
    fun u c rows => catAgg_scale u c k hk ws rows, fun c rows => modeAgg_scale c k hk ws rows⟩

/-- **permuting the members together with their weights changes nothing** (mean, categorical, mode) -/
theorem C19_perm {ws ws' : List Rat} :
    (∀ ys ys', (ws.zip ys).Perm (ws'.zip ys') → meanAgg ws ys = meanAgg ws' ys') ∧
    (∀ u c rows rows', (ws.zip rows).Perm (ws'.zip rows') → catAgg u c ws rows = catAgg u c ws' rows') ∧
    (∀ c rows rows', (ws.zip rows).Perm (ws'.zip rows') → modeAgg c ws rows = modeAgg c ws' rows') :=
  ⟨fun _ _ h => meanAgg_perm h, fun u c _ _ h => catAgg_perm u c h, fun c _ _ h => modeAgg_perm c h⟩

/-- … and for normal members (`loc` and `scale` of a member move together) -/
theorem C19_perm_normal {ws ws' : List Rat} {locs locs' scales scales' : List Cell}
    (hl : locs.length = scales.length) (hl' : locs'.length = scales'.length)
    (h : (ws.zip (locs.zip scales)).Perm (ws'.zip (locs'.zip scales'))) :
    mixedNormal ws locs scales = mixedNormal ws' locs' scales' :=
  mixedNormal_perm hl hl' h

/-- **the aggregated mean lies between the members' extremes**: for weights `≥ 0` (not all zero on
the present members, otherwise there is no mean) the mean of `MeanAggregator` and of
`MixedNormalAggregator` lies between the smallest and the largest value among the members
present at the cell. -/
theorem C19_between {ws : List Rat} (hw : ∀ w ∈ ws, 0 ≤ w) {ys : List Cell} {a : Rat}
    (h : average ws ys = some a) :
    ∃ lo ∈ (present ws ys).map (·.2), ∃ hi ∈ (present ws ys).map (·.2),
      (∀ v ∈ (present ws ys).map (·.2), lo ≤ v ∧ v ≤ hi) ∧ lo ≤ a ∧ a ≤ hi := by
  have hne : (present ws ys).map (·.2) ≠ [] := by
    simpa using present_ne_nil_of_wsum (average_some h).1
  obtain ⟨⟨lo, hlo, hlo'⟩, ⟨hi, hhi, hhi'⟩⟩ := exists_min_max _ hne
  have hb := average_between hw h lo hi
    (fun p hp => hlo' p.2 (List.mem_map.2 ⟨p, hp, rfl⟩))
    (fun p hp => hhi' p.2 (List.mem_map.2 ⟨p, hp, rfl⟩))
  exact ⟨lo, hlo, hi, hhi, fun v hv => ⟨hlo' v hv, hhi' v hv⟩, hb⟩

/-- the `loc` output of both aggregators *is* that average -/
theorem C19_between_loc (ws : List Rat) (ys scales : List Cell) :
    (meanAgg ws ys).loc = average ws ys ∧ (mixedNormal ws ys scales).loc = average ws ys := by
  unfold meanAgg mixedNormal
  cases average ws ys <;> simp

/-- **masked entries are ignored**: every output equals the output computed from exactly the
members present at the cell / row, with their weights (renormalised by the average itself). -/
theorem C19_masked_ignored (ws : List Rat) :
    (∀ ys, meanAgg ws ys = meanAgg (pw ws ys) (pys ws ys)) ∧
    (∀ locs scales, SamePresence locs scales →
      mixedNormal ws locs scales = mixedNormal (pw ws locs) (pys ws locs) (pys ws scales)) ∧
    (∀ u c rows, catAgg u c ws rows =
      catAgg u c ((presentRows ws rows).map (·.1)) ((presentRows ws rows).map (fun p => some p.2))) ∧
    (∀ c rows, modeAgg c ws rows =
      modeAgg c ((presentRows ws rows).map (·.1)) ((presentRows ws rows).map (fun p => some p.2))) :=
  ⟨fun ys => (meanAgg_present ws ys).symm, fun _ _ h => (mixedNormal_present h).symm,
    fun u c rows => (catAgg_presentRows u c ws rows).symm, fun c rows => (modeAgg_presentRows c ws rows).symm⟩

/-- in particular a masked member may carry any weight and sit anywhere (here: in front; any other
position by `C19_perm`) -/
theorem C19_masked_member_irrelevant (w : Rat) (ws : List Rat) :
    (∀ ys, average (w :: ws) (none :: ys) = average ws ys) ∧
    (∀ c rows, catLoc c (w :: ws) (none :: rows) = catLoc c ws rows) :=
  ⟨fun ys => average_cons_none w ws ys, fun c rows => catLoc_cons_none c w ws rows⟩

/-- **aggregated class probabilities form a distribution** when the members' do (weights `≥ 0`) -/
theorem C19_simplex {c : Nat} {ws : List Rat} (hw : ∀ w ∈ ws, 0 ≤ w) {rows : List Row}
    (hr : RowsSimplex c rows) {loc : List Rat} (h : catLoc c ws rows = some loc) :
    loc.length = c ∧ (∀ x ∈ loc, 0 ≤ x) ∧ loc.sum = 1 :=
  catLoc_simplex hw hr h

/-- **confidence uncertainties**: with `c ≥ 1` classes, weights `≥ 0` not all zero on the present
rows, the aggregator returns `loc` (a distribution), total `u ∈ [0, 1 - 1/c]`, aleatoric
`a ∈ [0, 1 - 1/c]`, epistemic `e ≥ 0`, and the split is exact: `u = a + e` (the `maximum(0, ·)` of
the code never clips). -/
theorem C19_conf_range {c : Nat} (hc : 0 < c) {ws : List Rat} (hw : ∀ w ∈ ws, 0 ≤ w) {rows : List Row}
    (hr : RowsSimplex c rows) (hW : rsum ws rows ≠ 0) :
    ∃ loc u a e, mixedCategoricalConf c ws rows = ⟨some loc, some u, some a, some e⟩ ∧
      (loc.length = c ∧ (∀ x ∈ loc, 0 ≤ x) ∧ loc.sum = 1) ∧
      0 ≤ u ∧ u ≤ 1 - 1 / (c : Rat) ∧ 0 ≤ a ∧ a ≤ 1 - 1 / (c : Rat) ∧ 0 ≤ e ∧ u = a + e :=
  conf_out hc hw hr hW

/-- **entropy uncertainties** (entropy is a parameter `H` of the model; no analysis in Lean): from
`H ≥ 0` all three parts are `≥ 0`; from concavity (n-ary Jensen form, `JensenConcave`) the split
`u = a + e` is exact. -/
theorem C19_entropy_range {c : Nat} (H : List Rat → Rat) (hH : ∀ p, 0 ≤ H p) {ws : List Rat}
    (hw : ∀ w ∈ ws, 0 ≤ w) {rows : List Row} (hr : RowsSimplex c rows) (hW : rsum ws rows ≠ 0) :
    ∃ loc u a e, mixedCategoricalEntropy H c ws rows = ⟨some loc, some u, some a, some e⟩ ∧
      (loc.length = c ∧ (∀ x ∈ loc, 0 ≤ x) ∧ loc.sum = 1) ∧
      0 ≤ u ∧ 0 ≤ a ∧ 0 ≤ e ∧ (JensenConcave c H → u = a + e) :=
  entropy_out H hH hw hr hW

/-- **mode**: for any non-negative weights (normalised or not, not all zero on the present rows)
the weighted vote is a distribution over the classes, the returned class is a valid class and the
uncertainty `1 - max` lies in `[0, 1 - 1/c] ⊆ [0, 1]`. -/
theorem C19_mode_range {c : Nat} (hc : 0 < c) {ws : List Rat} (hw : ∀ w ∈ ws, 0 ≤ w) {rows : List Row}
    (hr : RowsLen c rows) (hW : rsum ws rows ≠ 0) :
    ∃ counts k u, modeAgg c ws rows = ⟨some counts, some k, some u⟩ ∧
      (counts.length = c ∧ (∀ x ∈ counts, 0 ≤ x) ∧ counts.sum = 1) ∧ k < c ∧
      0 ≤ u ∧ u ≤ 1 - 1 / (c : Rat) ∧ u ≤ 1 :=
  mode_out hc hw hr hW

/-- **law of total variance** for normal members and **any** weights with `Σ w ≠ 0` over the
present members (negative ones included): mixture variance = aleatoric variance + epistemic
variance, i.e. `scale² = scale_aleatoric² + scale_epistemic²`. -/
theorem C19_total_variance (ws : List Rat) {locs scales : List Cell}
    (h : SamePresence locs scales) (hW : wsum ws locs ≠ 0) :
    ∃ m v a e, mixedNormal ws locs scales = ⟨some m, some v, some a, some e⟩ ∧ v = a + e :=
  mixedNormal_total_variance ws h hW

/-- **verified checkers** (run by the driver on the real aggregators' floating-point outputs, `tol`
absorbing the rounding): each decides exactly its clause of the property … -/
theorem C19_checker (tol : Rat) (c : Nat) (loc : List Rat) (ws : List Rat) (ys : List Cell) (m hi u a e v : Rat) :
    (checkSimplex tol c loc = true ↔ SimplexSpec tol c loc) ∧
    (checkBetween tol ws ys m = true ↔ BetweenSpec tol ws ys m) ∧
    (checkUncertainty tol hi u a e = true ↔ UncertaintySpec tol hi u a e) ∧
    (checkRange tol hi u = true ↔ (-tol ≤ u ∧ u ≤ hi + tol)) ∧
    (checkTotalVariance tol v a e = true ↔ (v - (a + e) ≤ tol ∧ (a + e) - v ≤ tol)) :=
  ⟨checkSimplex_iff tol c loc, checkBetween_iff tol ws ys m, checkUncertainty_iff tol hi u a e,
    checkRange_iff tol hi u, checkTotalVariance_iff tol v a e⟩

/-- … and the model's outputs pass them for every `tol ≥ 0` (so a checker failure on the
implementation's output is a disagreement with the proved clauses, not an artefact of the checker) -/
theorem C19_checker_model_passes {tol : Rat} (ht : 0 ≤ tol) {c : Nat} (hc : 0 < c) {ws : List Rat}
    (hw : ∀ w ∈ ws, 0 ≤ w) :
    (∀ ys a, average ws ys = some a → checkBetween tol ws ys a = true) ∧
    (∀ rows, RowsSimplex c rows → rsum ws rows ≠ 0 → ∃ loc u a e,
      mixedCategoricalConf c ws rows = ⟨some loc, some u, some a, some e⟩ ∧
      checkSimplex tol c loc = true ∧ checkUncertainty tol (1 - 1 / (c : Rat)) u a e = true) ∧
    (∀ rows, RowsLen c rows → rsum ws rows ≠ 0 → ∃ counts k u,
      modeAgg c ws rows = ⟨some counts, some k, some u⟩ ∧ checkSimplex tol c counts = true ∧
      checkRange tol 1 u = true) ∧
    (∀ locs scales, SamePresence locs scales → wsum ws locs ≠ 0 → ∃ m v a e,
      mixedNormal ws locs scales = ⟨some m, some v, some a, some e⟩ ∧ checkTotalVariance tol v a e = true) := by
  refine ⟨fun ys a h => ?_, fun rows hr hW => ?_, fun rows hr hW => ?_, fun locs scales h hW => ?_⟩
  · exact (checkBetween_iff _ _ _ _).2 (BetweenSpec_of_exact ht (C19_between hw h))
  · obtain ⟨loc, u, a, e, h1, h2, h3, h4, h5, _, h7, h8⟩ := C19_conf_range hc hw hr hW
    exact ⟨loc, u, a, e, h1, (checkSimplex_iff _ _ _).2 (SimplexSpec_of_exact ht h2),
      (checkUncertainty_iff _ _ _ _ _).2 (UncertaintySpec_of_exact ht ⟨h3, h4, h5, h7, h8⟩)⟩
  · obtain ⟨counts, k, u, h1, h2, _, h4, _, h6⟩ := C19_mode_range hc hw hr hW
    exact ⟨counts, k, u, h1, (checkSimplex_iff _ _ _).2 (SimplexSpec_of_exact ht h2),
      (checkRange_iff _ _ _).2 ⟨by linarith, by linarith⟩⟩
  · obtain ⟨m, v, a, e, h1, h2⟩ := C19_total_variance ws h hW
    exact ⟨m, v, a, e, h1, (checkTotalVariance_iff _ _ _ _).2 ⟨by rw [h2]; linarith, by rw [h2]; linarith⟩⟩

/-! ### the aggregator object: `aggregate()` is a function of its own arguments at the time of the call

Model `Model/AggregateObject.lean`: any number of `aggregate()` calls in progress on ONE aggregator
object, interleaved statement by statement in any order (threads sharing the object, a call made
while the lazily evaluated weights of another call are being read, a call that is itself suspended
half-way).  `g seen x` is what a call returns from its own input `x` when the uses of the array
namespace saw the namespaces `seen`; `runLocal` is the code after fix `d3ad57e` (branch `fix-c19`). -/

/-- **purity / re-entrancy.**  Under every schedule `evs` every call on the object (frame `p`) is one
that a caller made (`enter` event), and once it is done its result is `g` at the call's OWN namespace
and OWN input — an expression in which neither the schedule nor any other call occurs. -/
theorem C19_reentrant {α β : Type} (g : List Ns → α → β) (evs : List (Ev α)) :
    ∀ p ∈ runLocal [] evs, Ev.enter p.1 p.2.call ∈ evs ∧
      (p.2.done = true →
        p.2.result g = some (g (List.replicate p.2.call.reads p.2.call.own) p.2.call.x)) := by
  intro p hp
  have h := runLocal_inv evs [] (fun id c => Ev.enter id c ∈ evs) (by simp) (fun _ _ h => h) p hp
  refine ⟨h.2, fun hd => ?_⟩
  simp [Frame.result, hd, h.1.seen_of_done hd]

/-- … which is the result of the same call made alone on an object of its own -/
theorem C19_reentrant_alone {α β : Type} (g : List Ns → α → β) (c : Call α) (id : Nat) :
    ∃ f, runLocal [] (.enter id c :: List.replicate (2 + c.reads) (.step id)) = [(id, f)] ∧ f.call = c ∧
      f.result g = some (g (List.replicate c.reads c.own) c.x) := by
  have hs := stepsLocal_pc (2 + c.reads) (Frame.start c) (by simp [Frame.start])
  generalize hF : stepsLocal (2 + c.reads) (Frame.start c) = F at hs
  have hpc : F.pc = 2 + c.reads := by simpa [Frame.start] using hs.1
  have hcall : F.call = c := by simpa [Frame.start] using hs.2
  have hrun : runLocal [] (.enter id c :: List.replicate (2 + c.reads) (.step id)) = [(id, F)] := by
    simp [runLocal, runLocal_alone, hF]
  refine ⟨F, hrun, hcall, ?_⟩
  have hd : F.done = true := by simp [Frame.done, hpc, hcall]
  have := (C19_reentrant g _ (id, F) (by rw [hrun]; simp)).2 hd
  simpa [hcall] using this

/-- instance: `MeanAggregator` on MaskedArray members with explicit weights — whatever else runs on
the object, a finished call returns the weighted mean over the members present at the cell, of ITS
OWN weights and members (`(meanAgg ws ys).loc`, the subject of `C19_between` / `C19_masked_ignored`) -/
theorem C19_reentrant_mean (evs : List (Ev (List Rat × List Cell))) :
    ∀ p ∈ runLocal [] evs, p.2.call.masked = true → 0 < p.2.call.reads → p.2.done = true →
      p.2.result meanLocSeen = some (meanAgg p.2.call.x.1 p.2.call.x.2).loc := by
  intro p hp hm hr hd
  rw [(C19_reentrant meanLocSeen evs p hp).2 hd, (C19_between_loc _ _ []).1]
  obtain ⟨n, hn⟩ : ∃ n, p.2.call.reads = n + 1 := ⟨p.2.call.reads - 1, by omega⟩
  simp [hn, List.replicate_succ, meanLocSeen, Call.own, hm, averageIn]

/-- two callers of one `MeanAggregator`: a call on masked members (weights 1, 3; member 0 masked at the
cell, member 1 predicts 4) is at its `average` when a call on plain members starts -/
def racePlain : List (Ev (List Rat × List Cell)) :=
  [.enter 0 ⟨true, 1, ([1, 3], [none, some 4])⟩, .step 0, .step 0,
   .enter 1 ⟨false, 1, ([1], [some 2])⟩, .step 1, .step 0]

/-- the same with a second call on MASKED members that is suspended right after its `self._np = np` -/
def raceMasked : List (Ev (List Rat × List Cell)) :=
  [.enter 0 ⟨true, 1, ([1, 3], [none, some 4])⟩, .step 0, .step 0,
   .enter 1 ⟨true, 1, ([1], [some 2])⟩, .step 1, .step 0]

/-- **known finding of the pinned tree** (`self._np` on the instance, `runShared`): in both schedules the
first call finishes with `3 = 3·4/(1+3)` — `np.average` divides by the weights of all members — instead
of its own statistic `4`; the fixed code returns `4` under the same schedules. -/
theorem C19_shared_namespace_not_reentrant :
    (findFrame 0 (runShared .np [] racePlain).2).bind (·.result meanLocSeen) = some (some 3) ∧
    (findFrame 0 (runShared .np [] raceMasked).2).bind (·.result meanLocSeen) = some (some 3) ∧
    (meanAgg [1, 3] [none, some 4]).loc = some 4 ∧
    (findFrame 0 (runLocal [] racePlain)).bind (·.result meanLocSeen) = some (some 4) ∧
    (findFrame 0 (runLocal [] raceMasked)).bind (·.result meanLocSeen) = some (some 4) := by
  decide +kernel

/-! ### the member arrays: class, mask storage, dtype, data under the mask (`Model/AggregateArray.lean`) -/

/-- **the members enter only through their meaning.**  Two lists of member arrays — each all `MaskedArray`s
or all plain arrays — that hold the same numbers at the same unmasked places (`Arr.cells`) are stacked to the
same cells, so all four aggregators return the same outputs for them, for all weights: the dtype of a member
(bool, any integer width, float16/32/64), the way its mask is stored (`nomask` or a mask array) and the data
stored under its mask do not matter. -/
theorem C19_member_representation (ys ys' : List Arr) (h : Homogeneous ys) (h' : Homogeneous ys')
    (hc : ys.map Arr.cells = ys'.map Arr.cells) :
    stackCells ys = stackCells ys' ∧
    (∀ ws n, meanArr ws n ys = meanArr ws n ys') ∧
    (∀ c ws n, catArr c ws n ys = catArr c ws n ys') ∧
    (∀ c ws n, modeArr c ws n ys = modeArr c ws n ys') := by
  have e : stackCells ys = stackCells ys' := by
    rw [stackCells_homogeneous _ h, stackCells_homogeneous _ h', hc]
  refine ⟨e, ?_, ?_, ?_⟩ <;> intros <;> simp [meanArr, catArr, modeArr, e]

/-- the same for `MixedNormalAggregator` (`np.ma` when every `loc` and every `scale` is a `MaskedArray`) -/
theorem C19_member_representation_normal (locs scales locs' scales' : List Arr)
    (h : Homogeneous (locs ++ scales)) (h' : Homogeneous (locs' ++ scales'))
    (hl : locs.map Arr.cells = locs'.map Arr.cells) (hs : scales.map Arr.cells = scales'.map Arr.cells) :
    ∀ ws n, normalArr ws n locs scales = normalArr ws n locs' scales' := by
  intro ws n
  simp [normalArr, stackNormal_homogeneous _ _ h, stackNormal_homogeneous _ _ h', hl, hs]

/-- **conversions that keep the class and the mask keep every output**: a map `f` on member arrays that
preserves `isinstance(·, MaskedArray)` and the meaning — `astype` / `np.asanyarray(·, dtype)` to any dtype,
storing the mask as an array, writing other data under the mask (`C19_member_conversions`) — applied to the
members of a homogeneous list changes no output of any aggregator. -/
theorem C19_member_conversion_invariant (f : Arr → Arr) (hf : ∀ a, (f a).ma = a.ma ∧ (f a).cells = a.cells)
    (ys : List Arr) (h : Homogeneous ys) :
    stackCells (ys.map f) = ys.map Arr.cells ∧
    (∀ ws n, meanArr ws n (ys.map f) = meanArr ws n ys) ∧
    (∀ c ws n, catArr c ws n (ys.map f) = catArr c ws n ys) ∧
    (∀ c ws n, modeArr c ws n (ys.map f) = modeArr c ws n ys) := by
  have hh : Homogeneous (ys.map f) := by
    rcases h with h | h
    · left; intro a ha
      obtain ⟨b, hb, rfl⟩ := List.mem_map.1 ha
      rw [(hf b).1]; exact h b hb
    · right; intro a ha
      obtain ⟨b, hb, rfl⟩ := List.mem_map.1 ha
      rw [(hf b).1]; exact h b hb
  have hc : (ys.map f).map Arr.cells = ys.map Arr.cells := by
    rw [List.map_map]; exact List.map_congr_left (fun a _ => (hf a).2)
  obtain ⟨e, r⟩ := C19_member_representation (ys.map f) ys hh h hc
  exact ⟨by rw [e, stackCells_homogeneous _ h], r⟩

/-- the conversions in question: dtype casts that keep the subclass, the mask stored as an array, any
data under the mask. -/
theorem C19_member_conversions (a : Arr) (d : DType) (vs : List Rat) :
    ((a.astype d).ma = a.ma ∧ (a.astype d).cells = a.cells) ∧
    (a.withMaskArray.ma = a.ma ∧ a.withMaskArray.cells = a.cells) ∧
    ((a.scribbleUnderMask vs).ma = a.ma ∧ (a.scribbleUnderMask vs).cells = a.cells) :=
  ⟨⟨rfl, cells_astype d a⟩, ⟨ma_withMaskArray a, cells_withMaskArray a⟩, ⟨rfl, cells_scribble vs a⟩⟩

/-- hard one-hot members of `MixedCategoricalAggregator` stored as int64 `MaskedArray`s, two samples of two
classes; the second sample of member `a` is masked (the data `[0, 1]` under its mask is not a prediction) -/
def hardA : Arr := ⟨true, .bits [false, false, true, true], .int 64, [1, 0, 0, 1]⟩
def hardB : Arr := ⟨true, .nomask, .int 64, [0, 1, 1, 0]⟩

/-- **`np.asarray(member, dtype=float64)` is not such a conversion**: it returns a base `ndarray`, the mask is
gone, the plain namespace is selected and the data under the mask enters the mixture — sample 1 gets
`loc = [1/2, 1/2]`, uncertainty `1/2` instead of the present member's `[1, 0]`, `0`; the cast that keeps the
subclass (`astype`) leaves the result unchanged. -/
theorem C19_asarray_drops_mask :
    catArr 2 [1, 1] 2 [hardA, hardB]
      = [⟨some [1 / 2, 1 / 2], some (1 / 2), some 0, some (1 / 2)⟩, ⟨some [1, 0], some 0, some 0, some 0⟩] ∧
    catArr 2 [1, 1] 2 [hardA.astype (.float 64), hardB.astype (.float 64)] = catArr 2 [1, 1] 2 [hardA, hardB] ∧
    catArr 2 [1, 1] 2 [hardA.asarray (.float 64), hardB.asarray (.float 64)]
      = [⟨some [1 / 2, 1 / 2], some (1 / 2), some 0, some (1 / 2)⟩,
         ⟨some [1 / 2, 1 / 2], some (1 / 2), some 0, some (1 / 2)⟩] ∧
    -- a list mixing plain and masked members is stacked without masks, too
    stackCells [hardA, hardB.asarray (.int 64)] = [[some 1, some 0, some 0, some 1], [some 0, some 1, some 1, some 0]] := by
  decide +kernel

/-! ### non-vacuity and regression witnesses -/

-- member arrays: the same meaning in three representations (int8 with a mask array and 97 under the mask,
-- float16 with the mask array, float64 without masked entries stored with `nomask`)
example : Homogeneous [hardA, hardB] := Or.inl (by decide)
example : [hardA, hardB].map Arr.cells
    = [(⟨true, .bits [false, false, true, true], .int 8, [1, 0, 97, 97]⟩ : Arr), hardB.withMaskArray.astype (.float 16)].map
        Arr.cells := by decide +kernel
example : (hardA.scribbleUnderMask [5, 5, 97, 97]).data = [1, 0, 97, 97] := by decide +kernel
example : Homogeneous ([hardA] ++ [hardB]) := Or.inl (by decide)
example : meanArr [1, 3] 2 [⟨true, .bits [true, false], .uint 8, [200, 7]⟩, ⟨true, .nomask, .float 32, [4, 9]⟩]
    = [⟨some 4, some 0⟩, ⟨some (17 / 2), some (3 / 4)⟩] := by decide +kernel


-- weights .7/.2/.1 (as 7/2/1: only ratios matter), member 1 masked
example : meanAgg [7, 2, 1] [some 1, none, some 4] = ⟨some (11 / 8), some (63 / 64)⟩ := by decide +kernel
example : (∀ w ∈ ([7, 2, 1] : List Rat), 0 ≤ w) := by decide
example : average [7, 2, 1] [some 1, none, some 4] = some (11 / 8) := by decide +kernel
example : present [7, 2, 1] [some 1, none, some 4] = [(7, 1), (1, 4)] := by decide +kernel
example : List.Perm (([7, 2, 1] : List Rat).zip [some (1 : Rat), none, some 4])
    (([1, 7, 2] : List Rat).zip [some (4 : Rat), some 1, none]) := by decide
-- total variance, DESIGN §6-13a: loc 1/2/4, scale 1/2, weights .7/.2/.1
example : mixedNormal [7 / 10, 1 / 5, 1 / 10] [some 1, some 2, some 4] [some (1 / 2), some (1 / 2), some (1 / 2)]
    = ⟨some (3 / 2), some (11 / 10), some (1 / 4), some (17 / 20)⟩ := by decide +kernel
example : SamePresence [some 1, some 2, some 4] [some (1 / 2), some (1 / 2), some (1 / 2)] := by
  unfold SamePresence; decide
/-- defect 13a (pinned tree): the unweighted epistemic variance `14/9` makes
`aleatoric² + epistemic² = 65/36 ≠ 11/10 = scale²` -/
example : epiVarUnweighted [some 1, some 2, some 4] = some (14 / 9) ∧ (1 / 4 + 14 / 9 : Rat) ≠ 11 / 10 := by
  decide +kernel
-- categorical
example : RowsSimplex 2 [some [1 / 4, 3 / 4], none, some [1 / 2, 1 / 2]] := by
  intro p hp
  simp at hp
  rcases hp with rfl | rfl <;> refine ⟨rfl, ?_, by norm_num⟩ <;> intro x hx <;> simp at hx <;>
    rcases hx with rfl | rfl <;> norm_num
example : rsum [1, 5, 3] [some [1 / 4, 3 / 4], none, some [1 / 2, 1 / 2]] ≠ 0 := by decide +kernel
example : mixedCategoricalConf 2 [1, 5, 3] [some [1 / 4, 3 / 4], none, some [1 / 2, 1 / 2]]
    = ⟨some [7 / 16, 9 / 16], some (7 / 16), some (7 / 16), some 0⟩ := by decide +kernel
example : mixedCategoricalConf 2 [1, 1] [some [1, 0], some [0, 1]]
    = ⟨some [1 / 2, 1 / 2], some (1 / 2), some 0, some (1 / 2)⟩ := by decide +kernel
-- mode: TopKSelector's weights [1,1,1]; member 2 masked does not vote
example : modeAgg 2 [1, 1, 1] [some [1 / 10, 9 / 10], some [4 / 5, 1 / 5], none]
    = ⟨some [1 / 2, 1 / 2], some 0, some (1 / 2)⟩ := by decide +kernel
/-- defect 13b (pinned tree): un-normalised counts `[0, 3]` for three agreeing members with weights
`[1,1,1]` give uncertainty `1 - 3 = -2` -/
example : conf (modeCountsUnnormalised 2 [1, 1, 1] [some [0, 1], some [0, 1], some [0, 1]]) = some (-2) := by
  decide +kernel
example : (modeAgg 2 [1, 1, 1] [some [0, 1], some [0, 1], some [0, 1]]).unc = some 0 := by decide +kernel

example : checkSimplex 0 2 [7 / 16, 9 / 16] = true := by decide +kernel
example : checkSimplex (1 / 1000) 2 [1 / 2, 2 / 3] = false := by decide +kernel
example : checkBetween 0 [7, 2, 1] [some 1, none, some 4] (11 / 8) = true := by decide +kernel
example : checkBetween 0 [7, 2, 1] [some 1, none, some 4] 5 = false := by decide +kernel
example : checkUncertainty 0 (1 / 2) (1 / 2) 0 (1 / 2) = true := by decide +kernel
example : checkRange 0 1 (-2) = false := by decide +kernel
example : checkTotalVariance 0 (11 / 10) (1 / 4) (17 / 20) = true ∧ checkTotalVariance 0 (11 / 10) (1 / 4) (14 / 9) = false := by
  decide +kernel

-- the object model: three calls interleaved, every finished call saw only its own namespace
example : (runLocal [] ([.enter 0 ⟨true, 2, ()⟩, .step 0, .enter 1 ⟨false, 1, ()⟩, .step 1, .step 0, .enter 2 ⟨true, 1, ()⟩,
    .step 2, .step 1, .step 0, .step 2, .step 1, .step 0, .step 2] : List (Ev Unit))).map
      (fun p => (p.1, p.2.done, p.2.seen)) = [(2, true, [.ma]), (1, true, [.np]), (0, true, [.ma, .ma])] := by
  decide +kernel
example : (⟨true, 1, ([1, 3], [none, some 4])⟩ : Call (List Rat × List Cell)).own = .ma := by decide

end DH.Aggregate
