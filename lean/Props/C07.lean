import Proofs.Streams
import Generated.C07Sites

/-!
# C07 — Seeded searches are reproducible

Property theorems only.  The model (`Model/Streams.lean`) is the effect language of
random / hidden-input streams; `Generated/C07Sites.lean` is the table of every such site of
the Python search stack, re-generated from the sources by `harness/rng_scan.py` on every run;
the hand model of the seed threading is `searchProgram`.

`C07_sites_seeded` is the obligation that is **re-checked against the generated table**:
a code change that adds a reachable draw from a hidden stream makes it (and this file) fail to
compile.  The dynamic half of C07 (two fresh interpreters per configuration; different seeds give
different sequences) is `harness/c07.py`.
-/

namespace DH.Streams

/-- **C07 (non-interference, generic).**  For every generator algorithm, every seed and every
program: if every executed instruction draws from (or forks from) a seeded stream, two worlds
that agree on the seeded streams — and differ arbitrarily on the global NumPy / Python / SciPy
generators, OS entropy, the hash seed and the clock — produce the same outputs. -/
theorem C07_noninterference (g : Gen) (seed : Nat) (prog : List Instr) (w₁ w₂ : World)
    (hpure : prog.all Instr.pure = true) (hagree : Agree w₁ w₂) :
    outputs g seed prog w₁ = outputs g seed prog w₂ := by
  unfold outputs
  rw [(run_sim g seed prog ⟨w₁, [], []⟩ ⟨w₂, [], []⟩ hpure ⟨hagree, rfl, rfl⟩).outs]

/-- **C07 (non-interference, closed form).**  A well-initialised program (every generator it uses
was created from the user's seed, directly or through a chain of forks) produces outputs that
depend on the seed only: *any* two worlds give the same outputs. -/
theorem C07_noninterference_closed (g : Gen) (seed : Nat) (prog : List Instr) (w₁ w₂ : World)
    (hwf : WellInit prog = true) :
    outputs g seed prog w₁ = outputs g seed prog w₂ := by
  unfold outputs
  rw [run_simOn g seed prog [] ⟨w₁, [], []⟩ ⟨w₂, [], []⟩ hwf ⟨by simp, rfl, rfl⟩]

/-- **C07 (the re-checked obligation).**  In the table generated from the current Python sources,
every site reachable from a supported configuration draws from a seeded stream.  Fails to compile
as soon as the scan finds a reachable site that draws from a hidden stream. -/
theorem C07_sites_seeded : sitesSeeded Gen.sites = true := by decide +kernel

/-- **C07 (table ⇒ reproducible).**  For every configuration and every number of rounds, the program
that executes every site the table says the configuration reaches is independent of the world. -/
theorem C07_table_reproducible (cfg : Config) (rounds : Nat) (g : Gen) (seed : Nat) (w₁ w₂ : World) :
    outputs g seed (tableProgram Gen.sites cfg rounds) w₁ =
    outputs g seed (tableProgram Gen.sites cfg rounds) w₂ :=
  C07_noninterference_closed g seed _ w₁ w₂ (wf_tableProgram Gen.sites cfg C07_sites_seeded rounds).1

/-- **C07 (seed threading).**  The model of `Search.__init__ → CBO.__init__ → Optimizer.__init__ →
Space.rvs` (and of the constant-liar copies, the `update_next` refresh copy, qLCB, Boltzmann, gp_hedge, MES after the repair, pymoo
seeds, multi-objective weights, RandomSearch, RegularizedEvolution) derives every generator it ever
draws from — surrogate, cooked estimator, ConfigSpace, initial design, per-dimension, copy — from the
one root stream created from the user's seed: for all options and all ask/tell scripts (any batch
sizes, any environment decisions) the program is well-initialised … -/
theorem C07_seed_threading (o : Opts) (ops : List Op) : WellInit (searchProgram o ops) = true :=
  wf_searchProgram o ops

/-- … hence its proposals are a function of the seed alone, whatever the hidden inputs are. -/
theorem C07_search_reproducible (o : Opts) (ops : List Op) (g : Gen) (seed : Nat) (w₁ w₂ : World) :
    outputs g seed (searchProgram o ops) w₁ = outputs g seed (searchProgram o ops) w₂ :=
  C07_noninterference_closed g seed _ w₁ w₂ (C07_seed_threading o ops)

/-- **C07 (earlier searches of the interpreter).**  What a well-initialised search proposes does not depend on
which searches ran EARLIER in the same interpreter: for every list of earlier programs (any instructions — other
classes, designs, surrogates, draws from global generators, writes to process-level caches — each with its own
seed) the search started in the world they leave behind proposes what it proposes in any other world, in
particular in a fresh interpreter. -/
theorem C07_earlier_searches_irrelevant (g : Gen) (seed : Nat) (p : List Instr) (earlier : List (Nat × List Instr))
    (w w' : World) (hwf : WellInit p = true) :
    outputs g seed p (worldAfter g earlier w) = outputs g seed p w' :=
  C07_noninterference_closed g seed p _ w' hwf

/-- … for the hand model of the search classes: for all options, all ask/tell scripts, all earlier searches. -/
theorem C07_search_history_independent (o : Opts) (ops : List Op) (g : Gen) (seed : Nat)
    (earlier : List (Nat × List Instr)) (w w' : World) :
    outputs g seed (searchProgram o ops) (worldAfter g earlier w) = outputs g seed (searchProgram o ops) w' :=
  C07_earlier_searches_irrelevant g seed _ earlier w w' (C07_seed_threading o ops)

/-- … and for the program of the generated table (every site the configuration reaches, `rounds` rounds): the
table obligation `C07_sites_seeded` also excludes reachable writes to class-level / module-level mutable objects
(rows on the stream `processState`). -/
theorem C07_table_history_independent (cfg : Config) (rounds : Nat) (g : Gen) (seed : Nat)
    (earlier : List (Nat × List Instr)) (w w' : World) :
    outputs g seed (tableProgram Gen.sites cfg rounds) (worldAfter g earlier w) =
    outputs g seed (tableProgram Gen.sites cfg rounds) w' :=
  C07_earlier_searches_irrelevant g seed _ earlier w w' (wf_tableProgram Gen.sites cfg C07_sites_seeded rounds).1

/-- **C07 (different seeds, partial).**  Full statement (not provable about a model that abstracts the
generator and the proposal function): *different seeds give different proposal sequences*.  Proved
part: when the generator's first value is injective in the seed, the observations of any program that
starts `useSeed k; draw (seeded k); output` differ for different seeds.  Missing: that the real
pipeline from draws to proposals is injective enough — checked dynamically on every configuration by
`harness/c07.py` (two different seeds must give different sequences). -/
theorem C07_seeds_differ_partial (g : Gen) (hinj : ∀ a b, (g.next (g.init a)).1 = (g.next (g.init b)).1 → a = b)
    (k site : Nat) (w : World) (s₁ s₂ : Nat) (hne : s₁ ≠ s₂) :
    outputs g s₁ [.useSeed k, .draw site (.seeded k), .output] w ≠
    outputs g s₂ [.useSeed k, .draw site (.seeded k), .output] w := by
  intro h
  simp [outputs, run, step] at h
  exact hne (hinj _ _ h)

/-! ## non-vacuity and regression witnesses -/

/-- the hypotheses of `C07_noninterference` are satisfiable by worlds that really differ -/
example : Agree (mkWorld 5 1) (mkWorld 5 2) ∧ mkWorld 5 1 .numpyGlobal ≠ mkWorld 5 2 .numpyGlobal := by
  refine ⟨fun k => rfl, by decide⟩

/-- a non-trivial search: CBO, GP cooked by name, conditional space, sobol design, MES, gp_hedge off,
two objectives, constant liar, batches 3 / 1 / 4, then ask-again (`update_next`) and a batch of 2 — well-initialised,
4 proposals -/
def exOpts : Opts :=
  { search := .cbo, estimatorByName := true, cfgSpace := true, design := true, ndims := 4,
    mes := true, hedge := false, moo := true, pymoo := false, strategy := .cl }
def exOps : List Op := [.ask 3 false true, .tell true, .ask 1 true false, .tell true, .ask 4 true false,
  .refresh true, .ask 2 true false]
example : WellInit (searchProgram exOpts exOps) = true := by decide +kernel
example : (outputs lcg 42 (searchProgram exOpts exOps) (mkWorld 0 1)).length = 4 := by decide +kernel
example : outputs lcg 42 (searchProgram exOpts exOps) (mkWorld 0 1) =
          outputs lcg 42 (searchProgram exOpts exOps) (mkWorld 7 99) := by decide +kernel
example : outputs lcg 42 (searchProgram exOpts exOps) (mkWorld 0 1) ≠
          outputs lcg 43 (searchProgram exOpts exOps) (mkWorld 0 1) := by decide +kernel

/-- flat space: per-dimension generators -/
example : WellInit (searchProgram { exOpts with cfgSpace := false, strategy := .qlcb } exOps) = true := by
  decide +kernel

/-- **regression witness of defect 7** (`gaussian_mes` drew with `norm.rvs(loc, scale)` from SciPy's /
NumPy's global generator): the pre-repair program is not pure, and two worlds that agree on every
seeded stream give different outputs. -/
example : mesPreFix.all Instr.pure = false := by decide
example : outputs lcg 42 mesPreFix (mkWorld 5 1) ≠ outputs lcg 42 mesPreFix (mkWorld 5 2) := by decide +kernel

/-- **regression witness of defect 7b** (`list(<set of names>)` indexed by a seeded choice): a draw from
the hash-seed stream between two seeded draws makes the output depend on the hash seed. -/
example : outputs lcg 1 [.useSeed 0, .draw 0 (.seeded 0), .draw 1 .hashSeed, .output] (mkWorld 5 1) ≠
          outputs lcg 1 [.useSeed 0, .draw 0 (.seeded 0), .draw 1 .hashSeed, .output] (mkWorld 5 2) := by
  decide +kernel

/-- non-vacuity of `C07_earlier_searches_irrelevant`: two earlier searches (other options, seeds 7 and 42) really
change the world — the root generator object and the global NumPy stream are elsewhere — and the search under
test still proposes what it proposes in a fresh world -/
def exEarlier : List (Nat × List Instr) :=
  [(7, searchProgram { exOpts with strategy := .qlcb, cfgSpace := false } exOps ++ [.draw 1 .numpyGlobal]),
   (42, searchProgram exOpts [.ask 2 false true])]
example : worldAfter lcg exEarlier (mkWorld 0 1) (.seeded 0) ≠ mkWorld 0 1 (.seeded 0) ∧
          worldAfter lcg exEarlier (mkWorld 0 1) .numpyGlobal ≠ mkWorld 0 1 .numpyGlobal := by decide +kernel
example : outputs lcg 42 (searchProgram exOpts exOps) (worldAfter lcg exEarlier (mkWorld 0 1)) =
          outputs lcg 42 (searchProgram exOpts exOps) (mkWorld 0 1) := by decide +kernel

/-- **witness of a class-level memo keyed without the seed** (an initial design cached in a dict that is a class
attribute): the program is rejected by the checker; alone in a fresh interpreter (empty cache) it proposes what
the un-memoised program proposes, after an earlier search with another seed it proposes that search's design. -/
example : WellInit memoDesign = false := by decide
example : outputs lcg 42 memoDesign (mkWorld 0 0) =
          outputs lcg 42 [.useSeed 0, .fork (.seeded 0) 4 true, .draw 102 (.seeded 4), .output] (mkWorld 0 0) := by decide +kernel
example : outputs lcg 42 memoDesign (worldAfter lcg [(7, memoDesign)] (mkWorld 0 0)) ≠
          outputs lcg 42 memoDesign (mkWorld 0 0) := by decide +kernel
example : outputs lcg 42 memoDesign (worldAfter lcg [(7, memoDesign)] (mkWorld 0 0)) =
          outputs lcg 7 memoDesign (mkWorld 0 0) := by decide +kernel

/-- an unseeded `Search.__init__` (random_state=None, outside the property) is rejected by the checker -/
example : WellInit (unseededInit ++ script exOpts exOps) = false := by decide +kernel

/-- the table is not empty and contains reachable sites (the obligation is not vacuous) -/
example : Gen.sites.length > 50 := by decide +kernel
example : (Gen.sites.filter (fun s => s.reach.isLive)).length > 20 := by decide +kernel

end DH.Streams
