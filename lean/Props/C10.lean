import Proofs.SamplingLaws
import Proofs.SpaceCheckers
import Proofs.Proposal

/-!
# C10 — Sampling honours the declared support and prior of every hyperparameter

Property theorems only.  Model: `Model/Sampling.lean` (+ `Model/Space.lean`) and, for the stage between the
sampler and the user (second half of this file), `Model/Proposal.lean`; the code as it is on
`/repo` main (after the fixes 5b1cf8d, 1879100); lemmas: `Proofs/Sampling.lean`, `Proofs/SamplingLaws.lean`.

A sampler is a function of the *draw* the random generator hands to it (`Draw.u q s`: a uniform
number `q` and the scale `s` used by `_uniform_inclusive`; `Draw.r k`: an integer of
`randint(low, high + 1)`).  The statements about laws are statements about pre-images of values
under these functions — intervals of `[0, 1]` or single integer draws — not about empirical
frequencies; that NumPy/SciPy generators are uniform is assumed (and judged statistically by the
harness on every run).  `L`, `E` are the `log`/`pow` parameters of C09.
-/

namespace DH.Space

/-- **C10 (conversion).**  For every list of hyperparameters (in ConfigSpace's order) that
`convert_to_skopt_space` accepts: as many dimensions, the same names in the same order, and for
each hyperparameter the kind, the bounds, the log flag, the choices in order and the weights are
those of the declaration; ConfigSpace does the sampling exactly when there is a condition or a
forbidden clause. -/
theorem C10_convert (hps : List CsHp) (nc nf : Nat) (sur : String) (dims : List SkoptDim) (cs : Bool)
    (h : convertToSkoptSpace hps nc nf sur = .ok (dims, cs)) :
    dims.map (·.name) = hps.map CsHp.name ∧ AllPreserve hps dims ∧
      (cs = true ↔ 0 < nc ∨ 0 < nf) := by
  unfold convertToSkoptSpace at h
  cases hm : mapC (fun h => toSkoptDim h sur) hps with
  | error e => simp [hm] at h
  | ok ds =>
    simp [hm] at h
    obtain ⟨rfl, rfl⟩ := h
    obtain ⟨h1, h2⟩ := mapC_toSkoptDim sur hps ds hm
    exact ⟨h2, h1, by simp⟩

/-- **C10 (shorthand declarations).**  An accepted `(low, high[, prior])` tuple of integers
becomes an integer hyperparameter with that name, those bounds and the log flag of the prior; with
a float bound a float hyperparameter (bounds as ConfigSpace rounds them, `R`); an accepted list
keeps its items in order; a scalar becomes a constant. -/
theorem C10_declaration (R : Rat → Rat) (n : String) :
    (∀ a b : Int, ∀ h, checkHyperparameter R (.tuple [.int a, .int b]) (some n) = .ok h →
        h = .uniformInt n a b false) ∧
    (∀ a b : Int, ∀ h, checkHyperparameter R (.tuple [.int a, .int b, .str "log-uniform"]) (some n) = .ok h →
        h = .uniformInt n a b true) ∧
    (∀ a b : Rat, ∀ h, checkHyperparameter R (.tuple [.float a, .float b]) (some n) = .ok h →
        h = .uniformFloat n (R a) (R b) false) ∧
    (∀ a b : Rat, ∀ h, checkHyperparameter R (.tuple [.float a, .float b, .str "log-uniform"]) (some n) = .ok h →
        h = .uniformFloat n (R a) (R b) true) ∧
    (∀ items : List String, ∀ h, checkHyperparameter R (.list (items.map Py.str)) (some n) = .ok h →
        items ≠ [] → h = .categorical n (items.map Val.str) none) ∧
    (∀ v : Val, ∀ p : Py, p.toVal? = some v → checkHyperparameter R (.scalar p) (some n) = .ok (.constant n v)) := by
  refine ⟨?_, ?_, ?_, ?_, ?_, ?_⟩
  · intro a b h hc
    by_cases hle : b ≤ a <;>
      simp [checkHyperparameter, Py.isInt, Py.asInt, mkUniformInt, hle] at hc
    exact hc.symm
  · intro a b h hc
    by_cases hle : b ≤ a <;> by_cases h0 : a ≤ 0 <;>
      simp [checkHyperparameter, Py.isInt, Py.asInt, mkUniformInt, hle, h0] at hc
    exact hc.symm
  · intro a b h hc
    by_cases hle : R b ≤ R a <;>
      simp [checkHyperparameter, Py.isInt, Py.isFloat, Py.asRat, mkUniformFloat, hle] at hc
    exact hc.symm
  · intro a b h hc
    by_cases hle : R b ≤ R a <;> by_cases h0 : R a ≤ 0 <;>
      simp [checkHyperparameter, Py.isInt, Py.isFloat, Py.asRat, mkUniformFloat, hle, h0] at hc
    exact hc.symm
  · intro items h hc hne
    have hany : (items.map Py.str).any Py.isStrOrBool = true := by
      cases items with
      | nil => exact absurd rfl hne
      | cons s ss => simp [Py.isStrOrBool]
    have hmap : (items.map Py.str).mapM Py.toVal? = some (items.map Val.str) := by
      clear hc hany hne
      induction items with
      | nil => rfl
      | cons s ss ih => simp [List.mapM_cons, Py.toVal?, ih]
    simp only [checkHyperparameter, hany, if_true, hmap, mkCategorical] at hc
    split at hc
    · simp at hc; exact hc.symm
    · simp at hc
  · intro v p hp
    simp [checkHyperparameter, hp]

/-- **C10 (support).**  Whatever the draw, whatever `L` and `E`: a value returned by the sampler
of a dimension is a member of the dimension (kind and bounds / one of the choices). -/
theorem C10_support (L E : Rat → Rat) (d : Dim) (hwf : d.wf = true) (prior : Option (List Rat))
    (w : Draw) (v : Val) (h : sampleDim L E d prior w = .ok v) : memDim d v = true :=
  sampleDim_member L E d hwf prior w v h

/-- **C10 (uniform integers).**  For both transforms the sampler of a uniform integer dimension
is the identity on the draw range `low..high`: every value of the range (both bounds included)
has exactly one pre-image among the `high - low + 1` equally likely integer draws, i.e. pre-image
measure exactly `1 / (high - low + 1)`. -/
theorem C10_uniform_int_law (L E : Rat → Rat) (lo hi : Int) (t : NumTr) (hlt : lo < hi)
    (prior : Option (List Rat)) (k r : Int) (hr : lo ≤ r ∧ r ≤ hi) :
    sampleDim L E (.int lo hi .uniform t) prior (.r r) = .ok (.int k) ↔ r = k := by
  rw [sample_int_uniform L E lo hi t hlt prior r hr]
  constructor
  · intro h; simpa using h
  · intro h; rw [h]

/-- **C10 (categories).**  With a non-negative prior, category `k` is drawn exactly for the
uniform numbers `u` of `(cum(k), cum(k+1)]`, an interval of length `prior[k]`: exactly the declared
prior (`1/n` each when none is declared).  In particular a category of positive weight has a
non-empty pre-image. -/
theorem C10_categorical_law (L E : Rat → Rat) (cs : List Val) (t : CatTr) (prior : List Rat)
    (hlen : prior.length = cs.length) (hnn : ∀ p ∈ prior, 0 ≤ p) (u s : Rat) (hu : 0 < u)
    (hu1 : u ≤ cumAt prior prior.length) (k : Nat) (hk : k < cs.length) (hnd : cs.Nodup) :
    (sampleDim L E (.cat cs t) (some prior) (.u u s) = .ok cs[k] ↔
      cumAt prior k < u ∧ u ≤ cumAt prior (k + 1)) ∧
    cumAt prior (k + 1) - cumAt prior k = prior[k]'(by omega) := by
  have hkp : k < prior.length := by omega
  refine ⟨?_, by rw [cumAt_succ prior k hkp]; ring⟩
  rw [← ppfIdx_eq_iff prior hnn u k hkp hu]
  simp only [sampleDim, priorOf, ppfIdx]
  cases hf : firstGe u 0 (cumsum 0 prior) with
  | none =>
    -- impossible: the last cumulative weight is ≥ u
    exfalso
    have hlast := cumsum_getElem? prior 0 (prior.length - 1) (by omega)
    have hmem : (0 + cumAt prior (prior.length - 1 + 1)) ∈ cumsum 0 prior := List.mem_of_getElem? hlast
    have := firstGe_none u _ 0 hf _ hmem
    have he : prior.length - 1 + 1 = prior.length := by omega
    rw [he] at this
    simp at this
    exact absurd hu1 (not_le.mpr this)
  | some i =>
    simp only
    constructor
    · intro h
      split at h
      · rename_i x hx
        simp at h; subst h
        have hi : i < cs.length := by
          by_contra hc
          rw [List.getElem?_eq_none (by omega)] at hx
          simp at hx
        rw [List.getElem?_eq_getElem hi] at hx
        have : i = k := (List.Nodup.getElem_inj_iff hnd).mp (by simpa using hx)
        rw [this]
      · simp at h
    · intro h
      simp at h
      subst h
      simp [List.getElem?_eq_getElem hk]

/-- **C10 (uniform reals).**  The sampler of a uniform real dimension (identity transform) is
`u ↦ clip(low + u·s)`: affine in `u` — hence uniform — as long as `low + u·s` stays inside
`[low, high]` (`s ≥ high - low` is the scale of `_uniform_inclusive`; the clip only acts on the
last ulp). -/
theorem C10_real_uniform_affine (L E : Rat → Rat) (lo hi : Rat) (prior : Option (List Rat)) (u s : Rat) :
    sampleDim L E (.real lo hi .uniform .identity) prior (.u u s) = .ok (.num (clip lo hi (lo + u * s))) ∧
    (lo ≤ lo + u * s → lo + u * s ≤ hi →
      sampleDim L E (.real lo hi .uniform .identity) prior (.u u s) = .ok (.num (lo + u * s))) := by
  have ht : ((Dim.real lo hi .uniform .identity).transformer L).inverse E (.vals [.num (lo + u * s)]) =
      .ok (.vals [.num (lo + u * s)]) := runInverse_one E _ _ _ (identity_inverse E _)
  have h := inverse_single_real L E lo hi .uniform .identity _ _ ht
  have h1 : sampleDim L E (.real lo hi .uniform .identity) prior (.u u s) =
      .ok (.num (clip lo hi (lo + u * s))) := by
    simp [sampleDim, rvsTransformed, h]
  refine ⟨h1, ?_⟩
  intro h2 h3
  rw [h1, clip_id lo hi _ h2 h3]

/-- **C10 (log-uniform reals).**  For every strictly monotone `L` with right inverse `E` on
`[L low, L high]`: `L (sample u) = L low + u·s` — affine in `u`, i.e. the sample is uniform in log
space — whenever `L low + u·s` is inside `[L low, L high]`. -/
theorem C10_log_uniform_affine (L E : Rat → Rat) (hS : StrictMonoOn L) (lo hi : Rat) (hpos : 0 < lo)
    (hlh : lo ≤ hi) (hR : RightInvOn L E (L lo) (L hi)) (prior : Option (List Rat)) (u s : Rat)
    (h1 : L lo ≤ L lo + u * s) (h2 : L lo + u * s ≤ L hi) :
    ∃ x, sampleDim L E (.real lo hi .logUniform .identity) prior (.u u s) = .ok (.num x) ∧
      L x = L lo + u * s ∧ lo ≤ x ∧ x ≤ hi := by
  have hE := E_in_range L E hS lo hi hpos hlh hR _ h1 h2
  have hl := logN_inverse E [L lo + u * s]
  have ht : ((Dim.real lo hi .logUniform .identity).transformer L).inverse E (.vals [.num (L lo + u * s)]) =
      .ok (.vals [.num (E (L lo + u * s))]) := runInverse_one E _ _ _ (by simpa using hl)
  have h := inverse_single_real L E lo hi .logUniform .identity _ _ ht
  refine ⟨E (L lo + u * s), ?_, (hR _ h1 h2).1, hE.1, hE.2⟩
  simp [sampleDim, rvsTransformed, h, clip_id lo hi _ hE.1 hE.2]

/-- **C10 (log-uniform reals, normalized space).**  With `transform="normalize"` (GP surrogate)
the draw `t = u·s ∈ [0, 1]` of the normalized space is de-normalized to the exponent
`L low + t·(L high - L low)`: `L (sample u)` is affine in `u` on the normalized scale as well, and the
sample is inside the bounds. -/
theorem C10_log_uniform_normalized_affine (L E : Rat → Rat) (hS : StrictMonoOn L) (lo hi : Rat)
    (hpos : 0 < lo) (hlt : lo < hi) (hR : RightInvOn L E (L lo) (L hi)) (prior : Option (List Rat))
    (u s : Rat) (h0 : 0 ≤ u * s) (h1 : u * s ≤ 1) :
    ∃ x, sampleDim L E (.real lo hi .logUniform .normalize) prior (.u u s) = .ok (.num x) ∧
      L x = L lo + u * s * (L hi - L lo) ∧ lo ≤ x ∧ x ≤ hi := by
  have hL : L lo < L hi := hS lo hi hpos hlt
  have a1 : L lo ≤ L lo + u * s * (L hi - L lo) := by nlinarith
  have a2 : L lo + u * s * (L hi - L lo) ≤ L hi := by nlinarith
  have hE := E_in_range L E hS lo hi hpos (le_of_lt hlt) hR _ a1 a2
  refine ⟨E (L lo + u * s * (L hi - L lo)), ?_, (hR _ a1 a2).1, hE.1, hE.2⟩
  rw [sample_real_log_normalize L E lo hi prior u s h0 h1, clip_id lo hi _ hE.1 hE.2]

/-- **C10 (integer log-uniform, flat path: the law).**  `Integer(prior="log-uniform")` samples
`round(clip(E a))` where `a` is the exponent: `a = L low + u·s` under the identity transform,
`a = L low + u·s·(L high - L low)` under `normalize`.  For every strictly monotone `L` with right
inverse `E` and every `k` of `low..high`, with `(c₁, c₂) = flatCell low high k`
`= [k - 1/2, k + 1/2] ∩ [low, high]`: every exponent strictly between `L c₁` and `L c₂` gives `k`,
and `k` is only given by exponents of `[L c₁, L c₂]`.  Since `a` is affine in `u`, the pre-image of
`k` is (up to its two end points, a null set decided by half-to-even rounding) the `u`-interval
mapped onto `(L c₁, L c₂)`, of measure `(L c₂ - L c₁) / (L high - L low)`: the law the harness
tests the flat path and the GP-normalized optimizer against. -/
theorem C10_int_log_flat_law (L E : Rat → Rat) (hS : StrictMonoOn L) (lo hi : Int) (hpos : 0 < lo)
    (hlt : lo < hi) (hR : RightInvOn L E (L (lo : Rat)) (L (hi : Rat))) (prior : Option (List Rat))
    (k : Int) (hk : lo ≤ k ∧ k ≤ hi) (u s : Rat) :
    -- identity transform
    (let a := L (lo : Rat) + u * s
     L (lo : Rat) ≤ a → a ≤ L (hi : Rat) →
      (L (flatCell lo hi k).1 < a → a < L (flatCell lo hi k).2 →
        sampleDim L E (.int lo hi .logUniform .identity) prior (.u u s) = .ok (.int k)) ∧
      (sampleDim L E (.int lo hi .logUniform .identity) prior (.u u s) = .ok (.int k) →
        L (flatCell lo hi k).1 ≤ a ∧ a ≤ L (flatCell lo hi k).2)) ∧
    -- normalize transform
    (let a := L (lo : Rat) + u * s * (L (hi : Rat) - L (lo : Rat))
     0 ≤ u * s → u * s ≤ 1 →
      (L (flatCell lo hi k).1 < a → a < L (flatCell lo hi k).2 →
        sampleDim L E (.int lo hi .logUniform .normalize) prior (.u u s) = .ok (.int k)) ∧
      (sampleDim L E (.int lo hi .logUniform .normalize) prior (.u u s) = .ok (.int k) →
        L (flatCell lo hi k).1 ≤ a ∧ a ≤ L (flatCell lo hi k).2)) := by
  constructor
  · intro a h1 h2
    obtain ⟨c1, c2⟩ := int_log_cell L E hS lo hi hpos hlt hR a h1 h2 k hk
    rw [sample_int_log_identity]
    constructor
    · intro x1 x2; rw [c1 x1 x2]
    · intro h; exact c2 (by simpa using h)
  · intro a h0 h1
    have hposq : (0 : Rat) < (lo : Rat) := by exact_mod_cast hpos
    have hltq : (lo : Rat) < (hi : Rat) := by exact_mod_cast hlt
    have hL : L (lo : Rat) < L (hi : Rat) := hS _ _ hposq hltq
    have a1 : L (lo : Rat) ≤ a := by show L (lo : Rat) ≤ L (lo : Rat) + u * s * (L (hi : Rat) - L (lo : Rat)); nlinarith
    have a2 : a ≤ L (hi : Rat) := by show L (lo : Rat) + u * s * (L (hi : Rat) - L (lo : Rat)) ≤ L (hi : Rat); nlinarith
    obtain ⟨c1, c2⟩ := int_log_cell L E hS lo hi hpos hlt hR a a1 a2 k hk
    rw [sample_int_log_normalize L E lo hi prior u s h0 h1]
    constructor
    · intro x1 x2; rw [c1 x1 x2]
    · intro h; exact c2 (by simpa using h)

/-- **C10 (integer log-uniform, ConfigSpace's law).**  The model of ConfigSpace's sampler
(`csIntLogSample`: `quantize_log` of `exp(ln low + u·(ln high - ln low))` into `high - low + 1` equal
bins of `[low, high]`) gives `low + j` exactly for the exponents `a = L low + u·(L high - L low)` with
`L c₁ ≤ a < L c₂`, `(c₁, c₂) = csCell low high j = [low + j·w, low + (j+1)·w)`,
`w = (high - low)/(high - low + 1)` (the last bin is closed): a `u`-interval of measure
`(L c₂ - L c₁)/(L high - L low)`, the law the harness tests the ConfigSpace path and `RandomSearch`
against.  (ConfigSpace itself is external: this is a theorem about its model, which is compared with
`hp.sample_value` under a scripted stream on every run.) -/
theorem C10_int_log_configspace_law (L E : Rat → Rat) (hS : StrictMonoOn L) (lo hi : Int) (hpos : 0 < lo)
    (hlt : lo < hi) (hR : RightInvOn L E (L (lo : Rat)) (L (hi : Rat))) (u : Rat) (hu0 : 0 ≤ u) (hu1 : u ≤ 1)
    (j : Int) (hj0 : 0 ≤ j) (hj1 : j ≤ hi - lo) :
    let a := L (lo : Rat) + u * (L (hi : Rat) - L (lo : Rat))
    csIntLogSample L E lo hi u = lo + j ↔
      L (csCell lo hi j).1 ≤ a ∧ (a < L (csCell lo hi j).2 ∨ j = hi - lo) := by
  intro a
  have hposq : (0 : Rat) < (lo : Rat) := by exact_mod_cast hpos
  have hltq : (lo : Rat) < (hi : Rat) := by exact_mod_cast hlt
  have hL : L (lo : Rat) < L (hi : Rat) := hS _ _ hposq hltq
  have a1 : L (lo : Rat) ≤ a := by show L (lo : Rat) ≤ L (lo : Rat) + u * (L (hi : Rat) - L (lo : Rat)); nlinarith
  have a2 : a ≤ L (hi : Rat) := by show L (lo : Rat) + u * (L (hi : Rat) - L (lo : Rat)) ≤ L (hi : Rat); nlinarith
  have hE := E_in_range L E hS lo hi hposq (le_of_lt hltq) hR a a1 a2
  obtain ⟨hLE, hEpos⟩ := hR a a1 a2
  have hq := csQuantize_cell lo hi hlt (E a) hE.1 hE.2 j hj0 hj1
  show csQuantize lo hi (E a) = lo + j ↔ _
  rw [hq]
  have hb : (0 : Rat) < (((hi - lo + 1 : Int)) : Rat) := by
    have : (0 : Int) < hi - lo + 1 := by omega
    exact_mod_cast this
  have hw : (0 : Rat) ≤ ((hi : Rat) - (lo : Rat)) / (((hi - lo + 1 : Int)) : Rat) :=
    div_nonneg (by linarith) (le_of_lt hb)
  have hj0q : (0 : Rat) ≤ (j : Rat) := by exact_mod_cast hj0
  have hc1 : 0 < (csCell lo hi j).1 := by
    unfold csCell; simp only
    have := mul_nonneg hj0q hw
    linarith
  have hc2 : 0 < (csCell lo hi j).2 := by
    unfold csCell; simp only
    have : (0 : Rat) ≤ ((j : Rat) + 1) * (((hi : Rat) - (lo : Rat)) / (((hi - lo + 1 : Int)) : Rat)) :=
      mul_nonneg (by linarith) hw
    linarith
  constructor
  · intro ⟨h1, h2⟩
    refine ⟨by rw [← hLE]; exact mono_of_strict L hS _ _ hc1 h1, ?_⟩
    rcases h2 with h2 | h2
    · left; rw [← hLE]; exact hS _ _ hEpos h2
    · right; exact h2
  · intro ⟨h1, h2⟩
    rw [← hLE] at h1
    refine ⟨le_of_L_le L hS _ _ hEpos h1, ?_⟩
    rcases h2 with h2 | h2
    · left; rw [← hLE] at h2; exact lt_of_L_lt L hS _ _ hc2 h2
    · right; exact h2

/-- **C10 (pre-images of the finite supports and of the bounds are non-empty).**
Every integer of a uniform range is produced by the draw equal to it; under the exact hypotheses
on `L`, `E` every integer of a log-uniform range `low..high` is produced by some `u ∈ [0, 1]`;
both bounds of a uniform real range are produced (`u = 0`, and `u = 1` for every scale
`s ≥ high - low`). -/
theorem C10_preimage_nonempty (L E : Rat → Rat) (prior : Option (List Rat)) :
    (∀ lo hi : Int, ∀ t, lo < hi → ∀ k, lo ≤ k → k ≤ hi →
      sampleDim L E (.int lo hi .uniform t) prior (.r k) = .ok (.int k)) ∧
    (MonoOn L → InvOn L E → ∀ lo hi : Int, 0 < lo → lo < hi → ∀ k, lo ≤ k → k ≤ hi →
      ∃ u : Rat, 0 ≤ u ∧ u ≤ 1 ∧
        sampleDim L E (.int lo hi .logUniform .identity) prior
          (.u u (L (hi : Rat) - L (lo : Rat))) = .ok (.int k)) ∧
    (∀ lo hi s : Rat, lo < hi → hi - lo ≤ s →
      sampleDim L E (.real lo hi .uniform .identity) prior (.u 0 s) = .ok (.num lo) ∧
      sampleDim L E (.real lo hi .uniform .identity) prior (.u 1 s) = .ok (.num hi)) := by
  refine ⟨?_, ?_, ?_⟩
  · intro lo hi t hlt k h1 h2
    exact sample_int_uniform L E lo hi t hlt prior k ⟨h1, h2⟩
  · intro hM hI lo hi hpos hlt k h1 h2
    have hposq : (0 : Rat) < (lo : Rat) := by exact_mod_cast hpos
    have hltq : (lo : Rat) < (hi : Rat) := by exact_mod_cast hlt
    have hk1 : (lo : Rat) ≤ (k : Rat) := by exact_mod_cast h1
    have hk2 : (k : Rat) ≤ (hi : Rat) := by exact_mod_cast h2
    have hkpos : (0 : Rat) < (k : Rat) := lt_of_lt_of_le hposq hk1
    have hL := L_strict L E hM hI lo hi hposq hltq
    have hr := norm_range (L k) (L lo) (L hi) hL (hM lo k hposq hk1) (hM k hi hkpos hk2)
    refine ⟨(L k - L lo) / (L hi - L lo), hr.1, hr.2, ?_⟩
    have harg : L (lo : Rat) + (L (k : Rat) - L lo) / (L hi - L lo) * (L hi - L lo) = L k := by
      have := norm_denorm (L k) (L lo) (L hi) hL
      linarith
    have hl := logN_inverse E [L (k : Rat)]
    have ht : ((Dim.int lo hi .logUniform .identity).transformer L).inverse E (.vals [.num (L (k : Rat))]) =
        .ok (.vals [.num (k : Rat)]) := runInverse_one E _ _ _ (by simpa [hI k hkpos] using hl)
    have h := inverse_single_int L E lo hi .logUniform .identity _ (.num (k : Rat)) (k : Rat) rfl ht
    simp [sampleDim, rvsTransformed, harg, h, clip_id _ _ _ hk1 hk2, roundHalfEven_intCast]
  · intro lo hi s hlt hs
    obtain ⟨h0, _⟩ := C10_real_uniform_affine L E lo hi prior 0 s
    obtain ⟨h1, _⟩ := C10_real_uniform_affine L E lo hi prior 1 s
    constructor
    · rw [h0]; simp [clip_id lo hi lo (le_refl _) (le_of_lt hlt)]
    · rw [h1]
      have : hi ≤ lo + 1 * s := by linarith
      simp only [clip]
      have h2 : ¬ lo + 1 * s < lo := by linarith
      rw [if_neg h2]
      by_cases h3 : hi < lo + 1 * s
      · rw [if_pos h3]
      · rw [if_neg h3]
        have : lo + 1 * s = hi := le_antisymm (not_lt.mp h3) this
        rw [this]

/-- **C10 (every category of positive weight is reachable).** -/
theorem C10_category_reachable (L E : Rat → Rat) (cs : List Val) (t : CatTr) (prior : List Rat)
    (hlen : prior.length = cs.length) (hnn : ∀ p ∈ prior, 0 ≤ p) (hnd : cs.Nodup) (s : Rat)
    (k : Nat) (hk : k < cs.length) (hpos : 0 < prior[k]'(by omega)) :
    ∃ u : Rat, 0 < u ∧ u ≤ cumAt prior prior.length ∧
      sampleDim L E (.cat cs t) (some prior) (.u u s) = .ok cs[k] := by
  have hkp : k < prior.length := by omega
  have h0 : 0 ≤ cumAt prior k := by
    have := cumAt_mono prior hnn 0 k (by omega)
    simpa [cumAt] using this
  have hsucc := cumAt_succ prior k hkp
  have hu : 0 < cumAt prior (k + 1) := by rw [hsucc]; linarith
  have hu1 : cumAt prior (k + 1) ≤ cumAt prior prior.length := cumAt_mono prior hnn _ _ (by omega)
  refine ⟨cumAt prior (k + 1), hu, hu1, ?_⟩
  exact ((C10_categorical_law L E cs t prior hlen hnn _ s hu hu1 k hk hnd).1).mpr
    ⟨by rw [hsucc]; linarith, le_refl _⟩

/-- **C10 (uniform reals, normalized space).**  With `transform="normalize"` (GP surrogate) the
sampler is `u ↦ clip(low + u·s·(high - low))`: still affine in `u`. -/
theorem C10_real_uniform_normalized_affine (L E : Rat → Rat) (lo hi : Rat) (prior : Option (List Rat))
    (u s : Rat) (h0 : 0 ≤ u * s) (h1 : u * s ≤ 1) :
    sampleDim L E (.real lo hi .uniform .normalize) prior (.u u s) =
      .ok (.num (clip lo hi (lo + u * s * (hi - lo)))) := by
  have hn := normalize_inverse E lo hi false [0 + u * s] (by
    intro x hx; simp at hx; subst hx; constructor <;> linarith)
  simp only [List.map_cons, List.map_nil] at hn
  have ht : ((Dim.real lo hi .uniform .normalize).transformer L).inverse E (.vals [.num (0 + u * s)]) =
      .ok (.vals [.num ((0 + u * s) * (hi - lo) + lo)]) := by
    refine runInverse_two E _ _ _ _ _ ?_ (identity_inverse E _)
    simpa using hn
  have h := inverse_single_real L E lo hi .uniform .normalize _ _ ht
  have e : (0 + u * s) * (hi - lo) + lo = lo + u * s * (hi - lo) := by ring
  simp only [sampleDim, rvsTransformed, h, e]

/-- **C10 (flat path).**  Every row `Space.rvs` builds from per-dimension draws — one child
stream per dimension, any draws, any `L`, `E` — is a point of the converted space. -/
theorem C10_flat_support (L E : Rat → Rat) (dims : List SkoptDim) (hwf : ∀ d ∈ dims, d.dim.wf = true)
    (draws : List (List Draw)) (rows : List (List Val))
    (h : rvsFlatRows L E dims draws = .ok rows) : ∀ r ∈ rows, memRow (dims.map (·.dim)) r = true := by
  unfold rvsFlatRows at h
  cases hc : rvsFlat L E dims draws with
  | error e => simp [hc] at h
  | ok cols =>
    simp only [hc] at h
    have hm : colsMem (dims.map (·.dim)) cols := by
      clear h
      induction dims generalizing draws cols with
      | nil => simp [rvsFlat] at hc; subst hc; trivial
      | cons d ds ih =>
        cases draws with
        | nil => simp [rvsFlat] at hc
        | cons ws wss =>
          simp only [rvsFlat] at hc
          cases h1 : mapE (sampleDim L E d.dim d.prior) ws with
          | error e => simp [h1] at hc
          | ok col =>
            cases h2 : rvsFlat L E ds wss with
            | error e => simp [h1, h2] at hc
            | ok rest =>
              simp [h1, h2] at hc
              subst hc
              refine ⟨?_, ih (fun d' hd' => hwf d' (by simp [hd'])) wss rest h2⟩
              intro v hv
              obtain ⟨w, _, hw⟩ := (mapE_ok_inv _ ws col h1).2 v hv
              exact sampleDim_member L E d.dim (hwf d (by simp)) d.prior w v hw
    cases cols with
    | nil => simp [transposeCols] at h
    | cons c0 rest =>
      simp only [transposeCols] at h
      exact transposeAux_mem _ _ _ rows hm h

/-- **C10 (ConfigSpace path, RandomSearch).**  If every value ConfigSpace put in the sampled
configuration is a member of its dimension (the contract of ConfigSpace's sampler), the point
built from it — inactive hyperparameters filled with the lower bound / first choice — is a point of
the space. -/
theorem C10_configspace_point_support (conf : List (String × Val)) :
    ∀ (dims : List SkoptDim), (∀ d ∈ dims, d.dim.wf = true) →
    (∀ d ∈ dims, ∀ v, conf.lookup d.name = some v → memDim d.dim v = true) →
    ∀ row : List Val, pointOfConf dims conf = .ok row → memRow (dims.map (·.dim)) row = true
  | [], _, _, row, h => by
    simp [pointOfConf, mapE] at h; subst h; rfl
  | d :: ds, hwf, hconf, row, h => by
    simp only [pointOfConf, mapE] at h
    cases h1 : confCell conf d with
    | error e => simp [h1] at h
    | ok v =>
      cases h2 : mapE (confCell conf) ds with
      | error e => simp [h1, h2] at h
      | ok rest =>
        simp [h1, h2] at h; subst h
        simp only [List.map_cons, memRow, Bool.and_eq_true]
        exact ⟨confCell_member conf d (hwf d (by simp)) (hconf d (by simp)) v h1,
          C10_configspace_point_support conf ds (fun d' hd' => hwf d' (by simp [hd']))
            (fun d' hd' => hconf d' (by simp [hd'])) rest h2⟩

/-! ### verified checker: sampled points against the declarations, name by name -/

/-- **C10 (checker = specification).**  `checkPoint` accepts exactly when the point has one value
per hyperparameter and value `j` is allowed (value and Python kind) by declaration `j`, the
hyperparameters being listed in the order of `problem.hyperparameter_names`. -/
theorem C10_checker_point (loose : Bool) (hps : List CsHp) (row : List Val) :
    checkPoint loose hps row = true ↔
      hps.length = row.length ∧
        ∀ (j : Nat) (h : CsHp) (v : Val), hps[j]? = some h → row[j]? = some v → legalValue loose h v = true := by
  simp only [checkPoint, all2_iff]

/-- **C10 (declared-legal ⇒ member of the converted space).**  A value the declaration allows
(strict mode) is a member of the dimension the declaration is converted to, so a point accepted by
`checkPoint` is a point of the converted space. -/
theorem C10_legal_member (h : CsHp) (sur : String) (d : SkoptDim) (hd : toSkoptDim h sur = .ok d)
    (v : Val) (hl : legalValue false h v = true) : memDim d.dim v = true := by
  cases h with
  | uniformInt n lo hi log =>
    simp [toSkoptDim] at hd; subst hd
    cases v <;> simp [legalValue] at hl
    simp [memDim, hl]
  | uniformFloat n lo hi log =>
    simp [toSkoptDim] at hd; subst hd
    cases v <;> simp [legalValue] at hl
    simp [memDim, hl]
  | categorical n ch w =>
    simp [toSkoptDim] at hd; subst hd
    simp [legalValue] at hl
    simp [memDim, hl]
  | ordinal n seq =>
    simp [toSkoptDim] at hd; subst hd
    simp [legalValue] at hl
    simp [memDim, hl]
  | constant n c =>
    simp [toSkoptDim] at hd; subst hd
    simp [legalValue] at hl
    simp [memDim, hl]
  | other n => simp [toSkoptDim] at hd

/-! ### non-vacuity and regression witnesses -/

example : convertToSkoptSpace
    [.categorical "act" [.str "relu", .str "tanh"] (some [9/10, 1/10]), .uniformFloat "lr" (1/1000) 1 true,
     .uniformInt "units" 1 64 false, .ordinal "k" [.int 1, .int 2, .int 4], .constant "c" (.int 5)] 0 0 "RF" =
    .ok ([⟨"act", .cat [.str "relu", .str "tanh"] .label, some [9/10, 1/10]⟩,
          ⟨"lr", .real (1/1000) 1 .logUniform .identity, none⟩,
          ⟨"units", .int 1 64 .uniform .identity, none⟩,
          ⟨"k", .cat [.int 1, .int 2, .int 4] .identity, none⟩,
          ⟨"c", .cat [.int 5] .label, none⟩], false) := by
  simp [convertToSkoptSpace, mapC, toSkoptDim, ruleBased, Val.isNumeric]

/-- the hypotheses of `C10_log_uniform_affine` are satisfiable (`L = E = id`) -/
example : StrictMonoOn (fun x => x) ∧ RightInvOn (fun x => x) (fun x => x) 1 8 :=
  ⟨fun _ _ _ h => h, fun t h1 _ => ⟨rfl, lt_of_lt_of_le (by norm_num) h1⟩⟩

/-- categories: `u = 0.5` with prior (0.2, 0.5, 0.3) draws the second category -/
example : (sampleDim (fun x => x) (fun x => x) (.cat [.str "a", .str "b", .str "c"] .normalize)
    (some [1/5, 1/2, 3/10]) (.u (1/2) 1)).toOption = some (.str "b") := by decide +kernel

/-- 10a, before the fix: the normalized integer sampler rounded a uniform number of [0, 1]:
`Integer(1, 4)` got the value 1 only for `u < 1/6` (measure 1/6, not 1/4) -/
example : (sampleNormalizedOld (fun x => x) (fun x => x) (.int 1 4 .uniform .normalize) (4/25)).toOption =
    some (.int 1) := by decide +kernel
example : (sampleNormalizedOld (fun x => x) (fun x => x) (.int 1 4 .uniform .normalize) (17/100)).toOption =
    some (.int 2) := by decide +kernel
/-- 10a, before the fix: three categories under `normalize` got 1/4, 1/2, 1/4 -/
example : (sampleNormalizedOld (fun x => x) (fun x => x) (.cat [.str "a", .str "b", .str "c"] .normalize) (26/100)).toOption =
    some (.str "b") := by decide +kernel
example : (sampleNormalizedOld (fun x => x) (fun x => x) (.cat [.str "a", .str "b", .str "c"] .normalize) (74/100)).toOption =
    some (.str "b") := by decide +kernel
/-- after the fix every integer draw of `1..4` gives itself, under both transforms -/
example : ([1, 2, 3, 4].map (fun k => (sampleDim (fun x => x) (fun x => x) (.int 1 4 .uniform .normalize) none (.r k)).toOption)) =
    [some (.int 1), some (.int 2), some (.int 3), some (.int 4)] := by decide +kernel

end DH.Space

/-! ## The stage between the sampler and the user (`Model/Proposal.lean`)

`Space.rvs` draws `n_points` candidates; `Optimizer._filter_duplicated` and `_ask_random_points` decide
which of them the user receives, and in which order (`Optimizer.ask` / `CBO.ask` in the initial phase).
The declared prior is honoured by what the user receives only if this stage depends on the candidates
through their DRAWING ORDER alone: these theorems say that it does, and what law follows. -/

namespace DH.Proposal

variable {α : Type} [DecidableEq α]

/-- **C10 (what is handed out, and in which order).**  For every history `sampled` and every list of
candidates: the filtered list is a sub-list of the candidates *in drawing order*; with the filter on,
if some candidate is not in the history, position `k` of the list (every `k`) is the first candidate
— in drawing order — that is neither in the history nor among the `k` configurations before it, and
if no candidate is new the candidates come back unfiltered; with the filter off they always do. -/
theorem C10_handout_drawing_order (on : Bool) (sampled cands : List α) :
    (filterDup on sampled cands).Sublist cands ∧
    (on = false → filterDup on sampled cands = cands) ∧
    (on = true → firstFresh sampled cands = none → filterDup on sampled cands = cands) ∧
    (on = true → firstFresh sampled cands ≠ none →
      ∀ k, (filterDup on sampled cands)[k]? =
        firstFresh (sampled ++ (filterDup on sampled cands).take k) cands) := by
  have key : on = true → firstFresh sampled cands ≠ none → filterDup on sampled cands = fresh sampled cands := by
    intro ho hf
    subst ho
    simp only [filterDup, if_true, filter_dedup_eq_fresh]
    have hne : (fresh sampled cands).isEmpty = false := by
      rw [fresh_chain]
      cases h : firstFresh sampled cands with
      | none => exact absurd h hf
      | some c => rfl
    simp [hne]
  have none' : on = true → firstFresh sampled cands = none → filterDup on sampled cands = cands := by
    intro ho hf
    subst ho
    simp only [filterDup, if_true, filter_dedup_eq_fresh]
    have : fresh sampled cands = [] := by rw [fresh_chain, hf]
    simp [this]
  refine ⟨?_, ?_, none', ?_⟩
  · cases on with
    | false => simp [filterDup]
    | true =>
      cases hf : firstFresh sampled cands with
      | none => rw [none' rfl hf]
      | some c => rw [key rfl (by simp [hf])]; exact fresh_sublist _ _
  · intro ho; subst ho; simp [filterDup]
  · intro ho hf k
    rw [key ho hf]
    exact fresh_getElem sampled cands k

/-- **C10 (`Optimizer.ask` in the initial phase).**  With the duplicate filter on and a candidate that
is not in the history: the single-point ask hands out exactly the first such candidate in drawing
order and appends it to the history; the batch ask (`n ≥ 2`) hands out the first `n` entries of the
list of `C10_handout_drawing_order` and appends them. -/
theorem C10_ask_initial (sampled cands : List α) (x : α) (hx : firstFresh sampled cands = some x) :
    ask true sampled cands none = .ok ([x], sampled ++ [x]) ∧
    ask true sampled cands (some 1) = .ok ([x], sampled ++ [x]) ∧
    ∀ n, 2 ≤ n → ask true sampled cands (some n) =
      .ok ((fresh sampled cands).take n, sampled ++ (fresh sampled cands).take n) := by
  have hfd : filterDup true sampled cands = fresh sampled cands := by
    simp only [filterDup, if_true, filter_dedup_eq_fresh]
    have : fresh sampled cands = x :: fresh (x :: sampled) cands := by rw [fresh_chain, hx]
    simp [this]
  have hhead : fresh sampled cands = x :: fresh (x :: sampled) cands := by rw [fresh_chain, hx]
  refine ⟨?_, ?_, ?_⟩
  · simp [ask, askRandomPoints, hfd, hhead]
  · simp [ask, askRandomPoints, hfd, hhead]
  · intro n hn
    have h0 : (some n : Option Nat) ≠ some 0 := by simp; omega
    have h1 : ¬ n ≤ 1 := by omega
    simp [ask, askRandomPoints, hfd, h1, h0]

/-- **C10 (law of the configuration handed out).**  Candidates drawn independently from a prior `p`
over a duplicate-free support: the mass of the candidate sequences of length `n` on which `v` — a
configuration of the support that is not in the history — is the first one handed out is
`p v · geom q T n`, where `T` is the total weight of the support, `q` the weight of the part of it
that is already in the history and `geom q T n = Σ_{i<n} q^i T^(n-1-i)` does NOT depend on `v`:
the configuration handed out follows the declared prior restricted to the configurations not handed
out before (for `T = 1`: probability `p v (1 - q^n) / (1 - q)`).  In particular two configurations of
equal prior weight are handed out with equal probability, whatever `n_points` is. -/
theorem C10_first_proposal_law (p : α → Rat) (support sampled : List α) (hnd : support.Nodup) (n : Nat)
    (v : α) (hv : v ∈ support) (hvs : v ∉ sampled) :
    massFirst p support sampled n v = p v * geom (totalIn p support sampled) (total p support) n ∧
    (∀ w, w ∈ support → w ∉ sampled →
      massFirst p support sampled n v * p w = massFirst p support sampled n w * p v) ∧
    (∀ w, w ∈ support → w ∉ sampled → p v = p w →
      massFirst p support sampled n v = massFirst p support sampled n w) := by
  have e : ∀ w, w ∈ support → w ∉ sampled →
      massFirst p support sampled n w = p w * geom (totalIn p support sampled) (total p support) n :=
    fun w hw hws => massFirst_eq p support sampled n w hws (List.count_eq_one_of_mem hnd hw)
  refine ⟨e v hv hvs, ?_, ?_⟩
  · intro w hw hws
    rw [e v hv hvs, e w hw hws]; ring
  · intro w hw hws hp
    rw [e v hv hvs, e w hw hws, hp]

omit [DecidableEq α] in
/-- all candidate sequences together have mass `T^n` (so for a normalized prior `massFirst` is a probability) -/
theorem C10_candidate_mass (p : α → Rat) (support : List α) (n : Nat) :
    massAll p support n = pw (total p support) n := massAll_eq p support n

/-! ### non-vacuity and regression witnesses -/

/-- history `[2]`, candidates drawn in the order 2, 1, 1, 3, 2, 0: handed out in drawing order 1, 3, 0 -/
example : filterDup true [2] [2, 1, 1, 3, 2, 0] = [1, 3, 0] := by decide
example : firstFresh [2] [2, 1, 1, 3, 2, 0] = some 1 := by decide
example : ask true [2] [2, 1, 1, 3, 2, 0] none = .ok ([1], [2, 1]) := by decide
example : ask true [2] [2, 1, 1, 3, 2, 0] (some 2) = .ok ([1, 3], [2, 1, 3]) := by decide
/-- nothing new among the candidates: they come back unfiltered (the code's fall-back) -/
example : filterDup true [1, 2] [2, 1, 1] = [2, 1, 1] := by decide
/-- a history on one optimizer: `ask()`, `ask(2)`, `ask()` -/
example : askMany true ([] : List Nat) [([3, 3, 1], none), ([3, 0, 1, 2], some 2), ([0, 1, 2, 2], none)] =
    [.ok [3], .ok [0, 1], .ok [2]] := by decide
/-- the hash-ordered filter of a seeded change (the survivors as a set, iterated in a fixed order —
here increasing) hands out 0 where the drawing order hands out 1: not a refinement of the model -/
example : (filterDup true [2] [2, 1, 1, 3, 2, 0]).head? ≠ some 0 := by decide
/-- uniform prior 1/3 on `{0, 1, 2}`, history `[0]`, two candidates: 1 and 2 are each handed out first
with mass `1/3 · (1/3 + 1) = 4/9`; the remaining `1/9` is the sequence `0, 0` -/
example : massFirst (fun _ => (1 : Rat) / 3) [0, 1, 2] [0] 2 1 = 4 / 9 ∧
    massFirst (fun _ => (1 : Rat) / 3) [0, 1, 2] [0] 2 2 = 4 / 9 ∧
    geom (totalIn (fun _ => (1 : Rat) / 3) [0, 1, 2] [0]) (total (fun _ => (1 : Rat) / 3) [0, 1, 2]) 2 = 4 / 3 := by
  decide +kernel
/-- a weighted prior (1/2, 1/3, 1/6): after `0` was handed out, `1` is twice as likely as `2` -/
example : massFirst (fun c => if c = 0 then (1 : Rat) / 2 else if c = 1 then 1 / 3 else 1 / 6) [0, 1, 2] [0] 3 1 =
    2 * massFirst (fun c => if c = 0 then (1 : Rat) / 2 else if c = 1 then 1 / 3 else 1 / 6) [0, 1, 2] [0] 3 2 := by
  decide +kernel

end DH.Proposal
