import Proofs.Files
import Proofs.FilesText
import Proofs.FilesEnv

/-!
# C15 — Results on disk survive crashes and are never destroyed by a new search

Property theorems only (model: `Model/Files.lean`, lemmas: `Proofs/Files.lean`).

A *history* is a list of processes (`Run`s) working one after the other in one `log_dir`; each
creates a search (`Search.__init__`, any `time.strftime` value — equal ones included), performs
any list of actions (run-functions returning, dumps after a gather with any split of the rows
into `write` calls, ends of `search()` calls with or without the Pareto rewrite, further
`Search.__init__`s, search objects constructed before any `results.csv` existed starting to act
later — `resume`) and is killed after `cut` events (any `cut`; a large one = not killed).
`searchFiles fixed s₀ runs` is the resulting sequence of system calls (+ ghost events); a crash
point is any prefix of it.  The only contract (`RunsOK`) is the evaluator's: a dump writes rows
only for jobs whose run-function has returned.

Assumed, not proved (DESIGN §3): one `write(2)`/`rename(2)` is atomic with respect to a kill; the
buffered text layer hands whole lines to `write` (observed on every run by the correspondence).
-/

namespace DH.Files

/-- header line, then at least one row and only complete rows, none with more cells than the header -/
def WellFormed (c : Content) : Prop :=
  ∃ e rows, c = Line.header e :: rows ∧ rows ≠ [] ∧
    ∀ l ∈ rows, ∃ j e', l = Line.row j e' ∧ (e' = true → e = true)

theorem wellFormed_iff (c : Content) : wellFormed c = true ↔ WellFormed c := by
  constructor
  · intro h
    cases c with
    | nil => simp [wellFormed] at h
    | cons x rows =>
      cases x with
      | header e =>
        simp only [wellFormed, Bool.and_eq_true, List.all_eq_true] at h
        refine ⟨e, rows, rfl, by cases rows <;> simp_all, ?_⟩
        intro l hl
        have := h.2 l hl
        cases l with
        | header e' => simp [rowOk] at this
        | row j e' => exact ⟨j, e', rfl, by cases e' <;> simp_all [rowOk]⟩
        | torn j => simp [rowOk] at this
      | row j e => simp [wellFormed] at h
      | torn j => simp [wellFormed] at h
  · rintro ⟨e, rows, rfl, hne, h⟩
    simp only [wellFormed, Bool.and_eq_true, List.all_eq_true]
    refine ⟨by cases rows <;> simp_all, ?_⟩
    intro l hl
    obtain ⟨j, e', rfl, he⟩ := h l hl
    cases e' <;> simp_all [rowOk]

/-- **C15 (crash points).**  For every history and EVERY crash point: `results.csv` is absent
(and then no dump of the current search had returned), or it is a header followed by complete rows,
every row belongs to an evaluation whose run-function had returned before the crash point, and
every evaluation whose dump had returned is among the rows (only rows not yet written are lost). -/
theorem C15_prefix_wellformed (s₀ : St) (h₀ : Vis s₀) (runs : List Run) (hok : RunsOK s₀ runs)
    (p : List Ev) (hp : p <+: searchFiles fixed s₀ runs) :
    let s := execAll s₀ p
    (get s.fs .results = none ∧ s.dumped = []) ∨
    ∃ c, get s.fs .results = some c ∧ WellFormed c ∧
      (∀ j ∈ jobsOf c, j ∈ s.done) ∧ (∀ j ∈ s.dumped, j ∈ jobsOf c) := by
  obtain ⟨q, hq⟩ := hp
  have hv := hist_vis runs s₀ h₀ hok p q hq.symm
  intro s
  unfold Vis at hv
  cases hr : get (execAll s₀ p).fs .results with
  | none => rw [hr] at hv; exact .inl ⟨rfl, hv⟩
  | some c => rw [hr] at hv; exact .inr ⟨c, rfl, (wellFormed_iff c).1 hv.1, hv.2.1, hv.2.2⟩

/-- the same, starting from an empty directory -/
theorem C15_prefix_wellformed_fresh (runs : List Run) (hok : RunsOK emptyDir runs)
    (p : List Ev) (hp : p <+: searchFiles fixed emptyDir runs) :
    let s := execAll emptyDir p
    (get s.fs .results = none ∧ s.dumped = []) ∨
    ∃ c, get s.fs .results = some c ∧ WellFormed c ∧
      (∀ j ∈ jobsOf c, j ∈ s.done) ∧ (∀ j ∈ s.dumped, j ∈ jobsOf c) :=
  C15_prefix_wellformed emptyDir rfl runs hok p hp

/-- **C15 (verified checker).**  The executable check the harness runs on the bytes found on
disk after every kill decides exactly that statement. -/
theorem C15_checker (c : Content) (done dumped : List Job) :
    wellFormedPrefix c done dumped = true ↔
      WellFormed c ∧ (∀ j ∈ jobsOf c, j ∈ done) ∧ (∀ j ∈ dumped, j ∈ jobsOf c) := by
  simp only [wellFormedPrefix, subsetB, Bool.and_eq_true, List.all_eq_true, List.contains_iff_mem,
    wellFormed_iff]
  exact ⟨fun ⟨⟨a, b⟩, c⟩ => ⟨a, b, c⟩, fun ⟨a, b, c⟩ => ⟨⟨a, b⟩, c⟩⟩

/-- **C15 (reload).**  A well-formed file is accepted by the model of what
`CBO.fit_surrogate` needs from it (`pd.read_csv`, failure filter, column selection), and what it
loads is exactly the rows. -/
theorem C15_reload (c : Content) (h : WellFormed c) : reload c = .ok (jobsOf c) := by
  obtain ⟨e, rows, rfl, hne, hr⟩ := h
  have hload : loadRows e rows = .ok (jobsOf rows) := by
    clear hne
    induction rows with
    | nil => rfl
    | cons l rows ih =>
      obtain ⟨j, e', rfl, he⟩ := hr l (by simp)
      have ih' := ih (fun l hl => hr l (List.mem_cons_of_mem _ hl))
      simp only [loadRows, jobsOf, ih']
      cases e' <;> cases e <;> simp_all
  cases rows with
  | nil => exact absurd rfl hne
  | cons l rows => simpa [reload, jobsOf] using hload

/-- conversely the loader model rejects every file that is empty, lacks its header, has no row, has
a row with too many cells or a header among the rows (only a torn row slips through) -/
theorem C15_reload_rejects (c : Content) (js : List Job) (h : reload c = .ok js)
    (hno : ∀ j, Line.torn j ∉ c) : WellFormed c := by
  cases c with
  | nil => simp [reload] at h
  | cons x rows =>
    cases x with
    | header e =>
      have hne : rows ≠ [] := by
        intro hr; subst hr; simp [reload] at h
      refine ⟨e, rows, rfl, hne, ?_⟩
      have h' : loadRows e rows = .ok js := by
        cases rows with
        | nil => exact absurd rfl hne
        | cons l rows => simpa [reload] using h
      clear h hne
      have hno' : ∀ j, Line.torn j ∉ rows := fun j hj => hno j (List.mem_cons_of_mem _ hj)
      clear hno
      induction rows generalizing js with
      | nil => simp
      | cons l rows ih =>
        cases l with
        | header e' => simp [loadRows] at h'
        | torn j => exact absurd (by simp) (hno' j)
        | row j e' =>
          simp only [loadRows] at h'
          split at h'
          · cases h'
          · rename_i hc
            cases hl : loadRows e rows with
            | error x => simp [hl] at h'
            | ok js' =>
              intro l hl'
              rcases List.mem_cons.1 hl' with rfl | hl'
              · exact ⟨j, e', rfl, by cases e' <;> cases e <;> simp_all⟩
              · exact ih js' hl (fun j hj => hno' j (List.mem_cons_of_mem _ hj)) l hl'
    | row j e => simp [reload] at h
    | torn j => simp [reload] at h

/-- **C15 (crash, then reload).**  At every crash point where `results.csv` exists the loader
model accepts it and returns only evaluations that had finished. -/
theorem C15_reload_at_crash (s₀ : St) (h₀ : Vis s₀) (runs : List Run) (hok : RunsOK s₀ runs)
    (p : List Ev) (hp : p <+: searchFiles fixed s₀ runs) (c : Content)
    (hc : get (execAll s₀ p).fs .results = some c) :
    ∃ js, reload c = .ok js ∧ ∀ j ∈ js, j ∈ (execAll s₀ p).done := by
  rcases C15_prefix_wellformed s₀ h₀ runs hok p hp with ⟨h1, _⟩ | ⟨c', h1, h2, h3, _⟩
  · rw [h1] at hc; cases hc
  · rw [h1] at hc; cases hc
    exact ⟨jobsOf c, C15_reload c h2, h3⟩

/-- **C15 (nothing is destroyed).**  For every history (any number of searches created in the
`log_dir`, ANY `time.strftime` values including equal ones, any kill points) and any two crash
points, the earlier before the later: every backup file and every foreign file of the earlier
directory is still there with the same content, and the earlier `results.csv` is still there —
under its own name with at least the same rows, or under a backup name that was free before. -/
theorem C15_no_destroy (s₀ : St) (h₀ : Vis s₀) (runs : List Run) (hok : RunsOK s₀ runs)
    (p₁ p₂ : List Ev) (h12 : p₁ <+: p₂) (hp : p₂ <+: searchFiles fixed s₀ runs) :
    Grows (execAll s₀ p₁).fs (execAll s₀ p₂).fs := by
  obtain ⟨r, rfl⟩ := h12
  obtain ⟨q, hq⟩ := hp
  exact hist_grows runs s₀ h₀ hok r p₁ q hq.symm

def IsResultFile : Name → Prop
  | .results => True
  | .backup _ _ => True
  | _ => False

/-- **C15 (multiset form).**  Between any two crash points there is an injection from the result
files of the earlier directory to those of the later one under which every content is kept:
the multiset of result files' contents only grows. -/
theorem C15_no_destroy_multiset (s₀ : St) (h₀ : Vis s₀) (runs : List Run) (hok : RunsOK s₀ runs)
    (p₁ p₂ : List Ev) (h12 : p₁ <+: p₂) (hp : p₂ <+: searchFiles fixed s₀ runs) :
    ∃ f : Name → Name,
      (∀ a b, IsResultFile a → IsResultFile b →
        (get (execAll s₀ p₁).fs a).isSome → (get (execAll s₀ p₁).fs b).isSome → f a = f b → a = b) ∧
      ∀ a c, IsResultFile a → get (execAll s₀ p₁).fs a = some c →
        IsResultFile (f a) ∧ ∃ c', get (execAll s₀ p₂).fs (f a) = some c' ∧ Keeps c c' := by
  have hg := C15_no_destroy s₀ h₀ runs hok p₁ p₂ h12 hp
  generalize (execAll s₀ p₁).fs = fs at hg
  generalize (execAll s₀ p₂).fs = fs' at hg
  have hid : ∀ st k c, get fs (.backup st k) = some c →
      ∃ c', get fs' (.backup st k) = some c' ∧ Keeps c c' :=
    fun st k c h => ⟨c, hg.backups st k c h, Keeps.refl c⟩
  cases hr : get fs .results with
  | none =>
    refine ⟨id, fun _ _ _ _ _ _ h => h, ?_⟩
    intro a c ha hc
    cases a with
    | results => rw [hr] at hc; cases hc
    | backup st k => exact ⟨trivial, hid st k c hc⟩
    | tmp => exact absurd ha (by simp [IsResultFile])
    | other x => exact absurd ha (by simp [IsResultFile])
  | some c₀ =>
    rcases hg.results c₀ hr with ⟨c', h1, h2⟩ | ⟨st, k, c', h0, h1, h2⟩
    · refine ⟨id, fun _ _ _ _ _ _ h => h, ?_⟩
      intro a c ha hc
      cases a with
      | results => rw [hr] at hc; cases hc; exact ⟨trivial, c', h1, h2⟩
      | backup st k => exact ⟨trivial, hid st k c hc⟩
      | tmp => exact absurd ha (by simp [IsResultFile])
      | other x => exact absurd ha (by simp [IsResultFile])
    · refine ⟨fun n => if n = .results then .backup st k else n, ?_, ?_⟩
      · intro a b _ _ hsa hsb hab
        by_cases h1 : a = .results <;> by_cases h2 : b = .results
        · rw [h1, h2]
        · simp only [h1, h2, if_true, if_false] at hab
          rw [← hab, h0] at hsb; cases hsb
        · simp only [h1, h2, if_true, if_false] at hab
          rw [hab, h0] at hsa; cases hsa
        · simpa [h1, h2] using hab
      · intro a c ha hc
        cases a with
        | results => rw [hr] at hc; cases hc; exact ⟨trivial, c', by simpa using h1, h2⟩
        | backup st' k' => exact ⟨trivial, by simpa using hid st' k' c hc⟩
        | tmp => exact absurd ha (by simp [IsResultFile])
        | other x => exact absurd ha (by simp [IsResultFile])

/-- **C15 (backup name).**  The name `Search.__init__` renames an existing `results.csv` to is
never the name of an existing file — whatever the time stamp and however many earlier backups
carry the same stamp. -/
theorem C15_backup_name_free (fs : FS) (stamp : String) : get fs (backupName fs stamp) = none :=
  backupName_free fs stamp

/-- **C15 (torn write, what the atomicity assumption buys).**  The theorems above take one
`write(2)` as atomic.  If instead the kernel cuts the write that is executing at a crash point
short inside a line `l` of its payload (`a` = the complete lines before it): a write to
`results.csv.tmp` leaves `results.csv` untouched (first dump and Pareto rewrite are immune); an
append to `results.csv` leaves the earlier content, the complete lines and ONE incomplete last line
of a job that had finished — everything but the last line is still a well-formed, truthful table
holding every row whose dump had returned. -/
theorem C15_torn_write (s₀ : St) (h₀ : Vis s₀) (runs : List Run) (hok : RunsOK s₀ runs)
    (p q : List Ev) (n : Name) (c : List Line)
    (hT : searchFiles fixed s₀ runs = p ++ .sys (.write n c) :: q)
    (a : List Line) (l : Line) (b : List Line) (hc : c = a ++ l :: b) :
    let s := execAll s₀ p
    let s' := exec s (.sys (.write n (tornPayload a l)))
    (n = .tmp ∧ get s'.fs .results = get s.fs .results) ∨
    (n = .results ∧ ∃ c0 j, l = .row j false ∧ j ∈ s.done ∧
      get s'.fs .results = some ((c0 ++ a) ++ [.torn j]) ∧ WellFormed (c0 ++ a) ∧
      (∀ j ∈ jobsOf (c0 ++ a), j ∈ s.done) ∧ (∀ j ∈ s.dumped, j ∈ jobsOf (c0 ++ a))) := by
  obtain ⟨pend, hi⟩ := hist_inv runs s₀ h₀ hok p _ q hT
  rcases torn_write hi a l b hc with h | ⟨hn, c0, j, h1, h2, h3, h4, h5, h6⟩
  · exact .inl h
  · exact .inr ⟨hn, c0, j, h1, h2, h3, (wellFormed_iff _).1 h4, h5, h6⟩

/-- the loader model lets such a file through (pandas fills the missing cells of a short line with
NaN, or reads a truncated number): the torn row is loaded although it is not a row of the search -/
theorem C15_torn_row_is_loaded (c : Content) (j : Job) (h : WellFormed c) :
    reload (c ++ [.torn j]) = .ok (jobsOf c ++ [j]) := by
  obtain ⟨e, rows, rfl, hne, hr⟩ := h
  have hload : ∀ rows : List Line, (∀ l ∈ rows, ∃ j e', l = Line.row j e' ∧ (e' = true → e = true)) →
      loadRows e (rows ++ [.torn j]) = .ok (jobsOf rows ++ [j]) := by
    intro rows hr
    induction rows with
    | nil => simp [loadRows, jobsOf]
    | cons l rows ih =>
      obtain ⟨j', e', rfl, he⟩ := hr l (by simp)
      have ih' := ih (fun l hl => hr l (List.mem_cons_of_mem _ hl))
      simp only [List.cons_append, loadRows, jobsOf, ih']
      cases e' <;> cases e <;> simp_all
  cases rows with
  | nil => exact absurd rfl hne
  | cons l rows => simpa [reload, jobsOf] using hload (l :: rows) hr

/-! ## the bytes (text layer, `Model/FilesText.lean`)

The theorems above speak about lines; what is on disk is text.  A *concrete* file gives every line
its cells — ANY characters: commas, quotes, bare carriage returns, line feeds, leading or trailing
blanks, empty cells, non-ASCII.  `bytesOf lt` renders it the way the two writers do (the evaluator's
`csv.DictWriter` for the lines without the `pareto_efficient` cell, `DataFrame.to_csv(lineterminator
= lt)` of the end-of-search rewrite for the lines with it), `parseFile` is the `csv.reader` state
machine, `abstract` classifies the records read back against the header record. -/

/-- **C15 (bytes read back).**  Whatever the cells hold, the bytes of a results file whose lines were
written by the evaluator and by the rewrite in the `\r\n` dialect read back to exactly one record per
line, each with exactly its cells: no row is split, merged, truncated or altered. -/
theorem C15_bytes_read_back (cl : List CLine) (hne : ∀ l ∈ cl, l.cells ≠ []) :
    Csv.parseFile (bytesOf crlf cl) = cl.map (·.cells) := by
  rw [bytesOf_crlf]
  exact Csv.parse_renderFile _ (by
    intro r hr
    obtain ⟨l, hl, rfl⟩ := List.mem_map.1 hr
    exact hne l hl)

/-- **C15 (bytes → lines).**  For a table whose cells agree with its lines (`Consistent`: the header
names the columns, every row shows its job id under `job_id` and has the header's number of cells, or
one less when it was appended after a rewrite) the checker's reading of the bytes is the content of
the file model. -/
theorem C15_bytes_abstract (sid : Nat) (cl : List CLine) (h : Consistent sid cl) :
    abstract sid (bytesOf crlf cl) = cl.map (·.line) :=
  (bytes_consistent h).2

/-- **C15 (bytes at every crash point).**  For every history and EVERY crash point at which
`results.csv` exists, and every assignment of cells to its lines (any characters) that agrees with
them: the bytes on disk read back to one record per line with exactly those cells, and the check run
on the bytes (`visibleOk ∘ abstract`) accepts them — header, then one complete row per dumped
evaluation, all of them finished. -/
theorem C15_bytes_at_crash (s₀ : St) (h₀ : Vis s₀) (runs : List Run) (hok : RunsOK s₀ runs)
    (p : List Ev) (hp : p <+: searchFiles fixed s₀ runs) (sid : Nat) (cl : List CLine)
    (hc : get (execAll s₀ p).fs .results = some (cl.map (·.line))) (hcl : Consistent sid cl) :
    let s := execAll s₀ p
    let t := bytesOf crlf cl
    Csv.parseFile t = cl.map (·.cells) ∧
      visibleOk (some (abstract sid t)) s.done s.dumped = true := by
  intro s t
  refine ⟨(bytes_consistent hcl).1, ?_⟩
  show visibleOk (some (abstract sid (bytesOf crlf cl))) _ _ = true
  rw [(bytes_consistent hcl).2]
  rcases C15_prefix_wellformed s₀ h₀ runs hok p hp with ⟨h1, _⟩ | ⟨c, h1, h2, h3, h4⟩
  · rw [h1] at hc; cases hc
  · rw [h1] at hc; cases hc
    exact (C15_checker _ _ _).2 ⟨h2, h3, h4⟩

/-- **C15 (cells).**  The complete check run on the bytes (`bytesOk`: shape, truthfulness, completeness
AND the cells the run-functions logged, looked up by column name) accepts the bytes of every crash
point, for every expectation list that tells the truth about the rows. -/
theorem C15_bytes_checker_accepts (s₀ : St) (h₀ : Vis s₀) (runs : List Run) (hok : RunsOK s₀ runs)
    (p : List Ev) (hp : p <+: searchFiles fixed s₀ runs) (sid : Nat) (h : CLine) (rows : List CLine)
    (hc : get (execAll s₀ p).fs .results = some ((h :: rows).map (·.line)))
    (hcl : Consistent sid (h :: rows)) (jc : Nat) (hjc : colIdx jobIdName h.cells = some jc)
    (hnd : (rows.map (fun l => idOfRec jc l.cells)).Nodup) (exp : List Expect)
    (hexp : ∀ e ∈ exp, ∀ l ∈ rows, idOfRec jc l.cells = some e.id →
      ∀ q ∈ e.cells, Csv.lookupByName h.cells l.cells q.1 = some q.2) :
    bytesOk sid (some (bytesOf crlf (h :: rows))) (execAll s₀ p).done (execAll s₀ p).dumped exp = true := by
  have h1 := (C15_bytes_at_crash s₀ h₀ runs hok p hp sid (h :: rows) hc hcl).2
  have h2 := cellsOk_consistent hcl hjc hnd exp hexp
  simp only [bytesOk, Option.map_some, Bool.and_eq_true]
  exact ⟨h1, h2⟩

/-- **C15 (what the repair of the rewrite's dialect bought).**  Before commit `4981fdf` the rewrite wrote
its lines with pandas' default terminator `\n` (`lf`).  That dialect is harmless exactly as long as no
cell of a REWRITTEN line holds a carriage return: then the file still reads back record for record
(the lines appended by the evaluator may hold any characters).  With a carriage return in a rewritten
cell a row is split — kernel-evaluated witness `crTable` below. -/
theorem C15_lf_rewrite_safe_without_cr (cl : List CLine) (hne : ∀ l ∈ cl, l.cells ≠ [])
    (hcr : ∀ l ∈ cl, l.line.rewritten = true → ∀ s ∈ l.cells, '\r' ∉ s) :
    Csv.parseFile (bytesOf lf cl) = cl.map (·.cells) :=
  parse_bytesOf_lf cl hne hcr

/-! ## the environment of the process: mount layout of TMPDIR / working directory (`Model/FilesEnv.lean`) -/

/-- **C15 (environment, 1).**  Every system call of every history of the protocol (whatever repairs are
switched on) names only result files of `log_dir` itself — `results.csv`, `results.csv.tmp`, backups:
siblings in ONE directory.  No temporary file is made anywhere else. -/
theorem C15_protocol_stays_in_log_dir (cfg : Cfg) (s : St) (runs : List Run) (op : Op)
    (h : Ev.sys op ∈ searchFiles cfg s runs) : opLocal op = true := by
  have := List.all_eq_true.mp (all_evLocal_searchFiles cfg runs s) _ h
  simpa using this

/-- **C15 (environment, 2).**  Hence the mount layout — where the system temporary directory, the working
directory or anything else outside `log_dir` is mounted — does not enter: at EVERY crash point of every
history the directory reached in the mount layout `m` (where a `rename` across file systems fails with
`EXDEV`) is the directory of the single-file-system model all the theorems above speak about, and every
call succeeds or fails alike. -/
theorem C15_mounts_irrelevant (m : Mounts) (cfg : Cfg) (s : St) (runs : List Run)
    (p : List Ev) (hp : p <+: searchFiles cfg s runs) :
    runOps m s.fs (sysOf p) = (execAll s p).fs ∧
      ∀ op, Ev.sys op ∈ p → ∀ fs, stepIn m fs op = step fs op ∧ opOkIn m fs op = opOk fs op := by
  have hl := all_evLocal_prefix hp (all_evLocal_searchFiles cfg runs s)
  refine ⟨by rw [runOps_local m p hl, fs_execAll], ?_⟩
  intro op hop fs
  have : opLocal op = true := by simpa using List.all_eq_true.mp hl _ hop
  exact ⟨stepIn_local m fs this, opOkIn_local m fs this⟩

/-- **C15 (environment, 3).**  Publishing a complete file `src` (content `c`) as `results.csv` with a move
(`shutil.move`, `os.replace`): when `src` is on `log_dir`'s file system the move is one `rename`, and at
every crash point `results.csv` is what it was or all of `c`. -/
theorem C15_move_same_device (m : Mounts) (src : Name) (c : Content) (sizes : List Nat) (fs : FS)
    (hd : devOf m src = .logDev) (hs : get fs src = some c)
    (p : List Op) (hp : p <+: moveOps m src .results c sizes) :
    get (runOps m fs p) .results = get fs .results ∨ get (runOps m fs p) .results = some c := by
  have hr : devOf m .results = .logDev := rfl
  have hm : moveOps m src .results c sizes = [.rename src .results] := by simp [moveOps, hd, hr]
  rw [hm] at hp
  rcases List.prefix_cons_iff.mp hp with rfl | ⟨t, rfl, ht⟩
  · exact Or.inl rfl
  · have : t = [] := List.prefix_nil.mp ht
    subst this
    right
    simp [runOps, stepIn, hd, hr, step, hs]

/-- **C15 (environment, 4).**  When `src` (holding `c`) is on ANOTHER file system the `rename` fails and the move copies:
whatever table `results.csv` held and whatever `c` is, there is a crash point (right after the destination was
opened) at which `results.csv` exists and is EMPTY — every evaluation written so far is gone and the checker
rejects the file for every completion / dump log; if nothing interrupts, the copy ends with exactly `c`. -/
theorem C15_move_other_device (m : Mounts) (src : Name) (c : Content) (sizes : List Nat) (fs : FS)
    (hd : devOf m src = .otherDev) (done dumped : List Job) :
    (∃ p, p <+: moveOps m src .results c sizes ∧ get (runOps m fs p) .results = some [] ∧
        visibleOk (get (runOps m fs p) .results) done dumped = false) ∧
      get (runOps m fs (moveOps m src .results c sizes)) .results = some c := by
  have hr : devOf m .results = .logDev := rfl
  have hm : moveOps m src .results c sizes =
      [.rename src .results, .openR src, .openW .results] ++ (chunk sizes c).map (Op.write .results)
        ++ [.close .results, .close src] := by simp [moveOps, hd, hr]
  have h3 : runOps m fs [.rename src .results, .openR src, .openW .results] = set fs .results [] := by
    simp [runOps, stepIn, hd, hr, step]
  constructor
  · refine ⟨[.rename src .results, .openR src, .openW .results], ?_, ?_, ?_⟩
    · rw [hm, List.append_assoc]; exact List.prefix_append _ _
    · rw [h3]; simp
    · rw [h3]; simp [visibleOk, wellFormedPrefix, wellFormed]
  · rw [hm, runOps_append, runOps_append, h3]
    have := get_runOps_writes m .results (chunk sizes c) (set fs .results []) [] (by simp)
    rw [chunk_flatten] at this
    simpa [runOps, stepIn, step] using this

/-! ## non-vacuity, regressions for the repaired defects -/

section examples

def j0 : Job := ⟨0, 0⟩
def j1 : Job := ⟨0, 1⟩
def j2 : Job := ⟨0, 2⟩
def k0 : Job := ⟨1, 0⟩

/-- a multi-objective search: two gathers (the second dumped in two `write` calls), end of
`search()` with the Pareto rewrite -/
def demoActs : List Act :=
  [.finish j0, .dump [j0] [] "t", .finish j1, .finish j2, .dump [j1, j2] [1] "t", .endCall true [2]]

/-- two processes in one directory with the SAME time stamp, then a third search created -/
def demoRuns : List Run :=
  [⟨"t", demoActs, 1000⟩, ⟨"t", [.finish k0, .dump [k0] [] "t"], 1000⟩, ⟨"t", [], 1000⟩]

/-- one process: a search runs; a second search object that was constructed before the first one
had written anything then runs in the same directory, same second -/
def demoEarly : List Run :=
  [⟨"t", demoActs ++ [.resume, .finish k0, .dump [k0] [] "t", .endCall false []], 1000⟩]

/-- visible property at the crash point after `k` events -/
def visAt (cfg : Cfg) (runs : List Run) (k : Nat) : Bool :=
  let s := execAll emptyDir ((searchFiles cfg emptyDir runs).take k)
  visibleOk (get s.fs .results) s.done s.dumped

def allCuts (cfg : Cfg) (runs : List Run) : Bool :=
  (List.range ((searchFiles cfg emptyDir runs).length + 1)).all (visAt cfg runs)

/-- the hypotheses of the theorems hold for this history -/
example : RunsOK emptyDir demoRuns := by
  simp [RunsOK, demoRuns, demoActs, Causal, emptyDir, done_execAll]
example : RunsOK emptyDir demoEarly := by
  simp [RunsOK, demoEarly, demoActs, Causal, emptyDir]

/-- repaired code: every one of the crash points of the history is fine … -/
example : (searchFiles fixed emptyDir demoRuns).length = 33 := by decide +kernel
example : allCuts fixed demoRuns = true := by decide +kernel
/-- … and all three result files exist at the end, under distinct names -/
example :
    let s := execAll emptyDir (searchFiles fixed emptyDir demoRuns)
    (get s.fs (.backup "t" 0)).map jobsOf = some [j0, j1, j2] ∧
    (get s.fs (.backup "t" 1)).map jobsOf = some [k0] ∧ get s.fs .results = none := by
  decide +kernel

/-- 10a (pinned tree): a kill right after the in-place rewrite opened `results.csv` leaves an
empty file although three evaluations had been dumped -/
example : visAt { fixed with atomicRewrite := false } [⟨"t", demoActs, 1000⟩] 17 = false := by
  decide +kernel
/-- 10c (pinned tree): a kill between the creating `open` and the first `write` leaves an empty
`results.csv` -/
example : visAt { fixed with atomicCreate := false } [⟨"t", demoActs, 1000⟩] 3 = false := by
  decide +kernel
/-- 10b (pinned tree): with the second-resolution name the third search overwrites the backup of
the first: its three evaluations are in no file any more -/
example :
    let s := execAll emptyDir (searchFiles { fixed with uniqueBackup := false } emptyDir demoRuns)
    (get s.fs (.backup "t" 0)).map jobsOf = some [k0] ∧ get s.fs (.backup "t" 1) = none ∧
      get s.fs .results = none := by
  decide +kernel

/-- 10d (pinned tree and the first three fixes): the search constructed early replaces the
`results.csv` of the search that ran first; with the fix the three evaluations survive in a backup -/
example :
    let s := execAll emptyDir (searchFiles { fixed with keepForeign := false } emptyDir demoEarly)
    (get s.fs .results).map jobsOf = some [k0] ∧ get s.fs (.backup "t" 0) = none := by
  decide +kernel
example : allCuts fixed demoEarly = true := by decide +kernel
example :
    let s := execAll emptyDir (searchFiles fixed emptyDir demoEarly)
    (get s.fs .results).map jobsOf = some [k0] ∧
      (get s.fs (.backup "t" 0)).map jobsOf = some [j0, j1, j2] := by
  decide +kernel

/-- the evaluator of an earlier search (it has dumped: `started = true`) is given to a new search whose
directory is empty -/
def reusedEvaluator : St := { emptyDir with started := true }
def reuseActs : List Act := [.recreate "t", .finish k0, .dump [k0] [] "t"]

/-- 10e (before the fix): the new search appends without a header … -/
example :
    get (execAll reusedEvaluator (trace { fixed with resetAlways := false } reusedEvaluator reuseActs)).fs
      .results = some [.row k0 false] := by decide +kernel
/-- … with the fix it starts its file with the header -/
example :
    get (execAll reusedEvaluator (trace fixed reusedEvaluator reuseActs)).fs .results
      = some [.header false, .row k0 false] := by decide +kernel

/-- a torn append: the checker for "good table + one incomplete last line of a finished job" -/
example : tornLastOnly [.header false, .row j0 false, .torn j1] [j0, j1] [j0] = true := by decide
example : tornLastOnly [.header false, .torn j1] [j0, j1] [] = false := by decide

example : wellFormedPrefix [.header true, .row j0 true, .row j1 false] [j0, j1, j2] [j0] = true := by
  decide
example : wellFormedPrefix [.header false, .row j0 true] [j0] [] = false := by decide
example : wellFormedPrefix [.header false, .row j0 false, .torn j1] [j0, j1] [] = false := by decide
example : reload [] = .error .emptyData := rfl
example : reload [.header false] = .error .noRows := rfl
example : reload [.header false, .row j0 true] = .error .tooManyFields := rfl


/-! the text layer: a multi-objective table after the rewrite, then one appended row; the metadata
cell of job 0 holds a bare carriage return, a comma, a quote and a line feed -/

def hostileCell : Csv.Text := ['a', '\r', 'b', ',', '"', '\n', ' ']
def tHdr : CLine := ⟨.header true, [['o'], jobIdName, ['m'], paretoName]⟩
def tRow0 : CLine := ⟨.row j0 true, [['1'], ['0'], hostileCell, ['T']]⟩
def tRow1 : CLine := ⟨.row j1 false, [['2'], ['1'], []]⟩
def tTable : List CLine := [tHdr, tRow0, tRow1]

/-- the hypotheses of the text theorems hold for it -/
example : Consistent 0 tTable :=
  ⟨tHdr, [tRow0, tRow1], true, 1, rfl, rfl, by decide, by decide, by
    intro l hl
    simp only [List.mem_cons, List.not_mem_nil, or_false] at hl
    rcases hl with rfl | rfl
    · exact ⟨0, true, rfl, fun _ => rfl, by decide, by decide, by decide⟩
    · exact ⟨1, false, rfl, fun _ => rfl, by decide, by decide, by decide⟩⟩

/-- repaired code (`\r\n` handed to `to_csv`): three records, the hostile cell intact, the check accepts -/
example : Csv.parseFile (bytesOf crlf tTable) = tTable.map (·.cells) := by decide +kernel
example : bytesOk 0 (some (bytesOf crlf tTable)) [j0, j1] [j0, j1]
    [⟨0, [(['m'], hostileCell)]⟩, ⟨1, [(['m'], [])]⟩] = true := by decide +kernel
/-- the cell check notices an altered cell -/
example : bytesOk 0 (some (bytesOf crlf tTable)) [j0, j1] [j0, j1] [⟨0, [(['m'], ['a', 'b'])]⟩] = false := by
  decide +kernel

/-- the same table, the metadata cell of job 0 holding just a bare carriage return between letters -/
def crTable : List CLine := [tHdr, ⟨.row j0 true, [['1'], ['0'], ['a', '\r', 'b'], ['T']]⟩, tRow1]

/-- the rewrite with pandas' default terminator `\n` (before the repair): the carriage return is
written unquoted and every reader ends the record there — FOUR records for two evaluations, the
second one fits no row, and the check on the bytes rejects the file although both evaluations
finished and were dumped; with `\r\n` the same table is fine -/
example : (Csv.parseFile (bytesOf lf crTable)).length = 4 := by decide +kernel
example : abstract 0 (bytesOf lf crTable)
    = [.header true, .row j0 false, .torn ⟨0, 0⟩, .row j1 false] := by decide +kernel
example : bytesOk 0 (some (bytesOf lf crTable)) [j0, j1] [j0, j1] [] = false := by decide +kernel
example : bytesOk 0 (some (bytesOf crlf crTable)) [j0, j1] [j0, j1] [⟨0, [(['m'], ['a', '\r', 'b'])]⟩] = true := by
  decide +kernel
/-- … while a cell with a comma and a line feed survives the `\n` dialect (it is quoted) -/
example : abstract 0 (bytesOf lf [tHdr, ⟨.row j0 true, [['1'], ['0'], ['a', ',', '\n'], ['T']]⟩])
    = [.header true, .row j0 true] := by decide +kernel

/-- the hypotheses of `C15_lf_rewrite_safe_without_cr` hold for a table whose rewritten row holds a comma,
a quote and a line feed, and whose appended row holds a carriage return -/
def lfSafeTable : List CLine :=
  [tHdr, ⟨.row j0 true, [['1'], ['0'], ['a', ',', '"', '\n'], ['T']]⟩, ⟨.row j1 false, [['2'], ['1'], ['a', '\r', 'b']]⟩]
example : (∀ l ∈ lfSafeTable, l.cells ≠ []) ∧
    (∀ l ∈ lfSafeTable, l.line.rewritten = true → ∀ s ∈ l.cells, '\r' ∉ s) := by decide
example : abstract 0 (bytesOf lf lfSafeTable) = [.header true, .row j0 true, .row j1 false] := by decide +kernel

/-! the environment: TMPDIR on another file system than log_dir (`tmpFile`), a sibling temporary file -/

def elsewhere : Mounts := fun s => if s = "TMPDIR/results_x.csv" then .otherDev else .logDev
def tmpFile : Name := .other "TMPDIR/results_x.csv"
def sibling : Name := .other "log_dir/results_x.csv"
def oldTable : Content := [.header false, .row j0 false, .row j1 false]
def newTable : Content := extendAll oldTable
def envDir (src : Name) : FS := [(.results, oldTable), (src, newTable)]

example : devOf elsewhere tmpFile = .otherDev ∧ devOf elsewhere sibling = .logDev ∧
    get (envDir tmpFile) tmpFile = some newTable := by decide
-- the protocol's own calls are local, a move from TMPDIR is not
example : (sysOf (searchFiles fixed emptyDir demoRuns)).all opLocal = true := by decide +kernel
example : (moveOps elsewhere tmpFile .results newTable []).all opLocal = false := by decide
-- same file system: every crash point of the move shows the old or the new table, both accepted
example : ((scanOps elsewhere (envDir sibling) (moveOps elsewhere sibling .results newTable [2])).map
    (fun fs => visibleOk (get fs .results) [j0, j1] [j0, j1])) = [true, true] := by decide +kernel
-- other file system: rename fails, open, open+truncate (EMPTY), two chunks, close, close
example : ((scanOps elsewhere (envDir tmpFile) (moveOps elsewhere tmpFile .results newTable [2])).map
    (fun fs => visibleOk (get fs .results) [j0, j1] [j0, j1])) =
    [true, true, true, false, false, true, true, true] := by decide +kernel
example : opOkIn elsewhere (envDir tmpFile) (.rename tmpFile .results) = false ∧
    opOkIn elsewhere (envDir sibling) (.rename sibling .results) = true := by decide

end examples

end DH.Files
