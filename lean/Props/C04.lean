import Proofs.Dump
import Proofs.DumpText
import Proofs.DumpSeq
import Props.C11

/-!
# C04 — the results table is a faithful, complete record of the evaluations

Property theorems only.  Model: `Model/Dump.lean` (job outputs, `_on_done`, the CSV writer state
machine after the `fix:` commits), `Model/DumpPareto.lean` (the `pareto_efficient` column),
`Model/DumpSeq.lean` (the class tests on the container of a multi-objective output) and
`Model/SearchReturn.lean` (what `search()` hands back); helper lemmas: `Proofs/Dump.lean`,
`Proofs/DumpSeq.lean`.

A run is a list of operations `(batch, flush)`: `batch` = the jobs `process_local_tasks_done`
appended to `jobs_done` since the previous dump, `flush` = the argument of
`dump_jobs_done_to_csv`.  `search()` ends with one more dump with `flush=True`.  Which jobs finish
together and in which order is the environment's choice: the theorems hold for every such list.
-/

namespace DH.Dump
open DH.Pareto DH.Csv

/-- **C04 (rows).**  For every sequence of batches of finished jobs with supported objectives —
any interleaving of failures and successes, single or multi objective, any batch sizes, any
number of `search()` calls (`FlushOK` restricts only a flush made while nothing but failures has
finished, see `C04_flush_before_first_success_counterexample`) — followed by the final flush:
nothing stays pending, and the file is one header plus exactly one line per finished job, in
finishing order, each line being the header's columns looked up in that job's own result dict
rendered with the arity of the whole run.  The header is the result dict of a finished job that is
the first non-failed job or a failed one. -/
theorem C04_rows (ops : List (List JobRec × Bool)) (hsup : AllSupported (allJobs ops))
    (hfl : FlushOK (arity (allJobs ops)) [] ops) :
    (runOps DumpState.fresh Table.empty (ops ++ [([], true)])).1.pending = [] ∧
    ((allJobs ops = [] ∧ (runOps DumpState.fresh Table.empty (ops ++ [([], true)])).2 = Table.empty) ∨
     ∃ hj ∈ allJobs ops,
       (firstSuccess (allJobs ops) = some hj ∨ isStr hj.objective = true) ∧
       (runOps DumpState.fresh Table.empty (ops ++ [([], true)])).2 =
         ⟨some (headerOf (arity (allJobs ops)) hj),
          (allJobs ops).map (renderRow (headerOf (arity (allJobs ops)) hj) (arity (allJobs ops)))⟩) :=
  final_flush ops hsup hfl

/-- dumps of a single `search()` call never flush before the end -/
theorem FlushOK_noflush (n : Option Nat) :
    ∀ (J : List JobRec) (bs : List (List JobRec)), FlushOK n J (bs.map (fun b => (b, false)))
  | _, [] => trivial
  | J, b :: bs => ⟨fun h => by simp at h, FlushOK_noflush n (J ++ b) bs⟩

/-- **C04 (rows, one `search()` call).**  No side condition at all: every batching of every
history, failures before the first success included. -/
theorem C04_rows_single_call (bs : List (List JobRec))
    (hsup : AllSupported (allJobs (bs.map (fun b => (b, false))))) :
    let ops := bs.map (fun b => (b, false))
    (allJobs ops = [] ∧ (runOps DumpState.fresh Table.empty (ops ++ [([], true)])).2 = Table.empty) ∨
     ∃ hj ∈ allJobs ops,
       (firstSuccess (allJobs ops) = some hj ∨ isStr hj.objective = true) ∧
       (runOps DumpState.fresh Table.empty (ops ++ [([], true)])).2 =
         ⟨some (headerOf (arity (allJobs ops)) hj),
          (allJobs ops).map (renderRow (headerOf (arity (allJobs ops)) hj) (arity (allJobs ops)))⟩ :=
  (C04_rows _ hsup (FlushOK_noflush _ [] bs)).2

/-! ### several `Search` objects on one `log_dir` -/

/-- **C04 (new `Search` object).**  Constructing a `Search` on a `log_dir` — whether its
`results.csv` exists (it is renamed) or not (an evaluator that dumped for a search elsewhere) —
with a fresh evaluator / plain callable or with the evaluator instance of an earlier `Search`
(whose last flush left nothing pending): the table is empty and the evaluator's dump state is
"nothing written yet"; only `num_objective` survives on a re-used evaluator. -/
theorem C04_new_search (c : EvalChoice) (st : DumpState) (t : Table)
    (ht : t.header.isSome = true ∨ t = Table.empty) (hp : st.pending = []) :
    searchInit c st t =
      (⟨false, none, (match c with | .fresh => none | .reuse => st.numObjective), []⟩, Table.empty) := by
  have htab : (match t.header with | some _ => Table.empty | none => t) = Table.empty := by
    rcases ht with h | h
    · cases hh : t.header with
      | none => rw [hh] at h; cases h
      | some x => rfl
    · subst h; rfl
  cases c with
  | fresh => simp [searchInit, DumpState.fresh]; exact htab
  | reuse => obtain ⟨a, b, n, p⟩ := st; simp only at hp; subst hp; simp [searchInit]; exact htab

/-- **C04 (rows, re-used evaluator).**  A `Search` whose evaluator inherited `num_objective = m`
from an earlier `Search`: for every sequence of dumps (mid-run flushes included — no `FlushOK`
needed: failures are written with `m` objective columns from the start) followed by the final
flush, `results.csv` is one header plus exactly one line per job finished **for this `Search`
object**, rendered with arity `m`.  With `C04_new_search` and `C04_rows` (`num_objective`
undecided: `DumpState.fresh`) this covers every history over `Search` objects and evaluator
instances. -/
theorem C04_rows_reused_evaluator (m : Nat) (ops : List (List JobRec × Bool))
    (hsup : AllSupported (allJobs ops)) :
    (runOps ⟨false, none, some m, []⟩ Table.empty (ops ++ [([], true)])).1.pending = [] ∧
    ((allJobs ops = [] ∧
        (runOps ⟨false, none, some m, []⟩ Table.empty (ops ++ [([], true)])).2 = Table.empty) ∨
     ∃ hj ∈ allJobs ops,
       (firstSuccess (allJobs ops) = some hj ∨ isStr hj.objective = true) ∧
       (runOps ⟨false, none, some m, []⟩ Table.empty (ops ++ [([], true)])).2 =
         ⟨some (headerOf (some m) hj), (allJobs ops).map (renderRow (headerOf (some m) hj) (some m))⟩) :=
  final_flushM m ops hsup

/-- **C04 (cells).**  The line written for a job: for every column of the header the cell is
`specCell` — the job's own configuration value for `p:k`, its id, its status name, its metadata
value for `m:k` (keys starting with `_` excluded), and its objective (see the three readings
below). -/
theorem C04_cells (cols : List Col) (n : Option Nat) (j : JobRec) :
    renderRow cols n j = cols.map (specCell n j) := by
  unfold renderRow
  apply List.map_congr_left
  intro c _
  exact rget_resultOf_spec n j c

/-- **C04 (one row per job).**  The lines are in bijection with the finished jobs (position `k`
of the file is job `k` of the finishing order) … -/
theorem C04_one_row_per_job (cols : List Col) (n : Option Nat) (J : List JobRec) :
    (J.map (renderRow cols n)).length = J.length ∧
    ∀ (k : Nat) (j : JobRec), J[k]? = some j → (J.map (renderRow cols n))[k]? = some (cols.map (specCell n j)) := by
  refine ⟨by simp, ?_⟩
  intro k j h
  simp [h, C04_cells]

/-- … and, job ids being unique, no two lines are equal (each carries its own `job_id`). -/
theorem C04_unique_job_id (cols : List Col) (n : Option Nat) (J : List JobRec)
    (hid : Col.jobId ∈ cols) (huniq : (J.map (·.id)).Nodup) :
    (J.map (renderRow cols n)).Nodup := by
  rw [List.nodup_iff_pairwise_ne, List.pairwise_map] at huniq ⊢
  refine huniq.imp ?_
  intro a b hne heq
  apply hne
  rw [C04_cells, C04_cells, List.map_inj_left] at heq
  have := heq Col.jobId hid
  simpa [specCell] using this

/-- the header always has the `job_id` column -/
theorem C04_header_has_job_id (n : Option Nat) (hj : JobRec) : Col.jobId ∈ headerOf n hj := by
  rw [headerOf_eq]; simp

/-- **C04 (header).**  When the header job is the first non-failed job (tuples with at least two
components) or a failed job, the header is: its configuration keys, the objective columns of the
run's arity (`objective`, or `objective_0 … objective_{m-1}`), `job_id`, `job_status`, its visible
metadata keys — "the metadata keys known when the table header was written". -/
theorem C04_header (J : List JobRec) (hj : JobRec)
    (h : (firstSuccess J = some hj ∧ SupportedObj hj.objective ∧ TupleOK hj.objective)
          ∨ isStr hj.objective = true) :
    headerOf (arity J) hj = hj.args.map (fun kv => Col.param kv.1) ++ objColsOf (arity J)
      ++ [Col.jobId, Col.jobStatus] ++ (visibleMeta hj.md).map (fun kv => Col.mdata kv.1) := by
  rw [headerOf_eq]
  rcases h with ⟨hfs, hs, ht⟩ | hf
  · rw [objectiveCells_cols_success J hj hfs hs ht]
  · rw [objectiveCells_cols_fail _ _ hf]

/-- **C04 (failure string verbatim).**  A failed job shows its exact failure string in every
objective column of a table of arity `n`. -/
theorem C04_failure_verbatim (n : Option Nat) (j : JobRec) (s : String) (hj : j.objective = Val.str s) :
    ∀ c ∈ objColsOf n, specCell n j c = some (Val.str s) := by
  intro c hc
  cases n with
  | none =>
    simp only [objColsOf, List.mem_singleton] at hc; subst hc
    simp [specCell, hj, le1]
  | some m =>
    by_cases hm : m > 1
    · simp only [objColsOf, hm, if_true, List.mem_map, List.mem_range] at hc
      obtain ⟨i, hi, rfl⟩ := hc
      simp [specCell, hj, hm, hi]
    · simp only [objColsOf, hm, if_false, List.mem_singleton] at hc; subst hc
      have : m ≤ 1 := by omega
      simp [specCell, hj, le1, this]

/-- **C04 (one `objective_i` per component).** -/
theorem C04_tuple_components (j : JobRec) (l : List Val) (hj : j.objective = Val.list l)
    (i : Nat) (hi : i < l.length) :
    specCell (some l.length) j (Col.objectiveI i) = some l[i] := by
  simp [specCell, hj, hi]

/-- **C04 (scalar objective).** -/
theorem C04_scalar_objective (n : Option Nat) (j : JobRec) (q : Rat) (hj : j.objective = Val.num q)
    (hn : le1 n = true) : specCell n j Col.objective = some (Val.num q) := by
  simp [specCell, hj, hn]

/-- **C04 (configuration, status, metadata).**  By definition of `specCell` (the content is
`C04_cells`): the `p:k` cell is the job's own value for `k`, `job_status` its terminal status,
the `m:k` cell its own metadata value for `k`. -/
theorem C04_config_status_metadata (n : Option Nat) (j : JobRec) (k : String) :
    specCell n j (Col.param k) = dget j.args k ∧
    specCell n j Col.jobStatus = some (Val.str j.status.name) ∧
    specCell n j Col.jobId = some (Val.num j.id) ∧
    specCell n j (Col.mdata k) = dget (visibleMeta j.md) k := ⟨rfl, rfl, rfl, rfl⟩

/-! ### down to the bytes of `results.csv`, and back by column name -/

/-- **C04 (column names).**  Distinct columns have distinct names: `p:<name>`, `objective`,
`objective_<i>`, `job_id`, `job_status`, `m:<key>` never collide (the decimal rendering of `i` is
injective: Std's `Nat.repr_injective`). -/
theorem C04_col_name_injective (a b : Col) (h : a.name = b.name) : a = b :=
  Col.name_injective a b h

/-- **C04 (CSV round trip).**  `csv.reader` applied to what `csv.writer` wrote — QUOTE_MINIMAL,
quotes doubled, `\r\n` terminators, for cells containing commas, quotes, carriage returns, line
feeds or any other character — gives back exactly the cells, for every list of non-empty records. -/
theorem C04_csv_round_trip (rows : List (List Text)) (h : ∀ r ∈ rows, r ≠ []) :
    parseFile (renderFile rows) = rows :=
  parse_renderFile rows h

/-- **C04 (bytes).**  Reading the bytes of the results file back gives the header names and,
line by line, the text of the model's cells. -/
theorem C04_bytes (fmt : Val → Text) (h : List Col) (hne : h ≠ []) (n : Option Nat) (J : List JobRec) :
    parseFile (fileText fmt ⟨some h, J.map (renderRow h n)⟩)
      = h.map colText :: J.map (fun j => h.map (fun c => cellText fmt (specCell n j c))) := by
  unfold fileText
  rw [parse_renderFile _ (tableLines_nonempty fmt h hne _ (by
    intro r hr
    simp only [List.mem_map] at hr
    obtain ⟨j, _, rfl⟩ := hr
    exact renderRow_ne_nil h hne n j))]
  simp only [tableLines, List.map_map]
  congr 1
  apply List.map_congr_left
  intro j _
  simp only [Function.comp_apply, C04_cells, List.map_map]
  rfl

/-- **C04 (read back by name).**  What a CSV reader sees: in the file written for the jobs `J`
(header `h`, arity `n`), looking up the column *named* like `c` in the line of the `k`-th finished
job yields the text of that job's own value for that column — its configuration value for
`p:<name>`, its failure string / objective component for `objective…`, its id, its status, its
metadata value for `m:<key>`.  (`fmt` = how Python prints a number.) -/
theorem C04_read_back (fmt : Val → Text) (h : List Col) (n : Option Nat) (J : List JobRec)
    (k : Nat) (j : JobRec) (hk : J[k]? = some j) (c : Col) (hc : c ∈ h) :
    ∃ hdr row, (parseFile (fileText fmt ⟨some h, J.map (renderRow h n)⟩))[0]? = some hdr ∧
      (parseFile (fileText fmt ⟨some h, J.map (renderRow h n)⟩))[k + 1]? = some row ∧
      lookupByName hdr row (colText c) = some (cellText fmt (specCell n j c)) := by
  have hne : h ≠ [] := List.ne_nil_of_mem hc
  rw [C04_bytes fmt h hne n J]
  refine ⟨h.map colText, h.map (fun c => cellText fmt (specCell n j c)), rfl, by simp [hk], ?_⟩
  exact lookupByName_map colText colText_injective (fun c => cellText fmt (specCell n j c)) h c hc

/-! ### the specification as a decidable predicate on the real file -/

/-- one line of the file shows the job `j` -/
def RowMatches (tol : Rat) (cols : List Col) (n : Option Nat) (j : JobRec) (row : List CellIn) : Prop :=
  row.length = cols.length ∧ ∀ p ∈ cols.zip row, cellOK tol p.2 (specCell n j p.1) = true

/-- **the C04 specification of a results file** (`hdr` = header names, `rows` = its lines,
`jobs` = the finished evaluations, `n` = the arity): the header names are those of the columns
`cols`; `job_id`, `job_status`, every configuration key and exactly the objective columns of the
arity, and the metadata keys of the first non-failed job are present; there are as many lines as jobs, job ids are unique, and each job has exactly
one line carrying its id, which shows the job's own value in every column. -/
def TableSpec (tol : Rat) (cols : List Col) (hdr : List String) (rows : List (List CellIn))
    (jobs : List JobRec) (n : Option Nat) (needMeta : Bool := true) : Prop :=
  -- the metadata keys known when the header was written — those of the first non-failed job
  -- (`jobs` in finishing order) — are columns
  (needMeta = true → ∀ hj, firstSuccess jobs = some hj → ∀ kv ∈ visibleMeta hj.md, Col.mdata kv.1 ∈ cols) ∧
  cols.map Col.name = hdr ∧ Col.jobId ∈ cols ∧ Col.jobStatus ∈ cols ∧
  cols.filter isObjCol = objColsOf n ∧
  (∀ j ∈ jobs, ∀ kv ∈ j.args, Col.param kv.1 ∈ cols) ∧
  rows.length = jobs.length ∧ (jobs.map (·.id)).Nodup ∧
  ∀ j ∈ jobs, (rows.filter (hasId cols j.id)).length = 1 ∧
    ∀ r ∈ rows, hasId cols j.id r = true → RowMatches tol cols n j r

/-- **C04 (verified checker).**  The executable checker the harness runs on the real file content
decides exactly the specification. -/
theorem C04_checker (tol : Rat) (cols : List Col) (hdr : List String) (rows : List (List CellIn))
    (jobs : List JobRec) (n : Option Nat) (needMeta : Bool) :
    checkTable tol cols hdr rows jobs n needMeta = true ↔ TableSpec tol cols hdr rows jobs n needMeta := by
  have hmeta : (!needMeta || headerMetaOK cols jobs) = true ↔
      (needMeta = true → ∀ hj, firstSuccess jobs = some hj →
        ∀ kv ∈ visibleMeta hj.md, Col.mdata kv.1 ∈ cols) := by
    cases needMeta with
    | false => simp
    | true =>
      simp only [Bool.not_true, Bool.false_or, headerMetaOK, forall_const]
      cases firstSuccess jobs with
      | none => simp
      | some hj => simp [List.all_eq_true, List.contains_iff_mem]
  simp only [checkTable, TableSpec, RowMatches, rowMatches, Bool.and_eq_true, decide_eq_true_eq,
    List.all_eq_true, List.contains_iff_mem, beq_iff_eq, Bool.or_eq_true, Bool.not_eq_true', hmeta]
  constructor
  · rintro ⟨⟨⟨⟨⟨⟨⟨⟨h0, h1⟩, h2⟩, h3⟩, h4⟩, h5⟩, h6⟩, h7⟩, h8⟩
    refine ⟨h0, h1, h2, h3, h4, h5, h6, h7, ?_⟩
    intro j hj
    obtain ⟨ha, hb⟩ := h8 j hj
    refine ⟨ha, ?_⟩
    intro r hr hid
    rcases hb r hr with hf | hm
    · rw [hid] at hf; cases hf
    · exact hm
  · rintro ⟨h0, h1, h2, h3, h4, h5, h6, h7, h8⟩
    refine ⟨⟨⟨⟨⟨⟨⟨⟨h0, h1⟩, h2⟩, h3⟩, h4⟩, h5⟩, h6⟩, h7⟩, ?_⟩
    intro j hj
    obtain ⟨ha, hb⟩ := h8 j hj
    refine ⟨ha, ?_⟩
    intro r hr
    cases hid : hasId cols j.id r with
    | false => exact Or.inl rfl
    | true => exact Or.inr (hb r hr hid)

/-- the header names determine the columns: two parses of the same header are equal, so the
`cols` input of the checker carries no freedom -/
theorem C04_header_parse_unique (cols cols' : List Col) (h : cols.map Col.name = cols'.map Col.name) :
    cols = cols' := by
  induction cols generalizing cols' with
  | nil => cases cols' with
    | nil => rfl
    | cons a l => simp at h
  | cons c cols ih =>
    cases cols' with
    | nil => simp at h
    | cons a l =>
      simp only [List.map_cons, List.cons.injEq] at h
      rw [Col.name_injective c a h.1, ih l h.2]

/-! ### return forms and `_on_done` -/

/-- an objective value as a run-function may return it: failure string, number, non-finite
number, non-empty tuple/list of those numbers -/
def RawObj : Val → Prop
  | .str _ => True
  | .num _ => True
  | .nonfin _ => True
  | .list l => l ≠ [] ∧ ∀ v ∈ l, (∃ q, v = Val.num q) ∨ (∃ k, v = Val.nonfin k)
  | _ => False

/-- **C04 (return forms).**  The six supported forms carry the same objective into the job
(and the returned metadata into `job.metadata`). -/
theorem C04_forms (o : Val) (ho : RawObj o) (md md2 : Dict) :
    standardizeOutput o = .ok (o, []) ∧
    standardizeOutput (.dict [("objective", o)]) = .ok (o, []) ∧
    standardizeOutput (.dict [("objective", o), ("metadata", .dict md)]) = .ok (o, dupdate [] md) ∧
    standardizeOutput (.dict [("output", o), ("metadata", .dict md)]) = .ok (o, dupdate [] md) ∧
    standardizeOutput (.dict [("output", .dict [("objective", o), ("metadata", .dict md2)]),
        ("metadata", .dict md)]) = .ok (o, dupdate (dupdate [] md) md2) := by
  have e1 : ("objective" = "output") = False := by decide
  have e2 : ("metadata" = "output") = False := by decide
  have e3 : ("objective" = "metadata") = False := by decide
  have e4 : ("output" = "metadata") = False := by decide
  have e5 : ("metadata" = "objective") = False := by decide
  refine ⟨?_, ?_, ?_, ?_, ?_⟩
  · cases o <;> simp_all [RawObj, standardizeOutput, stdInner]
  · simp [standardizeOutput, stdInner, dget, metaOf, e1, e3, dupdate]
  · simp [standardizeOutput, stdInner, dget, metaOf, e1, e2, e3]
  · cases o <;> simp_all [RawObj, standardizeOutput, stdInner, dget, metaOf]
  · simp [standardizeOutput, stdInner, dget, metaOf, e3, e4, e5]

/-- **C04 / C06 (`_on_done`).**  Whatever supported objective the run-function returned, after
`_on_done` it is a failure string, a number or a non-empty tuple of numbers (the hypothesis
`AllSupported` of `C04_rows`), and a non-finite value anywhere has become the marker `"F"`. -/
theorem C04_on_done_supported (o : Val) (ho : RawObj o) : SupportedObj (onDoneObjective o) := by
  cases o with
  | str s => trivial
  | num q => trivial
  | nonfin k => trivial
  | list l =>
    obtain ⟨hne, hall⟩ := ho
    unfold onDoneObjective
    by_cases hany : l.any isNonFinite = true
    · simp [hany, SupportedObj]
    · simp only [hany]
      refine ⟨hne, ?_⟩
      intro v hv
      rcases hall v hv with h | ⟨k, rfl⟩
      · exact h
      · exfalso; apply hany; rw [List.any_eq_true]; exact ⟨_, hv, rfl⟩
  | none => exact absurd ho (by simp [RawObj])
  | dict d => exact absurd ho (by simp [RawObj])

/-! ### the `pareto_efficient` column (corollary of C11) -/

/-- **C04 (pareto).**  In a table with more than one objective column whose non-failed lines
carry numbers, for every `argsort` order: failed lines are never flagged, the `k`-th non-failed
line carries entry `k` of the mask, and the flagged non-failed lines are exactly a Pareto-optimal
selection (C11's specification) of the negated objective vectors — maximisation. -/
theorem C04_pareto (hdr : List Col) (rows : List (List (Option Val))) (order : List Nat)
    (vecs : List Vec) (hcols : 1 < (hdr.filter isObjCol).length)
    (hv : optMap negVec ((rows.map (objCellsOf hdr)).filter (fun c => !rowFailed c)) = some vecs)
    (hord : OrderOK vecs.length order) :
    let failed := (rows.map (objCellsOf hdr)).map rowFailed
    let mask := ndsMask vecs order
    paretoFlags hdr rows order = .flags (spread failed mask) ∧
    (spread failed mask).length = rows.length ∧
    (∀ i : Nat, failed[i]? = some true → (spread failed mask)[i]? = some false) ∧
    (∀ i : Nat, failed[i]? = some false → (spread failed mask)[i]? = some (mask.getD (rankOf failed i) false)) ∧
    mask.length = vecs.length ∧
    (∀ k, k < vecs.length → (mask.getD k false = true ↔ k ∈ ndsIdx vecs order)) ∧
    NdsSpec vecs (ndsIdx vecs order) := by
  have hnot : ¬ (hdr.filter isObjCol).length ≤ 1 := by omega
  refine ⟨?_, ?_, ?_, ?_, ?_, ?_, ?_⟩
  · simp only [paretoFlags, hnot, if_false, hv]
  · simp [spread_length]
  · intro i h; exact spread_failed _ _ i h
  · intro i h; exact spread_success _ _ i h
  · exact (C11_mask vecs order).1
  · exact (C11_mask vecs order).2
  · exact C11_nds vecs order hord

/-- **C04 (the Pareto step is total on the writer's tables).**  On the table written for a
consistent multi-objective run — every job failed with a label starting with `F` or returned a
tuple of `m ≥ 2` numbers, header job as in `C04_header` — the step does not raise and yields one
flag per line, for every `argsort` order.  (Before fix 1 it raised: witness below.) -/
theorem C04_pareto_total (J : List JobRec) (hj : JobRec) (m : Nat) (hm : 2 ≤ m)
    (hcols : (objectiveCells (some m) hj.objective).map (·.1) = objColsOf (some m))
    (hcons : ∀ j ∈ J, ConsistentObj m j.objective) (order : List Nat) :
    ∃ flags, paretoFlags (headerOf (some m) hj)
        (J.map (renderRow (headerOf (some m) hj) (some m))) order = .flags flags ∧
      flags.length = J.length :=
  paretoFlags_total J hj m hm hcols hcons order

example : ConsistentObj 2 (Val.str "F_a") ∧ ConsistentObj 2 (Val.list [.num 1, .num 2]) :=
  ⟨Or.inl ⟨_, rfl, by decide⟩,
   Or.inr ⟨_, rfl, rfl, by intro v hv; simp at hv; rcases hv with rfl | rfl <;> exact ⟨_, rfl⟩⟩⟩

/-! ### non-vacuity and regression witnesses (defect 4 of DESIGN §6) -/

/-- a failed job and a later two-objective success -/
def w0 : JobRec := ⟨0, [("x", .num (1/4))], .str "F_a", .done, [("timestamp_submit", .num 1)]⟩
def w1 : JobRec := ⟨1, [("x", .num (1/2))], .list [.num 1, .num 2], .done,
  [("timestamp_submit", .num 2), ("_hidden", .num 0), ("a", .str "u")]⟩
def w2 : JobRec := ⟨2, [("x", .num (3/4))], .list [.num 3, .num 1], .done, [("a", .str "v")]⟩

example : AllSupported [w0, w1, w2] := by
  intro j hj
  simp only [List.mem_cons, List.mem_nil_iff, or_false] at hj
  rcases hj with rfl | rfl | rfl
  · trivial
  · exact ⟨by simp, by intro v hv; simp at hv; rcases hv with rfl | rfl <;> exact ⟨_, rfl⟩⟩
  · exact ⟨by simp, by intro v hv; simp at hv; rcases hv with rfl | rfl <;> exact ⟨_, rfl⟩⟩

/-- the repaired writer: the failure that was dumped first is held back, then written with its
string in both objective columns -/
example : (runOps DumpState.fresh Table.empty [([w0], false), ([w1], false), ([w2], false), ([], true)]).2.rows
    = [[some (.num (1/4)), some (.str "F_a"), some (.str "F_a"), some (.num 0), some (.str "DONE"), some (.num 1), none],
       [some (.num (1/2)), some (.num 1), some (.num 2), some (.num 1), some (.str "DONE"), some (.num 2), some (.str "u")],
       [some (.num (3/4)), some (.num 3), some (.num 1), some (.num 2), some (.str "DONE"), none, some (.str "v")]] := by
  decide +kernel

/-- the writer before fix 1 on the same history: `num_objective` was fixed to 1 by the failure and
its string is lost (both objective cells empty) -/
example : (runOpsWith dumpStepOld DumpState.fresh Table.empty
      [([w0], false), ([w1], false), ([w2], false), ([], true)]).2.rows.head?
    = some [some (.num (1/4)), none, none, some (.num 0), some (.str "DONE"), some (.num 1), none] := by
  decide +kernel

/-- … and the Pareto step then meets an empty cell in a line it takes for a success -/
example :
    let t := (runOpsWith dumpStepOld DumpState.fresh Table.empty
      [([w0], false), ([w1], false), ([w2], false), ([], true)]).2
    (t.header.map (fun h => paretoFlags h t.rows [0, 1])) = some ParetoOut.raises := by
  decide +kernel

example :
    let t := (runOps DumpState.fresh Table.empty [([w0], false), ([w1], false), ([w2], false), ([], true)]).2
    (t.header.map (fun h => paretoFlags h t.rows [1, 0])) = some (ParetoOut.flags [false, true, true]) := by
  decide +kernel

/-- `FlushOK` cannot be dropped (recorded finding): a first `search()` call whose only
evaluation failed flushes the header with the single `objective` column; the tuple of the
second call then has no column to go to. -/
theorem C04_flush_before_first_success_counterexample :
    (runOps DumpState.fresh Table.empty [([w0], true), ([w1], false), ([], true)]).2.rows
      = [[some (.num (1/4)), some (.str "F_a"), some (.num 0), some (.str "DONE"), some (.num 1)],
         [some (.num (1/2)), none, some (.num 1), some (.str "DONE"), some (.num 2)]] := by
  decide +kernel

example : ¬ FlushOK (arity [w0, w1]) [] [([w0], true), ([w1], false)] := by
  intro h
  have := h.1 rfl (by decide +kernel)
  revert this
  decide +kernel

/-- two `Search` objects on one `log_dir`, the second re-using the evaluator of the first: each
leaves a table with its own header and exactly its own evaluations -/
example : (runHistory DumpState.fresh Table.empty
      [(.fresh, [([w0], false), ([w1], false), ([], true)]), (.reuse, [([w2], false), ([], true)])]).map
      (fun t => (t.header.isSome, t.rows.length)) = [(true, 2), (true, 1)] := by
  decide +kernel

/-- the seeded change C04-3 (rename without resetting `_columns_dumped/_start_dumping`): the
re-used evaluator appends to the new file without writing a header -/
example : (runHistoryWith searchInitNoReset DumpState.fresh Table.empty
      [(.fresh, [([w0], false), ([w1], false), ([], true)]), (.reuse, [([w2], false), ([], true)])]).map
      (fun t => (t.header.isSome, t.rows.length)) = [(true, 2), (false, 1)] := by
  decide +kernel

/-- a file cell showing exactly the model's cell -/
def exactCell : Option Val → CellIn
  | some (.str s) => ⟨s, none⟩
  | some (.num q) => ⟨"", some q⟩
  | _ => ⟨"", none⟩

/-- the checker accepts the table the repaired writer produces for `w0, w1, w2` … -/
example :
    let cols := headerOf (some 2) w1
    checkTable (1 / 1000000000000) cols (cols.map Col.name)
      ([w0, w1, w2].map (fun j => (renderRow cols (some 2) j).map exactCell)) [w0, w1, w2] (some 2) = true := by
  decide +kernel

/-- … rejects the table of the writer before fix 1 (the failure string is missing) … -/
example :
    let cols := headerOf (some 2) w1
    checkTable (1 / 1000000000000) cols (cols.map Col.name)
      ([w0, w1, w2].map (fun j => (renderRow cols (if j.id = 0 then some 1 else some 2) j).map exactCell))
      [w0, w1, w2] (some 2) = false := by
  decide +kernel

/-- … and a table with a line missing -/
example :
    let cols := headerOf (some 2) w1
    checkTable (1 / 1000000000000) cols (cols.map Col.name)
      ([w0, w1].map (fun j => (renderRow cols (some 2) j).map exactCell)) [w0, w1, w2] (some 2) = false := by
  decide +kernel

/-- the bytes of a table with a comma, a quote and a line feed in its cells, and reading them back -/
example : String.ofList (renderFile [["p:c".toList, "objective".toList], ["a,\"b\"".toList, "F_1\n2".toList]])
    = "p:c,objective\r\n\"a,\"\"b\"\"\",\"F_1\n2\"\r\n" := by decide +kernel
example : parseFile "p:c,objective\r\n\"a,\"\"b\"\"\",\"F_1\n2\"\r\n".toList
    = [["p:c".toList, "objective".toList], ["a,\"b\"".toList, "F_1\n2".toList]] := by decide +kernel

example : onDoneObjective (.list [.num 1, .nonfin .nan]) = .str "F" := by decide +kernel
example : (match standardizeOutput (.dict [("objective", .num 1), ("metadata", .num 3)]) with
    | .error e => some e | .ok _ => none) = some StdErr.badMetadata := by
  decide +kernel

/-! ### the Python class of the objectives' container (`Model/DumpSeq.lean`) -/

/-- **C04 (container class).**  The writer with its class tests on `job.objective` explicit: whenever
the tests accept the container class of every job of the run (every job still pending and every job
finished later), it IS `dumpStep` on the same jobs - evaluator state and file after every sequence of
dumps.  Arity, header and cells are functions of the components alone. -/
theorem C04_container_class (T : ClassTests) (kindOf : Nat → SeqKind) (ops : List (List JobRec × Bool))
    (st : DumpState) (t : Table)
    (h : ∀ j ∈ st.pending ++ allJobs ops, T.infer (kindOf j.id) = true ∧ T.row (kindOf j.id) = true) :
    runOpsK T kindOf st t ops = runOps st t ops :=
  runOpsK_eq T kindOf ops st t h

/-- **C04 (container class, the code).**  The tests of the code are `isinstance(…, (tuple, list))`:
for EVERY assignment of container classes (tuple, list, namedtuple, subclass of tuple, subclass of
list) to the jobs the table is the one `C04_rows` describes; two runs whose jobs differ only in the
class of their containers write the same file. -/
theorem C04_container_class_irrelevant (kindOf kindOf' : Nat → SeqKind)
    (ops : List (List JobRec × Bool)) (st : DumpState) (t : Table) :
    runOpsK codeTests kindOf st t ops = runOps st t ops ∧
    runOpsK codeTests kindOf st t ops = runOpsK codeTests kindOf' st t ops := by
  have h : ∀ k, runOpsK codeTests k st t ops = runOps st t ops :=
    fun k => runOpsK_eq codeTests k ops st t (fun _ _ => ⟨rfl, rfl⟩)
  exact ⟨h kindOf, (h kindOf).trans (h kindOf').symm⟩

/-- `_on_done` too: with the code's test a non-finite component makes a failure of a sequence of any class -/
theorem C04_on_done_container_class (kindOf : Nat → SeqKind) (tg : Val) (j : JobRec) :
    onDoneK codeTests kindOf tg j = onDone tg j := by
  simp [onDoneK, onDone, codeTests, isinstanceTupleList, onDoneObjectiveK_true]

/-- non-vacuity: the hypothesis of `C04_container_class` holds for tests that accept tuples and lists
only when the jobs return tuples and lists … -/
example : ∀ j ∈ ([] : List JobRec) ++ allJobs [([w0], false), ([w1], false), ([w2], false), ([], true)],
    typeIsTupleOrList ((fun i => if i = 1 then SeqKind.list else .tuple) j.id) = true ∧
    typeIsTupleOrList ((fun i => if i = 1 then SeqKind.list else .tuple) j.id) = true := by
  decide +kernel

/-- … and a test that knows the exact class `tuple` only (the inference written as
`len(o) if type(o) is tuple else 1`) loses the failure string as soon as the objectives come in a list:
the header has `objective_0`, `objective_1`, the failed evaluation only has a cell `objective` -/
example : (runOpsK ⟨isinstanceTupleList, typeIsTuple, isinstanceTupleList⟩ (fun _ => .list) DumpState.fresh Table.empty
      [([w0], false), ([w1], false), ([w2], false), ([], true)]).2.rows.head?
    = some [some (.num (1/4)), none, none, some (.num 0), some (.str "DONE"), some (.num 1), none] := by
  decide +kernel

example : (runOpsK ⟨isinstanceTupleList, typeIsTuple, isinstanceTupleList⟩ (fun _ => .tuple) DumpState.fresh Table.empty
      [([w0], false), ([w1], false), ([w2], false), ([], true)]).2.rows
    = (runOps DumpState.fresh Table.empty [([w0], false), ([w1], false), ([w2], false), ([], true)]).2.rows := by
  decide +kernel

/-! ### what `search()` hands back (`Model/SearchReturn.lean`) -/

/-- **C04 (no evaluation, no table).**  A `Search` object whose evaluator has written nothing and holds
nothing, and whose `search()` calls finish no evaluation (the empty output sequence: `max_evals=0`, or
any number of calls in which nothing completes): evaluator and file stay what they were and `search()`
hands back no table - whatever `results.csv` the directory holds (`t` is arbitrary: the table of an
earlier search included). -/
theorem C04_idle_search_returns_nothing (ops : List (List JobRec × Bool)) (st : DumpState) (t : Table)
    (hs : st.started = false) (hp : st.pending = []) (hidle : allJobs ops = []) :
    searchReturn (runOps st t ops).1 (runOps st t ops).2 = none ∧ (runOps st t ops).2 = t := by
  rw [runOps_idle ops st t hp hidle]
  simp [searchReturn, hs]

/-- **C04 (the returned table is this search's own).**  If `search()` hands back a table, the evaluator
of this `Search` object wrote it, and it is the table the same dumps write into an EMPTY directory: no
line of a file that was there before (`t`) is in it.  With `C04_rows` / `C04_rows_reused_evaluator` (which
describe the run from `Table.empty`): exactly one line per evaluation of this search. -/
theorem C04_returned_table_is_own (ops : List (List JobRec × Bool)) (st : DumpState) (t tbl : Table)
    (hs : st.started = false)
    (hret : searchReturn (runOps st t ops).1 (runOps st t ops).2 = some tbl) :
    tbl = (runOps st Table.empty ops).2 ∧ (runOps st t ops).1 = (runOps st Table.empty ops).1 := by
  unfold searchReturn at hret
  split at hret
  · rename_i hst
    cases hret
    exact ⟨runOps_table_indep ops st t Table.empty hs hst, runOps_state_indep ops st t Table.empty⟩
  · cases hret

/-- **C04 (a results file is this search's file).**  For a `Search` constructed on the directory as it is
(`searchInit`: an existing `results.csv` is renamed, the evaluator's dump state reset), "a results file
exists" - the test of the code before the repair - and "this search has written" coincide after every
sequence of dumps: both tests hand back the same thing. -/
theorem C04_return_tests_agree (c : EvalChoice) (st : DumpState) (t : Table)
    (ops : List (List JobRec × Bool)) :
    searchReturnIfFile (runOps (searchInit c st t).1 (searchInit c st t).2 ops).1
        (runOps (searchInit c st t).1 (searchInit c st t).2 ops).2 =
      searchReturn (runOps (searchInit c st t).1 (searchInit c st t).2 ops).1
        (runOps (searchInit c st t).1 (searchInit c st t).2 ops).2 := by
  have h0 : (searchInit c st t).2.header.isSome = (searchInit c st t).1.started := by
    cases c <;> cases hh : t.header <;> simp [searchInit, hh, Table.empty, DumpState.fresh]
  have h := runOps_file_iff_started ops _ _ h0
  simp only [searchReturnIfFile, searchReturn, h]

/-- non-vacuity / the recorded finding: two `Search` objects constructed before either ran
(`searchInitEarly`); the first finishes `w0, w1`, the second finishes nothing.  The repaired `search()`
hands back nothing; the test "a results file exists" hands back the two lines of the FIRST search. -/
example :
    let r1 := runOps DumpState.fresh Table.empty [([w0], false), ([w1], false), ([], true)]
    let s2 := searchInitEarly r1.1 r1.2
    let r2 := runOps s2.1 s2.2 [([], true)]
    (returnedRows (searchReturn r2.1 r2.2), returnedRows (searchReturnIfFile r2.1 r2.2)) = (0, 2) := by
  decide +kernel

/-- … while a second search that does finish an evaluation hands back exactly its own line under
both tests (the first write renames the file it finds) -/
example :
    let r1 := runOps DumpState.fresh Table.empty [([w0], false), ([w1], false), ([], true)]
    let s2 := searchInitEarly r1.1 r1.2
    let r2 := runOps s2.1 s2.2 [([w2], false), ([], true)]
    (returnedRows (searchReturn r2.1 r2.2), returnedRows (searchReturnIfFile r2.1 r2.2)) = (1, 1) := by
  decide +kernel

/-- the hypotheses of `C04_returned_table_is_own` hold for the second of two objects constructed early that
finishes `w2` while the directory holds the two lines of the first: a table is handed back, by an
evaluator that had written nothing, over a non-empty earlier file -/
example :
    let r1 := runOps DumpState.fresh Table.empty [([w0], false), ([w1], false), ([], true)]
    let s2 := searchInitEarly r1.1 r1.2
    s2.1.started = false ∧ s2.2.rows.length = 2 ∧
      (searchReturn (runOps s2.1 s2.2 [([w2], false), ([], true)]).1
        (runOps s2.1 s2.2 [([w2], false), ([], true)]).2).isSome = true := by
  decide +kernel

/-- the hypotheses of `C04_idle_search_returns_nothing` hold for a `Search` constructed on a used
directory (`C04_new_search`) that is asked for zero evaluations, twice -/
example :
    let r1 := runOps DumpState.fresh Table.empty [([w0], false), ([w1], false), ([], true)]
    let s2 := searchInit .reuse r1.1 r1.2
    s2.1.started = false ∧ s2.1.pending = [] ∧ allJobs [(([] : List JobRec), true), ([], true)] = [] := by
  decide +kernel

end DH.Dump
