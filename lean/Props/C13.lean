import Proofs.StorageConc
import Proofs.StorageChecker
import Proofs.StorageAliasSim
import Proofs.StorageKeys
import Proofs.StorageSubmit

/-!
# C13 — storage keeps what it was given: unique ids, read-your-writes, isolation

Property theorems only (model and specification: `Model/Storage.lean`; lemmas: `Proofs/Storage*.lean`).

A *history* is any list of method calls (`Op`), with any string as identifier / key argument and any
`Val` as value; `run Store.init h` executes it on the model of `MemoryStorage` from the empty storage and
returns the final state and every answer.  The only calls excluded are `store_search_value` with the
keys `job_id_counter` / `data`, which overwrite the storage's own bookkeeping entries (`Op.inScope`).
-/

namespace DH.Storage

/-- every call of the history is covered by the model -/
def InScope (h : List Op) : Prop := ∀ op ∈ h, op.inScope = true

/-! ## identifiers are unique -/

/-- **C13 (unique ids)** — in every history all identifiers returned (by `create_new_search` and by
`create_new_job`, in any search) are pairwise distinct.  (Rests on `Nat.repr` being injective and never
producing a `'.'`: proved, see `repr_inj`, `repr_nodot`, `jobId_inj`.) -/
theorem C13_unique (h : List Op) (_hin : InScope h) : (idsOf (run Store.init h).2).Nodup :=
  (ids_fresh_nodup h Store.init WF_init).1

/-- the text of an identifier determines the counters it was made from -/
theorem C13_id_rendering_injective :
    (∀ a b : Nat, Nat.repr a = Nat.repr b → a = b) ∧
    (∀ (s p s' p' : Nat), jobId (Nat.repr s) (Nat.repr p) = jobId (Nat.repr s') (Nat.repr p') → s = s' ∧ p = p') ∧
    (∀ (s p n : Nat), jobId (Nat.repr s) (Nat.repr p) ≠ Nat.repr n) ∧
    (∀ s p : Nat, parseJobId (jobId (Nat.repr s) (Nat.repr p)) = some (Nat.repr s, Nat.repr p)) := by
  refine ⟨fun a b => repr_inj, ?_, fun s p n => jobId_ne_repr _ _ n, fun s p => parseJobId_jobId (repr_nodot s) (repr_nodot p)⟩
  intro s p s' p' h
  obtain ⟨h1, h2⟩ := jobId_inj (repr_nodot p) (repr_nodot p') h
  exact ⟨repr_inj h1, repr_inj h2⟩

/-! ## the storage refines the simple map  search ↦ job ↦ record -/

/-- **C13 (refinement)** — after any history, every further call (a) moves the abstraction `abs` of the
store exactly as the map specification says for the answer given (`Spec.next`), and (b) gives an answer
the map allows (`Spec.answers`: fresh identifiers, `KeyError`/`ValueError`/`TypeError` exactly for unknown
or malformed ids / non-dict metadata, loads returning exactly the record held by the map). -/
theorem C13_refines (h : List Op) (_hin : InScope h) (op : Op) (hop : op.inScope = true) :
    let s := (run Store.init h).1
    abs (step s op).1 = (abs s).next op (step s op).2 ∧ (abs s).answers op (step s op).2 :=
  ⟨abs_step _ (WF_run WF_init h) op hop, step_answers _ (WF_run WF_init h) op hop⟩

/-! ## read-your-writes -/

/-- **C13 (read-your-writes, job record)** — `store_job(jid, key, v)` succeeded (`store_job_in/out/status`
are the cases `key = "in"/"out"/"status"`, see `C13_store_variants`); then whatever calls follow that do not
store to that key of that job, `load_job(jid)` returns a dict holding `v` under `key`. -/
theorem C13_ryw (h1 h2 : List Op) (hin1 : InScope h1) (hin2 : InScope h2) (jid key : String) (v : Val)
    (hok : (step (run Store.init h1).1 (.storeJob jid key v)).2 = .none)
    (hno : ∀ op ∈ h2, op.writes (.job jid key) = false) :
    ∃ kvs, (step (run Store.init (h1 ++ .storeJob jid key v :: h2)).1 (.loadJob jid)).2 = .val (.dict kvs) ∧
      aget key kvs = some v := by
  have w1 := WF_run WF_init h1
  rw [run_append, run_cons]
  simp only
  generalize (run Store.init h1).1 = s1 at *
  have hex := storeJob_none_has (s := s1) hok
  have w2 : WF (step s1 (.storeJob jid key v)).1 := WF_step w1 _
  have hrec := recOfJob_storeJob s1 jid key v jid
  simp only [if_true] at hrec
  have hread : (abs (step s1 (.storeJob jid key v)).1).read (.job jid key) = some v := by
    simp only [step, Spec.read, hrec]
    rcases hr : (abs s1).recOfJob jid with _ | r
    · simp [hr] at hex
    · simp [upd]
  have hhas : (abs (step s1 (.storeJob jid key v)).1).has (.job jid key) = true := by
    simp only [step, Spec.has, hrec]
    rcases hr : (abs s1).recOfJob jid with _ | r
    · simp [hr] at hex
    · rfl
  obtain ⟨f1, f2⟩ := frame_run h2 _ w2 hin2 (.job jid key) hhas hno
  obtain ⟨kvs, l1, l2⟩ := loadJob_reads _ (WF_run w2 h2) jid (by simpa [Spec.has] using f2)
  exact ⟨kvs, l1, by rw [l2 key, f1, hread]⟩

/-- `store_job_in / store_job_out / store_job_status` are `store_job` with a fixed key, and
`load_job_status` is the `status` entry of `load_job` -/
theorem C13_store_variants (s : Store) (jid : String) (v a k : Val) :
    step s (.storeJobOut jid v) = step s (.storeJob jid "out" v) ∧
    step s (.storeJobStatus jid v) = step s (.storeJob jid "status" v) ∧
    step s (.storeJobIn jid a k) = step s (.storeJob jid "in" (.dict [("args", a), ("kwargs", k)])) ∧
    (∀ kvs, (step s (.loadJob jid)).2 = .val (.dict kvs) →
      (step s (.loadJobStatus jid)).2 = (match aget "status" kvs with | some x => .val x | none => .error .keyError)) := by
  refine ⟨rfl, rfl, rfl, ?_⟩
  intro kvs h
  simp only [step] at h ⊢
  rcases hf : findJob s jid with e | ⟨sid, pid, S, j⟩
  · simp [hf, outOfExcept] at h
  · simp only [hf, outOfExcept, jobVal, Out.val.injEq, Val.dict.injEq] at h
    subst h
    rcases hs : aget "status" j with _ | x <;> simp [hs]

/-- **C13 (read-your-writes, metadata)** — `store_job_metadata(jid, key, v)` succeeded; then whatever calls
follow that neither store to that metadata key of that job nor replace its whole `metadata` entry,
`load_job(jid)["metadata"][key]` is `v`. -/
theorem C13_ryw_metadata (h1 h2 : List Op) (hin1 : InScope h1) (hin2 : InScope h2) (jid key : String) (v : Val)
    (hok : (step (run Store.init h1).1 (.storeJobMetadata jid key v)).2 = .none)
    (hno : ∀ op ∈ h2, op.writes (.mdata jid key) = false) :
    ∃ kvs m, (step (run Store.init (h1 ++ .storeJobMetadata jid key v :: h2)).1 (.loadJob jid)).2 = .val (.dict kvs) ∧
      aget "metadata" kvs = some (.dict m) ∧ aget key m = some v := by
  have w1 := WF_run WF_init h1
  rw [run_append, run_cons]
  simp only
  generalize (run Store.init h1).1 = s1 at *
  have w2 : WF (step s1 (.storeJobMetadata jid key v)).1 := WF_step w1 _
  simp only [step] at hok w2 ⊢
  rcases storeJobMetadata_cases s1 jid key v with ⟨_, e, he⟩ | ⟨m, hm, heq⟩
  · rw [he] at hok; cases hok
  · rw [heq] at hok w2 ⊢
    have hex := storeJob_none_has (s := s1) hok
    have hrec := recOfJob_storeJob s1 jid "metadata" (.dict (aset key v m)) jid
    simp only [if_true] at hrec
    have hread : (abs (storeJob s1 jid "metadata" (.dict (aset key v m))).1).read (.mdata jid key) = some v := by
      simp only [Spec.read, hrec]
      rcases hr : (abs s1).recOfJob jid with _ | r
      · simp [hr] at hex
      · simp [upd, aget_aset_self]
    have hhas : (abs (storeJob s1 jid "metadata" (.dict (aset key v m))).1).has (.mdata jid key) = true := by
      simp only [Spec.has, hrec]
      rcases hr : (abs s1).recOfJob jid with _ | r
      · simp [hr] at hex
      · rfl
    obtain ⟨f1, f2⟩ := frame_run h2 _ w2 hin2 (.mdata jid key) hhas hno
    obtain ⟨kvs, l1, l2⟩ := loadJob_reads _ (WF_run w2 h2) jid (by simpa [Spec.has] using f2)
    rw [hread] at f1
    simp only [Spec.read] at f1 l2
    have lm := l2 "metadata"
    rcases hmd : ((abs (run (storeJob s1 jid "metadata" (.dict (aset key v m))).1 h2).1).recOfJob jid).bind (· "metadata") with _ | mv
    · simp [hmd] at f1
    · cases mv with
      | dict m' =>
        simp only [hmd] at f1
        exact ⟨kvs, m', l1, by rw [lm, hmd], f1⟩
      | none => simp [hmd] at f1
      | bool b => simp [hmd] at f1
      | int i => simp [hmd] at f1
      | num q => simp [hmd] at f1
      | str x => simp [hmd] at f1
      | list l => simp [hmd] at f1
      | tuple l => simp [hmd] at f1

/-- **C13 (read-your-writes, search value)** -/
theorem C13_ryw_search (h1 h2 : List Op) (hin1 : InScope h1) (hin2 : InScope h2) (sid key : String) (v : Val)
    (hkey : reservedKey key = false)
    (hok : (step (run Store.init h1).1 (.storeSearchValue sid key v)).2 = .none)
    (hno : ∀ op ∈ h2, op.writes (.search sid key) = false) :
    (step (run Store.init (h1 ++ .storeSearchValue sid key v :: h2)).1 (.loadSearchValue sid key)).2 = .val v := by
  have w1 := WF_run WF_init h1
  have hop : (Op.storeSearchValue sid key v).inScope = true := by simp [Op.inScope, hkey]
  rw [run_append, run_cons]
  simp only
  generalize (run Store.init h1).1 = s1 at *
  have w2 : WF (step s1 (.storeSearchValue sid key v)).1 := WF_step w1 _
  have hS : ∃ S, aget sid s1.data = some S := by
    simp only [step] at hok
    rcases hS : aget sid s1.data with _ | S
    · simp [hS] at hok
    · exact ⟨S, rfl⟩
  obtain ⟨S, hS⟩ := hS
  have hstep : (step s1 (.storeSearchValue sid key v)).1 =
      { s1 with data := aset sid { S with free := aset key v S.free } s1.data } := by
    simp [step, hS, hkey]
  have hread : (abs (step s1 (.storeSearchValue sid key v)).1).read (.search sid key) = some v := by
    rw [hstep, abs_setFree hS]
    simp [Spec.read, abs_vals_of hS, upd]
  have hhas : (abs (step s1 (.storeSearchValue sid key v)).1).has (.search sid key) = true := by
    rw [hstep, abs_setFree hS]
    simp [Spec.has, abs_vals_of hS]
  obtain ⟨f1, f2⟩ := frame_run h2 _ w2 hin2 (.search sid key) hhas hno
  have ans := step_answers _ (WF_run w2 h2) (.loadSearchValue sid key) rfl
  simp only [Spec.answers, hkey, Bool.false_eq_true, if_false] at ans
  rw [hread] at f1
  simp only [Spec.read, Spec.has] at f1 f2
  rcases hv : (abs (run (step s1 (.storeSearchValue sid key v)).1 h2).1).vals sid with _ | r
  · simp [hv] at f2
  · simp only [hv, Option.bind_some] at f1 ans
    simpa [f1] using ans

/-! ## isolation -/

/-- **C13 (isolation)** — after any history, a call changes no location (`Loc`: a key of a job's record, a key
of a job's metadata, a free value of a search) other than the one it stores to, and makes none disappear:
what the map holds there (which is exactly what `load_job` / `load_job_status` / `load_search_value` return,
by `C13_refines`) is the same before and after.  In particular a store to one search or job never changes
another. -/
theorem C13_isolation (h : List Op) (_hin : InScope h) (op : Op) (hop : op.inScope = true) (loc : Loc)
    (hex : (abs (run Store.init h).1).has loc = true) (hno : op.writes loc = false) :
    let s := (run Store.init h).1
    (abs (step s op).1).read loc = (abs s).read loc ∧ (abs (step s op).1).has loc = true :=
  frame_step _ (WF_run WF_init h) op hop loc hex hno

/-- the connection used above: `load_job` returns exactly what the map holds for every key -/
theorem C13_load_job_reads (h : List Op) (_hin : InScope h) (jid : String)
    (hex : ((abs (run Store.init h).1).recOfJob jid).isSome = true) :
    ∃ kvs, (step (run Store.init h).1 (.loadJob jid)).2 = .val (.dict kvs) ∧
      ∀ key, aget key kvs = (abs (run Store.init h).1).read (.job jid key) :=
  loadJob_reads _ (WF_run WF_init h) jid hex

/-! ## snapshots -/

/-- **C13 (snapshot)** — what a call returned is a value: the answers of a history are a prefix of the
answers of any extension of it, and loads leave the store untouched.  (In the pure model a returned value
cannot alias the store; that the implementation's `load_job`/`load_search` really return copies is checked on
the real objects by the harness.) -/
theorem C13_snapshot (s : Store) (h h' : List Op) :
    (run s (h ++ h')).2 = (run s h).2 ++ (run (run s h).1 h').2 ∧
    (∀ jid, (step s (.loadJob jid)).1 = s) ∧ (∀ sid, (step s (.loadSearch sid)).1 = s) := by
  refine ⟨by rw [run_append], fun jid => rfl, fun sid => ?_⟩
  simp only [step]; split <;> rfl

/-! ## several clients -/

/-- **C13 (clients with atomic calls are linearizable)** — any number of clients, each with its own program;
the calls are served one at a time in the order `sched` (any list of client numbers).  Then the shared store
ends in the state of the *sequential* history `linearize progs sched`, every client has received exactly the
answers that history gives to its calls, the history contains each client's calls in program order, and —
by `C13_unique` — no identifier is handed out twice, to the same or to different clients. -/
theorem C13_linearizable_clients (progs : List (List Op)) (sched : List Nat)
    (hin : ∀ p ∈ progs, InScope p) :
    let c := (Conc.start Store.init progs).run sched
    let lin := linearize progs sched
    let r := run Store.init (lin.map (·.2))
    c.store = r.1 ∧
    (∀ i, c.outs.getD i [] = outsFor i lin r.2) ∧
    (∀ i, callsOf i lin ++ c.progs.getD i [] = progs.getD i []) ∧
    (idsOf r.2).Nodup ∧
    (∀ i, ∀ x ∈ idsOf (c.outs.getD i []), x ∈ idsOf r.2) := by
  have hc := conc_run sched (Conc.start Store.init progs) (by simp [Conc.start])
  simp only [Conc.start] at hc ⊢
  obtain ⟨h1, h2, h3, _⟩ := hc
  have houts : ∀ i, (progs.map (fun _ => ([] : List Out))).getD i [] = [] := by
    intro i
    simp only [List.getD, List.getElem?_map]
    cases progs[i]? <;> rfl
  refine ⟨h1, ?_, h3, (ids_fresh_nodup _ Store.init WF_init).1, ?_⟩
  · intro i; rw [h2 i, houts i]; rfl
  · intro i x hx
    rw [h2 i, houts i] at hx
    exact idsOf_outsFor_sub i _ _ x (by simpa using hx)

/-- **C13 (uniqueness rests on atomicity)** — split `create_new_job` where a thread switch could occur
(after reading the counter, before incrementing it): `createJob = createJobRead ; createJobCommit`, and if
two clients both read before either commits, both receive the same identifier `"0.0"`. -/
theorem C13_nonatomic_witness :
    (∀ (s : Store) (sid : String), createJob s sid =
      match createJobRead s sid with
      | some c => createJobCommit s sid c
      | none => (s, .error .keyError)) ∧
    (let s0 := (createSearch Store.init).1
     let a := (createJobRead s0 "0").getD 0      -- client A reads the counter
     let b := (createJobRead s0 "0").getD 0      -- client B reads the counter
     let ra := createJobCommit s0 "0" a           -- A commits
     let rb := createJobCommit ra.1 "0" b         -- B commits
     idsOf [ra.2, rb.2] = ["0.0", "0.0"]) := by
  refine ⟨?_, by decide +kernel⟩
  intro s sid
  unfold createJob createJobRead createJobCommit
  cases aget sid s.data <;> rfl

/-! ## the verified checker run on the real answers -/

/-- **C13 (verified history checker)** — for every observed history (calls paired with the answers a storage
gave), the checker the driver evaluates on the answers of the REAL `MemoryStorage` / `SharedMemoryStorage`
returns `true` exactly when the history is a run of the map specification from the empty map: every answer is
one `Spec.answers` allows (fresh identifiers, the right exception for unknown / malformed ids, loads returning
exactly the held record or the right set of values) and the map moves by `Spec.next`. -/
theorem C13_checker (h : List (Op × Out)) : checkHistory h = true ↔ SpecRun Spec.empty h := by
  unfold checkHistory
  rw [checkHistoryFrom_iff h Store.init ND_init, abs_init]

/-- the model's own answers always pass the checker (so a disagreement between the checker's verdict on the real
answers and the model-vs-implementation comparison can only come from the implementation) -/
theorem C13_model_passes_checker (ops : List Op) (hin : InScope ops) :
    checkHistory (ops.zip (run Store.init ops).2) = true := by
  rw [C13_checker, ← abs_init]
  have key : ∀ (ops : List Op) (s : Store), WF s → InScope ops → SpecRun (abs s) (ops.zip (run s ops).2) := by
    intro ops
    induction ops with
    | nil => intro s _ _; simp [run, SpecRun]
    | cons op ops ih =>
      intro s w hin
      rw [run_cons]
      simp only [List.zip_cons_cons, SpecRun]
      have hop := hin op List.mem_cons_self
      refine ⟨step_answers s w op hop, ?_⟩
      rw [← abs_step s w op hop]
      exact ih _ (WF_step w op) (fun o ho => hin o (List.mem_cons_of_mem _ ho))
  exact key ops Store.init WF_init hin

/-! ## object identities: what the caller does with loaded data does not matter

`Model/StorageAlias.lean`: the job table as a forest of Python objects (every dict / list carries its identity);
`store_job` keeps the object it is given, `store_job_metadata` changes a dict in place, `load_jobs` returns the live
dicts, `load_job` / `load_search` return `copy.deepcopy`; an in-place change of an object is seen through every
reference to it (`World.editAll`), the caller's edits included (`AOp.callerEdit`).  The discipline `AOp.ok`: the caller
gives the storage no object that is already in it (or that contains an object twice), and edits in place only objects
the storage does not hold. -/

/-- **C13 (loaded data is the caller's alone, `load_job`)** — after any history that kept the discipline, the tree
`load_job` returns consists of new objects only.  Hence (1) any part of it may be handed back to the storage (as the value
of any job's key or metadata key) and (2) any container in it may be edited in place, within the discipline; and (3) that
remains so after whatever calls and edits follow, as long as the object itself is not passed to the storage. -/
theorem C13_load_job_private (ops : List AOp) (hok : OkRun World.init ops) (jid : String) (c : RVal)
    (hload : (astep (arun World.init ops).1 (.loadJob jid)).2 = .val c) :
    let W1 := (astep (arun World.init ops).1 (.loadJob jid)).1
    (∀ (p : List String) (x : RVal) (j k : String), c.sub p = some x →
      (AOp.storeJob j k x).ok W1 ∧ (AOp.storeMeta j k x).ok W1) ∧
    (∀ a ∈ c.addrs, ∀ e, (AOp.callerEdit a e).ok W1) ∧
    (∀ a ∈ c.addrs, ∀ more : List AOp, (∀ op ∈ more, a ∉ op.passes) → ∀ e, (AOp.callerEdit a e).ok (arun W1 more).1) := by
  have hW := (alias_run ops World.init Inv_init hok).1
  obtain ⟨hn, hf⟩ := loadJob_fresh _ hW jid c hload
  exact fresh_private _ c hn (fun a ha => ⟨(hf a ha).1, (hf a ha).2.2⟩)

/-- **C13 (loaded data is the caller's alone, `load_search`)** — the same for the deep copy of the whole table. -/
theorem C13_load_search_private (ops : List AOp) (hok : OkRun World.init ops) (c : RVal)
    (hload : (astep (arun World.init ops).1 .loadAll).2 = .val c) :
    let W1 := (astep (arun World.init ops).1 .loadAll).1
    (∀ (p : List String) (x : RVal) (j k : String), c.sub p = some x →
      (AOp.storeJob j k x).ok W1 ∧ (AOp.storeMeta j k x).ok W1) ∧
    (∀ a ∈ c.addrs, ∀ e, (AOp.callerEdit a e).ok W1) ∧
    (∀ a ∈ c.addrs, ∀ more : List AOp, (∀ op ∈ more, a ∉ op.passes) → ∀ e, (AOp.callerEdit a e).ok (arun W1 more).1) := by
  have hW := (alias_run ops World.init Inv_init hok).1
  obtain ⟨hn, hf⟩ := loadAll_fresh _ hW c hload
  exact fresh_private _ c hn (fun a ha => ⟨(hf a ha).1, (hf a ha).2.2⟩)

/-- **C13 (the caller's edits are invisible; a write reaches one job only)** — every history of calls, hand-backs and
in-place edits that keeps the discipline: the values in the job table and every answer (identities forgotten) are those
of the model over VALUES run on the same operations — in which `job[key] = v` changes that job's record only and a
caller's edit is no operation at all: the answers to the storage calls are exactly those the calls alone would get. -/
theorem C13_caller_edits_invisible (ops : List AOp) (hok : OkRun World.init ops) :
    let r := arun World.init ops
    RVal.eraseKV r.1.jobs = (prun [] ops).1 ∧
    r.2.map AOut.erase = (prun [] ops).2 ∧
    (prun [] ops).1 = (prun [] (ops.filter AOp.isCall)).1 ∧
    callOuts ops (r.2.map AOut.erase) = (prun [] (ops.filter AOp.isCall)).2 := by
  obtain ⟨_, h2, h3⟩ := alias_run ops World.init Inv_init hok
  obtain ⟨e1, e2⟩ := prun_ignores_edits ops []
  refine ⟨h2, h3, e1, ?_⟩
  rw [h3]; exact e2

/-- one call, from any world with the invariant (the general step behind the two theorems above) -/
theorem C13_alias_step (W : World) (hW : Inv W) (op : AOp) (hok : op.ok W) :
    Inv (astep W op).1 ∧
    RVal.eraseKV (astep W op).1.jobs = (pstep (RVal.eraseKV W.jobs) op).1 ∧
    (astep W op).2.erase = (pstep (RVal.eraseKV W.jobs) op).2 :=
  alias_step W hW op hok

/-! ### non-vacuity, and what happens without the hypotheses -/

def outVal : AOut → Val
  | .val r => r.erase
  | _ => .str "<no value>"

def jobRec (md : List (String × Val)) (out : Val) : Val :=
  .dict [("status", .int 0), ("in", .none), ("out", out), ("metadata", .dict md),
    ("intermediate", .dict [("budget", .list []), ("objective", .list [])])]

/-- two jobs; `load_job("0.0")` (objects 10…14); the caller scribbles over the copy (`out`, `metadata["z"]`), stores the
copy's metadata dict (object 11) as the metadata of job `0.1`, which is then extended through the storage; loads. -/
def demoAlias : List AOp :=
  [.newJob "0.0", .newJob "0.1", .loadJob "0.0",
   .callerEdit 10 (.setKey "out" (.atom (.int 5))), .callerEdit 11 (.setKey "z" (.atom (.bool true))),
   .storeJob "0.1" "metadata" (.dict 11 [("z", .atom (.bool true))]), .storeMeta "0.1" "k" (.atom (.int 7)),
   .loadJob "0.0", .loadJob "0.1"]

example : OkRun World.init demoAlias := by decide +kernel
/-- job `0.0` is as it was created; job `0.1` has the handed-back dict plus the key stored afterwards -/
example : List.all ((((arun World.init demoAlias).2.drop 7).map outVal).zip
      [jobRec [] .none, jobRec [("z", .bool true), ("k", .int 7)] .none]) (fun p => Val.beq p.1 p.2) = true := by
  decide +kernel
/-- the load of `demoAlias` answers a dict (object 10): hypothesis `hload` of `C13_load_job_private` is satisfiable -/
example : ((astep (arun World.init (demoAlias.take 2)).1 (.loadJob "0.0")).2 matches .val (.dict 10 _)) := by decide +kernel

/-- **without the discipline** (the caller stores ONE dict as the metadata of two jobs — an in-process `MemoryStorage`
keeps what it is given by reference): `store_job_metadata` on one of the jobs shows up in the other.  The model
reproduces what the real object does; the property statement does not speak about copies on the store side. -/
def demoShared : List AOp :=
  [.newJob "0.0", .newJob "0.1", .storeJob "0.0" "metadata" (.dict 20 []), .storeJob "0.1" "metadata" (.dict 20 []),
   .storeMeta "0.1" "k" (.atom (.int 1)), .loadJob "0.0"]

example : ¬ OkRun World.init demoShared := by decide +kernel
example : List.all (((arun World.init demoShared).2.drop 5).map outVal) (Val.beq (jobRec [("k", .int 1)] .none)) = true := by
  decide +kernel

/-- **C13 (a load that hands out an object the storage keeps breaks the property)** — `load_job` memoised (one deep copy
kept and returned again until the job is written): (a) the caller writes `out = 5` into the dict it received and the next
`load_job` answers `out = 5` although `None` is stored; (b) with storage calls only: the metadata dict loaded from job `0.0`
is stored as the metadata of job `0.1`, `store_job_metadata("0.1", "k", 7)` then changes what `load_job("0.0")` answers.
(With `copy.deepcopy` on every call both answers are the stored record: `demoAlias`.) -/
theorem C13_memoised_load_witness :
    (let M0 : MemoWorld := ⟨(arun World.init [.newJob "0.0", .newJob "0.1"]).1, []⟩
     let M1 := (M0.loadJob "0.0").1                                       -- the copy: objects 10…14
     let M2 := M1.editAll 10 (.setKey "out" (.atom (.int 5)))             -- the caller: loaded["out"] = 5
     Val.beq (outVal (M2.loadJob "0.0").2) (jobRec [] (.int 5)) = true ∧
     Val.beq (RVal.erase ((aget "0.0" M2.w.jobs).getD (.atom .none))) (jobRec [] .none) = true) ∧
    (let M0 : MemoWorld := ⟨(arun World.init [.newJob "0.0", .newJob "0.1"]).1, []⟩
     let M1 := (M0.loadJob "0.0").1
     let W2 := (astep M1.w (.storeJob "0.1" "metadata" (.dict 11 []))).1  -- store_job("0.1", "metadata", loaded["metadata"])
     let M2 : MemoWorld := ⟨W2, M1.memo⟩
     let M3 := M2.editAll 11 (.setKey "k" (.atom (.int 7)))               -- store_job_metadata("0.1", "k", 7): in place
     Val.beq (outVal (M3.loadJob "0.0").2) (jobRec [("k", .int 7)] .none) = true ∧
     Val.beq (RVal.erase ((aget "0.0" M3.w.jobs).getD (.atom .none))) (jobRec [] .none) = true) := by
  decide +kernel


/-! ## keys of any hashable type

`Storage` declares keys and identifiers `Hashable`.  The model keeps string keys; a key of another type enters it through
`Key.render` (`Model/Storage.lean`).  `Key` is the key up to the equality a Python dict uses (`1`, `1.0`, `True` are one key). -/

/-- **C13 (the rendering of keys is injective)** — two keys with the same text are the same key, so `1` / `"1"`, `None` /
`"None"`, `(0, 1)` / `"(0, 1)"`, `2.5` / `"2.5"`, `""` … are different keys of the model, and every theorem above speaks about
them as about any two different strings; a str that does not start with `'#'` (every key the library uses) is its own text. -/
theorem C13_key_rendering_injective :
    (∀ k k' : Key, k.render = k'.render → k = k') ∧
    (∀ s : String, (∀ r, s.toList ≠ '#' :: r) → (Key.atom (.str s)).render = s) :=
  ⟨fun _ _ h => Key.render_inj h, Key.render_plain⟩

/-- **C13 (a store under one key is no write to a key of another type that prints alike)** — for two different keys (of any
types) a `store_search_value` / `store_job_metadata` / `store_job` under the one is not a write to the location of the
other: by `C13_ryw_search` / `C13_ryw_metadata` / `C13_ryw` the other keeps being read back, by `C13_isolation` it is not
changed. -/
theorem C13_typed_keys_isolated (k k' : Key) (hne : k ≠ k') (sid jid : String) (v : Val) :
    (Op.storeSearchValue sid k'.render v).writes (.search sid k.render) = false ∧
    (Op.storeJobMetadata jid k'.render v).writes (.mdata jid k.render) = false ∧
    (Op.storeJob jid k'.render v).writes (.job jid k.render) = false := by
  have h : (k'.render == k.render) = false := by
    simp only [beq_eq_false_iff_ne, ne_eq]
    exact fun e => hne (Key.render_inj e).symm
  simp [Op.writes, h]

example : (Key.atom (.num 1)).render = "#n1/1" ∧ (Key.atom (.str "1")).render = "1" ∧ (Key.atom .none).render = "#N" ∧
    (Key.atom (.str "#N")).render = "#s#N" ∧ (Key.tuple [.num 0, .str "#a"]).render = "#t5:#n0/14:#s#a" ∧
    (Key.atom (.num (-5/2))).render = "#n-5/2" := by decide +kernel
example : Key.atom (.num 1) ≠ Key.atom (.str "1") := by decide
/-- equality of two answers that are values or errors -/
def outIs : Out → Out → Bool
  | .val a, .val b => Val.beq a b
  | .error a, .error b => a == b
  | .none, .none => true
  | _, _ => false

/-- `1` and `"1"` as keys of one search: two values; `0` is absent (`KeyError`) -/
example : (((run Store.init [.createSearch, .storeSearchValue "0" (Key.atom (.num 1)).render (.str "int"),
      .storeSearchValue "0" (Key.atom (.str "1")).render (.str "str"),
      .loadSearchValue "0" (Key.atom (.num 1)).render, .loadSearchValue "0" (Key.atom (.str "1")).render,
      .loadSearchValue "0" (Key.atom (.num 0)).render]).2.drop 3).zip
        [Out.val (.str "int"), Out.val (.str "str"), Out.error .keyError]).all (fun p => outIs p.1 p.2) = true := by
  decide +kernel

/-! ## several client handles on one job

`Job.status` / `RunningJob.status` (`viewStatus`, `setStatus` in `Model/Storage.lean`): a handle keeps no status of its own. -/

theorem run_storeJobStatus (s : Store) (h1 h2 : List Op) (jid : String) (v : Val) :
    run s (h1 ++ .storeJobStatus jid v :: h2) = run s (h1 ++ .storeJob jid "status" v :: h2) := by
  simp only [run_append, run_cons]; rfl

/-- **C13 (every handle reads the last status stored, through whichever handle it was stored)** — a status `i ∈ 0…4` is
stored for job `jid` through ANY route (`handle.status = …` on any `Job` object = `store_job_status` = `store_job(…, "status", …)`);
whatever calls follow that do not store that job's status (through any route), the status read through ANY handle (any `Job`
or `RunningJob` object: `viewStatus` does not depend on the handle) is `i` — also when an earlier status was DONE / CANCELLED. -/
theorem C13_status_handles_agree (h1 h2 : List Op) (hin1 : InScope h1) (hin2 : InScope h2) (jid : String) (i : Int)
    (hi : 0 ≤ i ∧ i ≤ 4)
    (hok : (setStatus (run Store.init h1).1 jid i).2 = .none)
    (hno : ∀ op ∈ h2, op.writes (.job jid "status") = false) :
    viewStatus (run Store.init (h1 ++ .storeJobStatus jid (.int i) :: h2)).1 jid = .val (.int i) ∧
    viewStatus (run Store.init (h1 ++ .storeJob jid "status" (.int i) :: h2)).1 jid = .val (.int i) := by
  have key : viewStatus (run Store.init (h1 ++ .storeJob jid "status" (.int i) :: h2)).1 jid = .val (.int i) := by
    obtain ⟨kvs, l1, l2⟩ := C13_ryw h1 h2 hin1 hin2 jid "status" (.int i) hok hno
    have l3 := (C13_store_variants (run Store.init (h1 ++ .storeJob jid "status" (.int i) :: h2)).1 jid .none .none .none).2.2.2 kvs l1
    simp only [l2] at l3
    simp [viewStatus, l3, statusOfVal, hi.1, hi.2]
  exact ⟨by rw [run_storeJobStatus]; exact key, key⟩

/-- **C13 (a handle that remembers a final status breaks the property)** — handle `B` on job `0.0` reads DONE (stored through
another handle); the status is then stored as READY through the other handle; `B`, answering from memory, still says DONE
while every stateless handle (and `load_job_status`) says READY. -/
theorem C13_cached_status_witness :
    let s0 := (run Store.init [.createSearch, .createJob "0"]).1
    let s1 := (setStatus s0 "0.0" 2).1
    let B : CachingHandle := ⟨"0.0", none⟩
    let B1 := (B.get s1).1
    let s2 := (setStatus s1 "0.0" 0).1
    outIs (B1.get s2).2 (.val (.int 2)) = true ∧ outIs (viewStatus s2 "0.0") (.val (.int 0)) = true ∧
    outIs (step s2 (.loadJobStatus "0.0")).2 (.val (.int 0)) = true := by
  decide +kernel

def demoStatus : List Op := [.createSearch, .createJob "0", .storeJobStatus "0.0" (.int 2)]
example : InScope demoStatus := by intro op h; simp [demoStatus] at h; rcases h with rfl | rfl | rfl <;> rfl
example : isNoneOut (setStatus (run Store.init demoStatus).1 "0.0" 0).2 = true := by decide +kernel
example : (Op.loadJob "0.0").writes (.job "0.0" "status") = false := rfl

/-! ## a third party: the running job and its parameters -/

/-- **C13 (the parameters a run-function edits are not the inputs the storage holds)** — after any history that kept the
discipline, the evaluator submits a configuration `cfg` for job `jid` (`World.submit`: one deep copy becomes the job's
parameters `p`, another one is stored as `{"args": (copy,), "kwargs": None}`).  Then (1) the world keeps its invariant and the
job table moves, on values, exactly as `store_job(jid, "in", {"args": (cfg,), "kwargs": None})` says; (2) every object of `p`
is outside the storage: the run-function may edit every container of its parameters in place within the discipline, now and
after whatever follows, as long as it does not hand the object to the storage — so by `C13_alias_step` /
`C13_caller_edits_invisible` no load is changed by what the run-function does to its parameters. -/
theorem C13_running_job_parameters_private (ops : List AOp) (hok : OkRun World.init ops) (jid : String) (cfg : RVal) :
    let W := (arun World.init ops).1
    let p := (submitObjs W.next cfg).1
    let inn := (submitObjs W.next cfg).2.1
    let W1 := (W.submit jid cfg).1
    Inv W1 ∧
    RVal.eraseKV W1.jobs = (pstep (RVal.eraseKV W.jobs) (.storeJob jid "in" inn)).1 ∧
    inn.erase = .dict [("args", .tuple [cfg.erase]), ("kwargs", .none)] ∧ p.erase = cfg.erase ∧
    (∀ a ∈ p.addrs, ∀ e, (AOp.callerEdit a e).ok W1) ∧
    (∀ a ∈ p.addrs, ∀ more : List AOp, (∀ op ∈ more, a ∉ op.passes) → ∀ e, (AOp.callerEdit a e).ok (arun W1 more).1) := by
  intro W p inn W1
  have hW : Inv W := (alias_run ops World.init Inv_init hok).1
  obtain ⟨hn, _, _, _, _, he1, he2⟩ := submitObjs_facts W.next cfg
  obtain ⟨i1, i2, _⟩ := alias_step (W.withParams cfg) (Inv_withParams hW cfg) _ (submit_store_ok hW jid cfg)
  obtain ⟨_, f2, f3⟩ := fresh_private W1 p hn (submit_params_outside hW jid cfg)
  exact ⟨i1, i2, he2, he1, f2, f3⟩

/-- the value of a job's inputs as `load_job` shows it -/
def inOf (o : AOut) : Val :=
  match outVal o with
  | .dict kv => (aget "in" kv).getD (.str "<no in>")
  | v => v

/-- **C13 (an evaluator that stores the job's own copy breaks the property)** — the configuration `{"x": 2}` is submitted for
job `0.0`; the run-function does `job["x"] = 20`.  (a) with one deep copy shared by the job and the storage (`submitShared`)
`load_job("0.0")["in"]` now shows `x = 20` although the last inputs stored were `x = 2` and nothing was stored since; (b) with
the two copies of `World.submit` the same edit changes nothing. -/
theorem C13_shared_submit_witness :
    let cfg : RVal := .dict 90 [("x", .atom (.int 2))]
    let W0 := (arun World.init [.newJob "0.0"]).1
    (let r := W0.submitShared "0.0" cfg
     let a := match r.2.1 with | .dict a _ => a | _ => 0
     let W3 := r.1.editAll a (.setKey "x" (.atom (.int 20)))
     Val.beq (inOf (astep W3 (.loadJob "0.0")).2) (.dict [("args", .tuple [.dict [("x", .int 20)]]), ("kwargs", .none)]) = true) ∧
    (let W2 := (W0.submit "0.0" cfg).1
     let a := match (submitObjs W0.next cfg).1 with | .dict a _ => a | _ => 0
     let W3 := W2.editAll a (.setKey "x" (.atom (.int 20)))
     Val.beq (inOf (astep W3 (.loadJob "0.0")).2) (.dict [("args", .tuple [.dict [("x", .int 2)]]), ("kwargs", .none)]) = true ∧
     Val.beq (RVal.erase ((W3.held.head?).getD (.atom .none))) (.dict [("x", .int 20)]) = true) := by
  decide +kernel

example : OkRun World.init [.newJob "0.0", .newJob "0.1", .storeMeta "0.1" "k" (.list 30 [])] := by decide +kernel

/-! ## non-vacuity -/

/-- a history with two searches, jobs in both, stores and loads: the hypotheses of the theorems above are
satisfiable, and the model answers as the real storage does -/
def demo : List Op :=
  [.createSearch, .createSearch, .createJob "0", .createJob "1", .createJob "0",
   .storeJobMetadata "0.1" "a" (.int 7), .storeJobOut "1.0" (.str "y")]

example : InScope demo := by intro op h; simp [demo] at h; rcases h with rfl | rfl | rfl | rfl | rfl | rfl | rfl <;> rfl
example : idsOf (run Store.init demo).2 = ["0", "1", "0.0", "1.0", "0.1"] := by decide +kernel
def errOf : Out → Option Err
  | .error e => some e
  | _ => none

example : isNoneOut (step (run Store.init demo).1 (.storeJob "0.1" "b" (.int 1))).2 = true := by decide +kernel
example : (abs (run Store.init demo).1).has (.mdata "0.1" "a") = true := by decide +kernel
example : (Op.storeJobOut "1.0" (.str "y")).writes (.mdata "0.1" "a") = false := by decide +kernel
/-- the checker accepts a correct observed history and rejects a repeated identifier, a lost value, a phantom job -/
example : checkHistory [(.createSearch, .id "0"), (.createJob "0", .id "0.0"), (.storeJobMetadata "0.0" "a" (.int 1), .none),
    (.loadJob "0.0", .val (.dict [("metadata", .dict [("a", .int 1)]), ("status", .int 0), ("in", .none), ("out", .none),
      ("intermediate", .dict [("budget", .list []), ("objective", .list [])])]))] = true := by decide +kernel
example : checkHistory [(.createSearch, .id "0"), (.createJob "0", .id "0.0"), (.createJob "0", .id "0.0")] = false := by
  decide +kernel
example : checkHistory [(.createSearch, .id "0"), (.createJob "0", .id "0.0"), (.storeJobOut "0.0" (.int 5), .none),
    (.loadOutFromAllJobs "0", .vals [])] = false := by decide +kernel
example : checkHistory [(.createSearch, .id "0"), (.loadJob "0.0", .val (.dict []))] = false := by decide +kernel

/-- malformed / unknown identifiers and keys are answered with the exception classes of the real code -/
example : ((run Store.init (demo ++ [.loadJob "0.0.0", .loadJob "0.7", .loadSearchValue "0" "zz",
      .storeJob "0.0" "metadata" (.int 3), .storeJobMetadata "0.0" "a" .none,
      .loadMetadataFromAllJobs "0" "a"])).2.drop 7).map errOf =
    [some .valueError, some .keyError, some .keyError, none, some .typeError, some .attributeError] := by
  decide +kernel

end DH.Storage
