import Proofs.Queued
import Proofs.QueuedLog

/-!
# C17 — Queued evaluators never share a resource between concurrent jobs

Property theorems only.  Model: `Model/Queued.lean` (the code after the two `_queued.py` fixes);
helper lemmas: `Proofs/Queued.lean`.

`Reach q0 pop workers s`: `s` is reachable from a queue `q0` of resources by **any** number of
`submit n` calls (waves) interleaved with **any** admissible order of the per-job transitions
`take / start / endRun / release` and cancellations `cancel` (what `Evaluator.close()` does to every
task that is not done) — i.e. every schedule of the event loop, every completion order, closes at any
moment and reuse of the evaluator afterwards;
no bound on the number of jobs, waves, resources or steps.  Hypotheses: the resources of `q0` are
pairwise distinct (`q0.Nodup`), and for progress `pop ≤ |q0|` and `workers ≥ 1`.
-/

namespace DH.Queued

variable {R : Type} {q0 : List R} {pop workers : Nat}

/-- **C17 (exclusive).**  At every reachable state two different jobs hold disjoint sets of
resources; in particular two evaluations that are running at the same time *received* disjoint
`dequed` arguments. -/
theorem C17_exclusive {s : QState R} (h : Reach q0 pop workers s) (hq : q0.Nodup) (i j : Nat)
    (hij : i ≠ j) (xi xj : QJob R) (hi : s.jobs[i]? = some xi) (hj : s.jobs[j]? = some xj) :
    (∀ r, r ∈ held xi.phase → r ∉ held xj.phase) ∧
    (∀ dsi ri dsj rj, xi.phase = .running dsi (some ri) → xj.phase = .running dsj (some rj) →
      ∀ r, r ∈ ri → r ∉ rj) := by
  have hnd := heldAll_nodup h hq
  have hdis : ∀ r, r ∈ held xi.phase → r ∉ held xj.phase := by
    intro r hr hr'
    rcases Nat.lt_or_gt_of_ne hij with hlt | hlt
    · exact disjoint_of_nodup_flatMap (fun q : QJob R => held q.phase) s.jobs hnd i j xi xj hlt hi hj r hr hr'
    · exact disjoint_of_nodup_flatMap (fun q : QJob R => held q.phase) s.jobs hnd j i xj xi hlt hj hi r hr' hr
  refine ⟨hdis, ?_⟩
  intro dsi ri dsj rj hpi hpj r hr hr'
  have hoi := (reach_inv h).ph xi (List.mem_of_getElem? hi)
  have hoj := (reach_inv h).ph xj (List.mem_of_getElem? hj)
  simp only [PhaseOk, hpi, Option.some.injEq] at hoi
  simp only [PhaseOk, hpj, Option.some.injEq] at hoj
  apply hdis r
  · rw [hpi]; simp only [held]; rw [← hoi.2]; exact hr
  · rw [hpj]; simp only [held]; rw [← hoj.2]; exact hr'

/-- **C17 (count, metadata).**  An evaluation receives exactly the `queue_pop_per_task` resources
its own job popped (the keyword argument is present), and the `dequed` metadata reported for a
finished job names exactly the resources its run-function received. -/
theorem C17_count {s : QState R} (h : Reach q0 pop workers s) (j : Nat) (x : QJob R)
    (hx : s.jobs[j]? = some x) :
    (∀ ds recv, x.phase = .running ds recv → recv = some ds ∧ ds.length = pop) ∧
    (∀ ds recv, x.phase = .returning ds recv → recv = some ds ∧ ds.length = pop) ∧
    (∀ recv md, x.phase = .finished recv md → recv = some md ∧ md.length = pop) := by
  have ho := (reach_inv h).ph x (List.mem_of_getElem? hx)
  refine ⟨?_, ?_, ?_⟩ <;> intro a b hp <;> simp only [PhaseOk, hp] at ho <;> exact ⟨ho.2, ho.1⟩

/-- **C17 (returned).**  When an evaluation ends, its resources — all of them, nothing else — are
appended to the queue and the job holds nothing any more; and once every job has finished the queue
holds exactly the initial resources again. -/
theorem C17_returned {s : QState R} (h : Reach q0 pop workers s) :
    (∀ j s', step s (.release j) = some s' →
      ∃ x ds recv, s.jobs[j]? = some x ∧ x.phase = .returning ds recv ∧ recv = some ds ∧
        s'.queue = s.queue ++ ds ∧
        s'.jobs[j]? = some { x with phase := .finished recv ds }) ∧
    ((∀ x ∈ s.jobs, isEnded x.phase = true) → s.queue.Perm q0) := by
  constructor
  · intro j s' hs
    cases step_spec hs with
    | release _ x ds recv hx hp =>
      have ho := (reach_inv h).ph x (List.mem_of_getElem? hx)
      simp only [PhaseOk, hp] at ho
      refine ⟨x, ds, recv, hx, hp, ho.2, rfl, ?_⟩
      have hlt : j < s.jobs.length := (List.getElem?_eq_some_iff.1 hx).1
      simp [setJob, hlt]
  · intro hall
    have hcons := (reach_inv h).cons
    have : heldAll s = [] := by
      simp only [heldAll, List.flatMap_eq_nil_iff]
      intro x hx
      have := hall x hx
      cases hp : x.phase <;> simp [hp, isEnded] at this ⊢ <;> rfl
    rw [this, List.append_nil] at hcons
    exact hcons

/-- **C17 (no deadlock).**  While some job has not finished, some transition of some job is
enabled — whatever was submitted, in whatever waves, whatever has completed so far. -/
theorem C17_no_deadlock {s : QState R} (h : Reach q0 pop workers s) (hpop : pop ≤ q0.length)
    (hw : 0 < workers) (hex : ∃ x ∈ s.jobs, isEnded x.phase = false) :
    ∃ t s', (∀ n, t ≠ .submit n) ∧ (∀ j, t ≠ .cancel j) ∧ step s t = some s' := by
  have hi := reach_inv h
  by_cases h1 : ∃ (j : Nat) (x : QJob R) (ds : List R) (recv : Option (List R)),
      s.jobs[j]? = some x ∧ x.phase = Phase.returning ds recv
  · obtain ⟨j, x, ds, recv, hx, hp⟩ := h1
    exact ⟨.release j, _, by simp, by simp, by simp only [step, hx, hp]; rfl⟩
  by_cases h2 : ∃ (j : Nat) (x : QJob R) (ds : List R) (recv : Option (List R)),
      s.jobs[j]? = some x ∧ x.phase = Phase.running ds recv
  · obtain ⟨j, x, ds, recv, hx, hp⟩ := h2
    exact ⟨.endRun j, _, by simp, by simp, by simp only [step, hx, hp]; rfl⟩
  have hnorun : ∀ y ∈ s.jobs, isRunning y.phase = false := by
    intro y hy
    obtain ⟨j, hj⟩ := exists_index hy
    cases hp : y.phase with
    | running ds recv => exact absurd ⟨j, y, ds, recv, hj, hp⟩ h2
    | _ => rfl
  by_cases h3 : ∃ (j : Nat) (x : QJob R) (ds : List R), s.jobs[j]? = some x ∧ x.phase = Phase.holding ds
  · obtain ⟨j, x, ds, hx, hp⟩ := h3
    have hz : runningOn s x.sem = 0 := by
      simp only [runningOn, List.length_eq_zero_iff, List.filter_eq_nil_iff, Bool.and_eq_true, not_and,
        Bool.not_eq_true]
      intro y hy _
      exact hnorun y hy
    have hlt : runningOn s x.sem < s.workers := by rw [hz, hi.hw]; exact hw
    exact ⟨.start j, _, by simp, by simp, by simp only [step, hx, hp, hlt, if_true]; rfl⟩
  -- nothing is held: the queue is full again, a created job can take its resources
  obtain ⟨x, hxm, hxf⟩ := hex
  obtain ⟨j, hx⟩ := exists_index hxm
  have hcreated : x.phase = .created := by
    cases hp : x.phase with
    | created => rfl
    | holding ds => exact absurd ⟨j, x, ds, hx, hp⟩ h3
    | running ds recv => exact absurd ⟨j, x, ds, recv, hx, hp⟩ h2
    | returning ds recv => exact absurd ⟨j, x, ds, recv, hx, hp⟩ h1
    | finished recv md => simp [hp, isEnded] at hxf
    | cancelled => simp [hp, isEnded] at hxf
  have hheld : heldAll s = [] := by
    simp only [heldAll, List.flatMap_eq_nil_iff]
    intro y hy
    obtain ⟨k, hk⟩ := exists_index hy
    cases hp : y.phase with
    | created => rfl
    | finished recv md => rfl
    | cancelled => rfl
    | holding ds => exact absurd ⟨k, y, ds, hk, hp⟩ h3
    | running ds recv => exact absurd ⟨k, y, ds, recv, hk, hp⟩ h2
    | returning ds recv => exact absurd ⟨k, y, ds, recv, hk, hp⟩ h1
  have hlen : s.queue.length = q0.length := by
    have := hi.cons.length_eq
    simpa [hheld] using this
  have hle : s.pop ≤ s.queue.length := by rw [hi.hpop, hlen]; exact hpop
  exact ⟨.take j, _, by simp, by simp, by simp only [step, hx, hcreated, hle, if_true]; rfl⟩

/-- **C17 (progress).**  From every reachable state, with no further submission: (1) every run of
`k` transitions (cancellations included) lowers the progress measure by at least `k`, so no job can
be postponed for ever — at most `measure s` transitions remain; (2) a run can only stop when every
job has ended, and then all resources are back in the queue; (3) a run of ordinary transitions (no
cancellation) that completes every job exists.  Hence any number of submitted jobs eventually runs,
in any completion order. -/
theorem C17_progress {s : QState R} (h : Reach q0 pop workers s) (hpop : pop ≤ q0.length)
    (hw : 0 < workers) :
    (∀ ts s', (∀ t ∈ ts, ∀ n, t ≠ QStep.submit n) → steps s ts = some s' →
      ts.length + measure s' ≤ measure s) ∧
    (∀ ts s', steps s ts = some s' →
      (∀ t s'', (∀ n, t ≠ QStep.submit n) → (∀ j, t ≠ QStep.cancel j) → step s' t ≠ some s'') →
      (∀ x ∈ s'.jobs, isEnded x.phase = true) ∧ s'.queue.Perm q0) ∧
    (∃ ts s', (∀ t ∈ ts, (∀ n, t ≠ QStep.submit n) ∧ (∀ j, t ≠ QStep.cancel j)) ∧
      steps s ts = some s' ∧ (∀ x ∈ s'.jobs, isEnded x.phase = true) ∧ s'.queue.Perm q0) := by
  refine ⟨?_, ?_, ?_⟩
  · intro ts
    induction ts generalizing s with
    | nil => intro s' _ hs; simp only [steps, Option.some.injEq] at hs; subst hs; simp
    | cons t ts ih =>
      intro s' hns hs
      simp only [steps] at hs
      cases ht : step s t with
      | none => simp [ht] at hs
      | some s1 =>
        simp only [ht] at hs
        have h1 := ih (.step t h ht) s' (fun t' ht' => hns t' (by simp [ht'])) hs
        have h2 := measure_step_le ht (hns t (by simp))
        simp only [List.length_cons]; omega
  · intro ts s' hs hstuck
    have hr := reach_steps h ts hs
    have hfin : ∀ x ∈ s'.jobs, isEnded x.phase = true := by
      intro x hx
      cases hf : isEnded x.phase with
      | true => rfl
      | false =>
        obtain ⟨t, s'', hns, hnc, hst⟩ := C17_no_deadlock hr hpop hw ⟨x, hx, hf⟩
        exact absurd hst (hstuck t s'' hns hnc)
    exact ⟨hfin, (C17_returned hr).2 hfin⟩
  · -- induction on the measure
    generalize hm : measure s = m
    induction m generalizing s with
    | zero =>
      have hfin : ∀ x ∈ s.jobs, isEnded x.phase = true := by
        intro x hx
        cases hf : isEnded x.phase with
        | true => rfl
        | false =>
          obtain ⟨t, s1, hns, hnc, hst⟩ := C17_no_deadlock h hpop hw ⟨x, hx, hf⟩
          have := measure_step hst hns hnc
          omega
      exact ⟨[], s, by simp, rfl, hfin, (C17_returned h).2 hfin⟩
    | succ m ih =>
      by_cases hall : ∀ x ∈ s.jobs, isEnded x.phase = true
      · exact ⟨[], s, by simp, rfl, hall, (C17_returned h).2 hall⟩
      · have hex : ∃ x ∈ s.jobs, isEnded x.phase = false := by
          apply Classical.byContradiction
          intro hne
          apply hall
          intro x hx
          cases hf : isEnded x.phase with
          | true => rfl
          | false => exact absurd ⟨x, hx, hf⟩ hne
        obtain ⟨t, s1, hns, hnc, hst⟩ := C17_no_deadlock h hpop hw hex
        have hm1 : measure s1 = m := by
          have := measure_step hst hns hnc; omega
        obtain ⟨ts, s', hns', hs', hfin, hq⟩ := ih (.step t h hst) hm1
        refine ⟨t :: ts, s', ?_, by simp only [steps, hst]; exact hs', hfin, hq⟩
        intro t' ht'
        rcases List.mem_cons.1 ht' with rfl | ht'
        · exact ⟨hns, hnc⟩
        · exact hns' t' ht'

/-! ### close() -/

/-- **C17 (close).**  `Evaluator.close()` — every task cancelled, in whatever order the event loop
lets the cancelled tasks run — at any reachable state, jobs being in any mix of phases (waiting for
resources, holding resources and waiting for a worker, running, returning): afterwards every job has
ended, the queue holds exactly the initial resources again, jobs that had finished are untouched, and
the state is reachable — so `C17_exclusive`, `C17_count`, `C17_returned`, `C17_no_deadlock` and
`C17_progress` hold for everything that follows (further submits, further closes). -/
theorem C17_close {s : QState R} (h : Reach q0 pop workers s) (order : List Nat)
    (hall : ∀ j, j < s.jobs.length → j ∈ order) :
    Reach q0 pop workers (cancelAll s order) ∧
    (∀ x ∈ (cancelAll s order).jobs, isEnded x.phase = true) ∧
    (cancelAll s order).queue.Perm q0 ∧
    (∀ (j : Nat) (x : QJob R), s.jobs[j]? = some x → isEnded x.phase = true →
      (cancelAll s order).jobs[j]? = some x) ∧
    (∀ ts s', steps (cancelAll s order) ts = some s' → Reach q0 pop workers s') := by
  have hr := reach_cancelAll h order
  obtain ⟨hlen, hend, hkeep⟩ := cancelAll_spec order s
  have hfin : ∀ x ∈ (cancelAll s order).jobs, isEnded x.phase = true := by
    intro x hx
    obtain ⟨j, hj⟩ := exists_index hx
    have hjl : j < s.jobs.length := hlen ▸ (List.getElem?_eq_some_iff.1 hj).1
    obtain ⟨y, hy, hye⟩ := hend j hjl (Or.inl (hall j hjl))
    rw [hj] at hy; cases hy; exact hye
  refine ⟨hr, hfin, (C17_returned hr).2 hfin, ?_, fun ts s' hs => reach_steps hr ts hs⟩
  intro j x hx he
  rw [hkeep j ⟨x, hx, he⟩]; exact hx

/-- **C17 (verified checker).**  The executable checker that the driver runs on the log of the
REAL queued evaluator (`submit` calls, the run-function's `(start, job, dequed)` / `(end, job)` lines,
the queue when `close()` returns, and at the end the `dequed` metadata, the returned jobs, the final
queue, whether a call raised) decides exactly the property stated over logs (`LogSpec`: evaluations
running at the same time received disjoint resources, each exactly `queue_pop_per_task`, metadata
names what was received, every resource back after `close()` and at the end, no exception, every
submitted job returned or ended by a close). -/
theorem C17_checker [DecidableEq R] (lg : Log R) : checkLog lg = true ↔ LogSpec lg :=
  checkLog_iff lg

/-- **C17 (the model's logs satisfy the log property).**  For every script of the model — any
waves, any admissible interleaving of the jobs' transitions, `close()` at any moment with the
cancelled tasks running in any order, reuse afterwards — that ends with every job ended, the log an
observer would read satisfies `LogSpec`. -/
theorem C17_model_logs_ok (hq : q0.Nodup) (acts : List QAct) {s : QState R} {evs : List (LEv R)}
    (hs : runScript (init q0 pop workers) acts = some (s, evs))
    (hall : ∀ x ∈ s.jobs, isEnded x.phase = true) : LogSpec (logOf q0 pop s evs) :=
  model_log_ok hq acts hs hall

/-! ## Non-vacuity: a concrete reachable state (queue of 3, two resources per job, one worker;
job 0 ran with `[10, 11]` and returned them, job 1 runs with `[12, 10]`, the second wave's job 2 waits) -/

def exSteps : List QStep :=
  [.submit 2, .take 0, .start 0, .submit 1, .endRun 0, .release 0, .take 1, .start 1]

theorem exReach : ∀ (ts : List QStep) (s s' : QState Nat), Reach [10, 11, 12] 2 1 s →
    steps s ts = some s' → Reach [10, 11, 12] 2 1 s' := fun ts _ _ h hs => reach_steps h ts hs

example : (steps (init [10, 11, 12] 2 1) exSteps).map (fun s => (s.queue, s.jobs.map (·.phase))) =
    some ([11], [.finished (some [10, 11]) [10, 11], .running [12, 10] (some [12, 10]), .created]) := by
  decide +kernel
example : ∃ s, Reach [10, 11, 12] 2 1 s ∧ s.jobs.length = 3 ∧ measure s = 6 :=
  match hs : steps (init [10, 11, 12] 2 1) exSteps with
  | some s => ⟨s, exReach exSteps _ _ .init hs, by
      have : (steps (init [10, 11, 12] 2 1) exSteps).map (fun s => (s.jobs.length, measure s)) = some (3, 6) := by
        decide +kernel
      rw [hs] at this; simp at this; exact this.1, by
      have : (steps (init [10, 11, 12] 2 1) exSteps).map (fun s => (s.jobs.length, measure s)) = some (3, 6) := by
        decide +kernel
      rw [hs] at this; simp at this; exact this.2⟩
  | none => by
      have : (steps (init [10, 11, 12] 2 1) exSteps).isSome = true := by decide +kernel
      rw [hs] at this; simp at this
/-- a third job cannot take resources while only one is free (it waits — the pinned tree raised) -/
example : (steps (init [10, 11, 12] 2 1) [.submit 2, .take 0, .take 1]) = none := by decide +kernel

/-- close while job 0 has finished, job 1 is running with `[12, 10]` and job 2 waits for resources:
everything is back, then the evaluator is reused (a new wave takes `[11, 12]`) -/
example : ((steps (init [10, 11, 12] 2 1) exSteps).map (fun s => cancelAll s [0, 1, 2])).map
      (fun s => (s.queue, s.jobs.map (·.phase))) =
    some ([11, 12, 10], [.finished (some [10, 11]) [10, 11], .cancelled, .cancelled]) := by decide +kernel
example : (((steps (init [10, 11, 12] 2 1) exSteps).map (fun s => cancelAll s [2, 1, 0])).bind
      (fun s => steps s [.submit 1, .take 3, .start 3])).map (fun s => (s.queue, s.jobs.map (·.phase))) =
    some ([10], [.finished (some [10, 11]) [10, 11], .cancelled, .cancelled, .running [11, 12] (some [11, 12])]) := by
  decide +kernel

/-- a complete script with a close in the middle and reuse: its log passes the checker -/
def exScript : List QAct :=
  [.step (.submit 3), .step (.take 0), .step (.start 0), .step (.take 1), .close [2, 1, 0],
   .step (.submit 1), .step (.take 3), .step (.start 3), .step (.endRun 3), .step (.release 3)]

example : ((runScript (init [10, 11] 1 1) exScript).map (fun r => checkLog (logOf [10, 11] 1 r.1 r.2))) =
    some true := by decide +kernel
/-- the checker rejects the pinned tree's 12a log (two evaluations running with resource 3) … -/
example : checkLog (R := Nat)
    { q0 := [0, 1, 2, 3], pop := 1,
      events := [.submit 4, .start 0 (some [0]), .start 1 (some [1]), .endRun 0, .start 2 (some [3]),
                 .endRun 1, .start 3 (some [3]), .endRun 2, .endRun 3],
      metas := [some [0], some [1], some [2], some [3]], returned := [0, 1, 2, 3],
      finalQueue := [0, 1, 2, 3], error := false } = false := by decide +kernel
/-- … and a log in which close() left the queue short of a resource -/
example : checkLog (R := Nat)
    { q0 := [10], pop := 1, events := [.submit 2, .start 0 (some [10]), .closed []],
      metas := [none, none], returned := [], finalQueue := [], error := false } = false := by
  decide +kernel

/-! ## Regression witnesses: the pinned tree's model (`stepPre`) violates the property
(DESIGN section 6 items 12a, 12b; replayed on the real code from `corpus/C17`) -/

/-- 12a: 4 jobs, 2 workers, queue `[0,1,2,3]`: jobs 2 and 3 both run with resource 3 -/
example : (match stepsPre { st := init [0, 1, 2, 3] 1 2, slot := none }
      [.submit 4, .take 0, .start 0, .take 1, .start 1, .take 2, .take 3, .endRun 0, .start 2,
       .endRun 1, .start 3] with
    | .ok s => s.st.jobs.map (·.phase)
    | _ => []) =
    [.returning [0] (some [0]), .returning [1] (some [1]), .running [2] (some [3]), .running [3] (some [3])] := by
  decide +kernel
/-- the repaired model on the same schedule: each job runs with its own resource -/
example : (steps (init [0, 1, 2, 3] 1 2)
      [.submit 4, .take 0, .start 0, .take 1, .start 1, .take 2, .take 3, .endRun 0, .start 2,
       .endRun 1, .start 3]).map (fun s => s.jobs.map (·.phase)) =
    some [.returning [0] (some [0]), .returning [1] (some [1]), .running [2] (some [2]), .running [3] (some [3])] := by
  decide +kernel
/-- 12b: more jobs than resources: `IndexError: pop from an empty deque` -/
example : stepsPre { st := init [0, 1] 1 1, slot := none } [.submit 4, .take 0, .take 1, .take 2] =
    .indexError := by decide +kernel

end DH.Queued
